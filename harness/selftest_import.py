"""Negative / positive self-test of the import-pipeline translator and its tie theorems.

For every entry below: copy /repo/src to a scratch directory under /tmp, apply one textual change,
run harness/translate_import.py with the repo root pointing at the copy and a scratch output, and
compile the scratch Gen/ImportPipeline_gen.v and a copy of Proofs/ImportTie.v against it (all other
.vo files are symlinked from /verif/coq).  A semantic change must be REJECTED (the translator raises
Unsupported, or a tie theorem no longer compiles); a change that does not alter behaviour (comments,
docstrings, renaming of locals) must keep everything compiling with every `Print Assumptions` closed.
Entries marked "convention" change something the data representation cannot see (documented in the
idiom table); they are expected to be accepted and are listed so that this is explicit.
Nothing under /verif or /repo is written; the scratch directory is removed.

usage: /venv/bin/python harness/selftest_import.py [case-id ...]      (exit 0 iff every entry behaves as expected)
"""
from __future__ import annotations

import os
import shutil
import subprocess
import sys
import tempfile

HERE = os.path.dirname(os.path.abspath(__file__))
ROOT = os.path.dirname(HERE)
sys.path.insert(0, HERE)
import translate_import as T  # noqa: E402

TB, CSV, VAL, GEFF = T.REL_TB, T.REL_CSV, T.REL_VAL, T.REL_GEFF

UNIQUE_CHECK = ('        # Validate that the id column contains unique values\n'
                '        if "id" in df.columns and not df["id"].is_unique:\n'
                '            raise ValueError("The \'id\' column must contain unique values")\n\n')
RENAME_START = '        # Build a new DataFrame with standard key names, copying data for each mapping.\n'
UNKNOWN_RAISE = ('        if unknown.any():\n'
                 '            raise ValueError(\n'
                 '                f"parent_id values {sorted(set(parents[unknown]), key=str)} are not in the "\n'
                 '                "\'id\' column"\n'
                 '            )\n')

# (id, file, [(old, new), ...], expected "keep" | "reject")
CASES = [
    ("base", None, [], "keep"),
    # ---- behaviour-preserving rewrites
    ("K-comment-csv", CSV, [("        # Extract edge IDs from parent_id column\n", "        # derive the links from the parent column\n")], "keep"),
    ("K-docstring", TB, [("Combine multi-value feature columns into single properties.", "Stack list-mapped columns.")], "keep"),
    ("K-rename-local-csv", CSV, [("new_df_data", "renamed")], "keep"),
    ("K-rename-local-ensure", CSV, [("unknown", "dangling")], "keep"),
    ("K-rename-local-hs", TB, [("sample_node", "first_node")], "keep"),
    ("K-rename-loopvar-combine", TB, [("missing_arrays", "miss")], "keep"),
    ("K-rename-local-validate", VAL, [("tracklet_ids = node_props[\"track_id\"][\"values\"]\n        valid, errors = validate_tracklets(node_ids, edge_ids, tracklet_ids)",
                                        "tids = node_props[\"track_id\"][\"values\"]\n        valid, errors = validate_tracklets(node_ids, edge_ids, tids)")], "keep"),
    ("K-message", CSV, [("The 'id' column must contain unique values", "duplicate ids")], "keep"),
    # ---- the five required semantic changes
    ("R1-root-test-gt0", CSV, [("if not pd.isna(parent_id) and parent_id != -1", "if not pd.isna(parent_id) and parent_id > 0")], "reject"),
    ("R2-unique-before-rename", CSV, [(UNIQUE_CHECK, ""), (RENAME_START, UNIQUE_CHECK + RENAME_START)], "reject"),
    ("R3-unknown-parent-dropped", CSV, [(UNKNOWN_RAISE, "")], "reject"),
    ("R4-shortcut-only-node-frames", TB, [("for t in range(computed.shape[0])", "for t in np.unique(time_values)")], "reject"),
    ("R5-dup-ids-only-with-edges", VAL, [("    valid, nonunique_nodes = validate_unique_node_ids(node_ids)\n    if not valid:",
                                          "    valid, nonunique_nodes = validate_unique_node_ids(node_ids)\n    if len(edge_ids) > 0 and not valid:")], "reject"),
    ("R5b-dup-ids-check-removed", VAL, [("    if not valid:\n        raise ValueError(f\"Some node ids are not unique:\\n{nonunique_nodes}\")\n", "")], "reject"),
    # ---- handle_segmentation
    ("H-no-array-equal", TB, [("if np.array_equal(seg_ids, node_ids) and all(", "if all(")], "reject"),
    ("H-shortcut-whole-array", TB, [("np.unique(computed[t]), np.append(np.asarray(node_ids)[time_values == t], 0)",
                                     "np.unique(computed[t]), np.append(np.asarray(node_ids), 0)")], "reject"),
    ("H-background-not-allowed", TB, [("np.append(np.asarray(node_ids)[time_values == t], 0)", "np.asarray(node_ids)[time_values == t]")], "reject"),
    ("H-seg-id-test-inverted", TB, [('if "seg_id" not in node_props:', 'if "seg_id" in node_props:')], "reject"),
    ("H-relabel-swapped-columns", TB, [("seg_array, graph, node_ids, seg_ids, time_values\n", "seg_array, graph, seg_ids, node_ids, time_values\n")], "reject"),
    ("H-no-dimension-check", TB, [("        if seg_array.ndim != self.ndim:\n            raise ValueError(\n                f\"Segmentation has {seg_array.ndim} dimensions but graph has \"\n                f\"{self.ndim} dimensions\"\n            )\n", "")], "reject"),
    ("H-always-relabel", TB, [("            # No relabeling needed\n            return computed, scale\n", "            pass\n")], "reject"),
    # ---- _ensure_integer_ids
    ("E-enumerate-from-0", CSV, [("enumerate(unique_ids, start=1)", "enumerate(unique_ids, start=0)")], "reject"),
    ("E-parent-not-mapped", CSV, [("        df[\"parent_id\"] = parents.map(id_mapping).astype(pd.Int64Dtype())\n", "")], "reject"),
    ("E-separate-mapping-for-parents", CSV, [("unique_ids = df[\"id\"].unique()", "unique_ids = df[\"parent_id\"].unique()")], "reject"),
    ("E-empty-string-unknown", CSV, [('~parents.isin(["", -1])', "~parents.isin([-1])")], "reject"),
    ("E-always-renumber", CSV, [('    if not pd.api.types.is_integer_dtype(df["id"]):', '    if pd.api.types.is_integer_dtype(df["id"]):')], "reject"),
    # ---- load_source
    ("L-edge-direction", CSV, [("(int(parent_id), int(child_id))", "(int(child_id), int(parent_id))")], "reject"),
    ("L-first-mapping-loses", CSV, [("if source_col in df.columns and target_key not in new_df_data:", "if source_col in df.columns:")], "reject"),
    ("L-ensure-before-rename", CSV, [("        if \"id\" in df.columns and \"parent_id\" in df.columns:\n            df = _ensure_integer_ids(df)\n\n", ""),
                                     (RENAME_START, "        if \"id\" in df.columns and \"parent_id\" in df.columns:\n            df = _ensure_integer_ids(df)\n" + RENAME_START)], "reject"),
    ("L-ndim-fallback", CSV, [('self.ndim = 4 if "z" in df.columns else 3', 'self.ndim = 3')], "reject"),
    ("L-keep-id-as-attribute", CSV, [('node_ids = np.array(df_dict.pop("id"))', 'node_ids = np.array(df_dict["id"])')], "reject"),
    ("L-isna-only", CSV, [("if not pd.isna(parent_id) and parent_id != -1", "if not pd.isna(parent_id)")], "reject"),
    # ---- flatten_name_map / _combine_multi_value_props
    ("F-multi-renamed", TB, [("result.append((col, col))", "result.append((std_key, col))")], "reject"),
    ("F-single-kept", TB, [("result.append((std_key, source))", "result.append((source, source))")], "reject"),
    ("C-missing-and", TB, [("combined_missing |= m", "combined_missing &= m")], "reject"),
    ("C-keep-source-columns", TB, [("            for c in source_cols:\n                if c in props and c != std_key:\n                    del props[c]\n", "")], "reject"),
    ("C-delete-own-key", TB, [("if c in props and c != std_key:", "if c in props:")], "reject"),
    ("C-partial-combination", TB, [("            if missing_cols:\n                continue  # Skip if any columns are missing\n", "")], "reject"),
    ("C-missing-never-combined", TB, [("if any(m is not None for m in missing_arrays):", "if all(m is not None for m in missing_arrays):")], "reject"),
    # ---- validate_in_memory_geff / construct_graph
    ("V-no-self-edge-check", VAL, [("    if not valid:\n        raise ValueError(f\"Self edges found in data:\\n{invalid_edges}\")\n", "")], "reject"),
    ("V-invalid-track-id-kept", VAL, [("            del node_props[\"track_id\"]\n", "            pass\n")], "reject"),
    ("V-lineage-deletes-track", VAL, [("            del node_props[\"lineage_id\"]\n", "            del node_props[\"track_id\"]\n")], "reject"),
    ("V-tracklets-on-lineage-column", VAL, [("tracklet_ids = node_props[\"track_id\"][\"values\"]", "tracklet_ids = node_props[\"lineage_id\"][\"values\"]")], "reject"),
    ("G-construct-without-props", TB, [("return geff.construct(**self.in_memory_geff)", "return geff.construct(self.in_memory_geff)")], "reject"),
    # ---- build / validate / name-map validation
    ("K-rename-local-build", TB, [("segmentation_array", "seg_out")], "keep"),
    ("K-rename-local-preprocess", TB, [("pos_components", "comps")], "keep"),
    ("K-comment-geff", GEFF, [("    # Rename node properties: copy from source keys to target keys\n", "    # copy every mapped property under its standard key\n")], "keep"),
    ("B-combine-after-validate", TB, [("        # 3. Validate InMemoryGeff (includes spatial_dims array shape validation)\n        self.validate()\n", ""),
                                      ("        # 2. Combine multi-value feature columns\n", "        self.validate()\n        # 2. Combine multi-value feature columns\n")], "reject"),
    ("B-ndim-without-time", TB, [("                    self.ndim = len(pos_mapping) + 1  # +1 for time\n\n            # Regenerate", "                    self.ndim = len(pos_mapping)\n\n            # Regenerate")], "reject"),
    ("B-no-name-map-validation", TB, [("        self.validate_name_map(has_segmentation=segmentation is not None)\n", "")], "reject"),
    ("N-empty-map-check-redundant", TB, [("        if not self.node_name_map:\n            raise ValueError(\n                \"self.node_name_map must be set before calling build(). \"\n                \"Call prepare() to auto-infer or set manually.\"\n            )\n", "")], "keep"),   # an empty map fails the required-keys validation with the same ValueError: equivalent up to the message (the tie proves it)
    ("W-validate-skips-spatial", TB, [("        validate_spatial_dims(\n            self.in_memory_geff,\n            self.available_computed_features,\n            ndim=self.ndim,\n        )\n", "")], "reject"),
    ("P-coord-order", TB, [('coord_keys = ["z", "y", "x"]', 'coord_keys = ["x", "y", "z"]')], "reject"),
    ("P-one-coordinate-enough", TB, [("if len(pos_components) >= 2:", "if len(pos_components) >= 1:")], "reject"),
    ("P-empty-lists-kept", TB, [("k for k, v in self.node_name_map.items() if v is None or v == []", "k for k, v in self.node_name_map.items() if v is None")], "reject"),
    ("P-legacy-key-kept", TB, [("                    del self.node_name_map[coord]\n", "")], "reject"),
    ("N-pos-one-column-ok", VAL, [("if isinstance(pos_mapping, list) and len(pos_mapping) < 2:", "if isinstance(pos_mapping, list) and len(pos_mapping) < 1:")], "reject"),
    ("N-list-sources-unchecked", VAL, [("                for prop in source_prop:\n                    if prop not in importable_node_props:\n                        invalid_mappings.append(f\"{std_key} -> '{prop}'\")\n", "                pass\n")], "reject"),
    ("N-pos-optional", VAL, [("    elif not has_segmentation:\n", "    elif has_segmentation:\n")], "reject"),
    ("S-expect-ndim", VAL, [("    node_props = in_memory_geff[\"node_props\"]\n    expect_spatial_dims = ndim - 1  # ndim includes time", "    node_props = in_memory_geff[\"node_props\"]\n    expect_spatial_dims = ndim")], "reject"),
    ("S-1d-arrays-unchecked", VAL, [("actual_dims = values.shape[1] if values.ndim == 2 else 1", "actual_dims = values.shape[1] if values.ndim == 2 else expect_spatial_dims")], "reject"),
    # ---- GEFF path
    ("G-first-mapping-loses", GEFF, [("        if source_key in node_props and target_key not in renamed_node_props:\n            prop_data = node_props[source_key]\n            renamed_node_props[target_key]",
                                      "        if source_key in node_props:\n            prop_data = node_props[source_key]\n            renamed_node_props[target_key]")], "reject"),
    ("G-missing-dropped", GEFF, [("            renamed_node_props[target_key] = {\n                \"values\": prop_data[\"values\"].copy(),\n                \"missing\": prop_data.get(\"missing\"),",
                                  "            renamed_node_props[target_key] = {\n                \"values\": prop_data[\"values\"].copy(),\n                \"missing\": None,")], "reject"),
    ("G-ndims-1d-pos", GEFF, [("ndims = pos_array.shape[1] + 1 if pos_array.ndim == 2 else 2", "ndims = pos_array.shape[1] + 1 if pos_array.ndim == 2 else 1")], "reject"),
    ("G-ndim-overwritten", GEFF, [("        if self.ndim is None:\n            self.ndim = ndim\n", "        self.ndim = ndim\n")], "reject"),
    ("G-props-not-renamed", GEFF, [("    in_memory_geff[\"node_props\"] = renamed_node_props\n", "")], "reject"),
    # ---- module level
    ("M-shadowed-numpy", CSV, [("import numpy as np\n", "import cupy as np\n")], "reject"),
    ("M-rebound-validator", VAL, [("# Constants from import_from_geff\n", "validate_unique_node_ids = lambda ids: (True, [])\n")], "reject"),
    # ---- invisible to the representation (documented conventions): accepted
    ("N-nan-to-none-removed", CSV, [("        df = df.map(lambda x: None if pd.isna(x) else x)\n", "")], "keep"),
]

SKIP_VO = {"Gen/ImportPipeline_gen", "Proofs/ImportTie"}
N_PRINTS = None


def coqc(cwd, f):
    p = subprocess.run(["timeout", "900", "coqc", "-Q", ".", "FT", f], cwd=cwd, capture_output=True, text=True)
    return p.returncode, (p.stdout + p.stderr)


def first_error(out):
    ls = [l for l in out.splitlines() if l.strip() and "conda" not in l]
    for i, l in enumerate(ls):
        if l.startswith("File "):
            return " | ".join(ls[i:i + 3])[:260]
    return " | ".join(ls[:3])[:260]


def make_coq_dir(cq):
    for d in ("Base", "Model", "Gen", "Proofs"):
        os.makedirs(os.path.join(cq, d))
        src = os.path.join(ROOT, "coq", d)
        for f in os.listdir(src):
            if f.endswith(".vo") and (d + "/" + f[:-3]) not in SKIP_VO:
                os.symlink(os.path.join(src, f), os.path.join(cq, d, f))
    shutil.copy(os.path.join(ROOT, "coq", "Proofs", "ImportTie.v"), os.path.join(cq, "Proofs", "ImportTie.v"))


def run_case(scratch, base, cid, rel, edits):
    mut = os.path.join(scratch, "repo_" + cid)
    shutil.copytree(base, os.path.join(mut, "src"))
    if rel is not None:
        p = os.path.join(mut, rel)
        s = open(p).read()
        for old, new in edits:
            if old not in s:
                return "error", "pattern not found in %s: %r" % (rel, old[:60])
            s = s.replace(old, new)
        open(p, "w").write(s)
    cq = os.path.join(scratch, "coq_" + cid)
    make_coq_dir(cq)
    ok, msg = T.regenerate(out=os.path.join(cq, "Gen", "ImportPipeline_gen.v"), repo=mut)
    notes = []
    if not ok:
        notes.append("translator: Unsupported: " + msg[:240])
    for f in ("Gen/ImportPipeline_gen.v", "Proofs/ImportTie.v"):
        rc, out = coqc(cq, f)
        if rc != 0:
            notes.append("coqc %s FAILS: %s" % (f, first_error(out)))
            break
        if f.startswith("Proofs/"):
            want = open(os.path.join(cq, f)).read().count("\nPrint Assumptions ")
            got = out.count("Closed under the global context")
            if got != want:
                notes.append("coqc %s: %d of %d Print Assumptions closed" % (f, got, want))
    shutil.rmtree(mut, ignore_errors=True)
    shutil.rmtree(cq, ignore_errors=True)
    return ("reject" if notes else "keep"), "; ".join(notes) or "translated, tie file compiles, every Print Assumptions closed"


def main(argv):
    only = set(argv)
    scratch = tempfile.mkdtemp(prefix="import_selftest_", dir="/tmp")
    ok = True
    counts = {}
    try:
        base = os.path.join(scratch, "base_src")
        shutil.copytree(os.path.join(T.repo_root(), "src"), base)
        for cid, rel, edits, expect in CASES:
            if only and cid not in only:
                continue
            got, note = run_case(scratch, base, cid, rel, edits)
            good = got == expect
            ok = ok and good
            counts[(expect, good)] = counts.get((expect, good), 0) + 1
            print("%-4s %-32s expected=%-6s got=%-6s %s" % ("ok" if good else "BAD", cid, expect, got, note))
            sys.stdout.flush()
    finally:
        shutil.rmtree(scratch, ignore_errors=True)
    print("semantic changes rejected: %d of %d; harmless rewrites / conventions accepted: %d of %d" % (
        counts.get(("reject", True), 0), counts.get(("reject", True), 0) + counts.get(("reject", False), 0),
        counts.get(("keep", True), 0), counts.get(("keep", True), 0) + counts.get(("keep", False), 0)))
    print("scratch dir removed: %s" % (not os.path.exists(scratch)))
    print("SELFTEST %s" % ("PASSED" if ok else "FAILED"))
    return 0 if ok else 1


if __name__ == "__main__":
    sys.exit(main(sys.argv[1:]))
