"""Negative self-test of the source-derived tie Proofs/ExportTie.v (export side: C15, C14, C16).

For each case: copy /repo/src to a scratch directory under /tmp, apply a textual edit to the Python, run
harness/translate_export.py on the scratch sources into a scratch Coq tree (Base/, Model/ and every other
compiled Gen/ and Proofs/ file are symlinked from /verif/coq; nothing under /verif or /repo is written), compile
the generated file and a copy of the tie file.  Expected: a semantic change makes the translator raise
Unsupported (the generated file then does not type-check) or makes the tie fail to compile; comment-only
changes and renamings of local variables keep everything compiling.  The scratch directory is removed.

usage: /venv/bin/python harness/selftest_export.py [substring of case names ..]
"""
import os
import re
import shutil
import subprocess
import sys
import tempfile

sys.path.insert(0, os.path.dirname(os.path.abspath(__file__)))
import translate_export as TE  # noqa: E402

COQ = "/verif/coq"
CSV = "src/funtracks/import_export/csv/_export.py"
GEFF = "src/funtracks/import_export/geff/_export.py"
FD = "src/funtracks/features/_feature_dict.py"
INT = "src/funtracks/import_export/internal_format.py"


def rename(old, new):
    # identifiers only: not inside a quoted string constant such as "z"
    return lambda txt: re.sub(r"(?<![\"'])\b%s\b(?![\"'])" % re.escape(old), new, txt)


CASES = [
    # (name, [(file, old, new) | (file, callable)], expectation)
    ("baseline (no change)", [], "ok"),
    # ---------------------------------------------------------------- harmless
    ("csv: comment-only changes", [
        (CSV, "    # Determine which nodes to export\n", "    # Which nodes go into the table?   (reworded)\n\n"),
        (CSV, "    # Write CSV file\n", "")], "ok"),
    ("csv: local renames (node_to_keep, parents, row, rows)", [
        (CSV, rename("node_to_keep", "kept")), (CSV, rename("parents", "preds_of_node")),
        (CSV, rename("rows", "table_rows")), (CSV, rename("row", "record"))], "ok"),
    ("geff: local renames (nodes_to_keep, chunk_ranges, starts, filtered, z)", [
        (GEFF, rename("nodes_to_keep", "kept_nodes")), (GEFF, rename("chunk_ranges", "ranges_per_axis")),
        (GEFF, rename("starts", "block_origin")), (GEFF, rename("filtered", "masked_block")), (GEFF, rename("z", "out_arr"))], "ok"),
    ("geff / feature dict: comment and docstring changes", [
        (GEFF, "            # to avoid having to copy the segmentation array entirely, loop over chunks,\n", "            # chunk by chunk:\n"),
        (FD, '        """Dump this FeatureDict to a json compatible dictionary\n', '        """Dump to a json compatible dictionary (docstring reworded)\n')], "ok"),
    ("split_position_attr: local renames (new_graph, new_keys, pos)", [
        (GEFF, rename("new_graph", "g2")), (GEFF, rename("new_keys", "axis_keys")), (GEFF, rename("pos", "coordinates"))], "ok"),
    # ---------------------------------------------------------------- (1) node selection and row loop
    ("csv: `while parent:`-style truthiness - node id 0 as a parent counts as no parent", [
        (CSV, '        parent_id = "" if len(parents) == 0 else parents[0]\n',
         '        parent_id = parents[0] if parents and parents[0] else ""\n')], "broken"),
    ("csv: parent looked up with `if not parent_id` after the fact (id 0 dropped)", [
        (CSV, '        parent_id = "" if len(parents) == 0 else parents[0]\n',
         '        parent_id = "" if len(parents) == 0 else parents[0]\n        if not parent_id:\n            parent_id = ""\n')], "broken"),
    ("csv: ancestors collected by a `while parent:` walk instead of filter_graph_with_ancestors", [
        (CSV, "        node_to_keep = filter_graph_with_ancestors(tracks.graph, node_ids)\n",
         "        node_to_keep = list(node_ids)\n        for n in node_ids:\n            parent = next(tracks.graph.predecessors(n), None)\n"
         "            while parent:\n                node_to_keep.append(parent)\n                parent = next(tracks.graph.predecessors(parent), None)\n")], "broken"),
    ("csv: ancestors dropped from the selection", [
        (CSV, "        node_to_keep = filter_graph_with_ancestors(tracks.graph, node_ids)\n", "        node_to_keep = list(node_ids)\n")], "broken"),
    ("csv: the last parent instead of the first", [
        (CSV, 'else parents[0]\n', 'else parents[len(parents) - 1]\n')], "broken"),
    ("csv: rows of root nodes skipped", [
        (CSV, "        rows.append(row)\n", "        if len(parents) > 0:\n            rows.append(row)\n")], "broken"),
    ("csv: id and parent_id columns swapped in the header", [
        (CSV, 'header.extend(["id", "parent_id", "track_id"])', 'header.extend(["parent_id", "id", "track_id"])')], "broken"),
    ("csv: parent id written into the id column", [
        (CSV, '        row[cast(str, column_map["id"])] = node_id\n        row[cast(str, column_map["parent_id"])] = parent_id\n',
         '        row[cast(str, column_map["parent_id"])] = parent_id\n        row[cast(str, column_map["id"])] = parent_id\n')], "broken"),
    ("csv: 3D coordinates for every ndim", [
        (CSV, 'coords = ["z", "y", "x"] if tracks.ndim == 4 else ["y", "x"]', 'coords = ["z", "y", "x"]')], "broken"),
    ("csv: zip without strict (short positions silently truncated)", [
        (CSV, 'zip(column_map["coords"], pos, strict=True)', 'zip(column_map["coords"], pos)')], "broken"),
    ("csv: export writes tracks.scale (C16)", [
        (CSV, "    rows: list[dict[str, Any]] = []\n", "    rows: list[dict[str, Any]] = []\n    tracks.scale = None\n")], "broken"),
    # ---------------------------------------------------------------- (2) label image
    ("csv: dtype chosen from the largest NODE id instead of the largest track id", [
        (CSV, 'max_val = int(df[column_map["track_id"]].max())', 'max_val = int(df[column_map["id"]].max())')], "broken"),
    ("csv: empty selection raises again (F-15b: no `len(df) > 0` guard)", [
        (CSV, 'max_val = int(df[column_map["track_id"]].max()) if len(df) > 0 else 0', 'max_val = int(df[column_map["track_id"]].max())')], "broken"),
    ("csv: empty selection raises again (F-15a: DataFrame without columns=)", [
        (CSV, "df = pd.DataFrame(rows, columns=header)", "df = pd.DataFrame(rows)")], "broken"),
    ("csv: uint16 threshold off by one byte (65535 -> uint8 limit twice)", [
        (CSV, "        elif max_val <= np.iinfo(np.uint16).max:\n            dtype = np.uint16\n",
         "        elif max_val <= np.iinfo(np.uint16).max:\n            dtype = np.uint8\n")], "broken"),
    ("csv: label image relabelled by node id (identity) instead of track id", [
        (CSV, 'output_vals = np.array(df[column_map["track_id"]], dtype=dtype)', 'output_vals = np.array(df[column_map["id"]], dtype=dtype)')], "broken"),
    ("csv: the segmentation relabelled in place (C16)", [
        (CSV, "        relabeled_seg = map_array(tracks.segmentation, input_vals, output_vals)\n",
         "        relabeled_seg = tracks.segmentation\n        relabeled_seg[:] = map_array(tracks.segmentation, input_vals, output_vals)\n")], "broken"),
    # ---------------------------------------------------------------- (3) GEFF subgraph and chunk loop
    ("geff: the array masked IN PLACE, then copied (C16)", [
        (GEFF, "                filtered = np.where(mask, block, 0)\n                z[slices] = filtered\n",
         "                seg_data[slices] = np.where(mask, block, 0)\n                z[slices] = seg_data[slices]\n")], "broken"),
    ("geff: the block view zeroed in place (C16)", [
        (GEFF, "                filtered = np.where(mask, block, 0)\n                z[slices] = filtered\n",
         "                block[~mask] = 0\n                z[slices] = block\n")], "broken"),
    ("geff: ancestors dropped from the selection", [
        (GEFF, "        nodes_to_keep = filter_graph_with_ancestors(\n            tracks.graph, node_ids\n        )",
         "        nodes_to_keep = list(node_ids)")], "broken"),
    ("geff: segmentation masked with the selection only (graph still has the ancestors)", [
        (GEFF, "mask = np.isin(block, nodes_to_keep)", "mask = np.isin(block, list(node_ids))")], "broken"),
    ("geff: ragged last chunk not clipped", [
        (GEFF, "slice(start, min(start + chunk, dim))", "slice(start, start + chunk)")], "broken"),
    ("geff: chunk size 32", [(GEFF, "(64, 64, 64)", "(32, 64, 64)")], "broken"),
    ("geff: only the first block is written", [
        (GEFF, "                z[slices] = filtered\n", "                z[slices] = filtered\n                break\n")], "broken"),
    ("geff: subgraph not taken (all nodes written)", [
        (GEFF, "        graph = graph.subgraph(nodes_to_keep).copy()\n", "        graph = graph.copy()\n")], "broken"),
    ("geff: tracks.scale assigned when None (F-16a)", [
        (GEFF, "    scale = tracks.scale if tracks.scale is not None else (1.0,) * tracks.ndim\n",
         "    if tracks.scale is None:\n        tracks.scale = (1.0,) * tracks.ndim\n    scale = tracks.scale\n")], "broken"),
    ("geff: full export masks with the graph's nodes instead of copying", [
        (GEFF, "            z[:] = seg_data\n", "            z[:] = np.where(np.isin(seg_data, list(tracks.graph.nodes())), seg_data, 0)\n")], "broken"),
    # ---------------------------------------------------------------- (4) split_position_attr
    ("split: the graph of the tracks is modified (no copy) (C16)", [
        (GEFF, "        new_graph = tracks.graph.copy()\n", "        new_graph = tracks.graph\n")], "broken"),
    ("split: coordinates assigned in reverse", [
        (GEFF, "                attrs[new_keys[i]] = pos[i]\n", "                attrs[new_keys[i]] = pos[len(new_keys) - 1 - i]\n")], "broken"),
    ("split: the position attribute is kept", [
        (GEFF, "            pos = attrs.pop(pos_key)\n", "            pos = attrs[pos_key]\n")], "broken"),
    ("split: z inserted last", [
        (GEFF, '            new_keys.insert(0, "z")\n', '            new_keys.append("z")\n')], "broken"),
    # ---------------------------------------------------------------- (5) FeatureDict
    ("dump_json: lineage_key not written", [(FD, '                "lineage_key": self.lineage_key,\n', "")], "broken"),
    ("dump_json: tracklet key written under the lineage name", [
        (FD, '                "lineage_key": self.lineage_key,\n', '                "lineage_key": self.tracklet_key,\n')], "broken"),
    ("from_json: tracklet_key required (old files raise KeyError)", [
        (FD, 'tracklet_key=data.get("tracklet_key")', 'tracklet_key=data["tracklet_key"]')], "broken"),
    ("from_json: position and time keys swapped", [
        (FD, 'time_key=data["time_key"],\n            position_key=data["position_key"],',
         'time_key=data["position_key"],\n            position_key=data["time_key"],')], "broken"),
    ("__init__: per-axis position keys not validated", [
        (FD, "                if key not in self:\n                    raise KeyError(f\"position_key '{key}' not found in features\")\n",
         "                pass\n")], "broken"),
    ("_save_attrs: ndim not written", [(INT, '        "ndim": tracks.ndim,\n', "")], "broken"),
]


def sh(cmd, cwd):
    p = subprocess.run(cmd, cwd=cwd, stdout=subprocess.PIPE, stderr=subprocess.STDOUT, text=True, timeout=900)
    return p.returncode, p.stdout


def scratch_coq(root):
    c = os.path.join(root, "coq")
    for d in ("Gen", "Proofs"):
        os.makedirs(os.path.join(c, d))
        for f in os.listdir(os.path.join(COQ, d)):
            if not f.startswith(("ExportPipeline_gen.", "ExportTie.", ".")):
                os.symlink(os.path.join(COQ, d, f), os.path.join(c, d, f))
    for d in ("Base", "Model"):
        os.symlink(os.path.join(COQ, d), os.path.join(c, d))
    shutil.copy(os.path.join(COQ, "Proofs", "ExportTie.v"), os.path.join(c, "Proofs", "ExportTie.v"))
    return c


def first_error(out):
    ls = [l for l in out.split("\n") if l.strip() and "conda" not in l]
    for i, l in enumerate(ls):
        if l.startswith("Error"):
            return " ".join(x.strip() for x in ls[max(0, i - 1):i + 3])[:260]
    return " ".join(ls[:3])[:260]


def main(argv):
    root = tempfile.mkdtemp(prefix="selftest_export_", dir="/tmp")
    bad, n_closed = 0, None
    counts = {"ok": 0, "refused": 0, "tie": 0}
    try:
        for name, edits, expect in CASES:
            if argv and not any(a in name for a in argv) and not name.startswith("baseline"):
                continue
            repo = os.path.join(root, "repo")
            shutil.rmtree(repo, ignore_errors=True)
            shutil.copytree("/repo/src", os.path.join(repo, "src"))
            for e in edits:
                path = os.path.join(repo, e[0])
                txt = open(path).read()
                if callable(e[1]):
                    new = e[1](txt)
                    assert new != txt, (name, "edit without effect")
                else:
                    assert txt.count(e[1]) == 1, (name, e[1], txt.count(e[1]))
                    new = txt.replace(e[1], e[2])
                open(path, "w").write(new)
            shutil.rmtree(os.path.join(root, "coq"), ignore_errors=True)
            c = scratch_coq(root)
            ok, msg = TE.regenerate(out=os.path.join(c, "Gen", "ExportPipeline_gen.v"), repo=repo)
            rc1, out1 = sh(["coqc", "-Q", ".", "FT", "Gen/ExportPipeline_gen.v"], c)
            rc2, out2 = (1, "(generated file did not compile)") if rc1 else sh(["coqc", "-Q", ".", "FT", "Proofs/ExportTie.v"], c)
            closed = out2.count("Closed under the global context")
            if not ok and rc1 == 0:
                got, why, expect = "ok", "TRANSLATOR FAILED BUT THE FAILURE FILE TYPE-CHECKS", "never"
            elif not ok:
                got, why = "broken", "translator: Unsupported: " + msg[:260]
                counts["refused"] += 1
            elif rc1:
                got, why = "broken", "generated file does not compile: " + first_error(out1)
                counts["refused"] += 1
            elif rc2:
                got, why = "broken", "tie does not compile: " + first_error(out2)
                counts["tie"] += 1
            else:
                got, why = "ok", "translated, generated file and tie compile (%d x Closed under the global context)" % closed
                counts["ok"] += 1
                if n_closed is None:
                    n_closed = closed
                elif closed != n_closed:
                    got, why = "broken", "number of closed theorems differs from the baseline"
            good = got == expect
            bad += not good
            print("[%s] %s\n      -> %s" % ("as expected" if good else "UNEXPECTED", name, why), flush=True)
    finally:
        shutil.rmtree(root, ignore_errors=True)
    print("scratch directory removed:", not os.path.exists(root))
    print("accepted %(ok)d, refused by the translator %(refused)d, tie broken %(tie)d" % counts)
    print("RESULT:", "all as expected" if not bad else "%d UNEXPECTED" % bad)
    return 1 if bad else 0


if __name__ == "__main__":
    sys.exit(main(sys.argv[1:]))
