"""Fail-closed translator for the in-memory IMPORT PIPELINE (properties C12 / C13 / C14)

    src/funtracks/import_export/_tracks_builder.py   flatten_name_map; TracksBuilder.axis_names, _preprocess_name_map,
                                                     validate_name_map, _combine_multi_value_props, validate,
                                                     construct_graph, handle_segmentation, build
    src/funtracks/import_export/csv/_import.py       _ensure_integer_ids, CSVTracksBuilder.load_source
    src/funtracks/import_export/geff/_import.py      import_graph_from_geff, GeffTracksBuilder.load_source
    src/funtracks/import_export/_validation.py       validate_node_name_map, validate_spatial_dims_in_name_map,
                                                     validate_feature_key_collisions, validate_spatial_dims,
                                                     validate_in_memory_geff
                                                                       ->  coq/Gen/ImportPipeline_gen.v

One Gallina definition `gen_<f>` per Python function / method (a shallow embedding in the exception /
control monad of coq/Model/PyRt6.v) over the data representation of the hand models Model/ImportTable.v
and Model/Relabel.v.  Proofs/ImportTie.v proves every generated definition equal to the hand-written
model -- up to `gen_csv_build = import_csv` and `gen_geff_build = import_geff` -- so a change of the
Python changes the generated text and un-hooks the tie.

Anything not listed below raises `Unsupported(<file>:<line>: ...)`; nothing is guessed, and the file
written then does not type-check.  TRUSTED: this table, the signature table FUNCS, the emitter below and
the combinators of Model/PyRt6.v (+ those it re-uses from Model/NpRt.v and Base/Dict.v).

DATA REPRESENTATION (translator type -> Gallina)
  int, str                python int / numpy integer; a string (interned code)        Z
  bool, cell              ; one value of a DataFrame / property array                  bool, ImportTable.cell
  list T, opt T, tuple    Python list / 1-D array, T-or-None, tuple                    list T, option T, T1 * T2
  series = list cell      pandas Series, Python list of cell values
  arr1c                   1-D numpy array of cells (np.array of a series)              list cell
  mask   = list bool      boolean Series / boolean array
  dict V                  Python dict with str keys (insertion ordered)                Base/Dict.v  dict V
  frame  = dict series    pandas DataFrame (its columns), dict of Series, df.to_dict(orient="list")
  cellmap                 dict with cell keys and int values (id_mapping)              list (cell * Z)
  set_str                 set of strings (only the property filter handed to read_to_memory)   list Z
  src, nmap = dict src    a name-map value str | list[str]; a name map                 ImportTable.src, name_map
                          (the representation has no None value: None values in a name map are outside the model)
  vals, propd, props      a property array; {"values": .., "missing": ..}; a node_props dict
                                                                                       ImportTable.pcol, prop, props
  iprops = dict (list Z)  node_props as handle_segmentation reads it: every property array an integer
                          array (D[k]["values"] is the array; "missing" not represented)
  img P                   the InMemoryGeff dict with property dicts of type P          PyRt6.img Metadata P
  ids, edges, arr2        integer arrays (n,), (n, 2), (T, *spatial) as in Model/NpRt.v   list Z, list (Z * Z), list (list Z)
  nodes                   nx.DiGraph of handle_segmentation (only its node ids matter)  list Z
  nxgraph                 the graph geff.construct returns                             ImportTable.graph
  featd, feats = dict featd   one entry of available_computed_features = its spatial_dims flag; the table   bool, dict bool
  tracks                  the SolutionTracks object = the arguments it is built from   PyRt6.tracks_args Scale
  msg                     an f-string collected in a list (only the list's emptiness matters)   unit
  scale, meta, propmeta, dir   list of floats; GeffMetadata; PropMetadata; a store path   Section types Scale, Metadata, PropMeta, Dir
  Integers are unbounded Z; dtype questions are oracle answers (below).

SKIPPED (no effect on the value computed; nothing else is skipped)
  docstrings; type annotations (`x: T = e` is `x = e`); `cast(T, e)` is e; the argument of `raise E(..)`
  (constants / f-strings); `warn(..)` statements; `x = feature.get("display_name", key)` (a message part: x is
  unusable); a function-local `from funtracks.import_export._validation import validate_graph_seg_match`; the
  module-level imports listed per file in IMPORTS (they must be present verbatim, and the names the table gives a
  meaning to must not be re-bound anywhere in the module); statements after a branch that is taken at translation
  time and always returns (dead code of a specialised function, see below).

FUNCTIONS   the table FUNCS gives, per function: file, class, parameter names, their types, defaults, the `self`
  attributes it uses (they become parameters `v_self_<attr>`), the result type and static specialisations (a
  difference is Unsupported).
  def f(p1..pn)       Definition gen_f (v_self_a : ..) .. (v_p1 : T1) .. : res (R * M1 * ..) := run (<body>)
                      Mi = the self attributes / parameters f assigns or modifies in place (returned next to the
                      result and re-bound at the call site); R = unit for a function without `return e`.
                      `_ensure_integer_ids(df)` modifies and returns its parameter: it returns the frame once,
                      and may only be called as `x = _ensure_integer_ids(x)`.
  STATIC SPECIALISATIONS (the model excludes these arguments; `if <static test>:` is decided at translation time,
  a call must pass the same constant, the untaken code is not translated):
      load_source (CSV, GEFF), build                  node_features = None, edge_features = None, segmentation = None
      build, validate_name_map, GEFF load_source      self.edge_name_map = None
      import_graph_from_geff                          edge_name_map = None
      validate_name_map, validate_node_name_map       has_segmentation = False
      validate_feature_key_collisions                 edge_name_map = None   (gen_.._no_edges: returns at once)
      handle_segmentation                             translated twice: in full (gen_handle_segmentation) and with
                                                      segmentation = None (gen_handle_segmentation_no_seg, called by build)
      build                                           translated twice: self.load_source = CSVTracksBuilder.load_source
                                                      (gen_csv_build) and = GeffTracksBuilder.load_source (gen_geff_build)
  NOT TRANSLATED: __init__ (required_features / importable props are inputs), read_header, prepare, infer_*_name_map
  (Gen/NameMapping_gen.v), enable_features, validate_edge_name_map, validate_graph_seg_match (oracle), tracks_from_df /
  import_from_geff (argument munging around build), read_dims / load_segmentation (IO).

ORACLES / UNINTERPRETED (Section variables of the generated file; nothing is assumed about them there;
                         Proofs/ImportTie.v instantiates them with the model's oracle arguments)
  pd.api.types.is_integer_dtype(s)            pd_is_integer_dtype s           : bool     (ImportTable: ityp)
  validate_tracklets(ids, edges, v)[0]        geff_validate_tracklets ids edges v : bool (ImportTable: trk_ok)
  validate_lineages(ids, edges, v)[0]         geff_validate_lineages ids edges v  : bool (ImportTable: lin_ok)
  read_to_memory(dir, node_props=l, edge_props=e)   geff_read_to_memory dir l e : img   (ImportTable: ids, es, store)
  get_default_key_to_feature_mapping(n, display_name=False)   default_features n : dict bool
                                              (ImportTable: sd_keys; ImportTie.feats_spec states what the model assumes)
  A.ndim  (A arr2)                            np_ndim A : Z                    (frames are flattened in the model)
  [1.0] * n                                   scale_ones n : Scale
  "pos" in G.nodes[n]   (G nodes)             nx_node_has_attr G n k_pos : bool
  validate_graph_seg_match(G, A, s, names)    validate_graph_seg_match G A s names : res bool   (may raise ValueError)
  create_or_update_metadata(metadata=None, is_directed=True)       geff_new_metadata : Metadata
  create_props_metadata(identifier=k, prop_data=p)                  geff_props_metadata k p : PropMeta
  add_or_update_props_metadata(m, l, c_type="node")                geff_add_props_metadata m l : Metadata
  m.track_node_props = d                                           m := geff_set_track_node_props m d
  SolutionTracks(graph=g, segmentation=a, pos_attr="pos", time_attr=self.TIME_ATTR, ndim=n, scale=s)
                                              mk_tracks g a n s   (the constructor is outside the model: its arguments)

PRIMITIVES OF THE HAND MODEL (pandas / numpy / geff operations the model defines; the combinator IS the
                              model function named on the right, see Model/PyRt6.v)
  s.is_unique   s.unique()                    pd_is_unique s = nodup_cells s    pd_unique s = uniq s
  s.map(d)  (d cellmap)                       pd_map_dict s d = map (map_cell d) s
  s.isin(d) (d cellmap)   s.isin([c1, ..])    pd_isin_keys s d  /  pd_isin s [..]     (memc)
  s.notna()   a & b   ~a   m.any()            pd_notna s   mask_and a b   mask_not a   mask_any m
  s.astype(pd.Int64Dtype())   s.copy()        pd_astype_Int64 s   pd_copy s           (identity)
  pd.isna(x)   x != <int>   int(x)  (x cell)  pd_isna x   cell_ne_int x n   cell_int x   (ValueError; int_of_cell)
  {k: v for a, b in enumerate(l, start=n)}    cellmap_comp (fun '(a, b) => (k, v)) (py_enumerate_from n l)
  pd.read_csv(source) if isinstance(source, Path) else source.copy()    pd_source_frame source   (source is a DataFrame)
  pd.DataFrame(d)  df.to_dict(orient="list")  df.map(lambda x: None if pd.isna(x) else x)
                                              pd_DataFrame d   pd_to_dict_list df   pd_nan_to_none df   (identity)
  df.columns   k in df.columns                pd_columns df (= keys)     haskey k df
  df[c].apply(lambda x: ast.literal_eval(x) if isinstance(x, str) and x.startswith("[") and x.endswith("]") else x)
                                              pd_apply_literal_eval df[c]   (identity: outside the representation)
  np.array(l)  (l series)                     np_array1 l : arr1c = list cell  (a 1-D array of cells; as "values" of a
                                              property it is PS l; stored as "node_ids" of an InMemoryGeff it must be an
                                              integer array: np_ids_of_cells l = ints_of l, a non-integer id cell --
                                              possible only for a nullable integer column holding NA, a domain limit --
                                              is reported as ValueError there, the convention of the model)
  np.array(l)  (l list of int pairs)   np.empty((0, 2), dtype=np.int64)       np_array_pairs l     np_empty_pairs
  np.column_stack(l)   len(a)  a.copy()  (a vals)                            column_stack l     np_len a     np_copy a
  a.ndim == 2   a.shape[1]   (a vals)         np_ndim_is2 a   np_shape1 a  (= width_of)
  np.zeros(n, dtype=np.bool_)   a |= m        np_zeros_bool n    a := np_ior a m  (orb_list)
  {"values": v, "missing": m}                 mk_prop v m        P["values"]  P.get("missing")  =  p_vals P  p_miss P
  validate_unique_node_ids(ids) / validate_nodes_for_edges(ids, e) / validate_no_self_edges(e) /
  validate_no_repeated_edges(e)   as `valid, x = ..`      geff_validate_.. = nodup_z / edges_known / no_self_edges / nodup_pairs
                                              (x, used only in messages, becomes unusable)
  geff.construct(**g)                         geff_construct g = construct ids edges node_props
  feature.get("spatial_dims", False)   isinstance(feature, dict)            feat_spatial_dims f (= f)     true
  np.array_equal(a, b)  np.isin(a, b)  m.all()  np.append(a, v)  np.unique(a)  a[m]  a == v  A[i]  A.shape[0]
  np.asarray(a)  X.compute()  load_segmentation(X)
                                              np_array_equal  np_isin  np_all  np_append  +  Model/NpRt.v
  relabel_segmentation(A, G, ids, segs, ts)   Gen/Relabel_gen.v gen_relabel_segmentation (translated separately;
                                              returns (result, G))

CLOSED IDIOM TABLE        Python                                     Gallina
 -- statements (a raising step is bound first:  bind (<raising>) (fun t => ..))
  x = e | x: T = e | self.a = e                                      let v_x := e in ..
  a, b = e   (names / self attributes)                               let '(v_a, v_b) := e in ..
  x = f(..) | f(..) | for .. in f(..)       (f in FUNCS; positional   bind (gen_f ..) (fun '(v_x, v_m1..) => ..)
        and keyword arguments; omitted = the default constant)
  f(D["node_props"], ..)   at a position f modifies (D img)           .. (fun '(_, w) => bind (ROk (img_set_node_props D w)) (fun v_D => ..
  x = D["node_props"]     (D img)                                    let v_x := img_node_props v_D   (a VIEW: an in-place
                                                                     change of x is also  D := img_set_node_props D x)
  D["node_props"] = e     (D img)                                    let v_D := img_set_node_props v_D e  (older views are detached)
  d[k] = e   del d[k]     (dict / frame)                             let v_d := set k e v_d    bind (dict_del k v_d) (KeyError)
  x = d.pop(k)                                                       bind (dict_pop k v_d) (fun '(v_x, v_d) => ..
  l.append(e)  l.extend(e)  s.add(e)  s.update(l)  (s set_str)       v_l ++ [e]   v_l ++ e   py_set_add s e   py_set_update s l
  if c: A else: B ; rest      A (or B) always ends in return / raise / continue / break
                                                                     if c then <A> else <B; rest>
  if c: A else: B ; rest      no return / continue / break inside    let '(<changed>) := if c then <A> else <B> in rest
                                                                     (pseq (if ..) (fun '(<changed>) => rest) when A or B raise)
        c = `x is None` / `x is not None` (x opt) / `isinstance(x, list)` / `isinstance(x, str)` (x src), also under
        `not`, and as an operand of and / or (the statement is then split into nested ifs):
                                                                     match v_x with None => .. | Some v_x => ..
                                                                     match v_x with Multi v_x => .. | Single v_x => ..
        (x has the refined type in each branch)
  if <static test>: A else: B                                        A or B (decided at translation time)
  for pat in it: body ; rest                                         forM it (<vars>) (fun pat '(<vars>) => <body>) (fun '(<vars>) => <rest>)
        <vars> = the variables assigned / modified in body that exist before the loop (in order of first binding)
  continue | end of loop body ; break ; return e | return ; raise E(..)     Cont (<vars>) ; Brk (<vars>) ; Ret (e, v_m1, ..) ; Exn E
 -- expressions
  x  self.a  0 1 ..  "s" (string table)  None  True  (a, b)  [e1, ..]  []  {}  f"..."
  NodeAttr.TIME.value   self.TIME_ATTR                               k_time  (checked against graph_attributes.py / the class)
  a + b  a - b  (ints)   a == b  a != b  (ints / strs; int vs opt int)   a < b ..  (ints)      +  -  =?  py_eq_int_opt  <? ..
  v == []   (v src)                                                  src_eq_nil v
  a if c else b                                                      if c then a else b
  k in d | k not in d  (dict)   x in l  (list of str / int)          haskey k d   memz x l
  x is None / is not None  as a value (x opt)                        negb (is_some x) / is_some x ;   (x src: src_is_none x = false)
  not c   c1 and c2   c1 or c2                                       negb c   &&   ||      (a raising c2 under `if`: lazily, res bool)
  l / d as a condition                                               negb (is_nil l)
  d[k]  (dict)                                                       dict_get k d     (KeyError)
  x used where a non-None value is needed  (x opt)                   as_some x        (TypeError)
  d.get(k, dflt)  d.get(k)  d.items()  d.keys()  d.values()  dict(d)     getd k d dflt   lookup k d   d   keys d   py_values d   d
  len(l)   range(n)   next(iter(l))   zip(a, b, strict=True)         py_len l   py_range n   py_next_iter l (StopIteration)   py_zip_strict a b
  set()   list(s)   ("a", "b") as an iterable                        []   py_list_of_set s   [a; b]
  G.nodes()  (G nodes)                                               nx_nodes G
  [e for x in it]  [e for x in it if c]                              map / mapM (raising e) ;  py_listcomp / mapM_if
  {k: e for k in it if c}   (e may raise)                            dictM_if (fun k => c) (fun k => e) it []
  all(c for x in it)   any(c for x in it)                            py_all (fun x => c) it   py_any ..
  self.axis_names                                                    bind (gen_axis_names v_self_ndim)

ALIAS DISCIPLINE (checked; what makes the value semantics of the embedding sound).  M = the variables a
  function modifies in place (item assignment / deletion, pop, append / extend / add / update, |=, attribute
  assignment, argument at a modified position of a call).
  * every binding of a variable of M is a parameter, a view of an img field, or has a fresh right-hand side (a
    literal, constant, comprehension, copy / dict() / DataFrame / to_dict / map / np.zeros, a call);
  * a variable of M never occurs as a bare right-hand side or twice in one call; once it is stored into a
    dict / literal it is frozen: a later in-place change (before it is re-bound) is Unsupported;
  * the iterable of a `for` does not mention a variable assigned or modified in its body (except `df.columns`,
    an immutable snapshot, range(..) and the result of a call); loop / comprehension targets are new names;
  * a view is unusable once its base is re-bound.
  Left to the caller of the entry points: distinct mutable arguments are distinct objects.
  CONVENTIONS the ties cannot see through (inherited from the hand models): exception messages; the state of
  `self` after an exception (a raise drops it); zip(strict=True) on unequal lengths; numeric strings / non-integral
  floats under int(); NaN / None / pd.NA are one cell; list-literal strings under literal_eval; dtype overflow.
"""
from __future__ import annotations

import ast
import hashlib
import os
import sys

HERE = os.path.dirname(os.path.abspath(__file__))
ROOT = os.path.dirname(HERE)
OUT = os.path.join(ROOT, "coq", "Gen", "ImportPipeline_gen.v")
REL_TB = "src/funtracks/import_export/_tracks_builder.py"
REL_CSV = "src/funtracks/import_export/csv/_import.py"
REL_GEFF = "src/funtracks/import_export/geff/_import.py"
REL_VAL = "src/funtracks/import_export/_validation.py"
REL_ATTRS = "src/funtracks/data_model/graph_attributes.py"


def repo_root():
    return os.environ.get("VERIF_REPO", "/repo")


class Unsupported(Exception):
    pass


class NotPure(Exception):
    """internal: a block cannot be rendered as a pure expression"""


# ---------------------------------------------------------------- types
INT, STR, BOOL, CELL, NONE, UNIT, OPAQUE = "int", "str", "bool", "cell", "none", "unit", "opaque"
SRC, VALS, PROPD, CELLMAP, NODES, NXGRAPH, SCALE, META, PROPMETA, IPROP, ARR1C = \
    "src", "vals", "propd", "cellmap", "nodes", "nxgraph", "scale", "meta", "propmeta", "iprop", "arr1c"
FEATD, MSG, TRACKS, DIR, SETS = "featd", "msg", "tracks", "dir", "set_str"


def L(t): return ("list", t)
def O(t): return ("opt", t)
def T(*ts): return ("tuple", tuple(ts))
def D(v): return ("dict", v)
def IMG(p): return ("img", p)


SERIES, MASK, IDS, EDGES, ARR2 = L(CELL), L(BOOL), L(INT), L(T(INT, INT)), L(L(INT))
FRAME, NMAP, PROPS, IPROPS, FEATS = D(SERIES), D(SRC), D(PROPD), D(IPROP), D(FEATD)


def par(s):
    return s if (" " not in s or (s.startswith("(") and s.endswith(")") and s.count("(") == 1)) else "(%s)" % s


def gty(t):
    simple = {INT: "Z", STR: "Z", BOOL: "bool", CELL: "cell", UNIT: "unit", SRC: "src", VALS: "pcol", PROPD: "prop",
              CELLMAP: "list (cell * Z)", NODES: "list Z", NXGRAPH: "graph", SCALE: "Scale", META: "Metadata",
              PROPMETA: "PropMeta", IPROP: "list Z", ARR1C: "list cell", FEATD: "bool", MSG: "unit", TRACKS: "tracks_args Scale", DIR: "Dir", SETS: "list Z", "?": "_"}
    if t in simple:
        return simple[t]
    if isinstance(t, tuple):
        k = t[0]
        if k == "list": return "list %s" % par(gty(t[1]))
        if k == "opt": return "option %s" % par(gty(t[1]))
        if k == "dict": return "dict %s" % par(gty(t[1]))
        if k == "tuple": return "(%s)" % " * ".join(par(gty(x)) for x in t[1])
        if k == "img": return "img Metadata %s" % par(gty(t[1]))
    raise Unsupported("internal: no Gallina type for %r" % (t,))


def is_k(t, k):
    return isinstance(t, tuple) and t[0] == k


def unify(a, b):
    """most specific common type; '?' is the element type of an empty literal; None if there is none"""
    if a == "?": return b
    if b == "?": return a
    if a == b: return a
    if isinstance(a, tuple) and isinstance(b, tuple) and a[0] == b[0]:
        if a[0] == "tuple":
            if len(a[1]) != len(b[1]): return None
            xs = [unify(x, y) for x, y in zip(a[1], b[1])]
            return None if None in xs else ("tuple", tuple(xs))
        x = unify(a[1], b[1])
        return None if x is None else (a[0], x)
    return None


def join_type(a, b):
    """type of a variable after an if / else that leaves it with type a resp. b (None joins to opt)"""
    u = unify(a, b)
    if u is not None: return u
    if a == NONE and b != NONE: return b if is_k(b, "opt") else O(b)
    if b == NONE: return join_type(b, a)
    if is_k(a, "opt") and unify(a[1], b) is not None: return O(unify(a[1], b))
    if is_k(b, "opt") and unify(b[1], a) is not None: return O(unify(b[1], a))
    return None


def mutable(t):
    if t in (CELLMAP, NODES, META, SETS): return True
    return isinstance(t, tuple) and t[0] in ("dict", "img") or t in (MASK,) or (is_k(t, "list") and t[1] in ("?",) or is_k(t, "list") and is_k(t[1], "tuple"))


# ---------------------------------------------------------------- environment
class Env:
    def __init__(self):
        self.vars = {}        # name -> type (insertion ordered: order of first binding)
        self.views = {}       # name -> (base name, field)
        self.poison = {}      # name -> reason
        self.frozen = set()   # stored into a container: may no longer be modified in place

    def copy(self):
        e = Env()
        e.vars = dict(self.vars); e.views = dict(self.views); e.poison = dict(self.poison); e.frozen = set(self.frozen)
        return e


def cn(name):
    return "v_" + name.replace(".", "_")


# ---------------------------------------------------------------- string table
STRS = {"time": "k_time", "id": "k_id", "parent_id": "k_parent", "pos": "k_pos", "z": "k_z", "y": "k_y", "x": "k_x",
        "track_id": "k_track", "lineage_id": "k_lineage", "ellipse_axis_radii": "k_ell", "seg_id": "k_seg_id",
        "tracklet": "s_tracklet", "lineage": "s_lineage"}
IMG_FIELDS = {"metadata": "img_metadata", "node_ids": "img_node_ids", "edge_ids": "img_edge_ids",
              "node_props": "img_node_props", "edge_props": "img_edge_props"}
IMG_ORDER = ["metadata", "node_ids", "edge_ids", "node_props", "edge_props"]

LAMBDA_NAN_TO_NONE = "lambda x: None if pd.isna(x) else x"
LAMBDA_LITERAL_EVAL = "lambda x: ast.literal_eval(x) if isinstance(x, str) and x.startswith('[') and x.endswith(']') else x"
SOURCE_FRAME = "pd.read_csv(source) if isinstance(source, Path) else source.copy()"

# names that have a fixed meaning in the idiom table: never bound by the translated code
RESERVED = {"np", "pd", "geff", "nx", "ast", "cast", "warn", "Path", "NodeAttr", "len", "range", "next", "iter", "zip", "dict",
            "int", "all", "any", "isinstance", "enumerate", "list", "str", "set", "sorted", "tuple", "min", "max", "sum",
            "relabel_segmentation", "load_segmentation", "read_dims", "flatten_name_map", "validate_in_memory_geff",
            "validate_spatial_dims", "validate_node_name_map", "validate_edge_name_map", "validate_feature_key_collisions",
            "validate_graph_seg_match", "validate_unique_node_ids", "validate_nodes_for_edges", "validate_no_self_edges",
            "validate_no_repeated_edges", "validate_tracklets", "validate_lineages", "create_or_update_metadata",
            "create_props_metadata", "add_or_update_props_metadata", "_ensure_integer_ids", "self", "TracksBuilder",
            "get_default_key_to_feature_mapping", "SolutionTracks", "validate_spatial_dims_in_name_map", "read_to_memory",
            "import_graph_from_geff"}

STRUCT_VALIDATORS = {"validate_unique_node_ids": ("geff_validate_unique_node_ids", [IDS]),
                     "validate_nodes_for_edges": ("geff_validate_nodes_for_edges", [IDS, EDGES]),
                     "validate_no_self_edges": ("geff_validate_no_self_edges", [EDGES]),
                     "validate_no_repeated_edges": ("geff_validate_no_repeated_edges", [EDGES]),
                     "validate_tracklets": ("geff_validate_tracklets", [IDS, EDGES, VALS]),
                     "validate_lineages": ("geff_validate_lineages", [IDS, EDGES, VALS])}


def same_ast(node, text):
    return ast.dump(node) == ast.dump(ast.parse(text, mode="eval").body)


def const_str(n, s=None):
    return isinstance(n, ast.Constant) and isinstance(n.value, str) and (s is None or n.value == s)


def const_int(n):
    if isinstance(n, ast.Constant) and isinstance(n.value, int) and not isinstance(n.value, bool):
        return n.value
    if isinstance(n, ast.UnaryOp) and isinstance(n.op, ast.USub) and isinstance(n.operand, ast.Constant) \
            and isinstance(n.operand.value, int) and not isinstance(n.operand.value, bool):
        return -n.operand.value
    return None


def is_name(n, ident=None):
    return isinstance(n, ast.Name) and (ident is None or n.id == ident)


def mod_attr(n, mod, attr):
    return isinstance(n, ast.Attribute) and is_name(n.value, mod) and n.attr == attr


def plain(n, nargs, keywords=()):
    return (isinstance(n, ast.Call) and len(n.args) == nargs and not any(isinstance(a, ast.Starred) for a in n.args)
            and tuple(k.arg for k in n.keywords) == tuple(keywords))


def zlit(v):
    return "%d" % v if v >= 0 else "(%d)" % v


class Translator:
    def __init__(self, funcs):
        self.funcs = funcs            # key -> config
        self.done = {}                # key -> list of mutated names (after translation)
        self.rel = "?"
        self.tmp = 0

    # ------------------------------------------------------------ helpers
    def fail(self, node, why):
        raise Unsupported("%s:%s: %s: %s" % (self.rel, getattr(node, "lineno", "?"), why, ast.dump(node)[:160]))

    def fresh(self):
        self.tmp += 1
        return "t%d" % self.tmp

    def name_of(self, n):
        if isinstance(n, ast.Name) and n.id != "self":
            return n.id
        if isinstance(n, ast.Attribute) and is_name(n.value, "self") and (("self." + n.attr) in self.selfattrs or ("self." + n.attr) in self.static):
            return "self." + n.attr
        return None

    def var(self, node, name, env):
        if name in RESERVED: self.fail(node, "bare use of %s" % name)
        if name in self.static: self.fail(node, "static parameter %s used as a value" % name)
        if name in env.poison: self.fail(node, "variable %s is unusable here: %s" % (name, env.poison[name]))
        if name not in env.vars: self.fail(node, "variable %s is not defined on this path" % name)
        t = env.vars[name]
        if t == OPAQUE: self.fail(node, "variable %s is not represented (usable only in messages)" % name)
        return cn(name), t

    def need(self, pre, node):
        if pre is None: self.fail(node, "raising expression where evaluation is conditional")

    def raising(self, pre, node, rescode, pat=None):
        self.need(pre, node)
        x = pat or self.fresh()
        pre.append((x, rescode))
        return x

    def unopt(self, code, ty, pre, node):
        if is_k(ty, "opt"):
            return self.raising(pre, node, "as_some %s" % code), ty[1]
        return code, ty

    def coerce(self, code, ty, want, node, pre=None):
        if want is None or want == "?": return code, ty
        u = unify(ty, want)
        if u is not None: return code, u
        if is_k(want, "opt"):
            if ty == NONE: return "None", want
            u = unify(ty, want[1])
            if u is not None: return "(Some %s)" % code, O(u)
        if is_k(ty, "opt") and unify(ty[1], want) is not None:
            c, t = self.unopt(code, ty, pre, node)
            return c, unify(t, want)
        if want == VALS and ty == ARR1C: return "(PS %s)" % code, VALS
        if want == IDS and ty == ARR1C: return self.raising(pre, node, "np_ids_of_cells %s" % code), IDS
        if want == SRC and ty == STR: return "(Single %s)" % code, SRC
        if want == SRC and unify(ty, L(STR)) is not None: return "(Multi %s)" % code, SRC
        if is_k(want, "tuple") and is_k(ty, "tuple") and len(want[1]) == len(ty[1]) and isinstance(node, ast.Tuple):
            self.fail(node, "internal: tuple coercion is done componentwise by the caller")
        self.fail(node, "value of type %r where %r is expected" % (ty, want))

    def elem(self, ty, node):
        if is_k(ty, "list"): return ty[1]
        if is_k(ty, "items"): return T(STR, ty[1])
        if ty == ARR1C: return CELL
        if ty == SETS: return STR
        self.fail(node, "not an iterable of the idiom table (%r)" % (ty,))

    def pattern(self, t, ty, env):
        """loop / comprehension / unpacking target -> (Gallina pattern, [(name, type)])"""
        if is_name(t):
            if t.id in RESERVED or t.id in self.static: self.fail(t, "binding the reserved name %s" % t.id)
            return cn(t.id), [(t.id, ty)]
        if isinstance(t, ast.Tuple) and is_k(ty, "tuple") and len(t.elts) == len(ty[1]):
            ps, bs = [], []
            for e, et in zip(t.elts, ty[1]):
                p, b = self.pattern(e, et, env)
                ps.append(p); bs.extend(b)
            if len({x for x, _ in bs}) != len(bs): self.fail(t, "repeated name in a pattern")
            return "(%s)" % ", ".join(ps), bs
        self.fail(t, "target pattern against %r" % (ty,))

    def lam(self, pat):
        return "'" + pat if pat.startswith("(") else pat

    def new_names(self, node, binds, env):
        for x, _ in binds:
            if x in env.vars or x in env.poison: self.fail(node, "loop / comprehension target re-uses the existing variable %s" % x)

    # ------------------------------------------------------------ conditions
    def cond(self, n, env, pre):
        c, t = self.expr(n, env, pre)
        if t == BOOL: return c
        if is_k(t, "list") or is_k(t, "dict") or t == CELLMAP: return "(negb (is_nil %s))" % c
        self.fail(n, "truth value of %r" % (t,))

    def cond_res(self, n, env):
        """a condition whose later operands may raise -> code of type res bool (lazy and / or)"""
        if isinstance(n, ast.BoolOp):
            first, rest = n.values[0], n.values[1:]
            tail = rest[0] if len(rest) == 1 else ast.BoolOp(op=n.op, values=rest)
            pre = []
            c = self.cond(first, env, pre)
            t = self.cond_res(tail, env)
            body = ("if %s then %s else ROk false" % (c, t)) if isinstance(n.op, ast.And) else ("if %s then ROk true else %s" % (c, t))
            return self.rwrap(pre, body)
        pre = []
        c = self.cond(n, env, pre)
        return self.rwrap(pre, "ROk %s" % c)

    def rwrap(self, pre, body):
        out = ""
        for x, c in pre: out += "rbind (%s) (fun %s => " % (c, self.lam(x))
        return "(" + out + body + ")" * len(pre) + ")"

    # ------------------------------------------------------------ expressions
    def expr(self, n, env, pre, want=None):
        E = lambda x, w=None: self.expr(x, env, pre, w)
        nm = self.name_of(n)
        if nm is not None:
            return self.var(n, nm, env)
        if isinstance(n, ast.Constant) or const_int(n) is not None:
            iv = const_int(n)
            if iv is not None:
                if want == CELL: return "(CInt %s)" % zlit(iv), CELL
                return zlit(iv), INT
            if n.value is None: return "None", NONE
            if n.value is True: return "true", BOOL
            if n.value is False: return "false", BOOL
            if isinstance(n.value, str):
                if want == CELL:
                    if n.value == "": return "empty_str", CELL
                    self.fail(n, "string constant as a cell")
                if n.value not in STRS: self.fail(n, "string constant not in the string table")
                return STRS[n.value], STR
            self.fail(n, "constant")
        if isinstance(n, ast.Attribute) and n.attr == "value" and isinstance(n.value, ast.Attribute) and is_name(n.value.value, "NodeAttr"):
            if n.value.attr == "TIME": return "k_time", STR
            self.fail(n, "NodeAttr member")
        if isinstance(n, ast.JoinedStr):
            return "tt", MSG           # a message: only its presence in a list matters
        if isinstance(n, ast.Tuple):
            wants = want[1] if is_k(want, "tuple") and len(want[1]) == len(n.elts) else [None] * len(n.elts)
            xs = [self.coerce(*E(e, w), w, e, pre) for e, w in zip(n.elts, wants)]
            if len(xs) < 2: self.fail(n, "tuple")
            return "(%s)" % ", ".join(c for c, _ in xs), T(*[t for _, t in xs])
        if isinstance(n, ast.List):
            ew = want[1] if is_k(want, "list") else None
            ty = "?"
            cs = []
            for e in n.elts:
                c, t = E(e, ew)
                ty = unify(ty, t)
                if ty is None: self.fail(n, "list literal of mixed types")
                cs.append(c)
            return "[%s]" % "; ".join(cs), L(ty)
        if isinstance(n, ast.Dict):
            return self.dict_literal(n, env, pre, want)
        if isinstance(n, ast.UnaryOp):
            if isinstance(n.op, ast.Not):
                return "(negb %s)" % self.cond(n.operand, env, pre), BOOL
            if isinstance(n.op, ast.Invert):
                c, t = E(n.operand)
                if t == MASK: return "(mask_not %s)" % c, MASK
            self.fail(n, "unary operator")
        if isinstance(n, ast.BoolOp):
            op = "&&" if isinstance(n.op, ast.And) else "||"
            cs = [self.cond(n.values[0], env, pre)] + [self.cond(v, env, None) for v in n.values[1:]]
            return "(%s)" % (" %s " % op).join(cs), BOOL
        if isinstance(n, ast.BinOp):
            return self.binop(n, env, pre)
        if isinstance(n, ast.Compare):
            return self.compare(n, env, pre)
        if isinstance(n, ast.IfExp):
            if same_ast(n, SOURCE_FRAME):
                c, t = E(n.orelse.func.value)
                if t == FRAME: return "(pd_source_frame %s)" % c, FRAME
                self.fail(n, "source of type %r" % (t,))
            c = self.cond(n.test, env, pre)
            (a, at), (b, bt) = self.expr(n.body, env, None, want), self.expr(n.orelse, env, None, want)
            u = unify(at, bt)
            if u is None: self.fail(n, "conditional expression of %r and %r" % (at, bt))
            return "(if %s then %s else %s)" % (c, a, b), u
        if isinstance(n, ast.Subscript):
            return self.subscript(n, env, pre)
        if isinstance(n, ast.Attribute):
            if n.attr == "columns":
                c, t = E(n.value)
                if t == FRAME: return "(pd_columns %s)" % c, L(STR)
            if n.attr == "is_unique":
                c, t = E(n.value)
                if t == SERIES: return "(pd_is_unique %s)" % c, BOOL
            if n.attr == "ndim":
                c, t = E(n.value)
                if t == ARR2: return "(np_ndim %s)" % c, INT
            if n.attr == "axis_names" and is_name(n.value, "self"):
                return self.call_translated(n, "axis_names", [], env, pre)[0]
            self.fail(n, "attribute")
        if isinstance(n, ast.ListComp):
            return self.listcomp(n, env, pre)
        if isinstance(n, ast.DictComp):
            return self.dictcomp(n, env, pre)
        if isinstance(n, ast.Call):
            return self.call(n, env, pre, want)
        self.fail(n, "expression")

    def dict_literal(self, n, env, pre, want):
        if not n.keys:
            return "[]", (want if (is_k(want, "dict") or want == CELLMAP) else D("?"))
        if any(k is None or not const_str(k) for k in n.keys): self.fail(n, "dict literal keys")
        ks = [k.value for k in n.keys]
        if ks == ["values", "missing"]:
            v, vt = self.expr(n.values[0], env, pre)
            v, vt = self.coerce(v, vt, VALS, n.values[0], pre)
            m, mt = self.expr(n.values[1], env, pre)
            m, mt = self.coerce(m, mt, O(MASK), n, pre)
            self.note_stored(n.values, env)
            return "(mk_prop %s %s)" % (v, m), PROPD
        if ks == IMG_ORDER:
            want_t = [META, IDS, EDGES, None, None]
            cs, ts = [], []
            for v, w in zip(n.values, want_t):
                c, t = self.expr(v, env, pre)
                if w is not None: c, t = self.coerce(c, t, w, v, pre)
                cs.append(c); ts.append(t)
            p = unify(ts[3], ts[4])
            if p is None or not is_k(p, "dict"): self.fail(n, "node_props / edge_props of types %r, %r" % (ts[3], ts[4]))
            self.note_stored(n.values, env)
            return "(mk_img %s)" % " ".join(cs), IMG(p)
        self.fail(n, "dict literal")

    def note_stored(self, nodes, env):
        """variables stored into a container are frozen"""
        for v in nodes:
            nm = self.name_of(v)
            if nm is not None and nm in env.vars and mutable(env.vars[nm]):
                env.frozen.add(nm)

    def binop(self, n, env, pre):
        if isinstance(n.op, ast.Mult) and isinstance(n.left, ast.List) and len(n.left.elts) == 1 \
                and isinstance(n.left.elts[0], ast.Constant) and n.left.elts[0].value == 1.0 and isinstance(n.left.elts[0].value, float):
            c, t = self.expr(n.right, env, pre)
            c, t = self.unopt(c, t, pre, n)
            if t == INT: return "(scale_ones %s)" % c, SCALE
            self.fail(n, "[1.0] * %r" % (t,))
        (a, at), (b, bt) = self.expr(n.left, env, pre), self.expr(n.right, env, pre)
        if isinstance(n.op, (ast.Add, ast.Sub)):
            a, at = self.unopt(a, at, pre, n); b, bt = self.unopt(b, bt, pre, n)
            if at == INT and bt == INT: return "(%s %s %s)" % (a, "+" if isinstance(n.op, ast.Add) else "-", b), INT
        if isinstance(n.op, ast.BitAnd) and at == MASK and bt == MASK:
            return "(mask_and %s %s)" % (a, b), MASK
        self.fail(n, "binary operator on %r and %r" % (at, bt))

    def compare(self, n, env, pre):
        if len(n.ops) != 1: self.fail(n, "comparison chain")
        op, l, r = n.ops[0], n.left, n.comparators[0]
        if isinstance(op, (ast.Is, ast.IsNot)):
            if not (isinstance(r, ast.Constant) and r.value is None): self.fail(n, "is")
            c, t = self.expr(l, env, pre)
            if is_k(t, "opt"): b = "(is_some %s)" % c
            elif t == SRC: return (("(negb (src_is_none %s))" if isinstance(op, ast.IsNot) else "(src_is_none %s)") % c), BOOL
            elif t == NONE: b = "false"
            else: self.fail(n, "`is None` on a value of type %r" % (t,))
            return (b if isinstance(op, ast.IsNot) else "(negb %s)" % b), BOOL
        if isinstance(op, (ast.In, ast.NotIn)):
            neg = (lambda c: "(negb %s)" % c) if isinstance(op, ast.NotIn) else (lambda c: c)
            if isinstance(r, ast.Attribute) and r.attr == "columns":
                (kc, kt), (dc, dt) = self.expr(l, env, pre), self.expr(r.value, env, pre)
                if kt == STR and dt == FRAME: return neg("(haskey %s %s)" % (kc, dc)), BOOL
                self.fail(n, "in .columns")
            if isinstance(r, ast.Subscript) and isinstance(r.value, ast.Attribute) and r.value.attr == "nodes":
                (kc, kt), (gc, gt), (xc, xt) = self.expr(l, env, pre), self.expr(r.value.value, env, pre), self.expr(r.slice, env, pre)
                if kt == STR and gt == NODES and xt == INT: return neg("(nx_node_has_attr %s %s %s)" % (gc, xc, kc)), BOOL
                self.fail(n, "in G.nodes[n]")
            (kc, kt), (dc, dt) = self.expr(l, env, pre), self.expr(r, env, pre)
            if is_k(dt, "dict") and kt == STR: return neg("(haskey %s %s)" % (kc, dc)), BOOL
            if is_k(dt, "list") and kt in (STR, INT) and unify(dt[1], kt) is not None: return neg("(memz %s %s)" % (kc, dc)), BOOL
            self.fail(n, "membership of %r in %r" % (kt, dt))
        if isinstance(op, (ast.Eq, ast.NotEq)):
            neg = (lambda c: "(negb %s)" % c) if isinstance(op, ast.NotEq) else (lambda c: c)
            # values.ndim == 2
            if isinstance(l, ast.Attribute) and l.attr == "ndim" and const_int(r) == 2:
                c, t = self.expr(l.value, env, pre)
                if t == VALS: return neg("(np_ndim_is2 %s)" % c), BOOL
            if isinstance(r, ast.List) and not r.elts:
                a, at = self.expr(l, env, pre)
                if at == SRC: return neg("(src_eq_nil %s)" % a), BOOL
                self.fail(n, "comparison with []")
            (a, at), (b, bt) = self.expr(l, env, pre), self.expr(r, env, pre)
            if at == bt and at in (INT, STR): return neg("(%s =? %s)" % (a, b)), BOOL
            if at == INT and bt == O(INT): return neg("(py_eq_int_opt %s %s)" % (a, b)), BOOL
            if at == O(INT) and bt == INT: return neg("(py_eq_int_opt %s %s)" % (b, a)), BOOL
            if at == CELL and const_int(r) is not None and isinstance(op, ast.NotEq): return "(cell_ne_int %s %s)" % (a, b), BOOL
            if at == IDS and bt == INT and isinstance(op, ast.Eq): return "(np_eq_mask %s %s)" % (a, b), MASK
            self.fail(n, "comparison of %r and %r" % (at, bt))
        if isinstance(op, (ast.Lt, ast.LtE, ast.Gt, ast.GtE)):
            (a, at), (b, bt) = self.expr(l, env, pre), self.expr(r, env, pre)
            sym = {ast.Lt: "<?", ast.LtE: "<=?", ast.Gt: ">?", ast.GtE: ">=?"}[type(op)]
            if at == INT and bt == INT: return "(%s %s %s)" % (a, sym, b), BOOL
            self.fail(n, "ordering of %r and %r" % (at, bt))
        self.fail(n, "comparison operator")

    def subscript(self, n, env, pre):
        v, s = n.value, n.slice
        if isinstance(v, ast.Attribute) and v.attr == "shape" and const_int(s) in (0, 1):
            c, t = self.expr(v.value, env, pre)
            if t == ARR2 and const_int(s) == 0: return "(np_shape0 %s)" % c, INT
            if t == VALS and const_int(s) == 1: return "(np_shape1 %s)" % c, INT
            self.fail(n, "shape component of %r" % (t,))
        vc, vt = self.expr(v, env, pre)
        vc, vt = self.unopt(vc, vt, pre, n)
        if is_k(vt, "img"):
            if const_str(s) and s.value in IMG_FIELDS:
                ft = {"metadata": META, "node_ids": IDS, "edge_ids": EDGES, "node_props": vt[1], "edge_props": vt[1]}[s.value]
                return "(%s %s)" % (IMG_FIELDS[s.value], vc), ft
            self.fail(n, "InMemoryGeff key")
        if vt == PROPD and const_str(s, "values"): return "(p_vals %s)" % vc, VALS
        if vt == IPROP and const_str(s, "values"): return vc, IDS
        if is_k(vt, "dict"):
            kc, kt = self.expr(s, env, pre)
            if kt != STR: self.fail(n, "dict key of type %r" % (kt,))
            return self.raising(pre, n, "dict_get %s %s" % (kc, vc)), vt[1]
        sc, st = self.expr(s, env, pre)
        if vt == IDS and st == MASK: return "(np_bool_index %s %s)" % (vc, sc), IDS
        if vt == ARR2 and st == INT: return "(np_getitem %s %s)" % (vc, sc), IDS
        self.fail(n, "subscript of %r by %r" % (vt, st))

    # ------------------------------------------------------------ comprehensions
    def comp_head(self, n, env, pre):
        if len(n.generators) != 1: self.fail(n, "nested comprehension")
        g = n.generators[0]
        if g.is_async or len(g.ifs) > 1: self.fail(n, "comprehension shape")
        ic, it = self.expr(self.as_iterable(g.iter), env, pre)
        pat, binds = self.pattern(g.target, self.elem(it, g.iter), env)
        self.new_names(n, binds, env)
        e2 = env.copy()
        for x, t in binds: e2.vars[x] = t
        c = self.cond(g.ifs[0], e2, None) if g.ifs else None
        return ic, self.lam(pat), e2, c

    def as_iterable(self, n):
        """a tuple of string constants used as an iterable is the list of them"""
        if isinstance(n, ast.Tuple) and n.elts and all(const_str(e) for e in n.elts):
            return ast.copy_location(ast.List(elts=n.elts, ctx=ast.Load()), n)
        return n

    def listcomp(self, n, env, pre):
        ic, pat, e2, c = self.comp_head(n, env, pre)
        p2 = []
        ec, et = self.expr(n.elt, e2, p2)
        if mutable(et) and self.name_of(n.elt) is not None: self.fail(n, "comprehension collecting mutable variables")
        if not p2:
            if c is None: return "(map (fun %s => %s) %s)" % (pat, ec, ic), L(et)
            return "(py_listcomp (fun %s => %s) (fun %s => %s) %s)" % (pat, ec, pat, c, ic), L(et)
        f = "(fun %s => %s)" % (pat, self.rwrap(p2, "ROk %s" % ec))
        code = "mapM %s %s" % (f, ic) if c is None else "mapM_if (fun %s => %s) %s %s" % (pat, c, f, ic)
        return self.raising(pre, n, code), L(et)

    def dictcomp(self, n, env, pre):
        ic, pat, e2, c = self.comp_head(n, env, pre)
        g = n.generators[0]
        if c is not None and is_name(g.target) and is_name(n.key, g.target.id):
            p2 = []
            vc, vt = self.expr(n.value, e2, p2)
            if not mutable(vt) or vt == SRC:
                code = "dictM_if (fun %s => %s) (fun %s => %s) %s []" % (pat, c, pat, self.rwrap(p2, "ROk %s" % vc), ic)
                return self.raising(pre, n, code), D(vt)
        if c is not None: self.fail(n, "filtered dict comprehension")
        (kc, kt), (vc, vt) = self.expr(n.key, e2, None), self.expr(n.value, e2, None)
        if kt == CELL and vt == INT:
            return "(cellmap_comp (fun %s => (%s, %s)) %s)" % (pat, kc, vc, ic), CELLMAP
        self.fail(n, "dict comprehension of %r: %r" % (kt, vt))

    # ------------------------------------------------------------ calls
    def call_translated(self, node, key, args, env, pre, keywords=(), discard=False):
        """call of a function of FUNCS: binds its result; returns ((code, type), None).  The variables the
        callee modifies in place are re-bound by the pattern (shadowing) and their types reset in env."""
        if key not in self.done: self.fail(node, "call of %s before (or inside) its definition" % key)
        cfg = self.funcs[key]
        given = {}
        names = [p for p, _ in cfg["params"]]
        if len(args) > len(names): self.fail(node, "too many arguments in a call of %s" % key)
        for a, pn in zip(args, names): given[pn] = a
        for kw in keywords:
            if kw.arg is None or kw.arg not in names or kw.arg in given: self.fail(node, "keyword argument of %s" % key)
            given[kw.arg] = kw.value
        cs, outs, seen, post = [], [], [], []
        for a, ty in cfg["selfattrs"]:
            nm = "self." + a
            if nm in self.static and self.static[nm] is None and is_k(ty, "opt"):
                cs.append("None")                      # specialised in the caller: the attribute is None
                if nm in self.done[key]: outs.append((None, "_"))
                continue
            if nm not in self.selfattrs: self.fail(node, "callee uses self.%s, which the caller does not declare" % a)
            c, t = self.var(node, nm, env)
            c, t = self.coerce(c, t, ty, node, pre)
            cs.append(c)
            if nm in self.done[key]: outs.append((nm, ty))
        for nm, v in cfg.get("static", {}).items():
            if nm.startswith("self.") and self.static.get(nm, "<unset>") != v:
                self.fail(node, "callee is specialised to %s = %r, the caller is not" % (nm, v))
        for pn, pt in cfg["params"]:
            if pn in cfg.get("static", {}):
                if pn in given:
                    k, v = self.static_value(given[pn])
                    if not k or v != cfg["static"][pn] or type(v) is not type(cfg["static"][pn]):
                        self.fail(node, "parameter %s of %s is specialised to %r" % (pn, key, cfg["static"][pn]))
                elif pn not in cfg.get("defaults", {}): self.fail(node, "missing argument %s" % pn)
                continue
            if pn not in given:
                if pn not in cfg.get("defaults", {}): self.fail(node, "missing argument %s" % pn)
                a = ast.copy_location(ast.Constant(value=cfg["defaults"][pn]), node)
            else:
                a = given[pn]
            c, t = self.expr(a, env, pre)
            c, t = self.coerce(c, t, pt, a, pre)
            cs.append(c)
            nm = self.name_of(a)
            if nm is not None and mutable(pt):
                if nm in seen: self.fail(node, "a mutable variable occurs twice in the call")
                seen.append(nm)
            if pn in self.done[key]:
                if nm is not None:
                    self.check_mutation(a, nm, env)
                    outs.append((nm, pt))
                elif isinstance(a, ast.Subscript) and const_str(a.slice) and a.slice.value in ("node_props", "edge_props") \
                        and self.name_of(a.value) is not None and is_k(env.vars.get(self.name_of(a.value)), "img"):
                    base = self.name_of(a.value)          # f(D["node_props"]) modifies the dict inside D
                    self.check_mutation(a, base, env)
                    tmpn = "w%d" % (len(pre) + 1)
                    outs.append((None, tmpn))
                    post.append((cn(base), "ROk (img_set_%s %s %s)" % (a.slice.value, cn(base), tmpn)))
                else:
                    self.fail(a, "argument at a modified position must be a variable")
        x = "_" if discard else self.fresh()
        if cfg.get("returns_param"):
            pat = x
        else:
            pat = "(%s)" % ", ".join([x] + [(cn(o) if o is not None else ty) for o, ty in outs]) if outs else x
        self.need(pre, node)
        pre.append((pat, "%s %s" % (cfg["gen"], " ".join(cs)) if cs else cfg["gen"]))
        pre.extend(post)
        for o, ty in outs:
            if o is not None: self.rebind(node, env, o, ty)
        return (x, cfg["ret"]), None

    def call(self, n, env, pre, want=None):
        E = lambda x, w=None: self.expr(x, env, pre, w)
        f = n.func
        if is_name(f):
            fn = f.id
            if fn in env.vars: self.fail(n, "call of a local variable")
            k = self.callee_key(n)
            if k is not None: return self.call_translated(n, k, n.args, env, pre, n.keywords)[0]
            if fn == "cast" and plain(n, 2): return E(n.args[1], want)
            if fn == "len" and plain(n, 1):
                c, t = E(n.args[0])
                if t == VALS: return "(np_len %s)" % c, INT
                if is_k(t, "list"): return "(py_len %s)" % c, INT
                self.fail(n, "len of %r" % (t,))
            if fn == "range" and plain(n, 1):
                c, t = E(n.args[0])
                if t == INT: return "(py_range %s)" % c, L(INT)
            if fn == "next" and plain(n, 1) and plain(n.args[0], 1) and is_name(n.args[0].func, "iter"):
                c, t = E(n.args[0].args[0])
                if is_k(t, "list"): return self.raising(pre, n, "py_next_iter %s" % c), t[1]
            if fn == "zip" and plain(n, 2, ("strict",)) and isinstance(n.keywords[0].value, ast.Constant) and n.keywords[0].value.value is True:
                (a, at), (b, bt) = E(n.args[0]), E(n.args[1])
                if (is_k(at, "list") or at == ARR1C) and (is_k(bt, "list") or bt == ARR1C):
                    return "(py_zip_strict %s %s)" % (a, b), L(T(self.elem(at, n), self.elem(bt, n)))
            if fn == "enumerate" and plain(n, 1, ("start",)):
                (a, at), (k, kt) = E(n.args[0]), E(n.keywords[0].value)
                if is_k(at, "list") and kt == INT: return "(py_enumerate_from %s %s)" % (k, a), L(T(INT, at[1]))
            if fn == "dict" and plain(n, 1):
                c, t = E(n.args[0])
                if is_k(t, "dict") and not mutable(t[1]): return c, t      # a fresh copy; the values are immutable
            if fn == "int" and plain(n, 1):
                c, t = E(n.args[0])
                if t == INT: return "(py_int %s)" % c, INT
                if t == CELL: return self.raising(pre, n, "cell_int %s" % c), INT
            if fn in ("all", "any") and plain(n, 1) and isinstance(n.args[0], ast.GeneratorExp):
                ic, pat, e2, c = self.comp_head(n.args[0], env, pre)
                if c is not None: self.fail(n, "filtered generator")
                return "(py_%s (fun %s => %s) %s)" % (fn, pat, self.cond(n.args[0].elt, e2, None), ic), BOOL
            if fn == "isinstance" and plain(n, 2) and is_name(n.args[1], "dict"):
                c, t = E(n.args[0])
                if t == FEATD: return "true", BOOL
            if fn == "get_default_key_to_feature_mapping" and plain(n, 1, ("display_name",)) \
                    and isinstance(n.keywords[0].value, ast.Constant) and n.keywords[0].value.value is False:
                c, t = E(n.args[0])
                c, t = self.unopt(c, t, pre, n)
                if t == INT: return "(default_features %s)" % c, FEATS
            if fn == "SolutionTracks" and plain(n, 0, ("graph", "segmentation", "pos_attr", "time_attr", "ndim", "scale")) \
                    and const_str(n.keywords[2].value, "pos") and same_ast(n.keywords[3].value, "self.TIME_ATTR"):
                cs = []
                for kw, w in zip([n.keywords[0], n.keywords[1], n.keywords[4], n.keywords[5]], [NXGRAPH, O(ARR2), O(INT), O(SCALE)]):
                    c, t = E(kw.value)
                    c, t = self.coerce(c, t, w, kw.value, pre)
                    cs.append(c)
                return "(mk_tracks %s)" % " ".join(cs), TRACKS
            if fn == "set" and plain(n, 0): return "[]", SETS
            if fn == "list" and plain(n, 1):
                c, t = E(n.args[0])
                if t == SETS: return "(py_list_of_set %s)" % c, L(STR)
            if fn == "read_to_memory" and plain(n, 1, ("node_props", "edge_props")):
                d, dt = E(n.args[0])
                a, at = E(n.keywords[0].value)
                b, bt = E(n.keywords[1].value)
                b, bt = self.coerce(b, bt, O(L(STR)), n, pre)
                if dt == DIR and at == L(STR): return "(geff_read_to_memory %s %s %s)" % (d, a, b), IMG(PROPS)
            if fn == "load_segmentation" and plain(n, 1):
                c, t = E(n.args[0])
                if t == ARR2: return "(io_load_segmentation %s)" % c, ARR2
            if fn == "create_or_update_metadata" and plain(n, 0, ("metadata", "is_directed")) \
                    and isinstance(n.keywords[0].value, ast.Constant) and n.keywords[0].value.value is None \
                    and isinstance(n.keywords[1].value, ast.Constant) and n.keywords[1].value.value is True:
                return "geff_new_metadata", META
            if fn == "create_props_metadata" and plain(n, 0, ("identifier", "prop_data")):
                (a, at), (b, bt) = E(n.keywords[0].value), E(n.keywords[1].value)
                if at == STR and bt == PROPD: return "(geff_props_metadata %s %s)" % (a, b), PROPMETA
            if fn == "add_or_update_props_metadata" and plain(n, 2, ("c_type",)) and const_str(n.keywords[0].value, "node"):
                (a, at), (b, bt) = E(n.args[0]), E(n.args[1])
                if at == META and bt == L(PROPMETA): return "(geff_add_props_metadata %s %s)" % (a, b), META
            self.fail(n, "call of %s" % fn)
        if not isinstance(f, ast.Attribute): self.fail(n, "call")
        m = f.attr
        # ---- module functions
        if is_name(f.value, "np"):
            if m == "array" and plain(n, 1):
                c, t = E(n.args[0])
                if t == SERIES: return "(np_array1 %s)" % c, ARR1C
                if t == EDGES: return "(np_array_pairs %s)" % c, EDGES
                self.fail(n, "np.array of %r" % (t,))
            if m == "empty" and same_ast(n, "np.empty((0, 2), dtype=np.int64)"): return "np_empty_pairs", EDGES
            if m == "column_stack" and plain(n, 1):
                c, t = E(n.args[0])
                if t == L(VALS): return "(column_stack %s)" % c, VALS
            if m == "zeros" and plain(n, 1, ("dtype",)) and mod_attr(n.keywords[0].value, "np", "bool_"):
                c, t = E(n.args[0])
                if t == INT: return "(np_zeros_bool %s)" % c, MASK
            if m == "array_equal" and plain(n, 2):
                (a, at), (b, bt) = E(n.args[0]), E(n.args[1])
                if at == IDS and bt == IDS: return "(np_array_equal %s %s)" % (a, b), BOOL
            if m == "isin" and plain(n, 2):
                (a, at), (b, bt) = E(n.args[0]), E(n.args[1])
                if at == IDS and bt == IDS: return "(np_isin %s %s)" % (a, b), MASK
            if m == "unique" and plain(n, 1):
                c, t = E(n.args[0])
                if t == IDS: return "(np_unique %s)" % c, IDS
            if m == "append" and plain(n, 2):
                (a, at), (b, bt) = E(n.args[0]), E(n.args[1])
                if at == IDS and bt == INT: return "(np_append %s %s)" % (a, b), IDS
            if m == "asarray" and plain(n, 1):
                c, t = E(n.args[0])
                if t in (IDS, ARR2): return "(np_asarray %s)" % c, t
            self.fail(n, "call of np.%s" % m)
        if is_name(f.value, "pd"):
            if m == "isna" and plain(n, 1):
                c, t = E(n.args[0])
                if t == CELL: return "(pd_isna %s)" % c, BOOL
            if m == "DataFrame" and plain(n, 1):
                c, t = E(n.args[0])
                if unify(t, FRAME) is not None: return "(pd_DataFrame %s)" % c, FRAME
            self.fail(n, "call of pd.%s" % m)
        if same_ast(f, "pd.api.types.is_integer_dtype") and plain(n, 1):
            c, t = E(n.args[0])
            if t == SERIES: return "(pd_is_integer_dtype %s)" % c, BOOL
            self.fail(n, "is_integer_dtype of %r" % (t,))
        if is_name(f.value, "geff"):
            if m == "construct" and len(n.args) == 0 and len(n.keywords) == 1 and n.keywords[0].arg is None:
                c, t = E(n.keywords[0].value)
                c, t = self.unopt(c, t, pre, n)
                if t == IMG(PROPS): return "(geff_construct %s)" % c, NXGRAPH
            self.fail(n, "call of geff.%s" % m)
        if is_name(f.value, "self"):
            key = self.method_key(m)
            if key is not None:
                return self.call_translated(n, key, n.args, env, pre, n.keywords)[0]
            self.fail(n, "call of self.%s" % m)
        # ---- methods
        oc, ot = E(f.value)
        if m == "copy" and plain(n, 0):
            if ot == SERIES: return "(pd_copy %s)" % oc, SERIES
            if ot == VALS: return "(np_copy %s)" % oc, VALS
        if m == "values" and plain(n, 0) and is_k(ot, "dict"): return "(py_values %s)" % oc, L(ot[1])
        if m == "items" and plain(n, 0) and is_k(ot, "dict"): return oc, ("items", ot[1])
        if m == "keys" and plain(n, 0) and is_k(ot, "dict"): return "(keys %s)" % oc, L(STR)
        if m == "get" and is_k(ot, "dict") and len(n.args) == 2 and not n.keywords:
            kc, kt = E(n.args[0])
            dc, dt = E(n.args[1], ot[1])
            dc, dt = self.coerce(dc, dt, ot[1], n, pre)
            if kt == STR: return "(getd %s %s %s)" % (kc, oc, dc), ot[1]
        if m == "get" and is_k(ot, "dict") and plain(n, 1):
            kc, kt = E(n.args[0])
            if kt == STR: return "(lookup %s %s)" % (kc, oc), O(ot[1])
        if m == "get" and ot == FEATD and plain(n, 2) and const_str(n.args[0], "spatial_dims") \
                and isinstance(n.args[1], ast.Constant) and n.args[1].value is False:
            return "(feat_spatial_dims %s)" % oc, BOOL
        if m == "get" and ot == FEATD and plain(n, 2) and const_str(n.args[0], "display_name"):
            return "tt", OPAQUE
        if m == "get" and ot == PROPD and plain(n, 1) and const_str(n.args[0], "missing"):
            return "(p_miss %s)" % oc, O(MASK)
        if m == "pop" and plain(n, 1) and is_k(ot, "dict"):
            d = self.name_of(f.value)
            kc, kt = E(n.args[0])
            if d is None or kt != STR: self.fail(n, "pop")
            self.check_mutation(n, d, env)
            if d in env.views: self.fail(n, "pop on a view")
            x = self.fresh()
            self.raising(pre, n, "dict_pop %s %s" % (kc, oc), "(%s, %s)" % (x, cn(d)))
            return x, ot[1]
        if m == "unique" and plain(n, 0) and ot == SERIES: return "(pd_unique %s)" % oc, SERIES
        if m == "notna" and plain(n, 0) and ot == SERIES: return "(pd_notna %s)" % oc, MASK
        if m == "any" and plain(n, 0) and ot == MASK: return "(mask_any %s)" % oc, BOOL
        if m == "all" and plain(n, 0) and ot == MASK: return "(np_all %s)" % oc, BOOL
        if m == "isin" and plain(n, 1) and ot == SERIES:
            ac, at = E(n.args[0], SERIES)
            if at == CELLMAP: return "(pd_isin_keys %s %s)" % (oc, ac), MASK
            if at == SERIES: return "(pd_isin %s %s)" % (oc, ac), MASK
        if m == "map" and plain(n, 1):
            if ot == FRAME and same_ast(n.args[0], LAMBDA_NAN_TO_NONE): return "(pd_nan_to_none %s)" % oc, FRAME
            if ot == SERIES and not isinstance(n.args[0], ast.Lambda):
                ac, at = E(n.args[0])
                if at == CELLMAP: return "(pd_map_dict %s %s)" % (oc, ac), SERIES
        if m == "apply" and plain(n, 1) and ot == SERIES and same_ast(n.args[0], LAMBDA_LITERAL_EVAL):
            return "(pd_apply_literal_eval %s)" % oc, SERIES
        if m == "astype" and plain(n, 1) and ot == SERIES and same_ast(n.args[0], "pd.Int64Dtype()"):
            return "(pd_astype_Int64 %s)" % oc, SERIES
        if m == "to_dict" and plain(n, 0, ("orient",)) and const_str(n.keywords[0].value, "list") and ot == FRAME:
            return "(pd_to_dict_list %s)" % oc, FRAME
        if m == "compute" and plain(n, 0) and ot == ARR2: return "(da_compute %s)" % oc, ARR2
        if m == "nodes" and plain(n, 0) and ot == NODES: return "(nx_nodes %s)" % oc, L(INT)
        self.fail(n, "method call .%s on %r" % (m, ot))

    def method_key(self, m):
        if m in self.cfg.get("dispatch", {}): return self.cfg["dispatch"][m]
        for k, cfg in self.funcs.items():
            if cfg["name"] == m and cfg.get("cls") is not None and cfg["cls"] in (self.cfg.get("cls"), "TracksBuilder"):
                return k
        return None

    # ------------------------------------------------------------ syntactic analyses
    def is_doc(self, s):
        return isinstance(s, ast.Expr) and isinstance(s.value, ast.Constant) and isinstance(s.value.value, str)

    def is_skipped(self, s):
        if self.is_doc(s): return True
        if isinstance(s, ast.Expr) and isinstance(s.value, ast.Call) and is_name(s.value.func, "warn"): return True
        if isinstance(s, ast.ImportFrom) and ast.unparse(s) == "from funtracks.import_export._validation import validate_graph_seg_match":
            return True
        return False

    def static_value(self, t):
        """value of an expression that is known at translation time -> (True, value), else (False, None)"""
        if isinstance(t, ast.Constant) and (t.value is None or isinstance(t.value, bool)): return True, t.value
        if is_name(t) and t.id in self.static: return True, self.static[t.id]
        if isinstance(t, ast.Attribute) and is_name(t.value, "self") and ("self." + t.attr) in self.static: return True, self.static["self." + t.attr]
        if isinstance(t, ast.Compare) and len(t.ops) == 1 and isinstance(t.ops[0], (ast.Is, ast.IsNot)) \
                and isinstance(t.comparators[0], ast.Constant) and t.comparators[0].value is None:
            k, v = self.static_value(t.left)
            if k and (v is None or isinstance(v, bool)): return True, ((v is None) if isinstance(t.ops[0], ast.Is) else (v is not None))
        if isinstance(t, ast.UnaryOp) and isinstance(t.op, ast.Not):
            k, v = self.static_value(t.operand)
            if k and isinstance(v, bool): return True, (not v)
        return False, None

    def static_test(self, t):
        """a test decided at translation time (static parameters / attributes) -> python bool, else None"""
        if isinstance(t, ast.Constant): return None
        k, v = self.static_value(t)
        return v if (k and isinstance(v, bool)) else None

    def root_name(self, t):
        while isinstance(t, ast.Subscript): t = t.value
        return self.name_of(t)

    def callee_key(self, c):
        if isinstance(c, ast.Call):
            if is_name(c.func):
                for k, cfg in self.funcs.items():
                    if cfg.get("cls") is None and cfg["name"] == c.func.id: return k
            if isinstance(c.func, ast.Attribute) and is_name(c.func.value, "self"): return self.method_key(c.func.attr)
        if isinstance(c, ast.Attribute) and is_name(c.value, "self") and c.attr == "axis_names": return "axis_names"
        return None

    def effects(self, stmts):
        """names (variables, self attributes) assigned or modified in place by the statements, in order"""
        out = []
        def add(x, inplace=True):
            if x is not None and x not in out: out.append(x)
            if inplace and x in self.viewmap: add(self.viewmap[x])
        def tgt(t):
            if isinstance(t, ast.Tuple):
                for e in t.elts: tgt(e)
            elif isinstance(t, ast.Subscript): add(self.root_name(t))
            elif isinstance(t, ast.Attribute) and not is_name(t.value, "self"): add(self.name_of(t.value))
            else: add(self.name_of(t), False)
        def calls(e):
            for c in ast.walk(e):
                k = self.callee_key(c)
                if k is not None and k in self.done:
                    cfg = self.funcs[k]
                    for m in self.done[k]:
                        if m.startswith("self."): add(m)
                    if isinstance(c, ast.Call):
                        params = [p for p in cfg["params"] if p[0] not in cfg.get("static", {})]
                        for a, (pn, _) in zip(c.args, cfg["params"]):
                            if pn in self.done[k]: add(self.root_name(a))
                if isinstance(c, ast.Call) and isinstance(c.func, ast.Attribute) and c.func.attr in ("pop", "append", "extend", "update", "add"):
                    add(self.name_of(c.func.value))
                if isinstance(c, ast.Call) and is_name(c.func, "relabel_segmentation") and len(c.args) >= 2:
                    add(self.name_of(c.args[1]))
        def walk(ss):
            for s in ss:
                if isinstance(s, ast.Assign):
                    for t in s.targets: tgt(t)
                    calls(s.value)
                elif isinstance(s, ast.AnnAssign):
                    tgt(s.target)
                    if s.value is not None: calls(s.value)
                elif isinstance(s, ast.AugAssign): add(self.root_name(s.target)); calls(s.value)
                elif isinstance(s, ast.Delete):
                    for t in s.targets: tgt(t)
                elif isinstance(s, ast.Expr): calls(s.value)
                elif isinstance(s, ast.If):
                    st = self.static_test(s.test)
                    calls(s.test)
                    if st is not False: walk(s.body)
                    if st is not True: walk(s.orelse)
                elif isinstance(s, ast.For): calls(s.iter); walk(s.body); walk(s.orelse)
                elif isinstance(s, ast.Return):
                    if s.value is not None: calls(s.value)
        walk(stmts)
        return out

    def definite(self, stmts):
        """names certainly assigned (as a whole) when the block falls through"""
        out = set()
        for s in stmts:
            if isinstance(s, (ast.Assign, ast.AnnAssign)):
                for t in (s.targets if isinstance(s, ast.Assign) else [s.target]):
                    for e in (t.elts if isinstance(t, ast.Tuple) else [t]):
                        nm = self.name_of(e)
                        if nm is not None: out.add(nm)
            elif isinstance(s, ast.If) and s.orelse:
                out |= (self.definite(s.body) & self.definite(s.orelse))
        return out

    def terminates(self, stmts):
        if not stmts: return False
        s = stmts[-1]
        if isinstance(s, (ast.Return, ast.Raise, ast.Continue, ast.Break)): return True
        if isinstance(s, ast.If) and s.orelse: return self.terminates(s.body) and self.terminates(s.orelse)
        return False

    def has_transfer(self, stmts, in_loop=False):
        for s in stmts:
            if isinstance(s, ast.Return): return True
            if isinstance(s, (ast.Continue, ast.Break)) and not in_loop: return True
            if isinstance(s, ast.If) and (self.has_transfer(s.body, in_loop) or self.has_transfer(s.orelse, in_loop)): return True
            if isinstance(s, ast.For) and self.has_transfer(s.body, True): return True
        return False

    # ------------------------------------------------------------ bindings and in-place changes
    def rebind(self, node, env, name, ty, keep_view=False):
        if name in RESERVED or name in self.static: self.fail(node, "binding the reserved / static name %s" % name)
        env.vars[name] = ty
        env.frozen.discard(name)
        env.poison.pop(name, None)
        if not keep_view: env.views.pop(name, None)
        for w, (b, _) in list(env.views.items()):
            if b == name and not keep_view:
                env.poison[w] = "it is a view of %s, which was re-bound" % name
                del env.views[w]

    def check_mutation(self, node, name, env):
        if name not in env.vars: self.fail(node, "in-place change of the unknown variable %s" % name)
        if name in env.poison: self.fail(node, "variable %s is unusable here: %s" % (name, env.poison[name]))
        if name in env.frozen: self.fail(node, "in-place change of %s after it was stored into a container" % name)

    def mutate(self, node, env, name, newcode, ty, lets):
        """the object bound to `name` is modified in place; `newcode` is its new value"""
        self.check_mutation(node, name, env)
        lets.append("let %s := %s in" % (cn(name), newcode))
        env.vars[name] = ty
        if name in env.views:
            base, field = env.views[name]
            self.check_mutation(node, base, env)
            lets.append("let %s := img_set_%s %s %s in" % (cn(base), field, cn(base), cn(name)))

    # ------------------------------------------------------------ blocks
    def tup(self, names, env=None, types=None, node=None):
        if not names: return "tt"
        cs = []
        for x in names:
            c = cn(x)
            if env is not None and types is not None and x in types:
                have = env.vars.get(x)
                if have is None: self.fail(node, "variable %s is not assigned on every path" % x)
                c, _ = self.coerce(c, have, types[x], node, None)
            cs.append(c)
        return cs[0] if len(cs) == 1 else "(%s)" % ", ".join(cs)

    def lamtup(self, names):
        if not names: return "_"
        return cn(names[0]) if len(names) == 1 else "'(%s)" % ", ".join(cn(x) for x in names)

    def wrap(self, pre, body, ind, K=None):
        if pre and K is not None and K["pure"]: raise NotPure()
        out = ""
        for x, c in pre: out += "bind (%s) (fun %s =>\n%s" % (c, self.lam(x), ind)
        return out + body + ")" * len(pre)

    def lets(self, ls, ind):
        return "".join(l + "\n" + ind for l in ls)

    def end(self, env, K, node=None):
        if K["kind"] == "fn":
            if self.cfg["ret"] != UNIT: raise Unsupported("%s: function %s can end without `return`" % (self.rel, self.cfg["name"]))
            return "Ret %s" % self.retval("tt", env, node)
        K["record"].append(env)
        t = self.tup(K["vars"], env, K["types"], node)
        return t if K["pure"] else "Cont %s" % t

    def retval(self, code, env, node):
        cs = [code]
        for m in self.mutated:
            c, t = self.var(node, m, env)
            c, _ = self.coerce(c, t, self.decl[m], node, None)
            cs.append(c)
        return cs[0] if len(cs) == 1 else "(%s)" % ", ".join(cs)

    def loopK(self, K, node, what):
        if K["kind"] != "loop": self.fail(node, "%s outside a loop (or inside an if that is merged)" % what)
        return K

    def block(self, stmts, env, K, ind):
        if not stmts: return self.end(env, K)
        s, rest = stmts[0], stmts[1:]
        if self.is_skipped(s): return self.block(rest, env, K, ind)
        if isinstance(s, ast.Continue):
            K2 = self.loopK(K, s, "continue")
            K2["record"].append(env)
            return "Cont %s" % self.tup(K2["vars"], env, K2["types"], s)
        if isinstance(s, ast.Break):
            K2 = self.loopK(K, s, "break")
            K2["record"].append(env)
            return "Brk %s" % self.tup(K2["vars"], env, K2["types"], s)
        if isinstance(s, ast.Return):
            if K["pure"]: raise NotPure()
            if s.value is None:
                if self.cfg["ret"] != UNIT: self.fail(s, "return without value")
                return "Ret %s" % self.retval("tt", env, s)
            pre = []
            if self.cfg.get("returns_param"):
                if self.name_of(s.value) != self.cfg["returns_param"]: self.fail(s, "this function must return its parameter %s" % self.cfg["returns_param"])
                c, t = self.var(s, self.cfg["returns_param"], env)
                c, _ = self.coerce(c, t, self.cfg["ret"], s, pre)
                return self.wrap(pre, "Ret %s" % c, ind)
            nm = self.name_of(s.value)
            if nm is not None and nm in self.decl and mutable(self.decl[nm]): self.fail(s, "returning a mutable parameter")
            c, t = self.expr(s.value, env, pre, self.cfg["ret"])
            c, _ = self.coerce(c, t, self.cfg["ret"], s.value, pre)
            return self.wrap(pre, "Ret %s" % self.retval(c, env, s), ind)
        if isinstance(s, ast.Raise):
            if K["pure"]: raise NotPure()
            e = s.exc
            if not (s.cause is None and isinstance(e, ast.Call) and is_name(e.func) and e.func.id in ("ValueError", "KeyError", "TypeError", "IndexError")
                    and not e.keywords and all(isinstance(a, (ast.Constant, ast.JoinedStr)) for a in e.args)):
                self.fail(s, "raise")
            return "Exn %s" % e.func.id
        if isinstance(s, ast.If): return self.do_if(s, rest, env, K, ind)
        if isinstance(s, ast.For): return self.do_for(s, rest, env, K, ind)
        pre, ls = [], []
        self.simple(s, env, pre, ls)
        if pre and K["pure"]: raise NotPure()
        return self.wrap(pre, self.lets(ls, ind) + self.block(rest, env, K, ind), ind)

    # ------------------------------------------------------------ simple statements
    def fresh_rhs(self, v):
        if isinstance(v, (ast.List, ast.Dict, ast.ListComp, ast.DictComp, ast.Call, ast.IfExp, ast.BinOp, ast.Constant)): return True
        return False

    def simple(self, s, env, pre, ls):
        if isinstance(s, ast.AnnAssign):
            if s.value is None or not s.simple: self.fail(s, "annotation without value")
            return self.assign(s, s.target, s.value, env, pre, ls)
        if isinstance(s, ast.Assign):
            if len(s.targets) != 1: self.fail(s, "chained assignment")
            return self.assign(s, s.targets[0], s.value, env, pre, ls)
        if isinstance(s, ast.AugAssign):
            nm = self.name_of(s.target)
            if nm is not None and isinstance(s.op, ast.BitOr):
                (a, at), (b, bt) = self.var(s, nm, env), self.expr(s.value, env, pre)
                if at == MASK and bt == MASK:
                    return self.mutate(s, env, nm, "np_ior %s %s" % (a, b), MASK, ls)
            self.fail(s, "augmented assignment")
        if isinstance(s, ast.Delete):
            if len(s.targets) != 1 or not isinstance(s.targets[0], ast.Subscript): self.fail(s, "del")
            t = s.targets[0]
            nm = self.name_of(t.value)
            if nm is None: self.fail(s, "del target")
            dc, dt = self.var(s, nm, env)
            kc, kt = self.expr(t.slice, env, pre)
            if not (is_k(dt, "dict") and kt == STR): self.fail(s, "del on %r" % (dt,))
            x = self.raising(pre, s, "dict_del %s %s" % (kc, dc))
            return self.mutate(s, env, nm, x, dt, ls)
        if isinstance(s, ast.Expr) and isinstance(s.value, ast.Call):
            c = s.value
            f = c.func
            if isinstance(f, ast.Attribute) and f.attr == "append" and plain(c, 1):
                nm = self.name_of(f.value)
                if nm is None: self.fail(s, "append target")
                lc, lt = self.var(s, nm, env)
                ec, et = self.expr(c.args[0], env, pre)
                if not is_k(lt, "list") or unify(lt[1], et) is None: self.fail(s, "append of %r to %r" % (et, lt))
                self.note_stored([c.args[0]], env)
                return self.mutate(s, env, nm, "%s ++ [%s]" % (lc, ec), L(unify(lt[1], et)), ls)
            if isinstance(f, ast.Attribute) and f.attr in ("extend", "update", "add") and plain(c, 1):
                nm = self.name_of(f.value)
                if nm is None: self.fail(s, "%s target" % f.attr)
                lc, lt = self.var(s, nm, env)
                ec, et = self.expr(c.args[0], env, pre)
                if f.attr == "extend" and is_k(lt, "list") and is_k(et, "list") and unify(lt[1], et[1]) is not None and not mutable(et[1]):
                    return self.mutate(s, env, nm, "%s ++ %s" % (lc, ec), unify(lt, et), ls)
                if f.attr == "update" and lt == SETS and et == L(STR):
                    return self.mutate(s, env, nm, "py_set_update %s %s" % (lc, ec), SETS, ls)
                if f.attr == "add" and lt == SETS and et == STR:
                    return self.mutate(s, env, nm, "py_set_add %s %s" % (lc, ec), SETS, ls)
                self.fail(s, ".%s of %r on %r" % (f.attr, et, lt))
            if is_name(f, "validate_graph_seg_match") and plain(c, 4):
                cs = []
                for a, w in zip(c.args, [NODES, ARR2, SCALE, L(STR)]):
                    ac, at = self.expr(a, env, pre)
                    ac, at = self.coerce(ac, at, w, a, pre)
                    cs.append(ac)
                self.raising(pre, s, "validate_graph_seg_match %s" % " ".join(cs), "_")
                return
            k = self.callee_key(c)
            if k is not None:
                self.call_translated(c, k, c.args, env, pre, c.keywords, discard=True)
                return
            self.fail(s, "call statement")
        self.fail(s, "statement")

    def assign(self, s, t, v, env, pre, ls):
        # ---- valid, x = validate_..(..)
        if isinstance(t, ast.Tuple) and len(t.elts) == 2 and all(is_name(e) for e in t.elts) and isinstance(v, ast.Call) \
                and is_name(v.func) and v.func.id in STRUCT_VALIDATORS:
            gen, tys = STRUCT_VALIDATORS[v.func.id]
            if not plain(v, len(tys)): self.fail(s, "arguments of %s" % v.func.id)
            cs = []
            for a, w in zip(v.args, tys):
                ac, at = self.expr(a, env, pre)
                ac, at = self.coerce(ac, at, w, a, pre)
                cs.append(ac)
            ls.append("let %s := %s %s in" % (cn(t.elts[0].id), gen, " ".join(cs)))
            self.rebind(s, env, t.elts[0].id, BOOL)
            self.rebind(s, env, t.elts[1].id, OPAQUE)
            return
        if isinstance(t, ast.Tuple):
            c, ty = self.expr(v, env, pre)
            if not (is_k(ty, "tuple") and len(ty[1]) == len(t.elts)): self.fail(s, "unpacking %r" % (ty,))
            names = [self.name_of(e) for e in t.elts]
            if None in names or len(set(names)) != len(names): self.fail(s, "unpacking targets")
            ls.append("let '(%s) := %s in" % (", ".join(cn(x) for x in names), c))
            for x, xt in zip(names, ty[1]):
                if x.startswith("self."):
                    if unify(xt, self.decl[x]) is None and join_type(xt, self.decl[x]) != self.decl[x]: self.fail(s, "type of %s" % x)
                self.rebind(s, env, x, xt)
            return
        nm = self.name_of(t)
        if nm is not None:
            # ---- x = relabel_segmentation(A, G, ids, segs, ts)   (G is modified in place)
            if isinstance(v, ast.Call) and is_name(v.func, "relabel_segmentation") and plain(v, 5):
                cs = []
                for a, w in zip(v.args, [ARR2, NODES, IDS, IDS, IDS]):
                    ac, at = self.expr(a, env, pre)
                    ac, at = self.coerce(ac, at, w, a, pre)
                    cs.append(ac)
                g = self.name_of(v.args[1])
                if g is None: self.fail(s, "the graph argument must be a variable")
                self.check_mutation(s, g, env)
                ls.append("let '(%s, %s) := gen_relabel_segmentation %s in" % (cn(nm), cn(g), " ".join(cs)))
                self.rebind(s, env, nm, ARR2)
                return
            k = self.callee_key(v)
            if k is not None and self.funcs[k].get("returns_param"):
                if not (len(v.args) == 1 and self.name_of(v.args[0]) == nm): self.fail(s, "%s may only be called as x = %s(x)" % (self.funcs[k]["name"], self.funcs[k]["name"]))
            want = self.cfg.get("locals", {}).get(nm)
            src_nm = self.name_of(v)
            c, ty = self.expr(v, env, pre, want)
            if want is not None: c, ty = self.coerce(c, ty, want, v, pre)
            if nm.startswith("self."): c, ty = self.coerce(c, ty, self.decl[nm], v, pre)
            if ty == OPAQUE:
                self.rebind(s, env, nm, OPAQUE)
                return
            if src_nm is not None and mutable(ty) and (src_nm in self.M or nm in self.M):
                self.fail(s, "aliasing a variable that is modified in place")
            if nm in self.M and not (self.fresh_rhs(v) or self.is_view_rhs(v, env)):
                self.fail(s, "a variable modified in place must be bound to a fresh value")
            if pre and pre[-1][0] == c and c.startswith("t") and c[1:].isdigit():
                pre[-1] = (cn(nm), pre[-1][1])      # the value is the last raising step itself
            else:
                ls.append("let %s := %s in" % (cn(nm), "(@None unit)" if ty == NONE else c))     # a None-typed variable is always used as the literal
            self.rebind(s, env, nm, ty)
            vw = self.is_view_rhs(v, env)
            if vw: env.views[nm] = vw
            return
        if isinstance(t, ast.Subscript):
            d = self.name_of(t.value)
            if d is None: self.fail(s, "item assignment target")
            dc, dt = self.var(s, d, env)
            vc, vt = self.expr(v, env, pre)       # Python evaluates the right-hand side first, then the key
            kc, kt = (None, None) if is_k(dt, "img") else self.expr(t.slice, env, pre)
            if is_k(dt, "img") and const_str(t.slice) and t.slice.value in ("node_props", "edge_props") and unify(vt, dt[1]) is not None:
                self.note_stored([v], env)
                for w, (b, fld) in list(env.views.items()):        # a variable bound to the OLD dict of that field keeps it, detached
                    if b == d and fld == t.slice.value:
                        if w in self.M: self.fail(s, "a view that is modified in place is detached from its InMemoryGeff")
                        del env.views[w]
                return self.mutate(s, env, d, "img_set_%s %s %s" % (t.slice.value, dc, vc), dt, ls)
            if not (is_k(dt, "dict") and kt == STR): self.fail(s, "item assignment on %r" % (dt,))
            vc, vt = self.coerce(vc, vt, dt[1], v, pre)
            if self.name_of(v) is not None and mutable(vt): self.fail(s, "storing a mutable variable")
            return self.mutate(s, env, d, "set %s %s %s" % (kc, vc, dc), D(vt), ls)
        if isinstance(t, ast.Attribute) and t.attr == "track_node_props":
            m = self.name_of(t.value)
            if m is None: self.fail(s, "attribute assignment target")
            mc, mt = self.var(s, m, env)
            vc, vt = self.expr(v, env, pre)
            if mt == META and unify(vt, D(STR)) is not None:
                self.note_stored([v], env)
                return self.mutate(s, env, m, "geff_set_track_node_props %s %s" % (mc, vc), META, ls)
        self.fail(s, "assignment")

    def is_view_rhs(self, v, env):
        if isinstance(v, ast.Subscript) and const_str(v.slice) and v.slice.value in ("node_props", "edge_props"):
            b = self.name_of(v.value)
            if b is not None and b in env.vars and (is_k(env.vars[b], "img")):
                return (b, v.slice.value)
        return None

    # ------------------------------------------------------------ if
    def refinement(self, t, env):
        """-> (name, [(pattern, type in that branch)] for the THEN and the ELSE branch) or None"""
        flip = False
        while isinstance(t, ast.UnaryOp) and isinstance(t.op, ast.Not):
            t = t.operand; flip = not flip
        res = None
        if isinstance(t, ast.Compare) and len(t.ops) == 1 and isinstance(t.ops[0], (ast.Is, ast.IsNot)) \
                and isinstance(t.comparators[0], ast.Constant) and t.comparators[0].value is None:
            nm = self.name_of(t.left)
            if nm is not None and nm in env.vars and is_k(env.vars[nm], "opt"):
                none, some = ("None", NONE), ("Some %s" % cn(nm), env.vars[nm][1])
                res = (nm, [none, some] if isinstance(t.ops[0], ast.Is) else [some, none])
        if isinstance(t, ast.Call) and is_name(t.func, "isinstance") and plain(t, 2) and is_name(t.args[1]) and t.args[1].id in ("list", "str"):
            nm = self.name_of(t.args[0])
            if nm is not None and env.vars.get(nm) == SRC:
                multi, single = ("Multi %s" % cn(nm), L(STR)), ("Single %s" % cn(nm), STR)
                res = (nm, [multi, single] if t.args[1].id == "list" else [single, multi])
        if res is not None and flip: res = (res[0], [res[1][1], res[1][0]])
        return res

    def split_test(self, s, env):
        t = s.test
        if isinstance(t, ast.BoolOp) and any(self.refinement(v, env) is not None for v in t.values):
            first, restv = t.values[0], t.values[1:]
            tail = restv[0] if len(restv) == 1 else ast.copy_location(ast.BoolOp(op=t.op, values=restv), t)
            if isinstance(t.op, ast.And):
                inner = ast.copy_location(ast.If(test=tail, body=s.body, orelse=s.orelse), s)
                return ast.copy_location(ast.If(test=first, body=[inner], orelse=s.orelse), s)
            inner = ast.copy_location(ast.If(test=tail, body=s.body, orelse=s.orelse), s)
            return ast.copy_location(ast.If(test=first, body=s.body, orelse=[inner]), s)
        return s

    def do_if(self, s, rest, env, K, ind):
        st = self.static_test(s.test)
        if st is not None:
            taken = s.body if st else s.orelse
            return self.block(taken + ([] if self.terminates(taken) else rest), env, K, ind)
        s = self.split_test(s, env)
        A, B = s.body, s.orelse
        I2 = ind + "  "
        ref = self.refinement(s.test, env)
        pre = []
        if ref is None:
            if not isinstance(s.test, ast.BoolOp):
                c = self.cond(s.test, env, pre)            # evaluated unconditionally
            else:
                try:
                    c = self.cond(s.test, env, None)
                except Unsupported:                        # a later operand may raise: lazy and / or
                    x = self.fresh()
                    pre.append((x, self.cond_res(s.test, env)))
                    c = x
            if pre and K["pure"]: raise NotPure()
        def branches(codeA, codeB):
            if ref is None: return "if %s then\n%s%s\n%selse\n%s%s" % (c, I2, codeA, ind, I2, codeB)
            (pa, _), (pb, _) = ref[1]
            return "match %s with\n%s| %s =>\n%s  %s\n%s| %s =>\n%s  %s\n%send" % (cn(ref[0]), ind, pa, I2, codeA, ind, pb, I2, codeB, ind)
        def envs():
            ea, eb = env.copy(), env.copy()
            if ref is not None:
                ea.vars[ref[0]] = ref[1][0][1]; eb.vars[ref[0]] = ref[1][1][1]
            return ea, eb
        tA, tB = self.terminates(A), self.terminates(B)
        if tA or tB:
            if tA and tB and any(not self.is_skipped(x) for x in rest): self.fail(s, "unreachable statements after the if")
            ea, eb = envs()
            ca = self.block(A + ([] if tA else rest), ea, K, I2 + "  ")
            cb = self.block(B + ([] if tB else rest), eb, K, I2 + "  ")
            return self.wrap(pre, branches(ca, cb), ind, K)
        if self.has_transfer(A) or self.has_transfer(B):
            self.fail(s, "a branch that may return / continue / break and may also fall through")
        # ---- merged: the branches only change variables
        names = self.effects(A + B)
        dA, dB = self.definite(A), self.definite(B)
        changed = [v for v in env.vars if v in names] + [v for v in names if v not in env.vars and v in dA and v in dB]
        last_err = None
        for pure in ([True, False] if not pre else [False]):
            if K["pure"] and not pure: raise NotPure()
            try:
                ends = []
                for blk, e in zip((A, B), envs()):
                    rec = []
                    self.block(blk, e, {"kind": "merge", "vars": changed, "types": None, "pure": pure, "record": rec}, I2 + "  ")
                    ends.extend(rec)
                types = self.join_ends(s, env, ends, changed, ref)
                codes = []
                for blk, e in zip((A, B), envs()):
                    codes.append(self.block(blk, e, {"kind": "merge", "vars": changed, "types": types, "pure": pure, "record": []}, I2 + "  "))
            except NotPure:
                continue
            self.merge_env(env, ends, changed, types)
            k = self.block(rest, env, K, ind)
            if pure:
                return "let %s :=\n%s%s in\n%s%s" % (self.lamtup(changed), I2, branches(codes[0], codes[1]).replace("\n", "\n  "), ind, k)
            return self.wrap(pre, "pseq (%s)\n%s(fun %s =>\n%s%s)" % (branches(codes[0], codes[1]).replace("\n", "\n  "), I2, self.lamtup(changed), ind, k), ind, K)
        raise NotPure()

    def join_ends(self, node, env, ends, changed, ref=None):
        types = {}
        for v in changed:
            ty = None
            for e in ends:
                have = e.vars.get(v)
                if have is None: self.fail(node, "variable %s is not assigned on every path" % v)
                ty = have if ty is None else join_type(ty, have)
                if ty is None: self.fail(node, "variable %s has incompatible types on the paths that meet here" % v)
            if ty is None: ty = env.vars[v]
            if ty == NONE: self.fail(node, "variable %s is None on every path" % v)
            types[v] = ty
        return types

    def merge_env(self, env, ends, changed, types):
        for v in changed:
            env.vars[v] = types[v]
            env.frozen.discard(v)
        for e in ends:
            env.poison.update(e.poison)
            env.frozen |= (e.frozen & set(env.vars))
        for w in list(env.views):
            if any(w not in e.views or e.views[w] != env.views[w] for e in ends):
                if w in changed or env.views[w][0] in changed:
                    del env.views[w]
        for w in env.poison: env.views.pop(w, None)

    # ------------------------------------------------------------ for
    def do_for(self, s, rest, env, K, ind):
        if K["pure"]: raise NotPure()
        if s.orelse: self.fail(s, "for .. else")
        pre = []
        snapshot = (isinstance(s.iter, ast.Attribute) and s.iter.attr == "columns") or \
                   (isinstance(s.iter, ast.Call) and (is_name(s.iter.func, "range") or self.callee_key(s.iter) is not None))
        ic, it = self.expr(self.as_iterable(s.iter), env, pre)
        pat, binds = self.pattern(s.target, self.elem(it, s.iter), env)
        self.new_names(s, binds, env)
        names = self.effects(s.body)
        carried = [v for v in env.vars if v in names]
        if not snapshot:
            bad = {self.name_of(x) for x in ast.walk(s.iter)} & set(names)
            if bad: self.fail(s, "the loop body changes a variable the iterable is computed from (%s)" % ", ".join(sorted(bad)))
        for x, _ in binds:
            if x in names: self.fail(s, "the loop target %s is assigned in the loop body" % x)
        I4 = ind + "    "
        types = None
        for _ in range(3):
            rec = []
            e2 = env.copy()
            for x, t in binds: e2.vars[x] = t
            if types is not None:
                for v in carried: e2.vars[v] = types[v]
            self.block(s.body, e2, {"kind": "loop", "vars": carried, "types": types, "pure": False, "record": rec}, I4)
            start = env.copy()
            if types is not None:
                for v in carried: start.vars[v] = types[v]
            new = self.join_ends(s, env, rec + [start], carried)
            if new == types: break
            types = new
        else:
            self.fail(s, "the types of the loop-carried variables do not stabilise")
        e2 = env.copy()
        for x, t in binds: e2.vars[x] = t
        for v in carried: e2.vars[v] = types[v]
        rec = []
        body = self.block(s.body, e2, {"kind": "loop", "vars": carried, "types": types, "pure": False, "record": rec}, I4)
        init = self.tup(carried, env, types, s)
        self.merge_env(env, rec, carried, types)
        k = self.block(rest, env, K, ind)
        code = "forM %s %s\n%s  (fun %s %s =>\n%s%s)\n%s  (fun %s =>\n%s%s)" % (
            ic, init, ind, self.lam(pat), self.lamtup(carried), I4, body, ind, self.lamtup(carried), ind, k)
        return self.wrap(pre, code, ind)

    # ------------------------------------------------------------ functions
    def inplace(self, stmts):
        """names modified IN PLACE (not merely re-bound) by the statements"""
        out = set()
        for n in ast.walk(ast.Module(body=list(stmts), type_ignores=[])):
            if isinstance(n, (ast.Assign, ast.AugAssign, ast.AnnAssign, ast.Delete)):
                tg = n.targets if isinstance(n, (ast.Assign, ast.Delete)) else [n.target]
                for t in tg:
                    if isinstance(t, ast.Subscript): out.add(self.root_name(t))
                    elif isinstance(t, ast.Attribute) and not is_name(t.value, "self"): out.add(self.name_of(t.value))
                    elif isinstance(n, ast.AugAssign): out.add(self.name_of(t))
            if isinstance(n, ast.Call):
                if isinstance(n.func, ast.Attribute) and n.func.attr in ("pop", "append", "extend", "update", "add"): out.add(self.name_of(n.func.value))
                if is_name(n.func, "relabel_segmentation") and len(n.args) >= 2: out.add(self.name_of(n.args[1]))
            k = self.callee_key(n)
            if k is not None and k in self.done:
                cfg = self.funcs[k]
                out |= {m for m in self.done[k] if m.startswith("self.")}
                if isinstance(n, ast.Call):
                    params = [p for p in cfg["params"] if p[0] not in cfg.get("static", {})]
                    for a, (pn, _) in zip(n.args, cfg["params"]):
                        if pn in self.done[k] or cfg.get("returns_param") == pn: out.add(self.root_name(a))
        out.discard(None)
        grow = True
        while grow:
            grow = False
            for w, b in self.viewmap.items():
                if w in out and b not in out: out.add(b); grow = True
        return out

    def function(self, key, fn):
        cfg = self.funcs[key]
        self.cfg, self.rel, self.tmp = cfg, cfg["file"], 0
        self.static = dict(cfg.get("static", {}))
        self.selfattrs = {"self." + a: t for a, t in cfg["selfattrs"]}
        a = fn.args
        if a.vararg or a.kwarg or a.kwonlyargs or a.posonlyargs or isinstance(fn, ast.AsyncFunctionDef): self.fail(fn, "signature")
        decos = [ast.unparse(d) for d in fn.decorator_list]
        if decos != cfg.get("decorators", []): self.fail(fn, "decorators %r" % (decos,))
        names = [x.arg for x in a.args]
        want = (["self"] if cfg.get("cls") else []) + [p for p, _ in cfg["params"]]
        if names != want: self.fail(fn, "parameters %r differ from the signature table %r" % (names, want))
        defaults = {x.arg: d for x, d in zip(a.args[len(a.args) - len(a.defaults):], a.defaults)}
        for p, d in defaults.items():
            if not (isinstance(d, ast.Constant) and p in cfg.get("defaults", {}) and cfg["defaults"][p] == d.value): self.fail(fn, "default value of %s" % p)
        if set(cfg.get("defaults", {})) != set(defaults): self.fail(fn, "default values changed")
        for p, v in self.static.items():
            if not p.startswith("self.") and p in cfg.get("defaults", {}) and cfg["defaults"][p] != v:
                self.fail(fn, "static parameter %s is not specialised to its default" % p)
        body = [s for s in fn.body]
        while body and self.is_doc(body[0]): body.pop(0)
        self.decl = dict(self.selfattrs)
        for p, t in cfg["params"]:
            if p not in self.static: self.decl[p] = t
        # views (syntactic), variables modified in place, what the function returns next to its result
        self.viewmap = {}
        for n in ast.walk(ast.Module(body=body, type_ignores=[])):
            if isinstance(n, ast.Assign) and len(n.targets) == 1 and is_name(n.targets[0]) and isinstance(n.value, ast.Subscript) \
                    and const_str(n.value.slice) and n.value.slice.value in ("node_props", "edge_props") and self.name_of(n.value.value):
                if n.targets[0].id in self.viewmap and self.viewmap[n.targets[0].id] != self.name_of(n.value.value): self.fail(n, "a view variable is bound to two bases")
                self.viewmap[n.targets[0].id] = self.name_of(n.value.value)
        self.M = self.inplace(body)
        eff = self.effects(body)
        self.mutated = [x for x in self.selfattrs if x in eff] + [p for p, _ in cfg["params"] if p in self.M and p not in self.static]
        if cfg.get("returns_param"):
            self.mutated = [m for m in self.mutated if m != cfg["returns_param"]]
        for n in ast.walk(ast.Module(body=body, type_ignores=[])):
            if isinstance(n, (ast.Assign, ast.AnnAssign)):
                for t in (n.targets if isinstance(n, ast.Assign) else [n.target]):
                    if is_name(t) and t.id in self.M and t.id in dict(cfg["params"]): self.fail(n, "a parameter is both re-bound and modified in place")
            if isinstance(n, (ast.Global, ast.Nonlocal, ast.While, ast.Try, ast.With, ast.Lambda, ast.Yield, ast.YieldFrom, ast.Await,
                              ast.FunctionDef, ast.ClassDef, ast.NamedExpr, ast.Import)) and not isinstance(n, ast.Lambda):
                self.fail(n, "construct outside the idiom table")
        env = Env()
        for x, t in self.decl.items(): env.vars[x] = t
        self.done[key] = list(self.mutated)
        K = {"kind": "fn", "vars": [], "types": None, "pure": False, "record": []}
        code = self.block(body, env, K, "    ")
        rt = " * ".join([par(gty(cfg["ret"]))] + [par(gty(self.decl[m])) for m in self.mutated])
        sig = " ".join("(%s : %s)" % (cn(x), gty(t)) for x, t in self.decl.items())
        what = "%s%s(%s)" % ((cfg["cls"] + ".") if cfg.get("cls") else "", cfg["name"], ", ".join(p for p, _ in cfg["params"]))
        extra = "; also returns %s" % ", ".join(self.mutated) if self.mutated else ""
        return "(* %s: %s%s *)\nDefinition %s %s : res (%s) :=\n  run (\n    %s).\n" % (cfg["file"].split("/")[-2] + "/" + cfg["file"].split("/")[-1], what, extra, cfg["gen"], sig, rt, code)


# ---------------------------------------------------------------- signature table (trusted)
FUNCS = {
    "flatten_name_map": dict(file=REL_TB, cls=None, name="flatten_name_map", gen="gen_flatten_name_map",
                             params=[("name_map", NMAP)], selfattrs=[], ret=L(T(STR, STR))),
    "axis_names": dict(file=REL_TB, cls="TracksBuilder", name="axis_names", gen="gen_axis_names", decorators=["property"],
                       params=[], selfattrs=[("ndim", O(INT))], ret=L(STR)),
    "handle_segmentation": dict(file=REL_TB, cls="TracksBuilder", name="handle_segmentation", gen="gen_handle_segmentation",
                                params=[("graph", NODES), ("segmentation", O(ARR2)), ("scale", O(SCALE))],
                                selfattrs=[("in_memory_geff", O(IMG(IPROPS))), ("ndim", O(INT))], ret=T(O(ARR2), O(SCALE))),
}
FUNCS.update({
    "ensure_integer_ids": dict(file=REL_CSV, cls=None, name="_ensure_integer_ids", gen="gen_ensure_integer_ids",
                               params=[("df", FRAME)], selfattrs=[], ret=FRAME, returns_param="df"),
    "csv_load_source": dict(file=REL_CSV, cls="CSVTracksBuilder", name="load_source", gen="gen_csv_load_source",
                            params=[("source", FRAME), ("node_name_map", NMAP), ("node_features", None)],
                            static={"node_features": None}, defaults={"node_features": None},
                            selfattrs=[("ndim", O(INT)), ("in_memory_geff", O(IMG(PROPS)))], ret=UNIT,
                            ),
})
FUNCS.update({
    "combine": dict(file=REL_TB, cls="TracksBuilder", name="_combine_multi_value_props", gen="gen_combine_multi_value_props",
                    params=[("props", PROPS), ("name_map", NMAP)], selfattrs=[], ret=UNIT),
    "validate_in_memory_geff": dict(file=REL_VAL, cls=None, name="validate_in_memory_geff", gen="gen_validate_in_memory_geff",
                                    params=[("in_memory_geff", IMG(PROPS))], selfattrs=[], ret=UNIT),
    "construct_graph": dict(file=REL_TB, cls="TracksBuilder", name="construct_graph", gen="gen_construct_graph",
                            params=[], selfattrs=[("in_memory_geff", O(IMG(PROPS)))], ret=NXGRAPH),
})
FUNCS.update({
    "validate_spatial_dims": dict(file=REL_VAL, cls=None, name="validate_spatial_dims", gen="gen_validate_spatial_dims",
                                  params=[("in_memory_geff", IMG(PROPS)), ("available_features", FEATS), ("ndim", O(INT))],
                                  defaults={"ndim": None}, selfattrs=[], ret=UNIT),
    "validate": dict(file=REL_TB, cls="TracksBuilder", name="validate", gen="gen_validate", params=[],
                     selfattrs=[("in_memory_geff", O(IMG(PROPS))), ("available_computed_features", FEATS), ("ndim", O(INT))], ret=UNIT),
    "preprocess_name_map": dict(file=REL_TB, cls="TracksBuilder", name="_preprocess_name_map", gen="gen_preprocess_name_map", params=[],
                                selfattrs=[("node_name_map", NMAP), ("edge_name_map", O(NMAP))], ret=UNIT),
    "validate_spatial_dims_in_name_map": dict(file=REL_VAL, cls=None, name="validate_spatial_dims_in_name_map",
                                              gen="gen_validate_spatial_dims_in_name_map",
                                              params=[("name_map", NMAP), ("available_features", FEATS), ("ndim", O(INT))],
                                              defaults={"ndim": None}, selfattrs=[], ret=UNIT),
    "validate_node_name_map": dict(file=REL_VAL, cls=None, name="validate_node_name_map", gen="gen_validate_node_name_map",
                                   params=[("name_map", NMAP), ("importable_node_props", L(STR)), ("required_features", L(STR)),
                                           ("available_features", O(FEATS)), ("ndim", O(INT)), ("has_segmentation", None)],
                                   defaults={"available_features": None, "ndim": None, "has_segmentation": False},
                                   static={"has_segmentation": False}, selfattrs=[], ret=UNIT),
})
ORDER = ["flatten_name_map", "axis_names", "handle_segmentation", "ensure_integer_ids", "csv_load_source",
         "combine", "validate_in_memory_geff", "construct_graph", "validate_spatial_dims", "validate",
         "preprocess_name_map", "validate_spatial_dims_in_name_map", "validate_node_name_map",
         "validate_feature_key_collisions", "validate_name_map", "handle_segmentation_none", "csv_build",
         "import_graph_from_geff", "geff_load_source", "geff_build"]
BUILD_SELF = [("node_name_map", NMAP), ("ndim", O(INT)), ("available_computed_features", FEATS), ("importable_node_props", L(STR)),
              ("required_features", L(STR)), ("in_memory_geff", O(IMG(PROPS)))]
FUNCS.update({
    "validate_feature_key_collisions": dict(file=REL_VAL, cls=None, name="validate_feature_key_collisions",
                                            gen="gen_validate_feature_key_collisions_no_edges",
                                            params=[("name_map", NMAP), ("edge_name_map", None)], static={"edge_name_map": None},
                                            selfattrs=[], ret=UNIT),
    "validate_name_map": dict(file=REL_TB, cls="TracksBuilder", name="validate_name_map", gen="gen_validate_name_map",
                              params=[("has_segmentation", None)], defaults={"has_segmentation": False},
                              static={"has_segmentation": False, "self.edge_name_map": None},
                              selfattrs=[("node_name_map", NMAP), ("importable_node_props", L(STR)), ("required_features", L(STR)),
                                         ("available_computed_features", FEATS), ("ndim", O(INT))], ret=UNIT),
    "handle_segmentation_none": dict(file=REL_TB, cls="TracksBuilder", name="handle_segmentation", gen="gen_handle_segmentation_no_seg",
                                     params=[("graph", NXGRAPH), ("segmentation", None), ("scale", O(SCALE))],
                                     static={"segmentation": None}, selfattrs=[], ret=T(O(ARR2), O(SCALE))),
    "import_graph_from_geff": dict(file=REL_GEFF, cls=None, name="import_graph_from_geff", gen="gen_import_graph_from_geff",
                                   params=[("directory", DIR), ("node_name_map", NMAP), ("edge_name_map", None)],
                                   defaults={"edge_name_map": None}, static={"edge_name_map": None}, selfattrs=[],
                                   ret=T(IMG(PROPS), L(STR), INT)),
    "geff_load_source": dict(file=REL_GEFF, cls="GeffTracksBuilder", name="load_source", gen="gen_geff_load_source",
                             params=[("source_path", DIR), ("node_name_map", NMAP), ("node_features", None)],
                             static={"node_features": None, "self.edge_name_map": None}, defaults={"node_features": None},
                             selfattrs=[("in_memory_geff", O(IMG(PROPS))), ("position_attr", L(STR)), ("ndim", O(INT))], ret=UNIT),
    "geff_build": dict(file=REL_TB, cls="TracksBuilder", name="build", gen="gen_geff_build",
                       params=[("source", DIR), ("segmentation", None), ("scale", O(SCALE)), ("node_features", None), ("edge_features", None)],
                       defaults={"segmentation": None, "scale": None, "node_features": None, "edge_features": None},
                       static={"segmentation": None, "node_features": None, "edge_features": None, "self.edge_name_map": None},
                       selfattrs=BUILD_SELF + [("position_attr", L(STR))], ret=TRACKS,
                       dispatch={"load_source": "geff_load_source", "handle_segmentation": "handle_segmentation_none"}),
    "csv_build": dict(file=REL_TB, cls="TracksBuilder", name="build", gen="gen_csv_build",
                      params=[("source", FRAME), ("segmentation", None), ("scale", O(SCALE)), ("node_features", None), ("edge_features", None)],
                      defaults={"segmentation": None, "scale": None, "node_features": None, "edge_features": None},
                      static={"segmentation": None, "node_features": None, "edge_features": None, "self.edge_name_map": None},
                      selfattrs=BUILD_SELF, ret=TRACKS,
                      dispatch={"load_source": "csv_load_source", "handle_segmentation": "handle_segmentation_none"}),
})

IMPORTS = {
    REL_TB: ["import geff", "import networkx as nx", "import numpy as np",
             "from funtracks.data_model.solution_tracks import SolutionTracks",
             "from funtracks.import_export._utils import get_default_key_to_feature_mapping, infer_dtype_from_array",
             "from funtracks.data_model.graph_attributes import NodeAttr",
             "from funtracks.import_export._import_segmentation import load_segmentation, read_dims, relabel_segmentation",
             "from funtracks.import_export._validation import validate_edge_name_map, validate_feature_key_collisions, validate_in_memory_geff, validate_node_name_map, validate_spatial_dims"],
    REL_CSV: ["import ast", "import numpy as np", "import pandas as pd", "from pathlib import Path", "from typing import TYPE_CHECKING, cast",
              "from geff_spec.utils import add_or_update_props_metadata, create_or_update_metadata, create_props_metadata",
              "from .._tracks_builder import TracksBuilder, flatten_name_map"],
    REL_GEFF: ["from geff.core_io._base_read import read_to_memory", "from .._tracks_builder import TracksBuilder, flatten_name_map"],
    REL_VAL: ["from warnings import warn",
              "from geff.validate.graph import validate_no_repeated_edges, validate_no_self_edges, validate_nodes_for_edges, validate_unique_node_ids",
              "from geff.validate.tracks import validate_lineages, validate_tracklets"],
}

# module-level functions that are DEFINED in the file (their home), called by name elsewhere
HOME = {REL_VAL: {"validate_graph_seg_match", "validate_node_name_map", "validate_edge_name_map", "validate_feature_key_collisions",
                  "validate_spatial_dims", "validate_in_memory_geff", "validate_spatial_dims_in_name_map"},
        REL_TB: {"flatten_name_map", "TracksBuilder"}, REL_CSV: {"_ensure_integer_ids"}, REL_GEFF: {"import_graph_from_geff"}}

# imports that bind a reserved name to the meaning the idiom table assumes
ALWAYS_OK = {"from pathlib import Path", "import pandas as pd", "import numpy as np", "import networkx as nx", "import geff", "import ast", "from warnings import warn",
             "from funtracks.data_model.solution_tracks import SolutionTracks",
             "from funtracks.import_export._validation import validate_graph_seg_match"}

HEADER = """(* GENERATED by harness/translate_import.py from %s -- do not edit.
   sha256=%s
   Shallow embedding over the data representation of Model/ImportTable.v and Model/Relabel.v; the idiom
   table is at the top of the translator, the combinators in Model/PyRt6.v (and Model/NpRt.v); tied to the
   hand models in Proofs/ImportTie.v. *)
From Coq Require Import ZArith List Bool.
From FT Require Import Base.Dict Model.NpRt Model.ImportTable Model.PyRt6.
From FT Require Import Gen.Relabel_gen.
Import ListNotations.
Open Scope Z_scope.

Section Oracles.
(* opaque values: a scale (list of floats), the GeffMetadata object, one PropMetadata *)
Variables Scale Metadata PropMeta Dir : Type.
(* oracle answers (arguments of the hand model) *)
Variable pd_is_integer_dtype : list cell -> bool.                                  (* ImportTable: ityp *)
Variable geff_validate_tracklets : list Z -> list (Z * Z) -> pcol -> bool.         (* ImportTable: trk_ok *)
Variable geff_validate_lineages : list Z -> list (Z * Z) -> pcol -> bool.          (* ImportTable: lin_ok *)
(* not represented in the hand models: nothing is assumed about them *)
Variable np_ndim : list (list Z) -> Z.                                             (* A.ndim *)
Variable scale_ones : Z -> Scale.                                                  (* [1.0] * n *)
Variable nx_node_has_attr : list Z -> Z -> Z -> bool.                              (* key in G.nodes[n] *)
Variable validate_graph_seg_match : list Z -> list (list Z) -> Scale -> list Z -> res bool.
Variable geff_new_metadata : Metadata.
Variable geff_props_metadata : Z -> prop -> PropMeta.
Variable geff_add_props_metadata : Metadata -> list PropMeta -> Metadata.
Variable geff_set_track_node_props : Metadata -> dict Z -> Metadata.
Variable geff_read_to_memory : Dir -> list Z -> option (list Z) -> img Metadata props.   (* geff read_to_memory(directory, node_props=.., edge_props=..) *)
Variable default_features : Z -> dict bool.        (* get_default_key_to_feature_mapping(ndim, display_name=False): the spatial_dims flags *)

"""


def find_function(tree, cfg):
    body = tree.body
    if cfg.get("cls"):
        cls = [n for n in tree.body if isinstance(n, ast.ClassDef) and n.name == cfg["cls"]]
        if len(cls) != 1: raise Unsupported("%s: class %s not found (or defined twice)" % (cfg["file"], cfg["cls"]))
        body = cls[0].body
    fns = [n for n in body if isinstance(n, (ast.FunctionDef, ast.AsyncFunctionDef)) and n.name == cfg["name"]]
    if len(fns) != 1: raise Unsupported("%s: function %s not found (or defined twice)" % (cfg["file"], cfg["name"]))
    return fns[0]


def check_module(tree, rel):
    """the imports the idiom table relies on are present verbatim; the names it gives a meaning to are bound nowhere else"""
    have = []
    for n in tree.body:
        if isinstance(n, (ast.Import, ast.ImportFrom)): have.append(ast.unparse(n))
    for imp in IMPORTS[rel]:
        if imp not in have: raise Unsupported("%s: required import `%s` not found" % (rel, imp))
    for n in ast.walk(tree):
        bound = set()
        if isinstance(n, (ast.FunctionDef, ast.ClassDef, ast.AsyncFunctionDef)):
            bound.add(n.name)
            if not isinstance(n, ast.ClassDef):
                bound |= {x.arg for x in n.args.args + n.args.kwonlyargs + n.args.posonlyargs} - {"self"}
        elif isinstance(n, (ast.Import, ast.ImportFrom)):
            if ast.unparse(n) in IMPORTS[rel] or ast.unparse(n) in ALWAYS_OK: continue
            bound |= {(al.asname or al.name).split(".")[0] for al in n.names}
        elif isinstance(n, (ast.Assign, ast.AnnAssign, ast.AugAssign, ast.For, ast.NamedExpr, ast.comprehension)):
            tg = n.targets if isinstance(n, ast.Assign) else [n.target]
            for t in tg: bound |= {x.id for x in ast.walk(t) if isinstance(x, ast.Name) and isinstance(x.ctx, ast.Store)}
        elif isinstance(n, (ast.Global, ast.Nonlocal)): bound |= set(n.names)
        clash = bound & (RESERVED - {"self"})
        own = {cfg["name"] for cfg in FUNCS.values() if cfg["file"] == rel} | {cfg["cls"] for cfg in FUNCS.values() if cfg["file"] == rel and cfg.get("cls")}
        clash -= (own | HOME.get(rel, set())) if isinstance(n, (ast.FunctionDef, ast.ClassDef)) and n in tree.body else set()
        clash -= own if isinstance(n, ast.FunctionDef) else set()
        if clash: raise Unsupported("%s:%s: the name %s, which the idiom table gives a meaning to, is re-bound" % (rel, getattr(n, "lineno", "?"), sorted(clash)))


def check_node_attr(root):
    tree = ast.parse(open(os.path.join(root, REL_ATTRS)).read())
    cls = [n for n in tree.body if isinstance(n, ast.ClassDef) and n.name == "NodeAttr"]
    got = {}
    for s in (cls[0].body if len(cls) == 1 else []):
        if isinstance(s, ast.Assign) and len(s.targets) == 1 and is_name(s.targets[0]) and isinstance(s.value, ast.Constant):
            got[s.targets[0].id] = s.value.value
    if got.get("TIME") != "time": raise Unsupported("%s: NodeAttr.TIME is no longer \"time\": %r" % (REL_ATTRS, got))


def check_time_attr(tree):
    cls = [n for n in tree.body if isinstance(n, ast.ClassDef) and n.name == "TracksBuilder"]
    got = [ast.unparse(s) for s in (cls[0].body if len(cls) == 1 else []) if isinstance(s, ast.Assign) and any(is_name(t, "TIME_ATTR") for t in s.targets)]
    if got != ["TIME_ATTR = 'time'"]: raise Unsupported("%s: TracksBuilder.TIME_ATTR is no longer \"time\": %r" % (REL_TB, got))
    for n in ast.walk(tree):
        if isinstance(n, (ast.Assign, ast.AugAssign, ast.AnnAssign)):
            for t in (n.targets if isinstance(n, ast.Assign) else [n.target]):
                if isinstance(t, ast.Attribute) and t.attr == "TIME_ATTR": raise Unsupported("%s:%s: TIME_ATTR is assigned" % (REL_TB, n.lineno))


def translate(repo=None):
    root = repo or repo_root()
    check_node_attr(root)
    trees, shas = {}, []
    for rel in sorted({FUNCS[k]["file"] for k in ORDER}):
        src = open(os.path.join(root, rel)).read()
        trees[rel] = ast.parse(src)
        shas.append(hashlib.sha256(src.encode()).hexdigest()[:16])
        check_module(trees[rel], rel)
        if rel == REL_TB: check_time_attr(trees[rel])
    tr = Translator(FUNCS)
    defs = []
    for k in ORDER:
        tr.rel = FUNCS[k]["file"]
        defs.append(tr.function(k, find_function(trees[FUNCS[k]["file"]], FUNCS[k])))
    files = ", ".join(sorted({FUNCS[k]["file"] for k in ORDER}))
    return HEADER % (files, " ".join(shas)) + "\n".join(defs) + "\nEnd Oracles.\n"


def regenerate(out=None, repo=None):
    """(re)write Gen/ImportPipeline_gen.v from the current source; returns (ok, message).  Fail closed: on any
    error the file written does not type-check.  The file is written only when its content (ignoring the
    header lines that carry the source hashes) changes."""
    out = out or OUT
    try:
        txt = translate(repo)
        ok, msg = True, "translated"
    except Unsupported as e:
        ok, msg = False, str(e)
    except Exception as e:       # a bug of the translator must not look like a translation
        ok, msg = False, "%s: %s" % (type(e).__name__, e)
    if not ok:
        txt = "(* TRANSLATION FAILED: %s *)\nDefinition translation_failed : False := I.\n" % msg.replace("*)", "* )").replace("(*", "( *").replace('"', "'")
    os.makedirs(os.path.dirname(out), exist_ok=True)
    old = open(out).read() if os.path.exists(out) else None
    strip = lambda t: "\n".join(l for l in t.split("\n") if "sha256=" not in l)
    if old is None or strip(old) != strip(txt):
        open(out, "w").write(txt)
    return ok, msg


if __name__ == "__main__":
    if len(sys.argv) > 1 and sys.argv[1] == "--stdout":
        sys.stdout.write(translate())
    else:
        r = regenerate(out=sys.argv[1] if len(sys.argv) > 1 else None)
        print(r)
        sys.exit(0 if r[0] else 1)
