"""Corpus of minimised failing inputs (one per finding of DESIGN.md section 3).

Each witness runs the *implementation* (funtracks imported from /repo/src) on the
smallest input on which a property was once observed to fail and evaluates the
property's direct oracle on it.  A witness returns (ok, detail).  They run first
in every check of the property they belong to (``fixed`` entries of
known_findings.json suppress nothing: if a repaired defect returns, the witness
fails again and the check reports the violation with this file as the replay).

Run stand-alone:  PYTHONPATH=/repo/src /venv/bin/python witnesses.py [ids...]
"""
from __future__ import annotations

import copy
import signal
import sys
import tempfile
import shutil
import warnings
from pathlib import Path

import networkx as nx
import numpy as np

warnings.simplefilter("ignore")


def _sol(nodes, edges, seg=None, ndim=3, scale=None, **kw):
    """nodes: {id: time} ; positions default to [0,0]."""
    from funtracks.data_model import SolutionTracks

    g = nx.DiGraph()
    for n, t in nodes.items():
        if seg is None:
            g.add_node(n, time=t, pos=[float(n), 0.0] + ([0.0] if ndim == 4 else []))
        else:
            g.add_node(n, time=t)
    g.add_edges_from(edges)
    return SolutionTracks(g, segmentation=seg, ndim=ndim, scale=scale, **kw)


class _Hang(Exception):
    pass


def _with_timeout(fn, secs=3.0):
    def alarm(*a):
        raise _Hang()

    old = signal.signal(signal.SIGALRM, alarm)
    signal.setitimer(signal.ITIMER_REAL, secs)
    try:
        return fn()
    finally:
        signal.setitimer(signal.ITIMER_REAL, 0)
        signal.signal(signal.SIGALRM, old)


def forest_ok(t):
    g = t.graph
    for n in g.nodes:
        if g.in_degree(n) > 1 or g.out_degree(n) > 2:
            return False
    return all(t.get_time(u) < t.get_time(v) for u, v in g.edges)


def lineage_ok(t):
    comps = list(nx.weakly_connected_components(t.graph))
    comp_of = {n: i for i, c in enumerate(comps) for n in c}
    ns = list(t.graph.nodes)
    for a in ns:
        for b in ns:
            if (t.get_lineage_id(a) == t.get_lineage_id(b)) != (comp_of[a] == comp_of[b]):
                return False
    return True


def snapshot(t):
    g = t.graph
    keys_n = list(t.features.node_features) if hasattr(t.features, "node_features") else []
    nodes = {n: {k: copy.deepcopy(g.nodes[n].get(k)) for k in keys_n} for n in g.nodes}
    edges = {e: copy.deepcopy(dict(g.edges[e])) for e in g.edges}
    seg = None if t.segmentation is None else t.segmentation.tobytes()
    a = t.track_annotator
    books = (
        {k: sorted(v) for k, v in a.tracklet_id_to_nodes.items()},
        {k: sorted(v) for k, v in a.lineage_id_to_nodes.items()},
    )
    return repr((sorted(nodes.items()), sorted(edges.items()), seg, books,
                 len(t.action_history.undo_stack), len(t.action_history.redo_stack)))


# ----------------------------------------------------------------------------- C03
def w_F03a_backward():
    from funtracks.user_actions import UserAddEdge
    from funtracks.exceptions import InvalidActionError

    t = _sol({1: 0, 2: 1}, [])
    try:
        UserAddEdge(t, (2, 1))
    except InvalidActionError:
        return True, "backward edge refused"
    return forest_ok(t), "UserAddEdge((2,1)) with time(2)=1 > time(1)=0 accepted: edge %s" % list(t.graph.edges)


def w_F03a_same_frame():
    from funtracks.user_actions import UserAddEdge
    from funtracks.exceptions import InvalidActionError

    t = _sol({1: 0, 2: 0}, [])
    try:
        UserAddEdge(t, (1, 2))
    except InvalidActionError:
        return True, "same-frame edge refused"
    return forest_ok(t), "UserAddEdge((1,2)) with both nodes at t=0 accepted"


def w_F03a_cycle():
    from funtracks.user_actions import UserAddEdge
    from funtracks.exceptions import InvalidActionError

    t = _sol({1: 0, 2: 1}, [(1, 2)])

    def go():
        try:
            UserAddEdge(t, (2, 1))
        except InvalidActionError:
            return True, "cycle edge refused"
        return forest_ok(t), "UserAddEdge((2,1)) on top of 1->2 accepted (cycle)"

    try:
        return _with_timeout(go)
    except _Hang:
        return False, "UserAddEdge((2,1)) on top of 1->2 never returns (relabel walk loops on the cycle)"


# ----------------------------------------------------------------------------- C05
def w_F05a():
    from funtracks.user_actions import UserDeleteEdge

    t = _sol({1: 0, 2: 1, 3: 1, 4: 2}, [(1, 2), (1, 3), (2, 4)])
    UserDeleteEdge(t, (1, 2))
    return lineage_ok(t), "after UserDeleteEdge((1,2)) of a division: lineage ids %s" % {n: t.get_lineage_id(n) for n in t.graph.nodes}


def w_F05b():
    from funtracks.user_actions import UserAddEdge

    t = _sol({1: 0, 2: 1, 3: 1, 4: 2}, [(1, 2), (3, 4)])
    UserAddEdge(t, (1, 3))
    return lineage_ok(t), "after UserAddEdge((1,3)) creating a division: lineage ids %s" % {n: t.get_lineage_id(n) for n in t.graph.nodes}


def w_F05c_dividing():
    from funtracks.user_actions import UserDeleteNode

    t = _sol({1: 0, 2: 1, 3: 2, 4: 2}, [(1, 2), (2, 3), (2, 4)])
    UserDeleteNode(t, 2)
    return lineage_ok(t), "after UserDeleteNode(2) (dividing node): lineage ids %s" % {n: t.get_lineage_id(n) for n in t.graph.nodes}


def w_F05c_first_after_division():
    from funtracks.user_actions import UserDeleteNode

    t = _sol({1: 0, 2: 1, 3: 1, 4: 2}, [(1, 2), (1, 3), (2, 4)])
    UserDeleteNode(t, 2)
    return lineage_ok(t), "after UserDeleteNode(2) (first node after a division, with a tail): lineage ids %s" % {n: t.get_lineage_id(n) for n in t.graph.nodes}


def w_F05c_root_division():
    """A dividing root is deleted: one daughter may keep the lineage, the other may not."""
    from funtracks.user_actions import UserDeleteNode

    t = _sol({1: 0, 2: 1, 3: 1}, [(1, 2), (1, 3)])
    UserDeleteNode(t, 1)
    return lineage_ok(t), "after UserDeleteNode(1) (dividing root): lineage ids %s" % {n: t.get_lineage_id(n) for n in t.graph.nodes}


# ----------------------------------------------------------------------------- C07
def _seg_tracks():
    seg = np.zeros((3, 4, 4), dtype=np.int64)
    seg[0, 0:2, 0:2] = 1
    seg[1, 0:2, 0:2] = 2
    seg[2, 2:4, 2:4] = 3
    return _sol({1: 0, 2: 1, 3: 2}, [(1, 2), (2, 3)], seg=seg)


def seg_ok(t):
    seg = t.segmentation
    labels = set(np.unique(seg).tolist()) - {0}
    if labels != set(t.graph.nodes):
        return False
    for n in t.graph.nodes:
        for fr in range(seg.shape[0]):
            if fr != t.get_time(n) and (seg[fr] == n).any():
                return False
    return True


def w_F07a():
    from funtracks.user_actions import UserUpdateSegmentation
    from funtracks.exceptions import InvalidActionError

    t = _seg_tracks()
    before = t.segmentation.copy()
    pix = (np.array([2, 2]), np.array([0, 0]), np.array([0, 1]))  # frame 2, label 1 lives in frame 0
    old = t.segmentation[pix].copy()
    t.segmentation[pix] = 1
    try:
        UserUpdateSegmentation(t, 1, [(pix, 0)], current_track_id=1)
    except (InvalidActionError, ValueError):
        t.segmentation[pix] = old
        return bool((t.segmentation == before).all()), "foreign-frame paint refused"
    return seg_ok(t), "painting existing label 1 (time 0) into frame 2 accepted; label 1 now in frames %s" % sorted(
        {int(f) for f in np.nonzero(t.segmentation == 1)[0]})


# ----------------------------------------------------------------------------- C09
def w_F09a():
    seg = np.zeros((3, 4, 4), dtype=np.int64)
    seg[0, 0:2, 0:3] = 1  # 6 px
    seg[2, 0:2, 1:4] = 2  # 6 px, overlap 4, union 8
    t = _sol({1: 0, 2: 2}, [(1, 2)], seg=seg)
    t.enable_features(["iou"])
    bulk = t.get_edge_attr((1, 2), "iou")
    ok = bulk is not None and abs(float(bulk) - 0.5) < 1e-12
    return ok, "bulk IoU of skip edge 1@t0->2@t2 is %r, true overlap 4/8" % (bulk,)


def _c07_state(t):
    """labels and nodes one-to-one?  returns a list of complaints"""
    seg = np.asarray(t.segmentation)
    bad = []
    for n in t.graph.nodes:
        tt = t.get_time(n)
        where = [k for k in range(seg.shape[0]) if (seg[k] == n).any()]
        if where != [tt]:
            bad.append("node %d (time %d) labels pixels in frames %s" % (n, tt, where))
    for l in np.unique(seg):
        if l and int(l) not in t.graph.nodes:
            bad.append("label %d belongs to no node" % l)
    return bad


def _c07_tracks():
    seg = np.zeros((3, 5, 5), dtype=np.int64)
    seg[0, 0:2, 0:2] = 1
    seg[1, 0:2, 0:2] = 2
    seg[1, 3:5, 3:5] = 3
    return _sol({1: 0, 2: 1, 3: 1}, [(1, 2)], seg=seg)


def _w_F07b(node, attrs, pixels):
    from funtracks.user_actions import UserAddNode

    t = _c07_tracks()
    try:
        UserAddNode(t, node, attrs, pixels=pixels)
    except Exception as e:  # noqa: BLE001
        return not _c07_state(t), "refused (%s); state %s" % (type(e).__name__, _c07_state(t) or "consistent")
    bad = _c07_state(t)
    return not bad, "accepted; " + ("; ".join(bad) if bad else "labels and nodes still correspond")


def w_F07b_overwrite():
    # the new node's pixels are ALL the pixels of node 3
    ys, xs = np.nonzero(np.ones((2, 2), dtype=bool))
    return _w_F07b(9, {"time": 1, "track_id": 7}, (np.ones(4, dtype=np.int64), ys + 3, xs + 3))


def w_F07b_no_pixels():
    return _w_F07b(9, {"time": 2, "track_id": 7, "pos": [1.0, 1.0]}, None)


def w_F07b_wrong_frame():
    return _w_F07b(9, {"time": 2, "track_id": 7}, (np.array([0]), np.array([4]), np.array([4])))


# ----------------------------------------------------------------------------- C11
def w_F11a():
    from funtracks.user_actions import UserAddNode, UserDeleteEdge

    t = _sol({1: 0, 3: 2}, [(1, 3)])
    before = snapshot(t)
    try:
        UserAddNode(t, 9, {"time": 1, "track_id": t.get_track_id(1)})
    except Exception as e:  # noqa: BLE001
        after = snapshot(t)
        return before == after, "UserAddNode without position raised %s after mutating: edges now %s" % (
            type(e).__name__, sorted(t.graph.edges))
    return True, "accepted"


def w_F11d_add():
    from funtracks.user_actions import UserAddNode

    t = _sol({1: 0, 3: 2}, [(1, 3)])
    before = snapshot(t)
    px = (np.array([1]), np.array([0]), np.array([0]))
    try:
        UserAddNode(t, 9, {"time": 1, "track_id": t.get_track_id(1), "pos": [0.0, 0.0]}, pixels=px)
    except Exception as e:  # noqa: BLE001
        return before == snapshot(t), "UserAddNode with pixels but no segmentation raised %s after mutating: edges now %s" % (
            type(e).__name__, sorted(t.graph.edges))
    return True, "accepted"


def w_F11d_delete():
    from funtracks.user_actions import UserDeleteNode

    t = _sol({1: 0, 2: 1, 3: 2}, [(1, 2), (2, 3)])
    before = snapshot(t)
    px = (np.array([1]), np.array([0]), np.array([0]))
    try:
        UserDeleteNode(t, 2, pixels=px)
    except Exception as e:  # noqa: BLE001
        return before == snapshot(t), "UserDeleteNode with pixels but no segmentation raised %s after mutating: edges now %s" % (
            type(e).__name__, sorted(t.graph.edges))
    return True, "accepted"


def w_F11d_range():
    from funtracks.user_actions import UserAddNode

    seg = np.zeros((3, 4, 4), dtype=np.int64)
    seg[0, 0:2, 0:2] = 1
    seg[2, 0:2, 0:2] = 3
    t = _sol({1: 0, 3: 2}, [(1, 3)], seg=seg)
    before = snapshot(t)
    px = (np.array([7]), np.array([0]), np.array([0]))  # frame 7 does not exist
    try:
        UserAddNode(t, 9, {"time": 1, "track_id": t.get_track_id(1)}, pixels=px)
    except Exception as e:  # noqa: BLE001
        return before == snapshot(t), "UserAddNode with pixels outside the array raised %s after mutating: edges now %s" % (
            type(e).__name__, sorted(t.graph.edges))
    return True, "accepted"


def w_F11b():
    from funtracks.user_actions import UserAddEdge

    t = _sol({1: 0, 2: 1, 3: 1, 4: 0, 5: 1}, [(1, 2), (1, 3), (4, 5)])
    before = snapshot(t)
    try:
        UserAddEdge(t, (1, 5), force=True)
    except Exception as e:  # noqa: BLE001
        return before == snapshot(t), "forced UserAddEdge((1,5)) from a dividing source raised %s after removing the merge edge: edges now %s" % (
            type(e).__name__, sorted(t.graph.edges))
    return forest_ok(t), "accepted"


def w_F11c():
    from funtracks.user_actions import UserUpdateSegmentation

    seg = np.zeros((3, 4, 4), dtype=np.int64)
    seg[0, 0:2, 0:2] = 1
    seg[1, 0:2, 0:2] = 2
    seg[1, 2:4, 2:4] = 3
    seg[1, 0:2, 2:4] = 4
    t = _sol({1: 0, 2: 1, 3: 1, 4: 1}, [(1, 2), (1, 3)], seg=seg)
    before = snapshot(t)
    # stroke: erase all of node 4 and paint new label 9 there, with track id of node 1
    # -> UserAddNode(9, time 2?) we need upstream division: new node at t=2 in track of 1
    pix = tuple(np.array(a) for a in np.nonzero(seg[1] == 4))
    pix = (np.ones_like(pix[0]), *pix)
    # paint label 9 in frame 1 over node 4, track id of node 1 (which divides, time 0 < 1)
    t.segmentation[pix] = 9
    try:
        UserUpdateSegmentation(t, 9, [(pix, 4)], current_track_id=t.get_track_id(1), force=False)
    except Exception as e:  # noqa: BLE001
        t.segmentation[pix] = 4  # the caller restores its painted pixels
        return before == snapshot(t), "paint over node 4 refused (%s) after node 4 was already deleted: nodes now %s" % (
            type(e).__name__, sorted(t.graph.nodes))
    return True, "accepted"


# ----------------------------------------------------------------------------- C13
def w_F13a():
    import pandas as pd
    from funtracks.import_export import tracks_from_df

    seg = np.zeros((2, 4, 4), dtype=np.int64)
    seg[0, 0:2, 0:2] = 5
    seg[1, 0:2, 0:2] = 9
    seg[0, 3, 3] = 7  # unlisted label
    seg[1, 3, 3] = 5  # stray: label 5 in a frame where node 5 does not live
    df = pd.DataFrame({"id": [5, 9], "parent_id": [-1, 5], "time": [0, 1], "y": [0.5, 0.5], "x": [0.5, 0.5],
                       "seg_id": [5, 9]})
    t = tracks_from_df(df, segmentation=seg)
    out = np.asarray(t.segmentation)
    want = np.zeros_like(seg)
    want[0, 0:2, 0:2] = 5
    want[1, 0:2, 0:2] = 9
    return bool((out == want).all()), "seg ids equal node ids: unlisted label 7 / stray 5 survive: labels %s" % sorted(
        set(np.unique(out).tolist()))


def w_F13a_stray_only():
    import pandas as pd
    from funtracks.import_export import tracks_from_df

    seg = np.zeros((2, 4, 4), dtype=np.int64)
    seg[0, 0:2, 0:2] = 5
    seg[1, 0:2, 0:2] = 9
    seg[1, 3, 3] = 5  # label 5 also appears in frame 1, where node 5 does not live
    df = pd.DataFrame({"id": [5, 9], "parent_id": [-1, 5], "time": [0, 1], "y": [0.5, 0.5], "x": [0.5, 0.5],
                       "seg_id": [5, 9]})
    t = tracks_from_df(df, segmentation=seg)
    out = np.asarray(t.segmentation)
    return int(out[1, 3, 3]) == 0, "label 5 in frame 1 (node 5 lives at t=0) survives the import: out[1,3,3]=%d" % int(out[1, 3, 3])


# ----------------------------------------------------------------------------- C12
def w_F12a():
    import pandas as pd
    from funtracks.import_export import tracks_from_df

    df = pd.DataFrame({"cell": ["a", "b", "c"], "mother": [None, "a", "a"], "frame": [0, 1, 1],
                       "y": [1.0, 2.0, 3.0], "x": [1.0, 2.0, 3.0]})
    nm = {"id": "cell", "parent_id": "mother", "time": "frame", "pos": ["y", "x"]}
    try:
        t = tracks_from_df(df, node_name_map=nm)
    except Exception as e:  # noqa: BLE001
        return False, "string ids in a column renamed to id: %s: %s" % (type(e).__name__, str(e)[:80])
    return t.graph.number_of_nodes() == 3 and t.graph.number_of_edges() == 2, "imported %d nodes %d edges" % (
        t.graph.number_of_nodes(), t.graph.number_of_edges())


def w_F12d():
    """an unrelated column literally called "id" (with repeated values) must not make a well-formed table fail"""
    import pandas as pd
    from funtracks.import_export import tracks_from_df

    df = pd.DataFrame({"cell": [1, 2, 5], "id": [7, 7, 7], "mother": [-1, 1, 1], "frame": [0, 1, 1],
                       "y": [1.0, 2.0, 3.0], "x": [1.0, 2.0, 3.0]})
    nm = {"id": "cell", "parent_id": "mother", "time": "frame", "pos": ["y", "x"]}
    try:
        t = tracks_from_df(df, node_name_map=nm)
    except Exception as e:  # noqa: BLE001
        return False, "well-formed table with an unrelated raw 'id' column rejected: %s: %s" % (type(e).__name__, str(e)[:70])
    return sorted(t.graph.nodes) == [1, 2, 5] and sorted(t.graph.edges) == [(1, 2), (1, 5)], "nodes %s edges %s" % (
        sorted(t.graph.nodes), sorted(t.graph.edges))


def w_F12c():
    """a parent that is not among the (non-integer) ids must be rejected, not silently dropped"""
    import pandas as pd
    from funtracks.import_export import tracks_from_df

    df = pd.DataFrame({"cell": ["a", "b", "c"], "mother": [None, "a", "zz"], "frame": [0, 1, 1],
                       "y": [1.0, 2.0, 3.0], "x": [1.0, 2.0, 3.0]})
    nm = {"id": "cell", "parent_id": "mother", "time": "frame", "pos": ["y", "x"]}
    try:
        t = tracks_from_df(df, node_name_map=nm)
    except ValueError:
        return True, "rejected with ValueError"
    except Exception as e:  # noqa: BLE001
        return False, "raised %s instead of ValueError" % type(e).__name__
    return False, "link to unknown node 'zz' accepted: edges %s" % sorted(t.graph.edges)


# ----------------------------------------------------------------------------- C14 / C01
def w_F14a_roundtrip():
    from funtracks.data_model import SolutionTracks
    from funtracks.import_export.internal_format import load_tracks, save_tracks

    g = nx.DiGraph()
    g.add_node(1, time=0, y=1.0, x=2.0)
    g.add_node(2, time=1, y=3.0, x=4.0)
    g.add_edge(1, 2)
    t = SolutionTracks(g, ndim=3, pos_attr=["y", "x"])
    d = Path(tempfile.mkdtemp(prefix="funverif."))
    try:
        save_tracks(t, d / "s")
        try:
            t2 = load_tracks(d / "s", solution=True)
        except Exception as e:  # noqa: BLE001
            return False, "internal save/load with per-axis positions: %s: %s" % (type(e).__name__, str(e)[:80])
        ok = sorted(t2.graph.nodes) == [1, 2] and t2.get_positions([1, 2]).tolist() == [[1.0, 2.0], [3.0, 4.0]]
        return ok, "reloaded positions %s" % t2.get_positions([1, 2]).tolist()
    finally:
        shutil.rmtree(d, ignore_errors=True)


def w_F14a_undo():
    from funtracks.data_model import SolutionTracks
    from funtracks.user_actions import UserDeleteNode

    g = nx.DiGraph()
    g.add_node(1, time=0, y=1.0, x=2.0)
    g.add_node(2, time=1, y=3.0, x=4.0)
    g.add_edge(1, 2)
    t = SolutionTracks(g, ndim=3, pos_attr=["y", "x"])
    before = {n: dict(t.graph.nodes[n]) for n in t.graph.nodes}
    UserDeleteNode(t, 2)
    try:
        t.undo()
    except Exception as e:  # noqa: BLE001
        return False, "undo of UserDeleteNode with per-axis positions raises %s: %s" % (type(e).__name__, str(e)[:60])
    after = {n: dict(t.graph.nodes[n]) for n in t.graph.nodes}
    return before == after, "after undo %s" % after


def w_F14b():
    """undo of an attribute update that introduced the attribute must leave no explicit None behind
    (export_to_geff cannot write a None value)"""
    from funtracks.import_export import export_to_geff
    from funtracks.user_actions import UserUpdateNodeAttrs

    t = _sol({1: 0, 2: 1}, [(1, 2)])
    before = {n: dict(t.graph.nodes[n]) for n in t.graph.nodes}
    UserUpdateNodeAttrs(t, 1, {"c1": 5})
    t.undo()
    after = {n: dict(t.graph.nodes[n]) for n in t.graph.nodes}
    if before != after:
        return False, "after UserUpdateNodeAttrs(1, {'c1': 5}) and undo node 1 is %s (was %s)" % (after[1], before[1])
    d = Path(tempfile.mkdtemp(prefix="funverif."))
    try:
        export_to_geff(t, d / "out.zarr")
    except Exception as e:  # noqa: BLE001
        return False, "export_to_geff after update + undo raises %s" % type(e).__name__
    finally:
        shutil.rmtree(d, ignore_errors=True)
    return True, "attribute removed again; GEFF export works"


# ----------------------------------------------------------------------------- C16
def w_F16a():
    from funtracks.import_export import export_to_geff

    t = _sol({1: 0, 2: 1}, [(1, 2)])
    assert t.scale is None
    d = Path(tempfile.mkdtemp(prefix="funverif."))
    try:
        export_to_geff(t, d / "out.zarr")
    finally:
        shutil.rmtree(d, ignore_errors=True)
    return t.scale is None, "export_to_geff on tracks with scale=None left tracks.scale == %r" % (t.scale,)


# ----------------------------------------------------------------------------- C15
def w_F15a():
    import csv
    from funtracks.import_export import export_to_csv

    t = _sol({1: 0, 2: 1}, [(1, 2)])
    d = Path(tempfile.mkdtemp(prefix="funverif."))
    try:
        try:
            export_to_csv(t, d / "out.csv", node_ids=set())
        except Exception as e:  # noqa: BLE001
            return False, "export_to_csv with an empty node selection raises %s: %s" % (type(e).__name__, str(e)[:60])
        rows = list(csv.reader(open(d / "out.csv")))
        return len(rows) == 1 and "id" in rows[0], "rows written for the empty selection: %s" % rows
    finally:
        shutil.rmtree(d, ignore_errors=True)


def w_F15b():
    import tifffile
    from funtracks.import_export import export_to_csv

    seg = np.zeros((2, 3, 3), dtype=np.int64)
    seg[0, 0, 0] = 1
    seg[1, 0, 0] = 2
    t = _sol({1: 0, 2: 1}, [(1, 2)], seg=seg)
    d = Path(tempfile.mkdtemp(prefix="funverif."))
    try:
        try:
            export_to_csv(t, d / "out.csv", node_ids=set(), export_seg=True, seg_path=d / "out.tif")
        except Exception as e:  # noqa: BLE001
            return False, "export_to_csv(export_seg=True) with an empty node selection raises %s: %s" % (type(e).__name__, str(e)[:60])
        out = np.asarray(tifffile.imread(d / "out.tif"))
        return out.shape == seg.shape and not out.any(), "label image for the empty selection: shape %s, labels %s" % (out.shape, np.unique(out).tolist())
    finally:
        shutil.rmtree(d, ignore_errors=True)


# ----------------------------------------------------------------------------- C17
def partition_ok(cols, mapping):
    used = []
    for v in mapping.values():
        if isinstance(v, (list, tuple)):
            used.extend(v)
        elif v is not None:
            used.append(v)
    return sorted(used) == sorted(cols), used


def w_F17a_fuzzy():
    from funtracks.import_export._name_mapping import infer_node_name_map
    from funtracks.annotators import RegionpropsAnnotator

    feats = RegionpropsAnnotator.get_available_features(ndim=3)
    cols = ["time", "area_1", "area_2", "y", "x", "id", "parent_id"]
    m = infer_node_name_map(cols, ["time"], feats, ndim=3) if _takes_ndim() else infer_node_name_map(cols, ["time"], feats)
    ok, used = partition_ok(cols, m)
    return ok, "columns %s -> map %s (lost %s)" % (cols, m, sorted(set(cols) - set(used)))


def _takes_ndim():
    import inspect
    from funtracks.import_export._name_mapping import infer_node_name_map

    return "ndim" in inspect.signature(infer_node_name_map).parameters


def w_F17a_custom_pos():
    from funtracks.import_export._name_mapping import infer_node_name_map
    from funtracks.annotators import RegionpropsAnnotator

    feats = RegionpropsAnnotator.get_available_features(ndim=3)
    cols = ["t", "y", "x", "pos", "id", "parent_id"]
    m = infer_node_name_map(cols, ["time"], feats, ndim=3) if _takes_ndim() else infer_node_name_map(cols, ["time"], feats)
    ok, used = partition_ok(cols, m)
    return ok, "columns %s -> map %s (lost %s)" % (cols, m, sorted(set(cols) - set(used)))


# ----------------------------------------------------------------------------- C18
def _cand_edges(times, maxd=5.0):
    from funtracks.candidate_graph.utils import add_cand_edges

    g = nx.DiGraph()
    for i, tm in enumerate(times):
        g.add_node(i, time=tm, pos=[0.0, 0.0])
    add_cand_edges(g, max_edge_distance=maxd)
    return sorted(g.edges)


def w_F18a_gap():
    e = _cand_edges([0, 1, 3, 4])
    return e == [(0, 1), (2, 3)], "points at t=0,1,3,4 (same place): edges %s, expected [(0,1),(2,3)]" % e


def w_F18a_gap2():
    e = _cand_edges([0, 2, 3])
    return e == [(1, 2)], "points at t=0,2,3: edges %s, expected [(1,2)]" % e


# ----------------------------------------------------------------------------- C19
def w_F19a():
    from funtracks.utils._segmentation_utils import ensure_unique_labels

    seg = np.zeros((3, 2, 2), dtype=np.uint64)
    seg[0, 0, 0] = 1
    seg[0, 1, 1] = 2
    seg[2, 0, 0] = 1
    seg[2, 1, 1] = 2
    out = ensure_unique_labels(seg.copy())
    l0 = set(np.unique(out[0]).tolist()) - {0}
    l2 = set(np.unique(out[2]).tolist()) - {0}
    return not (l0 & l2), "frames [1,2],[empty],[1,2] -> labels %s and %s share %s" % (sorted(l0), sorted(l2), sorted(l0 & l2))


# ----------------------------------------------------------------------------- consequences of F-10b in C08 / C09
def _w_F10b_stale(which):
    """F-10b (enable_features(['track_id']) in mid-session renumbers the ids but keeps the undo history) leaves,
    after an undo, three unconnected nodes 5@t1, 1@t0 -> 2@t3 with the same track id. A stroke that starts a new
    node in that track at t2 over half of node 4 then raises ValueError (the edge (5, 2) that UserAddNode wants
    to replace does not exist) AFTER node 4's mask update was applied, and nothing is rolled back: the caller
    restores the array, but area(4) and iou(3, 4) stay those of the half mask."""
    from funtracks.user_actions import UserDeleteNode, UserUpdateSegmentation

    seg = np.zeros((4, 5, 5), dtype=np.int64)
    seg[1, 4, 4] = 5
    seg[0, 0, 0:2] = 1
    seg[3, 0, 0:2] = 2
    seg[1, 2, 0:4] = 3
    seg[2, 2, 0:4] = 4
    t = _sol({5: 1, 1: 0, 2: 3, 3: 1, 4: 2}, [(1, 2), (3, 4)], seg=seg)
    t.enable_features(["iou"])
    UserDeleteNode(t, 5)
    t.enable_features(["track_id"])
    t.undo()
    ids = {n: t.get_track_id(n) for n in (5, 1, 2)}
    if len(set(ids.values())) != 1:
        return True, "ids after recompute + undo: %s (F-10b did not reproduce: nothing to report)" % ids
    arr = t.segmentation
    px = (np.array([2, 2, 2, 2]), np.array([2, 2, 3, 3]), np.array([2, 3, 2, 3]))   # two pixels of node 4, two of background
    old = arr[px].copy()
    g1 = (tuple(a[:2] for a in px), 4)
    g2 = (tuple(a[2:] for a in px), 0)
    arr[px] = 9
    try:
        UserUpdateSegmentation(t, 9, [g1, g2], current_track_id=ids[5], force=True)
        return True, "stroke accepted"
    except Exception as e:  # noqa: BLE001
        arr[px] = old
        err = type(e).__name__
    cnt = int((np.asarray(t.segmentation)[2] == 4).sum())
    if which == "area":
        got = t.get_node_attr(4, "area")
        return float(got) == float(cnt), "stroke refused (%s); node 4 has %d pixels again, stored area %s" % (err, cnt, got)
    got = t.graph.edges[3, 4].get("iou")
    return abs(float(got) - 1.0) < 1e-12, "stroke refused (%s); masks of 3 and 4 coincide again (IoU 1), stored iou %s" % (err, got)


def w_F10b_stale_area():
    return _w_F10b_stale("area")


def w_F10b_stale_iou():
    return _w_F10b_stale("iou")


WITNESSES = {
    # finding id: (property ids, function)
    "F-03a-backward": (["C03"], w_F03a_backward),
    "F-03a-same-frame": (["C03"], w_F03a_same_frame),
    "F-03a-cycle": (["C03"], w_F03a_cycle),
    "F-05a": (["C05"], w_F05a),
    "F-05b": (["C05"], w_F05b),
    "F-05c-dividing": (["C05"], w_F05c_dividing),
    "F-05c-first-after-division": (["C05"], w_F05c_first_after_division),
    "F-05c-root-division": (["C05"], w_F05c_root_division),
    "F-07a": (["C07"], w_F07a),
    "F-07b-overwrite": (["C07"], w_F07b_overwrite),
    "F-07b-no-pixels": (["C07"], w_F07b_no_pixels),
    "F-07b-wrong-frame": (["C07"], w_F07b_wrong_frame),
    "F-09a": (["C09"], w_F09a),
    "F-10b-stale-area": (["C08"], w_F10b_stale_area),
    "F-10b-stale-iou": (["C09"], w_F10b_stale_iou),
    "F-11a": (["C11"], w_F11a),
    "F-11b": (["C11"], w_F11b),
    "F-11d-add": (["C11"], w_F11d_add),
    "F-11d-delete": (["C11"], w_F11d_delete),
    "F-11d-range": (["C11"], w_F11d_range),
    "F-11c": (["C11"], w_F11c),
    "F-12a": (["C12"], w_F12a),
    "F-12c": (["C12"], w_F12c),
    "F-12d": (["C12"], w_F12d),
    "F-13a": (["C13"], w_F13a),
    "F-13a-stray-only": (["C13"], w_F13a_stray_only),
    "F-14a-roundtrip": (["C14"], w_F14a_roundtrip),
    "F-14a-undo": (["C01"], w_F14a_undo),
    "F-14b": (["C14", "C01"], w_F14b),
    "F-15a": (["C15"], w_F15a),
    "F-15b": (["C15"], w_F15b),
    "F-16a": (["C16"], w_F16a),
    "F-17a-fuzzy": (["C17"], w_F17a_fuzzy),
    "F-17a-custom-pos": (["C17"], w_F17a_custom_pos),
    "F-18a-gap": (["C18"], w_F18a_gap),
    "F-18a-gap2": (["C18"], w_F18a_gap2),
    "F-19a": (["C19"], w_F19a),
}


def run(ids=None, prop=None):
    out = []
    for fid, (props, fn) in WITNESSES.items():
        if ids and fid not in ids:
            continue
        if prop and prop not in props:
            continue
        try:
            ok, detail = fn()
        except Exception as e:  # noqa: BLE001
            ok, detail = False, "witness raised %s: %s" % (type(e).__name__, str(e)[:120])
        out.append((fid, props, bool(ok), detail))
    return out


if __name__ == "__main__":
    res = run(sys.argv[1:] or None)
    for fid, props, ok, detail in res:
        print("%-28s %-8s %s  %s" % (fid, ",".join(props), "ok  " if ok else "FAIL", detail))
    sys.exit(0 if all(r[2] for r in res) else 1)
