"""Fail-closed translator: the two SEGMENTATION-DERIVED ANNOTATORS (properties C08, C09, C10)  ->  coq/Gen/Annotators_gen.v

Sources (below $VERIF_REPO/src/funtracks, default /repo) and what is translated, in this order:
  annotators/_compute_ious.py            _compute_ious                (module Ious of the generated file; translated by the emitter
                                                                       CODE of translate_candgraph.py into the monad of Model/PyRt5.v.
                                                                       Only annotators/_compute_ious.py is READ: no file below
                                                                       candidate_graph/ is opened, and neither Gen/CandGraph_gen.v nor
                                                                       Proofs/CandGraphTie.v is used -- the tie for this function is
                                                                       Proofs/AnnotatorsIous.v, about the definition generated here)
  annotators/_edge_annotator.py          class EdgeAnnotator:         _iou_update, update, compute
  annotators/_regionprops_annotator.py   class RegionpropsAnnotator:  _regionprops_update, update, compute
One Gallina definition `gen_<Class>_<method>` each (a leading `_` of the method name is kept: gen_EdgeAnnotator__iou_update), in the
`res` monad of Model/Edit.v (shallow embedding, the state `s` threaded explicitly).  Proofs/AnnotatorsTie.v proves every generated
definition equal to the hand-written model (Model/Edit.v: rp_update, iou_of, iou_update_edges through Model/PyRt3.v's
py_regionprops_update / py_edge_update; Model/Toggle.v: rp_compute_frame, rp_compute, iou_compute), so a change of the Python changes
the generated text and un-hooks the tie.

Anything not listed below raises `Unsupported("<file>:<line>: ...")`; nothing is guessed or skipped.  This table, the emitter below,
Model/PyRt8.v (+ the combinators reused from PyRt.v / PyRt3.v / PyRt4.v / PyRt5.v / NpRt.v) and the `_compute_ious` part of
translate_candgraph.py are the trusted part.

CLOSED IDIOM TABLE      (s = the model state = the Tracks object with everything reachable from it; Python variable x = Gallina v_x;
                         re-assignment = shadowing `let`; a raising sub-expression is bound first, in evaluation order: do t, s <- ..;)
 -- skipped (nothing else is)
 docstrings; parameter / return annotations (they only select the types below); `warnings.warn(<constant or f-string over local
 names>, stacklevel=k)`; the comment lines.  PINNED (a difference is Unsupported): the module constant DEFAULT_IOU_KEY = "iou" and
 `self.iou_key = DEFAULT_IOU_KEY` in EdgeAnnotator.__init__; the imports of _compute_ious, regionprops_extended, AddEdge, AddNode,
 UpdateNodeSeg; the bodies of Tracks.nodes / get_time / _set_node_attr / _set_edge_attr (data_model/tracks.py); no other method of
 the two classes may be called.
 -- objects
 self                        EdgeAnnotator: AEdge    RegionpropsAnnotator: ARp      (Model/PyRt4.v `ann`)
 self.tracks                 the state s
 self.iou_key                KIou
 self.features               gen_GraphAnnotator_features s SELF            (Gen/Toggle_gen.v: the property translated from GraphAnnotator)
 self._filter_feature_keys(x)   gen_GraphAnnotator_filter_feature_keys s SELF x     (likewise)
 k in F / k not in F  (F = self.features)     haskey k F / negb ..;     list(F.keys())    keys F
 self.tracks.segmentation    seg s : option (list (list Z))   (None or the T flat frames; a local name bound to it is an alias of
                             the array object; no idiom of this table writes the array)
 A is None / A is not None   negb (py_is_some A) / py_is_some A          (A the array, or an optional key list)
 A.shape[0]                  do t, s <- py_arr_shape0 A s               (on None: EKey stands in for the AttributeError)
 A[t]   (t an int)           do t, s <- py_arr_getitem A t s            (MODEL PRIMITIVE frame_of sg t; out-of-range reads the empty
                                                                        frame: the numpy convention of Model/NpRt.v)
 F == x  (F a frame)         np_eq_mask F x
 np.where(M, a, 0)           np_where M a 0         (M a boolean frame; with M = (F == n), a = n the pixels of label n are the
                                                     model's mask_of -- lemma masked_positions of the tie)
 np.max(F)                   np_max F               (signed maximum; 0 for a zero-size frame)
 _compute_ious(F1, F2)       do l, s <- lift_exn (Ious.gen__compute_ious F1 F2) s     (exact pairs (id1, id2, (inter, union)); the
                                                     model's iou_of is inter / (|A| + |B| - inter) of the two masks -- lemma iou_of_frames)
 regionprops_extended(F, spacing=sp)    regionprops_extended F sp        }  Section variables (an ORACLE): what is assumed is stated in
 R.label                     region_label R                              }  Proofs/AnnotatorsTie.v (rp_labels: the labels are the model's
 getattr(R, self.regionprops_names[k])  region_getattr R k               }  labels_of F; rp_values: the value is VRp of the mask of that
                                                                            label IN F, when sp is scale[1:])
 self.tracks.scale           tracks_scale : option (list ScaleT)         (Section variable: the model state has no scale)
 None if P is None else e    match P with None => None | Some t => Some e[P := t] end       (P = self.tracks.scale)
 tuple(l);  l[1:]            py_tuple l;  py_from1 l     (= tl l)
 action  (a BasicAction parameter)      a value of Model/Edit.v's `basic`
 isinstance(action, C) / isinstance(action, (C1, .., Cn))       py_isinstance action [C..]      (C among the seven action classes)
 action.node / action.edge   do t, s <- py_action_node action s / py_action_edge action s   (AttributeError: EValue stands in)
 self.tracks.nodes()         tracks_nodes s         (= keys (nodes (g s)))
 self.tracks.get_time(n)     do t, s <- py_get_time s n                 (KeyError for a missing node; MODEL PRIMITIVE time_of)
 list(self.tracks.graph.in_edges(n)) / list(..out_edges(n))   (n one node)      do t, s <- nx_in_edges s n / nx_out_edges s n
                                                                        (NetworkXError; MODEL PRIMITIVES predecessors / successors)
 self.tracks.graph.out_edges(l)  [inside list(..) or iterated]  (l a list of ids)     nx_out_edges_bunch s l   (non-nodes skipped, repeats once)
 n not in self.tracks.graph  negb (nx_contains s n)    (= has_node)
 self.tracks._set_edge_attr(e, k, v)    do _u, s <- py_set_edge_attr s e k (val_of_frac v)      (KeyError; MODEL PRIMITIVE set_edge_attr;
                                        v a quotient, or the int literal 0 = frac_of_int 0, stored as VIou i u)
 self.tracks._set_node_attr(n, k, v)    do _u, s <- py_set_node_attr s n k v                    (KeyError; MODEL PRIMITIVE set_node_attr)
 self._iou_update(l, F1, F2) / self._regionprops_update(F, ks)          do _u, s <- gen_<Class>_<m> s ..   (a list handed to a parameter
                                        the callee changes in place must be a name that is never used again)
 defaultdict(list)           dd_new;    D[k].append(x)    let D := dd_append k x D;     x = D[k]    let x := dd_read k D in
                             let D := dd_touch k D  (the read creates the entry; D may not be appended to afterwards: x is an alias)
 D.items()  (iterated)       py_items D   with the pattern '(k, group)
 -- expressions
 ints, + - (ints), l1 + l2 (lists)      Z, + -, ++;     a == b (ints)   (a =? b);    c1 or c2 / c1 and c2 (operands cannot raise)   || / &&
 not c;  not l (l a list)    negb c;  py_is_nil l;      k in l / k not in l (list of ints)   memz k l / negb ..;   e in l (list of edges)   mem_pair e l
 (a, b);  e[0] e[1] (an edge);  [e]     (a, b);  fst e, snd e;  [e];      range(n)    py_range n;     len(l)   py_len l
 l[0]  (a list)              do t, s <- py_list_get l 0 s               (IndexError);     t[2] / t[0] / t[1]  (a triple)   snd t / fst (fst t) / snd (fst t)
 a if c else b               (if c then a else b); with a raising branch:   do x, s <- (if c then .. Ok a s else .. Ok b s)
 -- statements
 x = e;  a, b = e  (e an edge)          let v_x := e in ..;  let '(v_a, v_b) := e in ..;        x = None  (an attribute value)   let v_x := VNone
 if isinstance(value, tuple): value = list(value)        let v_value := py_tuple_to_list v_value    (exactly this statement)
 l.remove(e)  (l a list of edges)       do v_l, s <- py_pairs_remove v_l e s                    (ValueError)
 if c: A [else: B] ; rest    rest empty:  if c then <A; end> else <B; end>;   A ends in return / continue:  if c then A else <B; rest>;
                             otherwise:   do <assigned>, s <- (if c then A; Ok <assigned> s else B; Ok <assigned> s); rest
 for pat in l: body ; rest   do <carried>, s <- py_for l <carried> s (fun pat <carried> s => body; Ok <carried> s); rest
                             (<carried> = the variables assigned or changed in the body that exist before the loop; l: a list of ints /
                             edges / regions, the triples of _compute_ious with pattern (id1, id2, iou), D.items(); no return / break inside)
 continue;  return  (no value, outside loops);  falling off the end     Ok <carried> s;  Ok tt s;  Ok tt s
"""
import ast
import hashlib
import os
import sys

HERE = os.path.dirname(os.path.abspath(__file__))
sys.path.insert(0, HERE)
OUT = "/verif/coq/Gen/Annotators_gen.v"
REL_IOUS = "src/funtracks/annotators/_compute_ious.py"
REL_EDGE = "src/funtracks/annotators/_edge_annotator.py"
REL_RP = "src/funtracks/annotators/_regionprops_annotator.py"
REL_TRACKS = "src/funtracks/data_model/tracks.py"


class Unsupported(Exception):
    pass


def repo_root():
    return os.environ.get("VERIF_REPO", "/repo")


ACTION_CLASSES = {"AddNode": "CAddNode", "DeleteNode": "CDeleteNode", "AddEdge": "CAddEdge", "DeleteEdge": "CDeleteEdge",
                  "UpdateNodeAttrs": "CUpdateNodeAttrs", "UpdateNodeSeg": "CUpdateNodeSeg", "UpdateTrackIDs": "CUpdateTrackIDs"}
# (file, class, identity of self, methods in translation order (callees first), required import lines)
CLASSES = [
    (REL_EDGE, "EdgeAnnotator", "AEdge", ["_iou_update", "update", "compute"],
     ["from funtracks.actions.add_delete_edge import AddEdge", "from funtracks.actions.update_segmentation import UpdateNodeSeg",
      "from ._compute_ious import _compute_ious", "from collections import defaultdict", "import numpy as np", "import warnings"]),
    (REL_RP, "RegionpropsAnnotator", "ARp", ["_regionprops_update", "update", "compute"],
     ["from funtracks.actions.add_delete_node import AddNode", "from funtracks.actions.update_segmentation import UpdateNodeSeg",
      "from ._regionprops_extended import regionprops_extended", "import numpy as np", "import warnings"]),
]
# parameter annotation -> translator type
ANNOT = {"list[tuple[int, int]]": "listpair", "np.ndarray": "arr1", "list[str] | None": "optlistZ", "list[str]": "listZ", "BasicAction": "basic"}
COQTY = {"Z": "Z", "listZ": "list Z", "optlistZ": "option (list Z)", "listpair": "list (Z * Z)", "arr1": "list Z", "basic": "basic"}
# Tracks methods the idiom table gives a meaning to: their bodies are pinned
PINNED_TRACKS = {
    "nodes": "def nodes(self):\n    return np.array(self.graph.nodes())",
    "get_time": "def get_time(self, node: Node) -> int:\n    return int(self.get_times([node])[0])",
    "_set_node_attr": "def _set_node_attr(self, node: Node, attr: str, value: Any):\n    if isinstance(value, np.ndarray):\n        value = list(value)\n    self.graph.nodes[node][attr] = value",
    "_set_edge_attr": "def _set_edge_attr(self, edge: Edge, attr: str, value: Any):\n    self.graph.edges[edge][attr] = value",
}
ELEM = {"listZ": "Z", "listpair": "pair", "listtriple": "triple", "listregion": "region"}
DD = {"Z": "ddZ", "pair": "ddpair"}
DDELEM = {"ddZ": "Z", "ddpair": "pair"}
DDLIST = {"ddZ": "listZ", "ddpair": "listpair"}
MUTABLE = ("listZ", "listpair", "ddZ", "ddpair", "dd?")


def is_doc(s):
    return isinstance(s, ast.Expr) and isinstance(s.value, ast.Constant) and isinstance(s.value.value, str)


def names_in(node):
    return {x.id for x in ast.walk(node) if isinstance(x, ast.Name)}


def path_of(n):
    """dotted path of a Name / Attribute chain, e.g. self.tracks.segmentation, else None"""
    parts = []
    while isinstance(n, ast.Attribute):
        parts.append(n.attr)
        n = n.value
    if isinstance(n, ast.Name):
        parts.append(n.id)
        return ".".join(reversed(parts))
    return None


class V:
    def __init__(self, coq, ty, lit=None):
        self.coq, self.ty, self.lit = coq, ty, lit


def ind(txt, n=2):
    return "\n".join(" " * n + l for l in txt.split("\n"))


class Fn:
    """translation of one method"""

    def __init__(self, tr, rel, cls, ident, fdef):
        self.tr, self.rel, self.cls, self.ident, self.fdef = tr, rel, cls, ident, fdef
        self.tmp = 0
        self.mutated_params = set()
        self.dead = set()        # names that may not be mentioned any more
        self.frozen = set()      # defaultdicts that may not be appended to any more (a group of theirs has a name)
        self.alias = set()       # names of groups of a defaultdict (read only)

    def fail(self, node, why):
        raise Unsupported("%s:%s: %s: %s" % (self.rel, getattr(node, "lineno", "?"), why,
                                             ast.dump(node)[:160] if isinstance(node, ast.AST) else node))

    def fresh(self):
        self.tmp += 1
        return "t%d" % self.tmp

    # ------------------------------------------------------------------ expressions
    def ex(self, n, env, pre):
        """translate an expression; `pre` collects the bindings (name, monadic term) that run first, in evaluation order"""
        def hoist(term, ty):
            if pre is None: self.fail(n, "a raising expression is not allowed in this position")
            x = self.fresh()
            pre.append((x, term))
            return V(x, ty)

        def sub(m):
            return self.ex(m, env, pre)

        def need(m, *tys):
            v = sub(m)
            if v.ty not in tys: self.fail(m, "expected %s, got %s" % (" / ".join(tys), v.ty))
            return v

        p = path_of(n)
        if isinstance(n, ast.Name):
            if n.id in self.dead: self.fail(n, "%s is used after it was handed to a method that changes it (or after its groups were)" % n.id)
            if n.id not in env: self.fail(n, "unknown name %s" % n.id)
            return env[n.id]
        if isinstance(n, ast.Constant):
            if n.value is None: return V("None", "none")
            if isinstance(n.value, int) and not isinstance(n.value, bool): return V(str(n.value) if n.value >= 0 else "(%d)" % n.value, "Z", lit=n.value)
            self.fail(n, "constant")
        if p == "self.iou_key": return V("KIou", "Z")
        if p == "self.tracks.segmentation": return V("(seg s)", "optarr")
        if p == "self.features": return V("(gen_GraphAnnotator_features s %s)" % self.ident, "feats")
        if p == "self.tracks.scale": return V("tracks_scale", "optscale")
        if isinstance(n, ast.Attribute):
            if n.attr in ("node", "edge") and isinstance(n.value, ast.Name):
                v = sub(n.value)
                if v.ty != "basic": self.fail(n, "attribute %s of a non-action" % n.attr)
                return hoist("py_action_%s %s s" % (n.attr, v.coq), "Z" if n.attr == "node" else "pair")
            if n.attr == "shape":
                return V(need(n.value, "optarr").coq, "shape")
            if n.attr == "label":
                v = need(n.value, "region")
                return V("(region_label %s)" % v.coq, "Z")
            self.fail(n, "attribute")
        if isinstance(n, ast.Tuple) and len(n.elts) == 2:
            a, b = need(n.elts[0], "Z"), need(n.elts[1], "Z")
            return V("(%s, %s)" % (a.coq, b.coq), "pair")
        if isinstance(n, ast.List) and len(n.elts) == 1:
            a = need(n.elts[0], "Z", "pair")
            return V("[%s]" % a.coq, "listZ" if a.ty == "Z" else "listpair")
        if isinstance(n, ast.BinOp) and isinstance(n.op, (ast.Add, ast.Sub)):
            a, b = sub(n.left), sub(n.right)
            if a.ty == "Z" and b.ty == "Z": return V("(%s %s %s)" % (a.coq, "+" if isinstance(n.op, ast.Add) else "-", b.coq), "Z")
            if isinstance(n.op, ast.Add) and a.ty == b.ty and a.ty in ("listZ", "listpair"): return V("(%s ++ %s)" % (a.coq, b.coq), a.ty)
            self.fail(n, "operands of types %s, %s" % (a.ty, b.ty))
        if isinstance(n, ast.UnaryOp) and isinstance(n.op, ast.Not):
            v = sub(n.operand)
            if v.ty == "bool": return V("(negb %s)" % v.coq, "bool")
            if v.ty in ("listZ", "listpair"): return V("(py_is_nil %s)" % v.coq, "bool")
            self.fail(n, "not of a %s" % v.ty)
        if isinstance(n, ast.BoolOp):
            vs = [need(n.values[0], "bool")]
            k = len(pre) if pre is not None else 0
            for m in n.values[1:]:
                vs.append(self.ex(m, env, None))          # later operands are evaluated conditionally: they may not raise
                if vs[-1].ty != "bool": self.fail(m, "boolean expected")
            op = " || " if isinstance(n.op, ast.Or) else " && "
            return V("(%s)" % op.join(v.coq for v in vs), "bool")
        if isinstance(n, ast.Compare) and len(n.ops) == 1:
            op, l, r = n.ops[0], n.left, n.comparators[0]
            if isinstance(op, (ast.Is, ast.IsNot)) and isinstance(r, ast.Constant) and r.value is None:
                v = need(l, "optarr", "optlistZ")
                return V("(negb (py_is_some %s))" % v.coq if isinstance(op, ast.Is) else "(py_is_some %s)" % v.coq, "bool")
            if isinstance(op, ast.Eq):
                a, b = sub(l), sub(r)
                if a.ty == "Z" and b.ty == "Z": return V("(%s =? %s)" % (a.coq, b.coq), "bool")
                if a.ty == "arr1" and b.ty == "Z": return V("(np_eq_mask %s %s)" % (a.coq, b.coq), "mask")
                self.fail(n, "== of %s and %s" % (a.ty, b.ty))
            if isinstance(op, (ast.In, ast.NotIn)):
                if path_of(r) == "self.tracks.graph":
                    a = need(l, "Z")
                    t = "(nx_contains s %s)" % a.coq
                else:
                    a, b = sub(l), sub(r)
                    if a.ty == "Z" and b.ty == "feats": t = "(haskey %s %s)" % (a.coq, b.coq)
                    elif a.ty == "Z" and b.ty == "listZ": t = "(memz %s %s)" % (a.coq, b.coq)
                    elif a.ty == "pair" and b.ty == "listpair": t = "(mem_pair %s %s)" % (a.coq, b.coq)
                    else: self.fail(n, "membership of %s in %s" % (a.ty, b.ty))
                return V(t if isinstance(op, ast.In) else "(negb %s)" % t, "bool")
            self.fail(n, "comparison")
        if isinstance(n, ast.Subscript):
            if isinstance(n.slice, ast.Slice):
                s_ = n.slice
                if not (isinstance(s_.lower, ast.Constant) and s_.lower.value == 1 and s_.upper is None and s_.step is None): self.fail(n, "slice")
                v = need(n.value, "scale")
                return V("(py_from1 %s)" % v.coq, "scale")
            v = sub(n.value)
            if v.ty == "optarr":
                i = need(n.slice, "Z")
                return hoist("py_arr_getitem %s %s s" % (v.coq, i.coq), "arr1")
            if v.ty == "shape":
                if not (isinstance(n.slice, ast.Constant) and n.slice.value == 0): self.fail(n, "shape index")
                return hoist("py_arr_shape0 %s s" % v.coq, "Z")
            if v.ty == "pair" and isinstance(n.slice, ast.Constant) and n.slice.value in (0, 1):
                return V("(%s %s)" % ("fst" if n.slice.value == 0 else "snd", v.coq), "Z")
            if v.ty == "triple" and isinstance(n.slice, ast.Constant) and n.slice.value in (0, 1, 2):
                return [V("(fst (fst %s))" % v.coq, "Z"), V("(snd (fst %s))" % v.coq, "Z"), V("(snd %s)" % v.coq, "frac")][n.slice.value]
            if v.ty == "listtriple" and isinstance(n.slice, ast.Constant) and n.slice.value == 0:
                return hoist("py_list_get %s 0 s" % v.coq, "triple")
            self.fail(n, "subscript of a %s" % v.ty)
        if isinstance(n, ast.IfExp):
            # None if P is None else e   (P = self.tracks.scale)
            t = n.test
            if (isinstance(t, ast.Compare) and len(t.ops) == 1 and isinstance(t.ops[0], ast.Is) and path_of(t.left) == "self.tracks.scale"
                    and isinstance(t.comparators[0], ast.Constant) and t.comparators[0].value is None
                    and isinstance(n.body, ast.Constant) and n.body.value is None):
                x = self.fresh()
                e = self.ex_with_scale(n.orelse, env, x)
                if e.ty != "scale": self.fail(n.orelse, "a spacing expected, got %s" % e.ty)
                return V("match tracks_scale with None => None | Some %s => Some %s end" % (x, e.coq), "spacing")
            c = self.ex(t, env, None)
            if c.ty != "bool": self.fail(t, "condition")
            pa, pb = [], []
            a, b = self.ex(n.body, env, pa), self.ex(n.orelse, env, pb)
            ty = self.join_ty(n, a, b)
            if not pa and not pb:
                return V("(if %s then %s else %s)" % (c.coq, self.coerce(n, a, ty), self.coerce(n, b, ty)), ty)
            blk = lambda pp, v: "".join("do %s, s <- %s;\n" % (x, tm) for x, tm in pp) + "Ok %s s" % self.coerce(n, v, ty)
            return hoist("(\n" + ind("if %s\nthen\n%s\nelse\n%s)" % (c.coq, ind(blk(pa, a)), ind(blk(pb, b)))), ty)
        if isinstance(n, ast.Call):
            f, fp = n.func, path_of(n.func)
            args, kws = n.args, n.keywords
            plain = lambda k: len(args) == k and not kws and not any(isinstance(a, ast.Starred) for a in args)
            if fp == "isinstance" and plain(2):
                v = need(args[0], "basic")
                cs = args[1].elts if isinstance(args[1], ast.Tuple) else [args[1]]
                if not cs or not all(isinstance(c, ast.Name) and c.id in ACTION_CLASSES for c in cs): self.fail(n, "isinstance against something else than the action classes")
                for c in cs: self.tr.need_import(self.rel, c.id, n)
                return V("(py_isinstance %s [%s])" % (v.coq, "; ".join(ACTION_CLASSES[c.id] for c in cs)), "bool")
            if fp == "self._filter_feature_keys" and plain(1):
                v = need(args[0], "optlistZ")
                return V("(gen_GraphAnnotator_filter_feature_keys s %s %s)" % (self.ident, v.coq), "listZ")
            if fp == "list" and plain(1):
                a = args[0]
                if isinstance(a, ast.Call) and path_of(a.func) == "self.features.keys" and not a.args and not a.keywords:
                    return V("(keys (gen_GraphAnnotator_features s %s))" % self.ident, "listZ")
                if isinstance(a, ast.Call) and path_of(a.func) in ("self.tracks.graph.in_edges", "self.tracks.graph.out_edges") and len(a.args) == 1 and not a.keywords:
                    v = need(a.args[0], "Z", "listZ")
                    if v.ty == "listZ":
                        if a.func.attr != "out_edges": self.fail(n, "in_edges of a list of nodes")
                        return V("(nx_out_edges_bunch s %s)" % v.coq, "listpair")
                    return hoist("%s s %s" % ("nx_in_edges" if a.func.attr == "in_edges" else "nx_out_edges", v.coq), "listpair")
                self.fail(n, "list(..)")
            if fp == "self.tracks.graph.out_edges" and plain(1):
                v = need(args[0], "listZ")
                return V("(nx_out_edges_bunch s %s)" % v.coq, "listpair")
            if fp == "self.tracks.get_time" and plain(1):
                v = need(args[0], "Z")
                return hoist("py_get_time s %s" % v.coq, "Z")
            if fp == "self.tracks.nodes" and plain(0): return V("(tracks_nodes s)", "listZ")
            if fp == "range" and plain(1): return V("(py_range %s)" % need(args[0], "Z").coq, "listZ")
            if fp == "len" and plain(1): return V("(py_len %s)" % need(args[0], "listZ", "listpair", "listtriple").coq, "Z")
            if fp == "np.max" and plain(1): return V("(np_max %s)" % need(args[0], "arr1").coq, "Z")
            if fp == "np.where" and plain(3):
                m, a = need(args[0], "mask"), need(args[1], "Z")
                if not (isinstance(args[2], ast.Constant) and args[2].value == 0 and not isinstance(args[2].value, bool)): self.fail(n, "np.where: the third argument must be the literal 0")
                return V("(np_where %s %s 0)" % (m.coq, a.coq), "arr1")
            if fp == "_compute_ious" and plain(2):
                self.tr.need_import(self.rel, "_compute_ious", n)
                a, b = need(args[0], "arr1"), need(args[1], "arr1")
                return hoist("lift_exn (Ious.gen__compute_ious %s %s) s" % (a.coq, b.coq), "listtriple")
            if fp == "regionprops_extended" and len(args) == 1 and [k.arg for k in kws] == ["spacing"]:
                self.tr.need_import(self.rel, "regionprops_extended", n)
                a, sp = need(args[0], "arr1"), need(kws[0].value, "spacing")
                return V("(regionprops_extended %s %s)" % (a.coq, sp.coq), "listregion")
            if fp == "getattr" and plain(2):
                r = need(args[0], "region")
                k = args[1]
                if not (isinstance(k, ast.Subscript) and path_of(k.value) == "self.regionprops_names"): self.fail(n, "getattr: only the attribute self.regionprops_names[key]")
                return V("(region_getattr %s %s)" % (r.coq, need(k.slice, "Z").coq), "value")
            if fp == "defaultdict" and plain(1) and isinstance(args[0], ast.Name) and args[0].id == "list":
                self.tr.need_import(self.rel, "defaultdict", n)
                return V("dd_new", "dd?")
            self.fail(n, "call")
        if isinstance(n, ast.Attribute) or True:
            pass
        self.fail(n, "expression")

    def ex_with_scale(self, n, env, x):
        """tuple(self.tracks.scale[1:]) with self.tracks.scale known not to be None (= x)"""
        if path_of(n) == "self.tracks.scale": return V(x, "scale")
        if isinstance(n, ast.Call) and path_of(n.func) == "tuple" and len(n.args) == 1 and not n.keywords:
            v = self.ex_with_scale(n.args[0], env, x)
            if v.ty != "scale": self.fail(n, "tuple(..)")
            return V("(py_tuple %s)" % v.coq, "scale")
        if isinstance(n, ast.Subscript) and isinstance(n.slice, ast.Slice):
            s_ = n.slice
            if not (isinstance(s_.lower, ast.Constant) and s_.lower.value == 1 and not isinstance(s_.lower.value, bool) and s_.upper is None and s_.step is None): self.fail(n, "slice")
            v = self.ex_with_scale(n.value, env, x)
            if v.ty != "scale": self.fail(n, "slice of a %s" % v.ty)
            return V("(py_from1 %s)" % v.coq, "scale")
        self.fail(n, "spacing expression")

    def join_ty(self, node, a, b):
        if a.ty == b.ty: return a.ty
        for x, y in ((a, b), (b, a)):
            if x.ty == "Z" and x.lit is not None and y.ty == "frac": return "frac"
        self.fail(node, "the two branches have types %s and %s" % (a.ty, b.ty))

    def coerce(self, node, v, ty):
        if v.ty == ty: return v.coq
        if ty == "frac" and v.ty == "Z" and v.lit is not None: return "(frac_of_int %s)" % v.coq
        self.fail(node, "expected %s, got %s" % (ty, v.ty))

    # ------------------------------------------------------------------ statements
    def assigned(self, stmts):
        """names assigned / changed in place by a statement list (in order of first occurrence)"""
        out = []

        def add(x):
            if x not in out: out.append(x)

        for s in stmts:
            for m in ast.walk(s):
                if isinstance(m, ast.Assign):
                    for t in m.targets:
                        for e in (t.elts if isinstance(t, ast.Tuple) else [t]):
                            if isinstance(e, ast.Name): add(e.id)
                    # x = D[k] changes D (the entry the read creates)
                    if isinstance(m.value, ast.Subscript) and isinstance(m.value.value, ast.Name): add("?" + m.value.value.id)
                if isinstance(m, ast.For):
                    for e in ast.walk(m.target):
                        if isinstance(e, ast.Name): add(e.id)
                if isinstance(m, ast.Call) and isinstance(m.func, ast.Attribute) and m.func.attr in ("append", "remove"):
                    r = m.func.value
                    if isinstance(r, ast.Subscript): r = r.value
                    if isinstance(r, ast.Name): add(r.id)
        return out

    def carried(self, stmts, env):
        out = []
        for x in self.assigned(stmts):
            if x.startswith("?"):
                x = x[1:]
                if not (x in env and env[x].ty in ("ddZ", "ddpair", "dd?")): continue
            if x in env and x not in out: out.append(x)
        return out

    def pack(self, names, env):
        if not names: return "tt"
        if len(names) == 1: return env[names[0]].coq
        return "(%s)" % ", ".join(env[x].coq for x in names)

    def binder(self, names):
        if not names: return "(_ : unit)"
        if len(names) == 1: return "v_" + names[0]
        return "'(%s)" % ", ".join("v_" + x for x in names)

    def rebind(self, names, env, node):
        """after `do c, s <- ..` the carried names are the bound variables again"""
        for x in names:
            ty = env[x].ty
            env[x] = V("v_" + x, ty)

    def terminal(self, stmts):
        """does this statement list end in return / continue on every path?"""
        if not stmts: return False
        s = stmts[-1]
        if isinstance(s, (ast.Return, ast.Continue)): return True
        if isinstance(s, ast.If): return self.terminal(s.body) and self.terminal(s.orelse)
        return False

    def block(self, stmts, env, end, loop):
        """translate a statement list.  `end` = the term a fall-through ends in (a function of env); `loop` = the carried names when
        inside a loop body (continue allowed), else None.  Returns Coq text."""
        stmts = [s for s in stmts if not is_doc(s) and not self.is_warn(s)]
        if not stmts: return end(env)
        st, rest = stmts[0], stmts[1:]
        env = dict(env)
        lines = []

        def emit_pre(pre):
            for x, tm in pre: lines.append("do %s, s <- %s;" % (x, tm))

        def go():
            return "\n".join(lines + [self.block(rest, env, end, loop)])

        if isinstance(st, ast.Return):
            if st.value is not None or loop is not None: self.fail(st, "return of a value, or inside a loop")
            if rest: self.fail(rest[0], "statement after return")
            return "Ok tt s"
        if isinstance(st, ast.Continue):
            if loop is None: self.fail(st, "continue outside a loop")
            if rest: self.fail(rest[0], "statement after continue")
            return "Ok %s s" % self.pack(loop, env)
        if isinstance(st, ast.Assign) and len(st.targets) == 1:
            tgt, val = st.targets[0], st.value
            if isinstance(tgt, ast.Tuple):
                if not (len(tgt.elts) == 2 and all(isinstance(e, ast.Name) for e in tgt.elts)): self.fail(st, "unpacking")
                pre = []
                v = self.ex(val, env, pre)
                if v.ty != "pair": self.fail(st, "only an edge can be unpacked, got %s" % v.ty)
                emit_pre(pre)
                a, b = tgt.elts[0].id, tgt.elts[1].id
                lines.append("let '(v_%s, v_%s) := %s in" % (a, b, v.coq))
                env[a], env[b] = V("v_" + a, "Z"), V("v_" + b, "Z")
                return go()
            if not isinstance(tgt, ast.Name): self.fail(st, "assignment target")
            x = tgt.id
            if x in env and env[x].ty in MUTABLE and x in self.alias: self.fail(st, "re-binding of an alias")
            # x = D[k]   (D a defaultdict)
            if isinstance(val, ast.Subscript) and isinstance(val.value, ast.Name) and val.value.id in env and env[val.value.id].ty in ("ddZ", "ddpair", "dd?"):
                d = val.value.id
                if env[d].ty == "dd?": self.fail(st, "read of a defaultdict whose element type is not known yet")
                pre = []
                k = self.ex(val.slice, env, pre)
                if k.ty != "Z": self.fail(st, "defaultdict key")
                emit_pre(pre)
                lines.append("let v_%s := dd_read %s %s in" % (x, k.coq, env[d].coq))
                lines.append("let v_%s := dd_touch %s %s in" % (d, k.coq, env[d].coq))
                env[x] = V("v_" + x, DDLIST[env[d].ty]); env[d] = V("v_" + d, env[d].ty)
                self.alias.add(x); self.frozen.add(d)
                return go()
            if isinstance(val, ast.Constant) and val.value is None:
                lines.append("let v_%s := VNone in" % x)
                env[x] = V("v_" + x, "value")
                return go()
            if isinstance(val, ast.Name) and val.id in env and env[val.id].ty in MUTABLE: self.fail(st, "a second name for a list / dict")
            pre = []
            v = self.ex(val, env, pre)
            if v.ty in ("none", "mask", "feats", "shape"): self.fail(st, "a %s cannot be bound to a name" % v.ty)
            if pre and v.coq == pre[-1][0]:      # the value IS the last raising step: bind it under the variable's name
                pre[-1] = ("v_" + x, pre[-1][1])
                emit_pre(pre)
            else:
                emit_pre(pre)
                lines.append("let v_%s := %s in" % (x, v.coq))
            env[x] = V("v_" + x, v.ty)
            return go()
        if isinstance(st, ast.Expr) and isinstance(st.value, ast.Call):
            c = st.value
            fp = path_of(c.func)
            plain = lambda k: len(c.args) == k and not c.keywords and not any(isinstance(a, ast.Starred) for a in c.args)
            pre = []
            if fp in ("self.tracks._set_edge_attr", "self.tracks._set_node_attr") and plain(3):
                a = self.ex(c.args[0], env, pre)
                k = self.ex(c.args[1], env, pre)
                v = self.ex(c.args[2], env, pre)
                if k.ty != "Z": self.fail(c, "attribute key")
                emit_pre(pre)
                if fp.endswith("_set_edge_attr"):
                    if a.ty != "pair": self.fail(c, "edge expected")
                    lines.append("do _u, s <- py_set_edge_attr s %s %s (val_of_frac %s);" % (a.coq, k.coq, self.coerce(c, v, "frac")))
                else:
                    if a.ty != "Z" or v.ty != "value": self.fail(c, "node / value expected, got %s / %s" % (a.ty, v.ty))
                    lines.append("do _u, s <- py_set_node_attr s %s %s %s;" % (a.coq, k.coq, v.coq))
                return go()
            if isinstance(c.func, ast.Attribute) and c.func.attr == "remove" and isinstance(c.func.value, ast.Name) and plain(1):
                l = c.func.value.id
                if l not in env or env[l].ty != "listpair" or l in self.alias: self.fail(c, "remove: only from a list of edges that is not an alias")
                e = self.ex(c.args[0], env, pre)
                if e.ty != "pair": self.fail(c, "edge expected")
                emit_pre(pre)
                lines.append("do v_%s, s <- py_pairs_remove %s %s s;" % (l, env[l].coq, e.coq))
                env[l] = V("v_" + l, "listpair")
                if l in self.params: self.mutated_params.add(l)
                return go()
            if isinstance(c.func, ast.Attribute) and c.func.attr == "append" and isinstance(c.func.value, ast.Subscript) and isinstance(c.func.value.value, ast.Name) and plain(1):
                d = c.func.value.value.id
                if d not in env or env[d].ty not in ("ddZ", "ddpair", "dd?"): self.fail(c, "append: only to a group of a defaultdict(list)")
                if d in self.frozen: self.fail(c, "%s is appended to while one of its groups has a name" % d)
                k = self.ex(c.func.value.slice, env, pre)
                e = self.ex(c.args[0], env, pre)
                if k.ty != "Z" or e.ty not in DD: self.fail(c, "defaultdict key / element")
                ty = DD[e.ty]
                if env[d].ty not in ("dd?", ty): self.fail(c, "elements of two types in one defaultdict")
                emit_pre(pre)
                lines.append("let v_%s := dd_append %s %s %s in" % (d, k.coq, e.coq, env[d].coq))
                env[d] = V("v_" + d, ty)
                return go()
            if fp is not None and fp.startswith("self.") and fp[5:] in self.tr.sigs.get(self.cls, {}) and not c.keywords:
                gen, ptys, mut = self.tr.sigs[self.cls][fp[5:]]
                if len(c.args) != len(ptys): self.fail(c, "number of arguments")
                texts = []
                for i, (a, pty) in enumerate(zip(c.args, ptys)):
                    v = self.ex(a, env, pre)
                    if v.ty != pty: self.fail(a, "expected %s, got %s" % (pty, v.ty))
                    if pty in MUTABLE:
                        if not isinstance(a, ast.Name): self.fail(a, "a list argument must be a name")
                        if i in mut:
                            if a.id in self.alias: self.fail(a, "an alias is handed to a method that changes it")
                            self.dead.add(a.id)
                            if a.id in self.items_of: self.dead.add(self.items_of[a.id])
                    texts.append(v.coq)
                emit_pre(pre)
                lines.append("do _u, s <- %s s %s;" % (gen, " ".join(texts)))
                return go()
            self.fail(st, "call statement")
        if isinstance(st, ast.If):
            # if isinstance(value, tuple): value = list(value)
            t = st.test
            if (isinstance(t, ast.Call) and path_of(t.func) == "isinstance" and len(t.args) == 2 and isinstance(t.args[0], ast.Name)
                    and isinstance(t.args[1], ast.Name) and t.args[1].id == "tuple"):
                x = t.args[0].id
                ok = (not st.orelse and len(st.body) == 1 and isinstance(st.body[0], ast.Assign) and len(st.body[0].targets) == 1
                      and isinstance(st.body[0].targets[0], ast.Name) and st.body[0].targets[0].id == x
                      and ast.unparse(st.body[0].value) == "list(%s)" % x)
                if not ok or x not in env or env[x].ty != "value": self.fail(st, "tuple normalisation: only `if isinstance(v, tuple): v = list(v)` on a regionprops value")
                lines.append("let v_%s := py_tuple_to_list %s in" % (x, env[x].coq))
                env[x] = V("v_" + x, "value")
                return go()
            c = self.ex(t, env, None)
            if c.ty != "bool": self.fail(t, "condition of type %s" % c.ty)
            body = [s for s in st.body if not is_doc(s) and not self.is_warn(s)]
            orelse = [s for s in st.orelse if not is_doc(s) and not self.is_warn(s)]
            real_rest = [s for s in rest if not is_doc(s) and not self.is_warn(s)]
            if not real_rest or self.terminal(body) or self.terminal(orelse):
                if not real_rest:
                    ta, tb = self.block(body, env, end, loop), self.block(orelse, env, end, loop)
                elif self.terminal(body) and self.terminal(orelse):
                    self.fail(rest[0], "unreachable statement")
                elif self.terminal(body):
                    ta, tb = self.block(body, env, end, loop), self.block(orelse + rest, env, end, loop)
                else:
                    ta, tb = self.block(body + rest, env, end, loop), self.block(orelse, env, end, loop)
                return "\n".join(lines + ["if %s" % self.strip(c.coq), "then", ind(ta), "else", ind(tb)])
            # join: the variables assigned in a branch come back through the monad
            asg = lambda b: [x for x in self.assigned(b) if not x.startswith("?")]
            # a variable assigned in one branch only and unknown before is local to that branch (a later use is an unknown name)
            names = [x for x in asg(body + orelse) if x in env or (x in asg(body) and x in asg(orelse))]
            envs = []
            texts = []
            for br in (body, orelse):
                e2 = {}
                texts.append(self.block(br, env, lambda e, e2=e2: (e2.update(e), "Ok %s s" % self.pack(names, e))[1] if all(x in e for x in names)
                                        else self.fail(st, "a variable assigned in one branch only and not defined before"), None if loop is None else "no-continue"))
                envs.append(e2)
            for x in names:
                if envs[0][x].ty != envs[1][x].ty: self.fail(st, "%s gets the types %s and %s" % (x, envs[0][x].ty, envs[1][x].ty))
            cv = "_u" if not names else ("v_" + names[0] if len(names) == 1 else self.fresh())
            lines.append("do %s, s <- (\n%s);" % (cv, ind("if %s\nthen\n%s\nelse\n%s" % (self.strip(c.coq), ind(texts[0]), ind(texts[1])))))
            if len(names) > 1: lines.append("let '(%s) := %s in" % (", ".join("v_" + x for x in names), cv))
            for x in names: env[x] = V("v_" + x, envs[0][x].ty)
            return go()
        if isinstance(st, ast.For):
            if st.orelse: self.fail(st, "for .. else")
            pre = []
            it = st.iter
            items_dict = None
            if isinstance(it, ast.Call) and isinstance(it.func, ast.Attribute) and it.func.attr == "items" and isinstance(it.func.value, ast.Name) and not it.args and not it.keywords:
                d = it.func.value.id
                if d not in env or env[d].ty not in ("ddZ", "ddpair"): self.fail(it, "items() of something else than a defaultdict(list)")
                itv = V("(py_items %s)" % env[d].coq, "items:" + env[d].ty)
                items_dict = d
            else:
                itv = self.ex(it, env, pre)
            emit_pre(pre)
            body_env = dict(env)
            tg = st.target
            if itv.ty in ("listZ", "listpair", "listregion"):
                if not isinstance(tg, ast.Name): self.fail(tg, "loop target")
                pat = "v_" + tg.id
                body_env[tg.id] = V(pat, ELEM[itv.ty])
                targets = [tg.id]
            elif itv.ty == "listtriple":
                if not (isinstance(tg, ast.Tuple) and len(tg.elts) == 3 and all(isinstance(e, ast.Name) for e in tg.elts)): self.fail(tg, "loop target: (id1, id2, iou) expected")
                a, b, q = (e.id for e in tg.elts)
                pat = "'(v_%s, v_%s, v_%s)" % (a, b, q)
                body_env[a], body_env[b], body_env[q] = V("v_" + a, "Z"), V("v_" + b, "Z"), V("v_" + q, "frac")
                targets = [a, b, q]
            elif itv.ty.startswith("items:"):
                if not (isinstance(tg, ast.Tuple) and len(tg.elts) == 2 and all(isinstance(e, ast.Name) for e in tg.elts)): self.fail(tg, "loop target: (key, group) expected")
                a, b = (e.id for e in tg.elts)
                pat = "'(v_%s, v_%s)" % (a, b)
                body_env[a], body_env[b] = V("v_" + a, "Z"), V("v_" + b, DDLIST[itv.ty[6:]])
                self.items_of[b] = items_dict
                targets = [a, b]
            else:
                self.fail(it, "cannot iterate over a %s" % itv.ty)
            for x in targets:
                if x in env: self.fail(tg, "the loop variable %s shadows a variable" % x)
            car = [x for x in self.carried(st.body, env) if x not in targets]
            if names_in(it) & set(self.assigned(st.body)): self.fail(st, "the loop changes what it iterates over")
            for x in car: body_env[x] = V("v_" + x, env[x].ty)
            if any(isinstance(m, (ast.Return, ast.Break)) for s_ in st.body for m in ast.walk(s_)): self.fail(st, "return / break inside a loop")
            btxt = self.block(st.body, body_env, lambda e: "Ok %s s" % self.pack(car, e), car)
            cv = "_u" if not car else ("v_" + car[0] if len(car) == 1 else self.fresh())
            lines.append("do %s, s <- py_for %s %s s (fun %s %s s =>\n%s);" % (cv, itv.coq, self.pack(car, env), pat, self.binder(car), ind(btxt)))
            if len(car) > 1: lines.append("let '(%s) := %s in" % (", ".join("v_" + x for x in car), cv))
            # element types fixed inside the body (a defaultdict first appended to there) are not visible here: refuse
            for x in car:
                if env[x].ty == "dd?":
                    ty = self.dd_type_in(st.body, x, body_env)
                    env[x] = V("v_" + x, ty)
                else:
                    env[x] = V("v_" + x, env[x].ty)
            if items_dict is not None and any(b in self.dead for b in targets): self.dead.add(items_dict)
            return go()
        self.fail(st, "statement")

    def dd_type_in(self, stmts, d, env):
        """the element type a defaultdict gets from the appends in a loop body: decided by the type of the appended loop variable"""
        for s in stmts:
            for m in ast.walk(s):
                if (isinstance(m, ast.Call) and isinstance(m.func, ast.Attribute) and m.func.attr == "append" and isinstance(m.func.value, ast.Subscript)
                        and isinstance(m.func.value.value, ast.Name) and m.func.value.value.id == d and len(m.args) == 1 and isinstance(m.args[0], ast.Name)
                        and m.args[0].id in env and env[m.args[0].id].ty in DD):
                    return DD[env[m.args[0].id].ty]
        raise Unsupported("%s: the element type of the defaultdict %s cannot be determined" % (self.rel, d))

    def strip(self, t):
        return t[1:-1] if t.startswith("(") and t.endswith(")") and self.balanced(t[1:-1]) else t

    @staticmethod
    def balanced(t):
        d = 0
        for ch in t:
            d += ch == "("
            d -= ch == ")"
            if d < 0: return False
        return d == 0

    def is_warn(self, s):
        if not (isinstance(s, ast.Expr) and isinstance(s.value, ast.Call) and path_of(s.value.func) == "warnings.warn"): return False
        c = s.value
        if len(c.args) != 1 or [k.arg for k in c.keywords] not in ([], ["stacklevel"]): self.fail(s, "warnings.warn: unexpected arguments")
        m = c.args[0]
        ok = isinstance(m, ast.Constant) and isinstance(m.value, str)
        if isinstance(m, ast.JoinedStr):
            ok = all(isinstance(p, ast.Constant) or (isinstance(p, ast.FormattedValue) and isinstance(p.value, ast.Name) and p.format_spec is None) for p in m.values)
        if not ok: self.fail(s, "warnings.warn: the message must be a constant or an f-string over local names")
        self.tr.need_import(self.rel, "warnings", s)
        return True

    # ------------------------------------------------------------------ a whole method
    def translate(self):
        f = self.fdef
        a = f.args
        if a.vararg or a.kwarg or a.kwonlyargs or a.posonlyargs or f.decorator_list: self.fail(f, "signature / decorators")
        if not a.args or a.args[0].arg != "self": self.fail(f, "first parameter")
        ndef = len(a.defaults)
        for d in a.defaults:
            if not (isinstance(d, ast.Constant) and d.value is None): self.fail(d, "default value")
        env, params, ptys = {}, [], []
        for p in a.args[1:]:
            an = ast.unparse(p.annotation) if p.annotation is not None else None
            if an not in ANNOT: self.fail(p, "parameter annotation %r" % an)
            ty = ANNOT[an]
            env[p.arg] = V("v_" + p.arg, ty)
            params.append("(v_%s : %s)" % (p.arg, COQTY[ty]))
            ptys.append(ty)
        self.params = [p.arg for p in a.args[1:]]
        self.items_of = {}
        if f.returns is not None and ast.unparse(f.returns) != "None": self.fail(f, "return annotation")
        body = self.block(f.body, env, lambda e: "Ok tt s", None)
        gen = "gen_%s_%s" % (self.cls, f.name)
        mut = {i for i, p in enumerate(self.params) if p in self.mutated_params}
        self.tr.sigs.setdefault(self.cls, {})[f.name] = (gen, ptys, mut)
        return "Definition %s (s : state) %s : res unit :=\n%s." % (gen, " ".join(params), ind(body))


class Translator:
    def __init__(self, root):
        self.root = root
        self.sigs = {}
        self.imports = {}

    def need_import(self, rel, name, node):
        have = self.imports[rel]
        if name not in have: raise Unsupported("%s:%s: %s is not imported the expected way" % (rel, getattr(node, "lineno", "?"), name))

    def check_imports(self, rel, tree, required):
        lines = set()
        for n in tree.body:
            if isinstance(n, (ast.Import, ast.ImportFrom)): lines.add(ast.unparse(n))
            if isinstance(n, ast.If):      # if TYPE_CHECKING:
                pass
        names = set()
        for r in required:
            if r not in lines: raise Unsupported("%s: expected the import line %r" % (rel, r))
            names.add(r.split(" import ")[-1].split(" as ")[-1] if " import " in r else r.split()[-1])
        # a second binding of one of these names anywhere at module level would change what the idioms mean
        for n in tree.body:
            if isinstance(n, (ast.Import, ast.ImportFrom)) and ast.unparse(n) not in required:
                for al in n.names:
                    if (al.asname or al.name.split(".")[0]) in names: raise Unsupported("%s: %s is imported a second time" % (rel, al.name))
            if isinstance(n, (ast.Assign, ast.FunctionDef, ast.ClassDef)):
                tg = [t.id for t in getattr(n, "targets", []) if isinstance(t, ast.Name)] + ([n.name] if hasattr(n, "name") else [])
                for x in tg:
                    if x in names or x in ACTION_CLASSES: raise Unsupported("%s: %s is re-bound at module level" % (rel, x))
        self.imports[rel] = names

    def pinned(self):
        rel = REL_TRACKS
        tree = ast.parse(open(os.path.join(self.root, rel)).read())
        cls = [n for n in tree.body if isinstance(n, ast.ClassDef) and n.name == "Tracks"]
        if len(cls) != 1: raise Unsupported("%s: class Tracks not found" % rel)
        for name, want in PINNED_TRACKS.items():
            ms = [m for m in cls[0].body if isinstance(m, ast.FunctionDef) and m.name == name]
            if len(ms) != 1: raise Unsupported("%s: Tracks.%s not found (or defined twice)" % (rel, name))
            m = ms[0]
            m2 = ast.FunctionDef(name=m.name, args=m.args, body=[s for s in m.body if not is_doc(s)], decorator_list=m.decorator_list, returns=m.returns,
                                 type_comment=None, lineno=0, col_offset=0)
            got = ast.unparse(ast.fix_missing_locations(m2))
            if got != want: raise Unsupported("%s:%s: Tracks.%s is no longer the method the idiom table describes:\n%s" % (rel, m.lineno, name, got))

    def edge_key(self, rel, tree, cls):
        ok1 = any(isinstance(n, ast.Assign) and ast.unparse(n) == "DEFAULT_IOU_KEY = 'iou'" for n in tree.body)
        init = [m for m in cls.body if isinstance(m, ast.FunctionDef) and m.name == "__init__"]
        ok2 = len(init) == 1 and sum(1 for s in ast.walk(init[0]) if isinstance(s, ast.Assign) and any(path_of(t) == "self.iou_key" for t in s.targets)) == 1 \
            and any(isinstance(s, ast.Assign) and ast.unparse(s) == "self.iou_key = DEFAULT_IOU_KEY" for s in init[0].body)
        if not (ok1 and ok2): raise Unsupported("%s: self.iou_key is no longer the constant 'iou' set once in __init__" % rel)

    def run(self):
        h = hashlib.sha256()
        out = []
        # ---- _compute_ious, through the candidate-graph translator's emitter
        import translate_candgraph as tc
        src = open(os.path.join(self.root, REL_IOUS)).read()
        h.update(src.encode())
        try:
            t = tc.Translator(REL_IOUS)
            t.pyorder = {}
            defs = t.module(src, ["_compute_ious"], ["import numpy as np"], False)
        except tc.Unsupported as e:
            raise Unsupported(str(e))
        out.append("Module Ious.\nImport FT.Model.NpRt FT.Model.PyRt5.\n" + "\n".join(defs) + "\nEnd Ious.\n")
        self.pinned()
        out.append(SECTION_HEAD)
        for rel, cname, ident, methods, required in CLASSES:
            src = open(os.path.join(self.root, rel)).read()
            h.update(src.encode())
            tree = ast.parse(src)
            self.check_imports(rel, tree, required)
            cls = [n for n in tree.body if isinstance(n, ast.ClassDef) and n.name == cname]
            if len(cls) != 1: raise Unsupported("%s: class %s not found" % (rel, cname))
            cls = cls[0]
            if [ast.unparse(b) for b in cls.bases] != ["GraphAnnotator"] or cls.decorator_list or cls.keywords: raise Unsupported("%s: class %s: bases / decorators changed" % (rel, cname))
            if cname == "EdgeAnnotator": self.edge_key(rel, tree, cls)
            for s in cls.body:      # nothing may re-bind a translated method or the base-class members the idioms rely on
                tg = [t.id for t in getattr(s, "targets", []) if isinstance(t, ast.Name)] if isinstance(s, ast.Assign) else []
                for x in tg:
                    if x in methods or x in ("features", "_filter_feature_keys", "all_features"): raise Unsupported("%s: %s.%s is assigned at class level" % (rel, cname, x))
                if isinstance(s, ast.FunctionDef) and s.name in ("features", "_filter_feature_keys", "__getattr__", "__getattribute__", "__setattr__"):
                    raise Unsupported("%s: %s defines %s (the translated GraphAnnotator code would not be what runs)" % (rel, cname, s.name))
            out.append("(* class %s  <-  %s   sha256=%s *)" % (cname, rel, hashlib.sha256(src.encode()).hexdigest()[:16]))
            for m in methods:
                fs = [x for x in cls.body if isinstance(x, ast.FunctionDef) and x.name == m]
                if len(fs) != 1: raise Unsupported("%s: %s.%s not found (or defined twice)" % (rel, cname, m))
                out.append(Fn(self, rel, cname, ident, fs[0]).translate() + "\n")
        out.append("End Oracles.\n")
        return HEADER % (self.root, h.hexdigest()[:16]) + "\n".join(out)


HEADER = """(* GENERATED by harness/translate_annotators.py from %s/src/funtracks -- do not edit.   sha256=%s
   Shallow embedding of annotators/_compute_ious.py, EdgeAnnotator (_iou_update, update, compute) and RegionpropsAnnotator
   (_regionprops_update, update, compute) over the model state of Model/Edit.v; the idiom table is at the top of the translator,
   the object representation and the runtime combinators are in Model/PyRt8.v; tied to the hand model in Proofs/AnnotatorsTie.v. *)
From Coq Require Import ZArith List Bool.
From FT Require Import Base.Dict Model.Edit Model.Toggle Model.PyRt Model.PyRt3 Model.PyRt4 Model.PyRt8 Gen.Toggle_gen.
From FT Require Model.NpRt Model.PyRt5.
Import ListNotations.
Open Scope Z_scope.

"""
SECTION_HEAD = """(* tracks.scale (the model state has none) and skimage's regionprops_extended with the attributes read off its regions: nothing is
   assumed about them here (Proofs/AnnotatorsTie.v states the convention the symbolic value VRp stands for). *)
Section Oracles.
Variable ScaleT : Type.
Variable tracks_scale : option (list ScaleT).                                       (* self.tracks.scale *)
Variable Region : Type.
Variable regionprops_extended : list Z -> option (list ScaleT) -> list Region.      (* regionprops_extended(frame, spacing=sp) *)
Variable region_label : Region -> Z.                                                (* region.label *)
Variable region_getattr : Region -> Z -> value.                                     (* getattr(region, self.regionprops_names[key]) *)
"""


def main(repo=None):
    return Translator(repo or repo_root()).run()


def regenerate(out=None, repo=None):
    """(re)write the generated file from the current sources; returns (ok, message).  A source outside the idiom table yields a file
    that does not type-check (fail closed).  The file is written only when its content (ignoring the header lines) changes."""
    out = out or OUT
    try:
        txt = main(repo); ok = True; msg = "translated"
    except Unsupported as e:
        txt = None; ok = False; msg = str(e)
    except Exception as e:      # a bug of the translator must not look like a translation
        txt = None; ok = False; msg = "%s: %s" % (type(e).__name__, e)
    if txt is None:
        txt = "(* TRANSLATION FAILED: %s *)\nDefinition translation_failed : False := I.\n" % msg.replace("*)", "* )").replace("(*", "( *")
    os.makedirs(os.path.dirname(out), exist_ok=True)
    old = open(out).read() if os.path.exists(out) else None
    strip = lambda t: "\n".join(l for l in t.split("\n") if "sha256=" not in l and not l.startswith("(* GENERATED"))
    if old is None or strip(old) != strip(txt):
        open(out, "w").write(txt)
    return ok, msg


if __name__ == "__main__":
    if len(sys.argv) > 1 and sys.argv[1] == "--stdout":
        sys.stdout.write(main())
    else:
        ok, msg = regenerate(*(sys.argv[1:3]))
        print((ok, msg))
        sys.exit(0 if ok else 1)
