"""Mutation campaign for the core tie (evidence that the tie is sensitive to the source).

Every statement inside the bodies of the methods listed in translate_core.FUNCS is deleted in turn, and
every pair of adjacent statements is swapped.  A mutant is
  refused   the translator raises Unsupported (fail closed),
  same      the generated text does not change (only the documented no-op idioms may do that),
  killed    a Proofs/CoreTie*.v file (or a generated file) no longer compiles against the regenerated embedding,
  SPILL     files of a source group that does not depend on the mutated file broke (must not happen),
  SURVIVED  the tie still compiles: the mutant is behaviourally equal for the model, or a hole.
Works in /tmp/core_mut.* (removed at the end), never touches /repo or coq/Gen.  Usage:
  mutate_core.py [jobs] [-v]            (needs Model/PyRt3.vo and the FT libraries compiled)
"""
import ast, copy, os, shutil, subprocess, sys, tempfile
from concurrent.futures import ThreadPoolExecutor

sys.path.insert(0, os.path.dirname(os.path.abspath(__file__)))
import translate_core as T
import selftest_core as S

REPO = os.environ.get("VERIF_REPO", "/repo")
COQ = os.path.join(os.path.dirname(os.path.dirname(os.path.abspath(__file__))), "coq")
strip = T.strip_header


def bodies(fn):
    """all statement lists inside fn, as access paths"""
    out = []

    def walk(body, path):
        out.append(path)
        for i, s in enumerate(body):
            for fld in ("body", "orelse"):
                if isinstance(getattr(s, fld, None), list) and getattr(s, fld): walk(getattr(s, fld), path + [(i, fld)])
    walk(fn.body, [])
    return out


def resolve(fn, path):
    body = fn.body
    for i, fld in path: body = getattr(body[i], fld)
    return body


def method_of(tree, cls, meth):
    return [n for c in tree.body if isinstance(c, ast.ClassDef) and c.name == cls for n in c.body if isinstance(n, ast.FunctionDef) and n.name == meth][0]


def mutants():
    for rel, cls, meth, gen in T.FUNCS:
        tree = ast.parse(open(os.path.join(REPO, "src", "funtracks", rel)).read())
        for path in bodies(method_of(tree, cls, meth)):
            n = len(resolve(method_of(tree, cls, meth), path))
            for i in range(n):
                for kind in ("delete", "swap"):
                    if kind == "swap" and i + 1 >= n: continue
                    t2 = copy.deepcopy(tree)
                    body = resolve(method_of(t2, cls, meth), path)
                    if T.is_docstring(body[i]): continue
                    what = "%s.%s:%d %s `%s`" % (cls, meth, body[i].lineno, kind, ast.unparse(body[i]).split("\n")[0][:60])
                    if kind == "delete":
                        del body[i]
                        if not body: body.append(ast.Pass())
                    else:
                        if T.is_docstring(body[i + 1]): continue
                        body[i], body[i + 1] = body[i + 1], body[i]
                    yield rel, what, ast.unparse(ast.fix_missing_locations(t2))


def prepare(job, root):
    """sequential part (the translator keeps global state): returns a verdict, or the directory to compile"""
    k, rel, what, text, base = job
    d = os.path.join(root, "m%04d" % k)
    shutil.copytree(os.path.join(REPO, "src", "funtracks"), os.path.join(d, "src", "funtracks"),
                    ignore=shutil.ignore_patterns("__pycache__"))
    open(os.path.join(d, "src", "funtracks", rel), "w").write(text)
    try:
        out = T.main(d)
    except T.Unsupported as e:
        shutil.rmtree(d, ignore_errors=True)
        return what, "refused", str(e).split(": ", 1)[-1][:70]
    except Exception as e:
        shutil.rmtree(d, ignore_errors=True)
        return what, "refused", "internal %s: %s" % (type(e).__name__, str(e)[:60])
    if strip(out) == base:
        shutil.rmtree(d, ignore_errors=True)
        return what, "same", ""
    return what, None, (d, rel)


def compile_(item):
    what, verdict, x = item
    if verdict is not None: return item
    d, rel = x
    refused, failed, detail = S.build_scratch(d, d)
    shutil.rmtree(d, ignore_errors=True)
    allowed = S.DOWNSTREAM[S.GROUP_OF.get(rel, "actions")]
    spill = [f for f, grp in failed if grp not in allowed]
    if spill: return what, "SPILL", "broke files of an untouched source group: %s" % ", ".join(spill)
    if not failed: return what, "SURVIVED", ""
    return what, "killed", detail[:90]


if __name__ == "__main__":
    jobs = int(sys.argv[1]) if len(sys.argv) > 1 and sys.argv[1].isdigit() else 4
    root = tempfile.mkdtemp(prefix="core_mut.", dir="/tmp")
    try:
        base = strip(T.main(REPO))
        work = [prepare((k, f, w, t, base), root) for k, (f, w, t) in enumerate(mutants())]
        count = {}
        with ThreadPoolExecutor(jobs) as ex:
            for what, verdict, detail in ex.map(compile_, work):
                count[verdict] = count.get(verdict, 0) + 1
                if verdict in ("SURVIVED", "same", "SPILL") or "-v" in sys.argv: print("%-9s %s  %s" % (verdict, what, detail), flush=True)
    finally:
        shutil.rmtree(root, ignore_errors=True)
    print("mutants: %d  %s" % (len(work), "  ".join("%s=%d" % kv for kv in sorted(count.items()))))
