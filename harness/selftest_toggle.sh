#!/bin/bash
# Negative self-test of the feature-switching tie (translate_toggle.py + Proofs/ToggleTie.v).
# Copies $VERIF_REPO/src (default /repo/src) to a scratch tree under /tmp, applies one change at a time,
# regenerates the embedding into a scratch Coq root (logical name SC, so the real Gen/Toggle_gen.v is never
# touched) and compiles a copy of the tie against it.  Expected: comment / docstring / local-rename changes
# still compile; semantic changes make a tie theorem fail; a construct outside the idiom table makes the
# translator refuse.  Needs Model/PyRt4.vo and Proofs/DictLemmas.vo compiled.  Removes the scratch tree at the end.
set -u
S=/tmp/toggle_scratch
PY=/venv/bin/python
rm -rf $S; mkdir -p $S/coq/Gen $S/coq/Proofs
F=$S/src/funtracks
GA=$F/annotators/_graph_annotator.py
REG=$F/annotators/_annotator_registry.py
TR=$F/data_model/tracks.py
UNA=$F/actions/update_node_attrs.py

ONLY=${1:-}      # optional: run only the cases whose label contains this text
run() {   # $1 = label, $2 = expectation (pass|fail|unsupported); the mutation has been applied to $S/src
  case "$1" in *"$ONLY"*) ;; *) return;; esac
  VERIF_REPO=$S $PY -c "import sys; sys.path.insert(0,'/verif/harness'); import translate_toggle as t; ok,msg=t.regenerate('$S/coq/Gen/Toggle_gen.v', '$S'); sys.stderr.write(msg+'\n')" 2>$S/err.txt
  local got
  if grep -q "TRANSLATION FAILED" $S/coq/Gen/Toggle_gen.v; then got=unsupported
  else
    sed 's/^From FT Require Import Base.Dict Model.Edit Model.Toggle Model.PyRt Model.PyRt4 Gen.Toggle_gen Proofs.DictLemmas\.$/From FT Require Import Base.Dict Model.Edit Model.Toggle Model.PyRt Model.PyRt4 Proofs.DictLemmas. From SC Require Import Gen.Toggle_gen./' \
        /verif/coq/Proofs/ToggleTie.v > $S/coq/Proofs/ToggleTie.v
    grep -q "From SC Require Import Gen.Toggle_gen" $S/coq/Proofs/ToggleTie.v || { echo "selftest: import line of ToggleTie.v not recognised"; exit 2; }
    ( cd $S/coq && timeout 600 coqc -Q /verif/coq FT -Q . SC Gen/Toggle_gen.v >$S/out.txt 2>&1 \
        && timeout 900 coqc -Q /verif/coq FT -Q . SC Proofs/ToggleTie.v >>$S/out.txt 2>&1 ) && got=pass || got=fail
  fi
  local detail=""
  [ $got = fail ] && detail=$(grep -m1 -A2 "^File" $S/out.txt | tr '\n' ' ' | cut -c1-150)
  [ $got = unsupported ] && detail=$(head -1 $S/err.txt | cut -c1-190)
  printf "%-66s expected %-11s got %-11s %s\n" "$1" "$2" "$got" "$detail"
  [ "$got" = "$2" ] || FAILED=1
}
fresh() { rm -rf $S/src; mkdir -p $S/src; cp -r ${VERIF_REPO:-/repo}/src/funtracks $S/src/funtracks; }
# edit <file> <old text> <new text>: exact, single replacement (the self-test fails loudly if the source moved on)
edit() { $PY - "$1" "$2" "$3" <<'EOF'
import sys
p, a, b = sys.argv[1:4]
t = open(p).read()
if t.count(a) != 1:
    sys.stderr.write("selftest: expected exactly one occurrence of %r in %s, found %d\n" % (a, p, t.count(a))); sys.exit(3)
open(p, "w").write(t.replace(a, b))
EOF
  [ $? = 0 ] || { echo "selftest: mutation could not be applied ($1)"; FAILED=1; }
}
FAILED=0

# ---------------------------------------------------------------- must keep compiling
fresh; run "unchanged copy" pass
fresh; edit $TR "        # Registry validates and activates features (will raise if invalid)" "        # a reworded comment"
       edit $REG "        # Validate first - fail before making any changes
        available = self.all_features
        not_found = [k for k in keys if k not in available]
        if not_found:
            raise KeyError(f\"Features not available: {not_found}\")

        # All features exist - proceed with activating" "        # (comment changed)
        available = self.all_features
        not_found = [k for k in keys if k not in available]
        if not_found:
            raise KeyError(f\"No such features: {not_found}\")

        # go on"
       edit $GA "        Filters the list to only features this annotator owns, ignoring others.

        Args:
            keys: List of feature keys to activate." "        Another docstring.

        Args:
            keys: the keys."
       edit $UNA "        # Cannot modify annotator-managed features or time" "        # protected: everything an annotator manages, and time"
       run "comment / docstring / message text changes only" pass
fresh; $PY - $REG $TR $UNA $GA <<'EOF'
import re, sys
reg, tr, una, ga = sys.argv[1:5]
t = open(reg).read(); t = re.sub(r"\bnot_found\b", "missing", t); t = re.sub(r"\bavailable = ", "avail = ", t).replace("if k not in available]", "if k not in avail]")
t = t.replace("for annotator in self:\n            annotator.activate_features(keys)", "for ann_obj in self:\n            ann_obj.activate_features(keys)"); open(reg, "w").write(t)
t = open(tr).read()
a = t.index("    def enable_features("); b = t.index("    # ========== Persistence")
body = t[a:b].replace("for key in feature_keys", "for fk in feature_keys").replace("if key not in self.features", "if fk not in self.features") \
    .replace("all_features[key]", "all_features[fk]").replace("self.features[key] = feature", "self.features[fk] = feat_obj").replace("feature, _ =", "feat_obj, _ =") \
    .replace("if key in self.features", "if fk in self.features").replace("del self.features[key]", "del self.features[fk]")
open(tr, "w").write(t[:a] + body + t[b:])
t = open(una).read(); t = re.sub(r"\bprotected_attrs\b", "prot", t).replace("for attr in attrs:\n            if attr in prot:\n                raise ValueError(f\"Cannot update attribute {attr} manually\")",
    "for name in attrs:\n            if name in prot:\n                raise ValueError(f\"Cannot update attribute {name} manually\")"); open(una, "w").write(t)
t = open(ga).read(); t = t.replace("feat, _ = self.all_features[key]\n                self.all_features[key] = (feat, True)", "old_feat, _unused = self.all_features[key]\n                self.all_features[key] = (old_feat, True)"); open(ga, "w").write(t)
EOF
       run "local variables renamed in all four files" pass

# ---------------------------------------------------------------- must break the tie (or be refused)
fresh; edit $TR "        # Add to FeatureDict
        for key in feature_keys:
            if key not in self.features:
                feature, _ = self.annotators.all_features[key]
                self.features[key] = feature

        # Compute the features if requested
        if recompute:
            self.annotators.compute(feature_keys)" "        new_keys = [k for k in feature_keys if k not in self.features]
        for key in feature_keys:
            if key not in self.features:
                feature, _ = self.annotators.all_features[key]
                self.features[key] = feature

        if recompute:
            self.annotators.compute(new_keys)"
       run "enable: recompute only the keys not yet registered" fail
fresh; edit $REG "        # Validate first - fail before making any changes
        available = self.all_features
        not_found = [k for k in keys if k not in available]
        if not_found:
            raise KeyError(f\"Features not available: {not_found}\")

        # All features exist - proceed with activating
        for annotator in self:
            annotator.activate_features(keys)" "        for annotator in self:
            annotator.activate_features(keys)
        available = self.all_features
        not_found = [k for k in keys if k not in available]
        if not_found:
            raise KeyError(f\"Features not available: {not_found}\")"
       run "registry.activate: validation after the activation" fail
fresh; edit $REG "        # All features exist - proceed with deactivation
        for annotator in self:
            annotator.deactivate_features(keys)" "        # All features exist - proceed with deactivation
        for annotator in self:
            annotator.deactivate_features(keys)
            available = self.all_features
            not_found = [k for k in keys if k not in available]
            if not_found:
                raise KeyError(f\"Features not available: {not_found}\")"
       edit $REG "        # Validate first - fail before making any changes
        available = self.all_features
        not_found = [k for k in keys if k not in available]
        if not_found:
            raise KeyError(f\"Features not available: {not_found}\")

        # All features exist - proceed with deactivation" "        # validation moved into the loop"
       run "registry.deactivate: validation after the first annotator" fail
fresh; edit $TR "        # Remove from FeatureDict
        for key in feature_keys:
            if key in self.features:
                del self.features[key]
" "
"
       run "disable: features stay registered" fail
fresh; edit $UNA "        protected_attrs.add(tracks.features.time_key)
" ""
       run "UpdateNodeAttrs: protected set without the time key" fail
fresh; edit $UNA "set(tracks.annotators.all_features.keys())" "set(tracks.annotators.features.keys())"
       run "UpdateNodeAttrs: only the active features are protected" fail
fresh; edit $GA "                self.all_features[key] = (feat, False)" "                self.all_features[key] = (feat, True)"
       run "GraphAnnotator.deactivate_features switches on" fail
fresh; edit $GA "        for key in keys:
            if key in self.all_features:
                feat, _ = self.all_features[key]
                self.all_features[key] = (feat, True)" "        for key in keys:
            feat, _ = self.all_features[key]
            self.all_features[key] = (feat, True)"
       run "GraphAnnotator.activate_features without the ownership test" fail
fresh; edit $TR "        for key in feature_keys:
            if key in self.features:
                del self.features[key]" "        for key in feature_keys:
            del self.features[key]"
       run "disable: del without the membership test" fail
fresh; edit $TR "        if recompute:
            self.annotators.compute(feature_keys)" "        if not recompute:
            self.annotators.compute(feature_keys)"
       run "enable: recompute flag inverted" fail
fresh; edit $TR "        # Registry validates and activates features (will raise if invalid)
        self.annotators.activate_features(feature_keys)

        # Add to FeatureDict
        for key in feature_keys:
            if key not in self.features:
                feature, _ = self.annotators.all_features[key]
                self.features[key] = feature
" "        for key in feature_keys:
            if key not in self.features:
                feature, _ = self.annotators.all_features[key]
                self.features[key] = feature
        self.annotators.activate_features(feature_keys)
"
       run "enable: registration before validation / activation" fail
fresh; edit $TR "        self.annotators.deactivate_features(feature_keys)
" "        self.annotators.activate_features(feature_keys)
"
       run "disable: activates instead of deactivating" fail
fresh; edit $GA "        return [k for k in feature_keys if k in self.features]" "        return [k for k in feature_keys if k in self.all_features]"
       run "_filter_feature_keys: inactive keys pass the filter" fail

# ---------------------------------------------------------------- must be refused by the translator
fresh; edit $TR "        self.annotators.deactivate_features(feature_keys)
" "        self.annotators.deactivate_features(feature_keys)
        print(\"disabled\", feature_keys)
"
       run "disable: added print statement" unsupported
fresh; edit $REG "        not_found = [k for k in keys if k not in available]
        if not_found:
            raise KeyError(f\"Features not available: {not_found}\")

        # All features exist - proceed with activating" "        not_found = [k for k in keys[:1] if k not in available]
        if not_found:
            raise KeyError(f\"Features not available: {not_found}\")

        # All features exist - proceed with activating"
       run "registry.activate: only the first key is validated (slice)" unsupported
fresh; cat >> $F/annotators/_edge_annotator.py <<'EOF'

    def activate_features(self, keys: list[str]) -> None:
        pass
EOF
       run "EdgeAnnotator overrides activate_features" unsupported
fresh; edit $TR "            annotator_list.append(EdgeAnnotator(self))" "            annotator_list.insert(0, EdgeAnnotator(self))"
       run "_get_annotators: EdgeAnnotator put first" unsupported
fresh; edit $UNA "        self.new_attrs = attrs
        self._apply()" "        self.new_attrs = attrs"
       run "UpdateNodeAttrs.__init__: different remainder" unsupported
fresh; edit $TR "        self.annotators.activate_features(feature_keys)
" "        try:
            self.annotators.activate_features(feature_keys)
        except KeyError:
            return
"
       run "enable: KeyError swallowed (try / except)" unsupported

rm -rf $S
[ $FAILED = 0 ] && echo "selftest: all outcomes as expected" || { echo "selftest: UNEXPECTED OUTCOME"; exit 1; }
