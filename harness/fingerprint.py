"""Source fingerprints: which anchored files of /repo differ (as Python ASTs, so comments and
layout do not count) from the tree the hand-written models were last validated against.

A difference is NOT an alarm.  It only makes a quick check spend the thorough tier's budget on
the properties anchored in the changed files, because that is exactly when the correspondence
between model and code has to be re-established by more inputs.

  python fingerprint.py --update     rewrite /verif/source_fingerprints.json from $VERIF_REPO
"""
from __future__ import annotations

import ast
import hashlib
import json
import sys
from pathlib import Path

import common as C

PINNED = C.VERIF / "source_fingerprints.json"
# files every edit-machine property also depends on (shared by the model of the whole machine)
EXTRA = {
    "edit": ["src/funtracks/data_model/tracks.py", "src/funtracks/data_model/solution_tracks.py",
             "src/funtracks/actions/_base.py", "src/funtracks/actions/action_history.py",
             "src/funtracks/actions/add_delete_node.py", "src/funtracks/actions/add_delete_edge.py",
             "src/funtracks/actions/update_node_attrs.py", "src/funtracks/actions/update_segmentation.py",
             "src/funtracks/actions/update_track_id.py", "src/funtracks/annotators/_track_annotator.py",
             "src/funtracks/annotators/_regionprops_annotator.py", "src/funtracks/annotators/_edge_annotator.py",
             "src/funtracks/annotators/_graph_annotator.py", "src/funtracks/annotators/_annotator_registry.py",
             "src/funtracks/data_model/graph_attributes.py",
             "src/funtracks/user_actions/user_add_node.py", "src/funtracks/user_actions/user_add_edge.py",
             "src/funtracks/user_actions/user_delete_node.py", "src/funtracks/user_actions/user_delete_edge.py",
             "src/funtracks/user_actions/_user_swap_predecessors.py",
             "src/funtracks/user_actions/user_update_segmentation.py",
             "src/funtracks/user_actions/user_update_node_attrs.py"],
}
EXTRA_BY_PROP = {
    "C13": ["src/funtracks/import_export/magic_imread.py"],
    "C12": ["src/funtracks/import_export/magic_imread.py", "src/funtracks/import_export/_import_segmentation.py"],
    "C14": ["src/funtracks/import_export/magic_imread.py", "src/funtracks/import_export/_validation.py",
            "src/funtracks/data_model/tracks.py", "src/funtracks/data_model/solution_tracks.py",
            "src/funtracks/features/_node_features.py", "src/funtracks/features/_edge_features.py",
            "src/funtracks/features/_feature.py", "src/funtracks/actions/add_delete_node.py",
            "src/funtracks/actions/add_delete_edge.py"],
    "C08": ["src/funtracks/annotators/_regionprops_extended.py"],
    "C10": ["src/funtracks/annotators/_regionprops_extended.py"],
    "C15": ["src/funtracks/data_model/solution_tracks.py"],
    "C16": ["src/funtracks/features/_feature_dict.py", "src/funtracks/import_export/_utils.py"],
}
EDIT_PROPS = {"C01", "C02", "C03", "C04", "C05", "C06", "C07", "C08", "C09", "C10", "C11", "C16", "C20"}


def fp(path: Path) -> str:
    try:
        return hashlib.sha256(ast.dump(ast.parse(path.read_text()), include_attributes=False).encode()).hexdigest()[:20]
    except FileNotFoundError:
        return "missing"
    except SyntaxError:
        return "syntax-error"


def anchored(pid: str) -> list[str]:
    files = []
    for line in (C.VERIF / "properties.jsonl").read_text().splitlines():
        d = json.loads(line)
        if d["id"] == pid:
            files = list(d.get("anchors", {}).get("files", []))
    if pid in EDIT_PROPS:
        files += [f for f in EXTRA["edit"] if f not in files]
    files += [f for f in EXTRA_BY_PROP.get(pid, []) if f not in files]
    return [f for f in files if f.endswith(".py")]


def changed(pid: str) -> list[str]:
    try:
        pinned = json.loads(PINNED.read_text())
    except Exception:  # noqa: BLE001
        return []
    return [f for f in anchored(pid) if f in pinned and fp(C.REPO / f) != pinned[f]]


if __name__ == "__main__":
    if "--update" in sys.argv:
        allf = sorted({f for i in range(1, 21) for f in anchored("C%02d" % i)})
        PINNED.write_text(json.dumps({f: fp(C.REPO / f) for f in allf}, indent=1) + "\n")
        print("pinned", len(allf), "files")
    else:
        for i in range(1, 21):
            print("C%02d" % i, changed("C%02d" % i))
