"""Negative self-test of the core tie (translate_core.py + Proofs/CoreTie.v).

For every case: copy <repo>/src to a scratch tree under /tmp, apply the textual changes, regenerate the
four generated files into a scratch Coq root (logical name SC, so the real Gen/Core*_gen.v are never touched) and compile
copies of Proofs/CoreTieBase.v, CoreTieQueries.v, CoreTieTracks.v, CoreTieAnnot.v, CoreTieActions.v against them.  Besides
the verdict, every case checks isolation: only the files of the source groups downstream of the edited file(s) may break
(solution_tracks.py -> queries, annot, actions;  tracks.py -> tracks;  _track_annotator.py -> annot, actions;
actions/*.py -> actions); anything else is reported as SPILL.  Expected outcomes:
  pass      the tie still compiles (comment-only changes, renamed locals, harmless rewrites)
  reject    the translator raises Unsupported ("unsupported") or a tie theorem no longer compiles ("fail")
A change that cannot be applied (the source text it looks for is gone) is reported as such and counts as an
unexpected outcome.  Needs Model/PyRt3.vo and the Proofs the tie imports compiled.  Works only under
/tmp/core_selftest.* and removes it at the end.

usage: selftest_core.py [-j N] [text]      (only the cases whose label contains text)
"""
import concurrent.futures
import os
import re
import shutil
import subprocess
import sys
import tempfile

HARNESS = os.path.dirname(os.path.abspath(__file__))
COQ = os.path.join(os.path.dirname(HARNESS), "coq")
REPO = os.environ.get("VERIF_REPO", "/repo")
PY = "/venv/bin/python"

ST = "data_model/solution_tracks.py"
TR = "data_model/tracks.py"
TA = "annotators/_track_annotator.py"
AU = "actions/update_track_id.py"
AN = "actions/add_delete_node.py"
AE = "actions/add_delete_edge.py"
AA = "actions/update_node_attrs.py"
AS = "actions/update_segmentation.py"

P, R = "pass", "reject"
# (label, expectation, [(file, old text, new text), ...]); every old text must occur exactly once
CASES = [
    ("unchanged copy", P, []),
    ("comments and docstrings only", P, [
        (ST, "Return the next available track_id.", "Give back an unused track id."),
        (TR, "They will be unique from all existing nodes, but have no other guarantees.", "Fresh ids."),
        (TA, "# Lineage updates all downstream nodes\n", "# (reworded) every node below gets the lineage id\n"),
        (TA, "# Update bookkeeping\n", "# now the lookups\n"),
        (AU, '"""Restore the previous tracklet_id and lineage_id."""', '"""Back to the old ids."""'),
    ]),
    ("renamed locals", P, [
        (ST, "        candidates = annotator.tracklet_id_to_nodes[track_id]\n        candidates.sort(key=lambda n: self.get_time(n))",
             "        cands = annotator.tracklet_id_to_nodes[track_id]\n        cands.sort(key=lambda nd: self.get_time(nd))"),
        (ST, "        for cand in candidates:\n            if self.get_time(cand) < time:\n                pred = cand\n            elif self.get_time(cand) > time:\n                succ = cand",
             "        for c in cands:\n            if self.get_time(c) < time:\n                pred = c\n            elif self.get_time(c) > time:\n                succ = c"),
        (ST, "        nodes = self.track_id_to_node.get(track_id)\n        if not nodes:\n            return False\n\n        return time in self.get_times(nodes)",
             "        members = self.track_id_to_node.get(track_id)\n        if not members:\n            return False\n\n        return time in self.get_times(members)"),
        (TR, "        for idx, _id in enumerate(ids):\n            while self.graph.has_node(_id):\n                _id = self.node_id_counter\n                self.node_id_counter += 1\n            ids[idx] = _id",
             "        for pos, new_id in enumerate(ids):\n            while self.graph.has_node(new_id):\n                new_id = self.node_id_counter\n                self.node_id_counter += 1\n            ids[pos] = new_id"),
        (TA, "        curr_nodes = [start_node]\n        while curr_nodes:\n            next_nodes = []\n            for node in curr_nodes:",
             "        frontier = [start_node]\n        while frontier:\n            next_nodes = []\n            for node in frontier:"),
        (TA, "            curr_nodes = next_nodes\n", "            frontier = next_nodes\n"),
    ]),
    ("harmless rewrites: new temporaries", P, [
        (ST, "        return self.track_annotator.max_tracklet_id + 1", "        biggest = self.track_annotator.max_tracklet_id\n        return biggest + 1"),
        (TA, "        node = action.node\n        track_id = self.tracks.get_track_id(node)\n        self._add_to_tracklet_bookkeeping([node], track_id)",
             "        node = action.node\n        track_id = self.tracks.get_track_id(node)\n        added = [node]\n        self._add_to_tracklet_bookkeeping(added, track_id)"),
    ]),
    # ---- data_model/solution_tracks.py
    ("get_next_track_id: + 2", R, [(ST, "return self.track_annotator.max_tracklet_id + 1", "return self.track_annotator.max_tracklet_id + 2")]),
    ("get_next_track_id: reads the lineage maximum", R, [(ST, "return self.track_annotator.max_tracklet_id + 1", "return self.track_annotator.max_lineage_id + 1")]),
    ("get_next_lineage_id: no increment", R, [(ST, "return self.track_annotator.max_lineage_id + 1", "return self.track_annotator.max_lineage_id")]),
    ("get_next_lineage_id: reads the tracklet maximum", R, [(ST, "return self.track_annotator.max_lineage_id + 1", "return self.track_annotator.max_tracklet_id + 1")]),
    ("get_track_id: attribute no longer required", R, [(ST, "self.get_node_attr(node, self.features.tracklet_key, required=True)", "self.get_node_attr(node, self.features.tracklet_key)")]),
    ("get_track_id: reads the lineage key", R, [(ST, "self.get_node_attr(node, self.features.tracklet_key, required=True)", "self.get_node_attr(node, self.features.lineage_key, required=True)")]),
    ("get_lineage_id: attribute required", R, [(ST, "return self.get_node_attr(node, self.features.lineage_key)", "return self.get_node_attr(node, self.features.lineage_key, required=True)")]),
    ("get_lineage_id: reads the tracklet key", R, [(ST, "return self.get_node_attr(node, self.features.lineage_key)", "return self.get_node_attr(node, self.features.tracklet_key)")]),
    ("get_track_neighbors: sorted(...) result discarded", R, [(ST, "candidates.sort(key=lambda n: self.get_time(n))", "sorted(candidates, key=lambda n: self.get_time(n))")]),
    ("get_track_neighbors: sorted copy, lookup entry left unsorted", R, [(ST, "candidates.sort(key=lambda n: self.get_time(n))", "candidates = sorted(candidates, key=lambda n: self.get_time(n))")]),
    ("get_track_neighbors: no sort at all", R, [(ST, "        candidates.sort(key=lambda n: self.get_time(n))\n", "")]),
    ("get_track_neighbors: <= time", R, [(ST, "if self.get_time(cand) < time:", "if self.get_time(cand) <= time:")]),
    ("get_track_neighbors: no break", R, [(ST, "                succ = cand\n                break\n", "                succ = cand\n")]),
    ("has_track_id_at_time: empty lookup answers True", R, [(ST, "        if not nodes:\n            return False", "        if not nodes:\n            return True")]),
    ("has_track_id_at_time: not in", R, [(ST, "return time in self.get_times(nodes)", "return time not in self.get_times(nodes)")]),
    # ---- data_model/tracks.py
    ("_get_new_node_ids: counter bumped after the collision loop", R, [
        (TR, "        self.node_id_counter += n\n        for idx, _id in enumerate(ids):", "        for idx, _id in enumerate(ids):"),
        (TR, "            ids[idx] = _id\n        return ids", "            ids[idx] = _id\n        self.node_id_counter += n\n        return ids")]),
    ("_get_new_node_ids: collision checked once (if instead of while)", R, [(TR, "            while self.graph.has_node(_id):", "            if self.graph.has_node(_id):")]),
    ("_get_new_node_ids: counter += 2 in the loop", R, [(TR, "                self.node_id_counter += 1", "                self.node_id_counter += 2")]),
    ("_get_new_node_ids: result not written back", R, [(TR, "            ids[idx] = _id\n", "")]),
    ("Tracks.undo: refresh regardless of the history's answer", R, [
        (TR, "        if self.action_history.undo():\n            self.refresh.emit()\n            return True\n        return False",
             "        done = self.action_history.undo()\n        self.refresh.emit()\n        return done")]),
    ("Tracks.undo: answers False after undoing", R, [(TR, "        if self.action_history.undo():\n            self.refresh.emit()\n            return True", "        if self.action_history.undo():\n            self.refresh.emit()\n            return False")]),
    ("Tracks.redo: calls undo", R, [(TR, "        if self.action_history.redo():", "        if self.action_history.undo():")]),
    ("Tracks.redo: no refresh", R, [(TR, "        if self.action_history.redo():\n            self.refresh.emit()\n            return True", "        if self.action_history.redo():\n            return True")]),
    # ---- annotators/_track_annotator.py
    ("_add_to_tracklet: maximum lowered (< instead of >)", R, [(TA, "        if tracklet_id > self.max_tracklet_id:", "        if tracklet_id < self.max_tracklet_id:")]),
    ("_add_to_tracklet: extends the lineage lookup", R, [(TA, "        self.tracklet_id_to_nodes[tracklet_id].extend(nodes)", "        self.lineage_id_to_nodes[tracklet_id].extend(nodes)")]),
    ("_remove_from_tracklet: deletes the non-empty entry", R, [(TA, "        if not self.tracklet_id_to_nodes[tracklet_id]:\n            del", "        if self.tracklet_id_to_nodes[tracklet_id]:\n            del")]),
    ("_remove_from_tracklet: membership guard dropped", R, [
        (TA, "            if node in self.tracklet_id_to_nodes[tracklet_id]:\n                self.tracklet_id_to_nodes[tracklet_id].remove(node)",
             "            self.tracklet_id_to_nodes[tracklet_id].remove(node)")]),
    ("_add_to_lineage: appends only nodes already present", R, [(TA, "            if node not in self.lineage_id_to_nodes[lineage_id]:", "            if node in self.lineage_id_to_nodes[lineage_id]:")]),
    ("_add_to_lineage: maximum never raised", R, [(TA, "        if lineage_id > self.max_lineage_id:\n            self.max_lineage_id = lineage_id\n", "")]),
    ("_remove_from_lineage: empty entry kept", R, [(TA, "            del self.lineage_id_to_nodes[lineage_id]", "            self.lineage_id_to_nodes[lineage_id] = []")]),
    ("_remove_from_lineage: removes from the tracklet lookup", R, [(TA, "                self.lineage_id_to_nodes[lineage_id].remove(node)", "                self.tracklet_id_to_nodes[lineage_id].remove(node)")]),
    ("_update_tracklet_bookkeeping: add before remove", R, [
        (TA, "        self._remove_from_tracklet_bookkeeping(nodes, old_id)\n        self._add_to_tracklet_bookkeeping(nodes, new_id)",
             "        self._add_to_tracklet_bookkeeping(nodes, new_id)\n        self._remove_from_tracklet_bookkeeping(nodes, old_id)")]),
    ("_update_tracklet_bookkeeping: adds under the old id", R, [(TA, "        self._add_to_tracklet_bookkeeping(nodes, new_id)", "        self._add_to_tracklet_bookkeeping(nodes, old_id)")]),
    ("_update_lineage_bookkeeping: add before remove", R, [
        (TA, "        if old_id is not None:\n            self._remove_from_lineage_bookkeeping(nodes, old_id)\n        self._add_to_lineage_bookkeeping(nodes, new_id)",
             "        self._add_to_lineage_bookkeeping(nodes, new_id)\n        if old_id is not None:\n            self._remove_from_lineage_bookkeeping(nodes, old_id)")]),
    ("_update_lineage_bookkeeping: never removes", R, [(TA, "        if old_id is not None:\n            self._remove_from_lineage_bookkeeping(nodes, old_id)\n", "")]),
    ("_handle_add_node: lineage lookup updated although the feature is off", R, [
        (TA, "        self._add_to_tracklet_bookkeeping([node], track_id)\n\n        if self.lineage_key in self.features:", "        self._add_to_tracklet_bookkeeping([node], track_id)\n\n        if True:")]),
    ("_handle_add_node: node entered twice", R, [(TA, "        self._add_to_tracklet_bookkeeping([node], track_id)", "        self._add_to_tracklet_bookkeeping([node, node], track_id)")]),
    ("_handle_delete_node: lineage lookup updated although the feature is off", R, [
        (TA, "            self._remove_from_tracklet_bookkeeping([node], track_id)\n\n        if self.lineage_key in self.features:", "            self._remove_from_tracklet_bookkeeping([node], track_id)\n\n        if True:")]),
    ("_handle_delete_node: track id read under the lineage key", R, [(TA, "        track_id = action.attributes.get(self.tracklet_key)", "        track_id = action.attributes.get(self.lineage_key)")]),
    ("_handle_update_track_ids: successors followed only inside the tracklet", R, [
        (TA, "                    else:\n                        still_in_tracklet = False\n\n                # Continue to all successors\n                next_nodes.extend(self.tracks.graph.successors(node))",
             "                        next_nodes.extend(self.tracks.graph.successors(node))\n                    else:\n                        still_in_tracklet = False")]),
    ("_handle_update_track_ids: lineage rewritten although the feature is off", R, [
        (TA, "        update_lineage = new_lineage_id is not None and self.lineage_key in self.features", "        update_lineage = new_lineage_id is not None")]),
    ("_handle_update_track_ids: flag never cleared", R, [(TA, "                    else:\n                        still_in_tracklet = False\n", "")]),
    ("_handle_update_track_ids: lookups updated with the lineage nodes", R, [(TA, "            tracklet_nodes, old_tracklet_id, new_tracklet_id\n        )", "            lineage_nodes, old_tracklet_id, new_tracklet_id\n        )")]),
    ("TrackAnnotator.update: works although the tracklet feature is off", R, [(TA, "        if self.tracklet_key not in self.features:\n            return\n\n        if isinstance(action, UpdateTrackIDs):", "        if isinstance(action, UpdateTrackIDs):")]),
    ("TrackAnnotator.update: AddNode handled as a deletion", R, [(TA, "        elif isinstance(action, AddNode):\n            self._handle_add_node(action)", "        elif isinstance(action, AddNode):\n            self._handle_delete_node(action)")]),
    # ---- actions/update_track_id.py
    ("UpdateTrackIDs: old lineage id captured after applying", R, [
        (AU, "        self.old_lineage_id = self.tracks.get_lineage_id(start_node)\n\n        self._apply()", "        self._apply()\n        self.old_lineage_id = self.tracks.get_lineage_id(start_node)")]),
    ("UpdateTrackIDs.inverse: restores the new tracklet id", R, [(AU, "            self.start_node,\n            self.old_tracklet_id,\n            self.old_lineage_id,", "            self.start_node,\n            self.new_tracklet_id,\n            self.old_lineage_id,")]),
    ("UpdateTrackIDs._apply: does nothing", R, [(AU, "        self.tracks.notify_annotators(self)", "        return")]),
    ("actions: comments and renamed locals", P, [
        (AS, "        value = self.node if self.added else 0\n        self.tracks.set_pixels(self.pixels, value)", "        label = self.node if self.added else 0\n        self.tracks.set_pixels(self.pixels, label)"),
        (AN, "        attrs = self.attributes\n", "        given = self.attributes\n"),
        (AN, "        for attr, value in attrs.items():\n            self.tracks._set_node_attr(self.node, attr, value)", "        for name, val in given.items():\n            self.tracks._set_node_attr(self.node, name, val)"),
        (AN, "        # Save all node feature values from the features dict\n", "        # keep what the features dict lists\n"),
        (AE, "        for key in self.tracks.features.edge_features:\n            val = tracks.get_edge_attr(edge, key)\n            if val is not None:\n                self.attributes[key] = val",
             "        for k in self.tracks.features.edge_features:\n            old = tracks.get_edge_attr(edge, k)\n            if old is not None:\n                self.attributes[k] = old"),
        (AA, "        # Cannot modify annotator-managed features or time\n", "        # protected: what the annotators manage, and time\n"),
    ]),
    # ---- actions/update_segmentation.py
    ("UpdateNodeSeg._apply: always writes the node id", R, [(AS, "        value = self.node if self.added else 0", "        value = self.node")]),
    ("UpdateNodeSeg._apply: annotators notified before the pixels are set", R, [
        (AS, "        self.tracks.set_pixels(self.pixels, value)\n        self.tracks.notify_annotators(self)", "        self.tracks.notify_annotators(self)\n        self.tracks.set_pixels(self.pixels, value)")]),
    ("UpdateNodeSeg.__init__: flag stored inverted", R, [(AS, "        self.added = added\n", "        self.added = not added\n")]),
    ("UpdateNodeSeg.__init__: not applied", R, [(AS, "        self.added = added\n        self._apply()", "        self.added = added")]),
    ("UpdateNodeSeg.inverse: same direction", R, [(AS, "            added=not self.added,", "            added=self.added,")]),
    ("UpdateNodeSeg.inverse: always adds", R, [(AS, "            added=not self.added,", "            added=True,")]),
    # ---- actions/add_delete_edge.py
    ("AddEdge._apply: endpoint check dropped", R, [
        (AE, "        for node in self.edge:\n            if not self.tracks.graph.has_node(node):\n                raise ValueError(\n                    f\"Cannot add edge {self.edge}: endpoint {node} not in graph yet\"\n                )\n", "")]),
    ("AddEdge._apply: edge added backwards", R, [(AE, "self.tracks.graph.add_edge(self.edge[0], self.edge[1], **self.attributes)", "self.tracks.graph.add_edge(self.edge[1], self.edge[0], **self.attributes)")]),
    ("AddEdge.__init__: given attributes ignored", R, [(AE, "        self.attributes = attributes if attributes is not None else {}", "        self.attributes = {}")]),
    ("AddEdge.__init__: not applied", R, [(AE, "        self.attributes = attributes if attributes is not None else {}\n        self._apply()", "        self.attributes = attributes if attributes is not None else {}")]),
    ("AddEdge.inverse: adds again", R, [(AE, "        return DeleteEdge(self.tracks, self.edge)", "        return AddEdge(self.tracks, self.edge)")]),
    ("AddEdge.inverse: deletes the reversed edge", R, [(AE, "        return DeleteEdge(self.tracks, self.edge)", "        return DeleteEdge(self.tracks, (self.edge[1], self.edge[0]))")]),
    ("DeleteEdge.__init__: existence check dropped", R, [
        (AE, "        if not self.tracks.graph.has_edge(*self.edge):\n            raise ValueError(f\"Edge {self.edge} not in the graph, and cannot be removed\")\n", "")]),
    ("DeleteEdge.__init__: saves the node features", R, [(AE, "        for key in self.tracks.features.edge_features:", "        for key in self.tracks.features.node_features:")]),
    ("DeleteEdge._apply: edge kept", R, [(AE, "        self.tracks.graph.remove_edge(*self.edge)\n        self.tracks.notify_annotators(self)", "        self.tracks.notify_annotators(self)")]),
    ("DeleteEdge._apply: annotators not notified", R, [(AE, "        self.tracks.graph.remove_edge(*self.edge)\n        self.tracks.notify_annotators(self)", "        self.tracks.graph.remove_edge(*self.edge)")]),
    ("DeleteEdge.inverse: saved attributes dropped", R, [(AE, "        return AddEdge(self.tracks, self.edge, attributes=self.attributes)", "        return AddEdge(self.tracks, self.edge)")]),
    ("DeleteEdge.inverse: deletes again", R, [(AE, "        return AddEdge(self.tracks, self.edge, attributes=self.attributes)", "        return DeleteEdge(self.tracks, self.edge)")]),
    # ---- actions/add_delete_node.py
    ("AddNode.__init__: time check dropped", R, [(AN, "        if time_key not in attributes:\n            raise ValueError(f\"Must provide a time attribute for node {node}\")\n", "")]),
    ("AddNode.__init__: position required when pixels are given", R, [(AN, "        if pixels is None:\n            if isinstance(pos_key, list):", "        if pixels is not None:\n            if isinstance(pos_key, list):")]),
    ("AddNode._apply: pixels painted with 0", R, [(AN, "            self.tracks.set_pixels(self.pixels, self.node)", "            self.tracks.set_pixels(self.pixels, 0)")]),
    ("AddNode._apply: attributes set before the node exists", R, [
        (AN, "        self.tracks.graph.add_node(self.node)\n\n        # set all user provided attributes including time and position\n        for attr, value in attrs.items():\n            self.tracks._set_node_attr(self.node, attr, value)",
             "        for attr, value in attrs.items():\n            self.tracks._set_node_attr(self.node, attr, value)\n        self.tracks.graph.add_node(self.node)")]),
    ("AddNode.inverse: passes its pixels on", R, [(AN, "        return DeleteNode(self.tracks, self.node)", "        return DeleteNode(self.tracks, self.node, pixels=self.pixels)")]),
    ("AddNode.inverse: adds again", R, [(AN, "        return DeleteNode(self.tracks, self.node)", "        return AddNode(self.tracks, self.node, self.attributes)")]),
    ("DeleteNode.__init__: pixels not looked up", R, [(AN, "        self.pixels = self.tracks.get_pixels(node) if pixels is None else pixels", "        self.pixels = pixels")]),
    ("DeleteNode.__init__: None values saved too", R, [(AN, "            if val is not None:\n                self.attributes[key] = val", "            self.attributes[key] = val")]),
    ("DeleteNode._apply: pixels painted with the node id", R, [(AN, "            self.tracks.set_pixels(self.pixels, 0)", "            self.tracks.set_pixels(self.pixels, self.node)")]),
    ("DeleteNode._apply: node kept", R, [(AN, "        self.tracks.graph.remove_node(self.node)\n", "")]),
    ("DeleteNode.inverse: pixels dropped", R, [(AN, "        return AddNode(self.tracks, self.node, self.attributes, pixels=self.pixels)", "        return AddNode(self.tracks, self.node, self.attributes)")]),
    ("DeleteNode.inverse: attributes dropped", R, [(AN, "        return AddNode(self.tracks, self.node, self.attributes, pixels=self.pixels)", "        return AddNode(self.tracks, self.node, {}, pixels=self.pixels)")]),
    # ---- actions/update_node_attrs.py
    ("UpdateNodeAttrs.__init__: time not protected", R, [(AA, "        protected_attrs.add(tracks.features.time_key)\n", "")]),
    ("UpdateNodeAttrs.__init__: previous values = new values", R, [(AA, "        self.prev_attrs = {attr: self.tracks.get_node_attr(node, attr) for attr in attrs}", "        self.prev_attrs = attrs")]),
    ("UpdateNodeAttrs.__init__: previous values read after applying", R, [
        (AA, "        self.prev_attrs = {attr: self.tracks.get_node_attr(node, attr) for attr in attrs}\n        self.new_attrs = attrs\n        self._apply()",
             "        self.new_attrs = attrs\n        self._apply()\n        self.prev_attrs = {attr: self.tracks.get_node_attr(node, attr) for attr in attrs}")]),
    ("UpdateNodeAttrs._apply: None test inverted", R, [(AA, "            if value is None:", "            if value is not None:")]),
    ("UpdateNodeAttrs._apply: None stored instead of removed", R, [(AA, "                self.tracks.graph.nodes[self.node].pop(attr, None)", "                self.tracks._set_node_attr(self.node, attr, value)")]),
    ("UpdateNodeAttrs.inverse: re-applies the new values", R, [(AA, "            self.prev_attrs,\n        )", "            self.new_attrs,\n        )")]),
    ("UpdateNodeAttrs.inverse: restores on the wrong node", R, [(AA, "            self.tracks,\n            self.node,\n            self.prev_attrs,", "            self.tracks,\n            self.node + 1,\n            self.prev_attrs,")]),
    # ---- outside the idiom table
    ("print statement added", R, [(TR, "        if self.action_history.undo():", "        print('undo')\n        if self.action_history.undo():")]),
    ("try/except around the history call", R, [(TR, "        if self.action_history.redo():\n            self.refresh.emit()\n            return True\n        return False",
                                                 "        try:\n            if self.action_history.redo():\n                self.refresh.emit()\n                return True\n        except KeyError:\n            pass\n        return False")]),
]


GROUP_OF = {ST: "queries", TR: "tracks", TA: "annot"}                      # every actions/*.py: "actions"
DOWNSTREAM = {"queries": {"queries", "annot", "actions"}, "tracks": {"tracks"}, "annot": {"annot", "actions"}, "actions": {"actions"}}
# compiled in this order; (file, the source group it belongs to).  Proofs/CoreTieHistory.v imports no core generated file.
FILES = [("Gen/CoreQueries_gen", "queries"), ("Gen/CoreTracks_gen", "tracks"), ("Gen/CoreAnnot_gen", "annot"), ("Gen/CoreActions_gen", "actions"),
         ("Proofs/CoreTieBase", None), ("Proofs/CoreTieQueries", "queries"), ("Proofs/CoreTieTracks", "tracks"),
         ("Proofs/CoreTieAnnot", "annot"), ("Proofs/CoreTieActions", "actions")]
OWN = re.compile(r"^(Gen\.Core\w*_gen|Proofs\.CoreTie\w*)$")


def retarget(text):
    """`From FT Require ..` of the core generated files / core tie files -> the scratch copies (logical root SC)"""
    out = []
    for line in text.split("\n"):
        m = re.match(r"^From FT Require( Import| Export|) (.*)\.$", line)
        if not m: out.append(line); continue
        mods = m.group(2).split()
        mine = [x for x in mods if OWN.match(x)]; rest = [x for x in mods if not OWN.match(x)]
        if rest: out.append("From FT Require%s %s." % (m.group(1), " ".join(rest)))
        if mine: out.append("From SC Require%s %s." % (m.group(1), " ".join(mine)))
    return "\n".join(out)


def build_scratch(d, repo_root):
    """translate repo_root/src into d/coq/Gen, copy the tie files next to it, compile everything.
    Returns (refused groups, [failed files], first error text)."""
    os.makedirs(os.path.join(d, "coq", "Gen"), exist_ok=True); os.makedirs(os.path.join(d, "coq", "Proofs"), exist_ok=True)
    gen = os.path.join(d, "coq", "Gen", "Core_gen.v")
    r = subprocess.run([PY, "-c", "import sys; sys.path.insert(0, %r); import translate_core as t; ok, msg = t.regenerate(%r, %r); print(msg)" % (HARNESS, gen, repo_root)],
                       capture_output=True, text=True, env=dict(os.environ, VERIF_REPO=repo_root))
    msg = r.stdout.strip().split("\n")[-1] if r.stdout.strip() else r.stderr.strip()[-200:]
    refused = []
    for f, grp in FILES:
        path = os.path.join(d, "coq", f + ".v")
        if f.startswith("Gen/"):
            txt = open(path).read()
            if "TRANSLATION FAILED" in txt: refused.append(grp)
        else:
            txt = open(os.path.join(COQ, f + ".v")).read()
        open(path, "w").write(retarget(txt))
    failed = []; detail = ""
    for f, grp in FILES:
        try:
            c = subprocess.run(["coqc", "-Q", COQ, "FT", "-Q", ".", "SC", f + ".v"], cwd=os.path.join(d, "coq"), capture_output=True, text=True, timeout=900)
            bad = c.returncode != 0
            lines = [l for l in (c.stdout + c.stderr).split("\n") if l.strip() and "conda" not in l]
        except subprocess.TimeoutExpired:
            bad = True; lines = ["timeout in %s" % f]
        if bad:
            failed.append((f, grp))
            if not detail and not f.startswith("Gen/"):
                i = next((k for k, l in enumerate(lines) if l.startswith("File")), 0)
                detail = " ".join(lines[i:i + 3])[:150]
    return refused, failed, (msg[:150] if refused else detail)


def run_case(args):
    idx, (label, expect, edits), root = args
    d = os.path.join(root, "c%03d" % idx)
    os.makedirs(d)
    shutil.copytree(os.path.join(REPO, "src"), os.path.join(d, "src"), ignore=shutil.ignore_patterns("__pycache__"))
    touched = set()
    for rel, old, new in edits:
        p = os.path.join(d, "src", "funtracks", rel)
        t = open(p).read()
        if t.count(old) != 1: return label, expect, "not-applicable", "%s: text occurs %d times: %r" % (rel, t.count(old), old[:60])
        open(p, "w").write(t.replace(old, new))
        touched.add(GROUP_OF.get(rel, "actions"))
    refused, failed, detail = build_scratch(d, d)
    allowed = set().union(*[DOWNSTREAM[g] for g in touched]) if touched else set()
    spill = sorted({f for f, grp in failed if grp not in allowed} | {"Gen:" + g for g in refused if g not in allowed})
    if spill: return label, expect, "SPILL", "files of an untouched source group broke: %s" % ", ".join(spill)
    got = "unsupported" if refused else ("fail" if failed else "pass")
    if got != "pass": detail = "[%s] %s" % (",".join(sorted({grp or "base" for _, grp in failed})), detail)
    return label, expect, got, detail


def main(argv):
    jobs = 6
    if argv[:1] == ["-j"]: jobs = int(argv[1]); argv = argv[2:]
    only = argv[0] if argv else ""
    cases = [c for c in CASES if only in c[0]]
    root = tempfile.mkdtemp(prefix="core_selftest.", dir="/tmp")
    bad = 0
    try:
        with concurrent.futures.ThreadPoolExecutor(max_workers=jobs) as ex:
            for label, expect, got, detail in ex.map(run_case, [(i, c, root) for i, c in enumerate(cases)]):
                ok = (got == "pass") if expect == P else (got in ("fail", "unsupported"))
                bad += not ok
                print("%-72s expected %-7s got %-14s %s%s" % (label, expect, got, "" if ok else "UNEXPECTED  ", detail), flush=True)
    finally:
        shutil.rmtree(root, ignore_errors=True)
    n = {e: sum(1 for c in cases if c[1] == e) for e in (P, R)}
    print("selftest_core: %d cases (%d harmless, %d semantic): %s" % (len(cases), n[P], n[R], "all outcomes as expected" if not bad else "%d UNEXPECTED OUTCOME(S)" % bad))
    return 1 if bad else 0


if __name__ == "__main__":
    sys.exit(main(sys.argv[1:]))
