#!/bin/bash
# Negative self-test of the user-action tie (translate_user_actions.py + Proofs/UserActionsTie.v).
# Copies /repo/src to a scratch tree, applies one change at a time, regenerates the embedding into a
# scratch Coq root (logical name SC, so the real Gen/UserActions_gen.v is never touched) and compiles
# a copy of the tie against it.  Expected: comment/docstring-only changes still compile; semantic
# changes make a tie theorem fail; a construct outside the idiom table makes the translator refuse.
# Needs Model/PyRt.vo compiled.  Removes the scratch tree at the end.
set -u
S=/tmp/ua_scratch
PY=/venv/bin/python
rm -rf $S; mkdir -p $S/coq/Gen $S/coq/Proofs
UA=$S/src/funtracks/user_actions

ONLY=${1:-}      # optional: run only the cases whose label contains this text
run() {   # $1 = label, $2 = expectation (pass|fail|unsupported); the mutation has been applied to $S/src
  case "$1" in *"$ONLY"*) ;; *) return;; esac
  VERIF_REPO=$S $PY -c "import sys; sys.path.insert(0,'/verif/harness'); import translate_user_actions as t; t.regenerate('$S/coq/Gen/UserActions_gen.v', '$S')" 2>$S/err.txt
  local got
  if grep -q "TRANSLATION FAILED" $S/coq/Gen/UserActions_gen.v; then got=unsupported
  else
    sed 's/From FT Require Import Base.Dict Model.Edit Model.PyRt Gen.UserActions_gen./From FT Require Import Base.Dict Model.Edit Model.PyRt. From SC Require Import Gen.UserActions_gen./' \
        /verif/coq/Proofs/UserActionsTie.v > $S/coq/Proofs/UserActionsTie.v
    ( cd $S/coq && timeout 600 coqc -Q /verif/coq FT -Q . SC Gen/UserActions_gen.v >$S/out.txt 2>&1 \
        && timeout 900 coqc -Q /verif/coq FT -Q . SC Proofs/UserActionsTie.v >>$S/out.txt 2>&1 ) && got=pass || got=fail
  fi
  local detail=""
  [ $got = fail ] && detail=$(grep -m1 -A2 "^File" $S/out.txt | tr '\n' ' ' | cut -c1-160)
  [ $got = unsupported ] && detail=$(head -1 $S/err.txt | cut -c1-200)
  printf "%-58s expected %-11s got %-11s %s\n" "$1" "$2" "$got" "$detail"
  [ "$got" = "$2" ] || FAILED=1
}
fresh() { rm -rf $S/src; cp -r ${VERIF_REPO:-/repo}/src $S/src; }
FAILED=0

fresh; run "unchanged copy" pass
fresh; sed -i 's/# orphaned segment gets new track id and new lineage id/# a different comment/; s/The edge to delete\./The edge that goes away./' $UA/user_delete_edge.py
       sed -i 's/# Check if making a merge\./# (reworded comment)/' $UA/user_add_edge.py
       run "comment + docstring changes only" pass
fresh; sed -i 's/\bsibling\b/other_child/g' $UA/user_delete_edge.py
       sed -i 's/^        if self.tracks.get_time(source) >= self.tracks.get_time(target):$/        t_source = self.tracks.get_time(source)\n        if t_source >= self.tracks.get_time(target):/' $UA/user_add_edge.py
       sed -i 's/^        had_predecessor = len(self.tracks.predecessors(node)) > 0$/        parents = self.tracks.predecessors(node)\n        had_predecessor = len(parents) > 0/; s/^        for pred in self.tracks.predecessors(node):$/        for pred in parents:/' $UA/user_delete_node.py
       run "harmless rewrites: renamed local, two new temporaries" pass
fresh; sed -i 's/if self.tracks.get_time(source) >= self.tracks.get_time(target):/if self.tracks.get_time(source) > self.tracks.get_time(target):/' $UA/user_add_edge.py
       run "UserAddEdge: time check weakened (>= to >)" fail
fresh; $PY - <<EOF
p="$UA/user_delete_edge.py"; t=open(p).read()
a="            self.actions.append(UpdateTrackIDs(self.tracks, sibling, new_track_id))\n"
i=t.index(a); j=t.index("        else:\n", i)
rest=t[i+len(a):j]          # the comment and the second UpdateTrackIDs
open(p,"w").write(t[:i]+rest+a+t[j:])
EOF
       run "UserDeleteEdge: the two relabellings swapped" fail
fresh; sed -i 's/if not had_predecessor:/if had_predecessor:/' $UA/user_delete_node.py
       run "UserDeleteNode: orphan rule inverted" fail
fresh; sed -i 's/if pred is not None and self.tracks.graph.out_degree(pred) == 2:/if pred is not None and self.tracks.graph.out_degree(pred) >= 2:/' $UA/user_add_node.py
       run "UserAddNode: division test == 2 to >= 2" fail
fresh; sed -i 's/^            if old_value == 0:$/            if old_value == 0 or old_value == new_value:/' $UA/user_update_segmentation.py
       run "UserUpdateSegmentation: extra skip condition (or)" unsupported
fresh; sed -i 's/^        self.actions.append(DeleteEdge(tracks, edge))$/        self.actions.append(DeleteEdge(tracks, edge))\n        print("deleted", edge)/' $UA/user_delete_edge.py
       run "UserDeleteEdge: added print statement" unsupported
fresh; sed -i 's/UserDeleteEdge(tracks, (pred1, node1), _top_level=False)/UserDeleteEdge(tracks, (pred1, node1))/' $UA/_user_swap_predecessors.py
       run "UserSwapPredecessors: nested action without _top_level" unsupported

rm -rf $S
[ $FAILED = 0 ] && echo "selftest: all outcomes as expected" || { echo "selftest: UNEXPECTED OUTCOME"; exit 1; }
