"""Negative self-test of the source-derived ties NameMapTie / SubsetTie.

For each case: copy /repo/src to a scratch directory, apply a textual edit to the Python, run the
translator with VERIF_REPO-style source path and a scratch output, compile the generated file and the
tie file in a scratch Coq tree (Base/, Model/ and the needed Proofs/*.vo are symlinked from
/verif/coq; nothing under /verif or /repo is written).  Expected: a semantic change makes the
translator raise Unsupported (the generated file then does not type-check) or makes the tie
fail to compile; a comment-only change keeps everything compiling.  The scratch directory is
removed afterwards.

usage: /venv/bin/python harness/tie_selftest.py
"""
import os, shutil, subprocess, sys, tempfile
sys.path.insert(0, os.path.dirname(os.path.abspath(__file__)))
import translate_name_mapping as TN, translate_utils as TU

COQ = "/verif/coq"
NM = "src/funtracks/import_export/_name_mapping.py"
UT = "src/funtracks/import_export/_utils.py"

CASES = [
    # (name, file, old text, new text, expectation)
    ("baseline (no change)", NM, None, None, "ok"),
    ("comment-only change in _match_fuzzy", NM,
     "        # Create case-insensitive mapping\n",
     "        # Build a lookup table keyed by the lower-cased names   (comment reworded)\n\n", "ok"),
    ("_match_fuzzy: remove every case-variant of the matched column", NM,
     "            props_left.remove(best_match)\n\n    return props_left\n\n\ndef _match_display_names_exact",
     "            props_left = [p for p in props_left if p.lower() != closest[0]]\n\n    return props_left\n\n\ndef _match_display_names_exact", "broken"),
    ("_match_fuzzy: map the field to the lower-cased name instead of the column", NM,
     "            mapping[field] = best_match\n", "            mapping[field] = closest[0]\n", "broken"),
    ("_match_fuzzy: matched column is not removed from props_left", NM,
     "            mapping[field] = best_match\n            props_left.remove(best_match)\n",
     "            mapping[field] = best_match\n", "broken"),
    ("_match_exact: `field in mapping` check dropped", NM,
     "    for field in target_fields:\n        if field in mapping:\n            continue\n        if field in props_left:\n",
     "    for field in target_fields:\n        if field in props_left:\n", "broken"),
    ("_match_display_names_exact: multi-value test ignores the index", NM,
     "            is_multi_value = any(\n                k == feature_key and i != idx for _, (k, i) in display_name_to_key.items()\n            )\n            if is_multi_value:\n                if feature_key not in multi_value_matches:\n                    multi_value_matches[feature_key] = {}\n                multi_value_matches[feature_key][idx] = prop\n            else:\n                # Single-value feature",
     "            is_multi_value = any(\n                k == feature_key for _, (k, i) in display_name_to_key.items()\n            )\n            if is_multi_value:\n                if feature_key not in multi_value_matches:\n                    multi_value_matches[feature_key] = {}\n                multi_value_matches[feature_key][idx] = prop\n            else:\n                # Single-value feature", "broken"),
    ("infer_node_name_map: steps 3 and 4 swapped", NM,
     "    props_left = _match_display_names_exact(props_left, display_name_to_key, mapping)\n\n    # Step 4: Fuzzy matches with feature display names\n    props_left = _match_display_names_fuzzy(props_left, display_name_to_key, mapping)\n\n    # Step 5: Map remaining properties to themselves (custom properties)\n    custom_mapping = _map_remaining_to_self(props_left)\n    mapping.update(custom_mapping)\n\n    return mapping\n\n\ndef infer_edge",
     "    props_left = _match_display_names_fuzzy(props_left, display_name_to_key, mapping)\n\n    # Step 4: Fuzzy matches with feature display names\n    props_left = _match_display_names_exact(props_left, display_name_to_key, mapping)\n\n    # Step 5: Map remaining properties to themselves (custom properties)\n    custom_mapping = _map_remaining_to_self(props_left)\n    mapping.update(custom_mapping)\n\n    return mapping\n\n\ndef infer_edge", "broken"),
    ("baseline (no change)", UT, None, None, "ok"),
    ("comment-only change in filter_graph_with_ancestors", UT,
     "    all_nodes_to_keep = set(nodes_to_keep)\n",
     "    # start from the selected nodes themselves\n    all_nodes_to_keep = set(nodes_to_keep)  # a copy\n", "ok"),
    ("filter_graph_with_ancestors: only the ancestors of the first node are added", UT,
     "        all_nodes_to_keep.update(ancestors)\n", "        all_nodes_to_keep.update(ancestors)\n        break\n", "broken"),
    ("filter_graph_with_ancestors: ancestors dropped from the result", UT,
     "    return list(all_nodes_to_keep)\n", "    return list(set(nodes_to_keep))\n", "broken"),
    ("filter_graph_with_ancestors: rewritten with a while loop over parents", UT,
     "    for node in nodes_to_keep:\n        ancestors = nx.ancestors(graph, node)\n        all_nodes_to_keep.update(ancestors)\n",
     "    for node in nodes_to_keep:\n        parent = next(graph.predecessors(node), None)\n        while parent:\n            all_nodes_to_keep.add(parent)\n            parent = next(graph.predecessors(parent), None)\n", "broken"),
]

def sh(cmd, cwd):
    p = subprocess.run(cmd, cwd=cwd, stdout=subprocess.PIPE, stderr=subprocess.STDOUT, text=True, timeout=600)
    return p.returncode, p.stdout

def scratch_coq(root):
    c = os.path.join(root, "coq"); os.makedirs(os.path.join(c, "Gen")); os.makedirs(os.path.join(c, "Proofs"))
    for d in ("Base", "Model"): os.symlink(os.path.join(COQ, d), os.path.join(c, d))
    for f in os.listdir(os.path.join(COQ, "Proofs")):
        if f.startswith(("NameMapProofs.", "SubsetExportProofs.")): os.symlink(os.path.join(COQ, "Proofs", f), os.path.join(c, "Proofs", f))
    for f in ("NameMapTie.v", "SubsetTie.v"): shutil.copy(os.path.join(COQ, "Proofs", f), os.path.join(c, "Proofs", f))
    return c

def first_error(out):
    ls = [l for l in out.split("\n") if l.strip()]
    for i, l in enumerate(ls):
        if l.startswith("Error"): return " ".join(x.strip() for x in ls[max(0, i - 1):i + 3])[:260]
    return " ".join(ls[:3])[:260]

def main():
    root = tempfile.mkdtemp(prefix="tie_selftest_", dir="/tmp")
    bad = 0
    try:
        for name, rel, old, new, expect in CASES:
            repo = os.path.join(root, "repo"); shutil.rmtree(repo, ignore_errors=True)
            shutil.copytree("/repo/src", os.path.join(repo, "src"))
            path = os.path.join(repo, rel); txt = open(path).read()
            if old is not None:
                assert txt.count(old) == 1, (name, txt.count(old))
                open(path, "w").write(txt.replace(old, new))
            shutil.rmtree(os.path.join(root, "coq"), ignore_errors=True)
            c = scratch_coq(root)
            if rel == NM: mod, gen, tie = TN, "Gen/NameMapping_gen.v", "Proofs/NameMapTie.v"
            else: mod, gen, tie = TU, "Gen/SubsetUtils_gen.v", "Proofs/SubsetTie.v"
            ok, msg = mod.regenerate(src=path, out=os.path.join(c, gen))
            rc1, out1 = sh(["coqc", "-Q", ".", "FT", gen], c)
            rc2, out2 = (1, "(generated file did not compile)") if rc1 else sh(["coqc", "-Q", ".", "FT", tie], c)
            closed = out2.count("Closed under the global context")
            if not ok: got, why = "broken", "translator: Unsupported: " + msg
            elif rc1: got, why = "broken", "generated file does not compile: " + first_error(out1)
            elif rc2: got, why = "broken", "tie does not compile: " + first_error(out2)
            else: got, why = "ok", "translated, generated file and tie compile (%d x Closed under the global context)" % closed
            if not ok and rc1 == 0: got, why = "ok", "TRANSLATOR FAILED BUT THE FAILURE FILE TYPE-CHECKS"; expect_ = None
            verdict = "as expected" if got == expect else "UNEXPECTED"
            bad += got != expect
            print("[%s] %s :: %s\n      -> %s" % (verdict, os.path.basename(rel), name, why))
    finally:
        shutil.rmtree(root, ignore_errors=True)
    print("scratch directory removed:", not os.path.exists(root))
    return 1 if bad else 0

if __name__ == "__main__":
    sys.exit(main())
