"""Shared engine of the edit-machine properties (C01-C11, C20): runs scenario shards on
the implementation with the oracles attached (in parallel), replays the same operation
lines on the extracted Coq model, compares every step, and returns what belongs to the
property that asked."""
from __future__ import annotations

import multiprocessing as mp
import os
from collections import Counter

import common as C
import edit_oracles as O
import editmachine as E


def _one(args):
    seed, idx, seg_p, nsteps, toggles = args
    holder = {}

    class Hook:
        def start(self, t, cfg):
            holder["o"] = O.Oracles(cfg)
            holder["o"].start(t)

        def before(self, t):
            return holder["o"].before(t)

        def after(self, *a):
            return holder["o"].after(*a)

    try:
        scn = E.run_scenario(seed, idx, nsteps=nsteps, seg_p=seg_p, on_step=Hook(), toggles=toggles)
    except Exception as e:  # noqa: BLE001
        import traceback

        return {"error": "%s: %s\n%s" % (type(e).__name__, e, traceback.format_exc()[-800:]), "seed": seed, "index": idx}
    t = scn.pop("tracks")
    o = holder["o"]
    scn["violations"] = o.violations
    scn["ostats"] = o.stats
    return scn


def run_shard(seed, n, seg_p=0.5, nsteps=None, procs=None, toggles=0.0):
    procs = procs or min(16, os.cpu_count() or 4)
    args = [(seed, i, seg_p, nsteps, toggles) for i in range(n)]
    with mp.get_context("fork").Pool(procs) as pool:
        return pool.map(_one, args, chunksize=max(1, n // (procs * 4)))


def ops_of(scn):
    k = len(scn["lines"]) - (len(scn["obs"]) - 1)
    return scn["lines"][k:]


def run_property(ctx, pid, n_quick=400, n_thorough=6000, seg_p=0.5, fields=None, toggles=0.0):
    """fields: the observation fields whose divergence concerns this property (None = all)"""
    n = n_quick if ctx.quick() else n_thorough
    scns = run_shard(ctx.seed, n, seg_p=seg_p, toggles=toggles)
    errors = [s for s in scns if "error" in s]
    scns = [s for s in scns if "error" not in s]
    lines = []
    for s in scns:
        if s.get("ctor"):
            lines += s["ctor"]["lines"]
        lines += s["lines"]
    rc, out = C.run_driver(ctx.driver, lines, timeout=1200)
    mos = E.split_model_output(out)
    divergences, violations, samples = [], [], []
    kinds, rets, ost = Counter(), Counter(), Counter()
    steps = 0
    distinct = set()
    unparsed = [l for l in out if l.startswith("?")]
    # the output blocks: [constructor block,] session block per scenario
    want = sum(2 if s.get("ctor") else 1 for s in scns)
    cblocks = []
    if len(mos) == want:
        it = iter(mos)
        mos = []
        for s in scns:
            cblocks.append(next(it) if s.get("ctor") else None)
            mos.append(next(it))
    else:
        cblocks = [None] * len(scns)
    ctor_stats = Counter()
    if rc != 0 or len(mos) != len(scns) or unparsed:
        divergences.append({"what": "model driver failed", "rc": rc, "unparsed": unparsed[:3], "scenarios": len(scns), "model_scenarios": len(mos)})
    for e in errors[:3]:
        divergences.append({"what": "scenario runner raised", "detail": e["error"], "index": e["index"]})
    for s, mo, cb in zip(scns, mos, cblocks):
        if cb is not None:
            cn, cd = E.compare_ctor(s, cb)
            steps += cn
            ctor_stats["constructions_compared"] += 1
            sup = s["cfg"].get("supply") or {}
            for k_, v_ in sup.items():
                if v_:
                    ctor_stats["supplied_%s%s" % (k_, "" if v_ is True else ":" + str(v_))] += 1
            if cd is not None:
                divergences.append({"what": "constructor: SolutionTracks.__init__ and Model/EditCtor.construct_any disagree", "scenario": {"seed": s["seed"], "index": s["index"], "cfg": s["cfg"]},
                                    "raw": s["ctor"]["lines"][:40], "fields": cd["fields"], "impl": cd.get("impl"), "model": cd.get("model")})
        nst, d = E.compare(s, mo)
        steps += nst
        ops = ops_of(s)
        for k, o in zip(s["kinds"], s["obs"]):
            kinds[k] += 1
            rets["%s:%d" % (k, o["ret"])] += 1
        ost.update(s["ostats"])
        if len(ops) >= 3 and any(o["ret"] in (0, 1) for o in s["obs"][1:]):
            distinct.add(tuple(ops))
        if d is not None:
            mine = fields is None or any(f in fields for f in d["fields"]) or any(pid in E.FIELD_PROPS.get(f, [pid]) for f in d["fields"])
            if mine:
                divergences.append({"scenario": {"seed": s["seed"], "index": s["index"], "cfg": s["cfg"]}, "ops_until_divergence": ops[:d["step"]],
                                    "fields": d["fields"], "impl": d.get("impl"), "model": d.get("model")})
        for prop, what, line, stepno in s["violations"]:
            sig = None
            if prop == pid:
                sig = "%s:%s" % (pid, line.split()[0] if line else "init")
                if pid != "C10":
                    # F-10b upstream: the ids were recomputed in mid-session and a later undo / redo re-applied ids of
                    # the old numbering before this step - from such a state calls fail half-way with ValueError
                    k = stepno - 1 if stepno >= 1 else len(ops)
                    ren = [i for i, o in enumerate(ops[:k + 1]) if o.startswith("EN ") and set(o.split()[1].split(",")) & {"2", "3"}
                           and o.split()[2] == "1" and s["obs"][i + 1]["ret"] == 0]
                    if ren and any(o in ("U", "R") for o in ops[ren[0] + 1:k + 1]):
                        sig = "%s:ids-recomputed-then-undo" % pid
                        what = "after `%s` recomputed the ids and a later undo/redo restored ids of the old numbering (F-10b): %s" % (ops[ren[0]], what)
            elif pid == "C10" and prop in ("C08", "C09") and any(o.startswith(("EN ", "DIS ")) for o in ops[:max(stepno, 0)]):
                # a value that is not the reference value although its feature is enabled, in a history with switches
                sig = "C10:not-fresh-after-switch"
            elif pid == "C10" and prop in ("C01", "C02", "C03", "C04", "C05", "C06", "C11"):
                # ids recomputed in mid-session (enable_features(['track_id'/'lineage_id']) on an enabled
                # feature renumbers them) and a later undo / redo re-applies ids of the old numbering
                k = stepno - 1 if stepno >= 1 else len(ops)
                ren = [i for i, o in enumerate(ops[:k + 1]) if o.startswith("EN ") and set(o.split()[1].split(",")) & {"2", "3"}
                       and s["obs"][i + 1]["ret"] == 0]
                undone = [i for i, o in enumerate(ops[:k + 1]) if o in ("U", "R") and ren and i > ren[0]]
                if ren and undone:
                    sig = "C10:ids-recomputed-then-undo"
                    what = "track/lineage ids were recomputed by `%s` and a later undo/redo restored ids of the old numbering: %s" % (ops[ren[0]], what)
                else:
                    sig = "C10:%s-after-switch" % prop
            if sig is not None:
                violations.append({"what": what, "input": {"scenario": {"seed": s["seed"], "index": s["index"], "seg_p": seg_p, "toggles": toggles}, "cfg": s["cfg"],
                                                           "init": s["lines"][:len(s["lines"]) - len(ops)], "ops": ops, "failing_op": line},
                                   "signature": sig})
        if len(samples) < 3 and len(ops) >= 5:
            samples.append({"cfg": s["cfg"], "ops": ops[:12], "returns": [o["ret"] for o in s["obs"][1:13]]})
    refused = sum(v for k, v in rets.items() if int(k.split(":")[1]) >= 10)
    stats = {"scenarios": len(scns), "steps_compared": steps, "op_kinds": dict(kinds), "returns": dict(sorted(rets.items())),
             "refused_share": round(refused / max(1, steps), 3), "oracle_counters": dict(ost),
             "with_segmentation": sum(1 for s in scns if s["cfg"]["seg"]), "ndim4": sum(1 for s in scns if s["cfg"]["ndim"] == 4),
             "runner_errors": len(errors), "constructor": dict(ctor_stats)}
    # keep the smallest failing scenarios first
    violations.sort(key=lambda v: len(v["input"]["ops"]))
    return {"evaluations": steps, "distinct_nontrivial": len(distinct),
            "rule": "random scenarios: configuration (2D+t / 3D+t, with or without segmentation, scale None / unit / anisotropic, extra features, per-axis positions, custom feature) x random binary forest (1-8 nodes, non-contiguous ids, divisions, skip edges) x 4-22 operations chosen by inspecting the implementation state (all 7 user actions with valid and invalid arguments, forced variants, strokes with new / existing / foreign / background labels, undo, redo, queries). evaluations = operation steps compared field by field with the model; a scenario is non-trivial when it has >= 3 operations of which at least one succeeds; distinct = distinct operation lists.",
            "samples": samples, "divergences": divergences, "violations": violations, "stats": stats}


def replay(ctx, payload):
    """re-run the scenario of a replay file on the implementation with the oracles attached"""
    inp = payload.get("input") or {}
    if isinstance(inp, dict) and "witness" in inp:
        import witnesses

        r = witnesses.run(ids=[inp["witness"]])
        return {"violation": not all(x[2] for x in r), "detail": r}
    sc = inp.get("scenario")
    if not sc:
        return {"error": "replay file has no scenario"}
    r = _one((sc["seed"], sc["index"], sc.get("seg_p", 0.5), None, sc.get("toggles", 0.0)))
    mine = [v for v in r.get("violations", []) if v[0] == ctx.pid or (ctx.pid == "C10" and v[0] in ("C01", "C02", "C03", "C04", "C05", "C06", "C11"))]
    return {"violation": bool(mine), "violations": mine[:5], "ops": ops_of(r) if "lines" in r else None}
