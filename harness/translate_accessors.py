"""Fail-closed translator: the BODIES of the accessor methods of Tracks  ->  coq/Gen/Accessors_gen.v

Source: $VERIF_REPO/src/funtracks/data_model/tracks.py (default /repo), class Tracks.  Translated, whole methods, in this
order (callees first); one Gallina definition each, in the `res` monad of Model/Edit.v over the model state:
      get_node_attr    -> gen_Tracks_get_node_attr      (+ gen_Tracks_get_node_attr_default_required, the default value)
      get_nodes_attr   -> gen_Tracks_get_nodes_attr     (+ gen_Tracks_get_nodes_attr_default_required)
      get_times        -> gen_Tracks_get_times
      get_time         -> gen_Tracks_get_time
      get_pixels       -> gen_Tracks_get_pixels
      set_pixels       -> gen_Tracks_set_pixels
      _set_node_attr   -> gen_Tracks_set_node_attr
      _set_nodes_attr  -> gen_Tracks_set_nodes_attr
These are the methods the other translators (translate_core.py, translate_ctor.py, ..) take as PRIMITIVES
(`T.get_time(x)` -> time_of s x, `T.get_pixels(x)` -> get_pixels s x, `T.set_pixels(px, v)` -> set_pixels s px v,
`T.get_node_attr` / `T._set_node_attr` -> py_node_attr_* / py_set_node_attr).  Proofs/AccessorsTie.v proves every
generated definition equal to the hand model of Model/Edit.v (on a stated domain where the Python raises and the model is
total) and to those primitives, so a change inside one of these methods changes the generated text and un-hooks a tie.
NOT translated: get_positions / get_position / set_positions / set_position / set_times / set_time (np.stack, np.c_,
tolist: no model), the deprecated wrappers _get_node_attr / _get_nodes_attr / get_area(s) / get_iou(s).

Anything not listed below raises `Unsupported("<file>:<line>: ...")`; nothing is guessed or skipped.
This table, the emitter below and Model/PyRt10.v (+ the reused combinators it lists) are the trusted part.

CLOSED IDIOM TABLE        (s = the model state = the Tracks object with everything reachable from it;
                           Python variable x = Gallina variable v_x; re-assignment = shadowing `let`;
                           every definition lives in `res`: an exception is an Err carrying the state at the raise)
 -- skipped (nothing else is)
 docstrings; comments; return annotations.
 -- side conditions (each one refused when broken)
 the class header is `class Tracks:` (no bases, keywords, decorators); each translated method is defined exactly once in the
 class body, is a plain `def` WITHOUT DECORATORS, has no *args / **kwargs / keyword-only / positional-only parameters;
 nothing in tracks.py or solution_tracks.py assigns to an attribute named like a translated method (`Tracks.get_time = ..`,
 `self.get_time = ..`), calls setattr, or rebinds one at class level; no class-level statement of Tracks other than
 docstring / def / the signal `refresh = Signal(..)`; Tracks and SolutionTracks define no method / property named
 graph, segmentation, features, __getattr__, __getattribute__, __setattr__; `class SolutionTracks(Tracks)` does not define
 any translated method; tracks.py has `import numpy as np` exactly once and binds none of np, int, list, zip, isinstance
 at module level in any other way; Tracks.__init__ contains `self.segmentation = segmentation` and `self.graph = graph`.
 -- parameters (by annotation; anything else is refused)
 self                                         the state s
 Node -> Z (a node id);  str -> Z (an interned attribute key);  int -> Z;  bool -> bool;  Any -> value (an attribute value)
 Iterable[Node] -> list Z;  Iterable[Any] -> list value;  tuple[np.ndarray, ...] -> np_index (PyRt10.v: an index tuple)
 default values: only `<bool parameter> = True | False`; emitted as  Definition gen_Tracks_<m>_default_<p> : bool := ..
                                              and filled in where a translated caller omits the argument
 -- statements
 x = e                                        let v_x := e in ..          (x not a parameter-typed-differently / builtin name)
 if c: A else: B ; rest                       <bindings of c> if c then <A; rest> else <B; rest>     (the rest is duplicated)
 if isinstance(x, np.ndarray):                let v_x := np_array_to_list v_x in ..        (x : value; exactly this shape, no else;
     x = list(x)                              PyRt10.v: attribute values are abstract, the conversion is the identity on them)
 return e                                     Ok e s ;  in a method that also has `return None`:  Ok (Some e) s  /  Ok None s
                                              falling off the end: Ok tt s
 raise ValueError(<string constant>)          Err EValue s
 self.segmentation[p] = v   (p : np_index, v : Z)        do _u, s <- py_seg_setitem s p v; ..        (PyRt10.v: IndexError; TypeError = EKey)
 self.graph.nodes[n][k] = v (n node, k key, v value)     do _u, s <- nx_node_setitem s n k v; ..     (PyRt10.v: KeyError)
 for a, b in zip(X, Y, strict=False): body    bind (py_for (py_zip X Y) tt s (fun '(v_a, v_b) (_ : unit) s => body; Ok tt s)) (fun _ s => rest)
                                              (X : list Z, Y : list value locals the body does not assign; a, b new names; the body may
                                              rebind a / b but no name that exists before the loop; no return / break / continue inside)
 -- expressions (a raising sub-expression is bound first, in evaluation order: do t, s <- ..;)
 x                                            v_x
 True False  <non-negative int literal>       true false (n)
 a + b, a - b   (ints)                        (a + b) (a - b)
 not c                                        (negb c)
 self.segmentation is None / is not None      (seg_is_none s) / (negb (seg_is_none s))                    (PyRt10.v)
 self.features.time_key                       KTime           (interned, as in translate_core.py)
 [e]            (e a node)                    [e]
 self.graph.nodes[n]                          do t, s <- nx_node_view s n;                                (PyRt9.v: KeyError)
 d[k]           (d such a view, k a key)      do t, s <- py_getitem d k s;                                (PyRt3.v: KeyError)
 d.get(k, None) (d such a view)               (py_attrs_get_none d k)                                     (PyRt10.v)
 l[0]           (l : list value)              do t, s <- py_index0 l s;                                   (PyRt.v: IndexError)
 int(v)         (v : value)                   do t, s <- py_int_value v s;                                (PyRt10.v)
 self.segmentation[t]   (t : Z)               do t, s <- py_seg_frame s t;                                (PyRt10.v: IndexError; TypeError = EKey)
 f == n / f != n   (f a frame, n : Z)         (NpRt.np_eq_mask f n) / (NpRt.np_ne_mask f n)               (NpRt.v)
 np.nonzero(m)  (m a boolean frame)           (np_nonzero m)                                              (PyRt10.v)
 np.ones_like(ix[0])  (ix a nonzero result)   (np_ones_like_axis0 ix)                                     (PyRt10.v)
 a * c          (a a 1-D int array, c : Z)    (np_mul_scalar a c)                                         (PyRt10.v)
 (a, *ix)       (a 1-D int array, ix a nonzero result)      (np_index_cons a ix)                          (PyRt10.v)
 [e for x in L] (L : list Z, x a new name, e may raise)     do t, s <- py_for L [] s (fun v_x acc s => <bindings of e> Ok (acc ++ [e]) s);
 self.m(args, kw=..)  (m translated earlier)  do t, s <- gen_Tracks_m s args;     (keywords put in parameter order, defaults filled in)
"""
import ast
import hashlib
import os
import sys


class Unsupported(Exception):
    pass


REPO = os.environ.get("VERIF_REPO", "/repo")
OUT = "/verif/coq/Gen/Accessors_gen.v"
TR_FILE = "data_model/tracks.py"
ST_FILE = "data_model/solution_tracks.py"

METHODS = ["get_node_attr", "get_nodes_attr", "get_times", "get_time", "get_pixels", "set_pixels", "_set_node_attr", "_set_nodes_attr"]
PARAM_TY = {"Node": "node", "str": "key", "int": "int", "bool": "bool", "Any": "value", "Iterable[Node]": "nodes",
            "Iterable[Any]": "vlist", "tuple[np.ndarray, ...]": "npindex"}
COQTY = {"node": "Z", "key": "Z", "int": "Z", "bool": "bool", "value": "value", "nodes": "list Z", "vlist": "list value",
         "npindex": "np_index", "frame": "list Z", "mask": "list bool", "nzidx": "list Z", "arr": "list Z", "attrs": "attrs",
         "unit": "unit"}
ZLIKE = ("node", "int")
RESERVED = {"self", "s", "np", "int", "list", "zip", "isinstance", "acc", "tt"}
NO_DEF = {"graph", "segmentation", "features", "__getattr__", "__getattribute__", "__setattr__"}

CUR = {"file": "?", "n": 0, "sigs": {}, "opt": False, "ret": set()}


class V:
    def __init__(self, coq, ty):
        self.coq, self.ty = coq, ty


def fail(node, why):
    raise Unsupported("%s:%s: %s: %s" % (CUR["file"], getattr(node, "lineno", "?"), why,
                                         ast.dump(node)[:160] if isinstance(node, ast.AST) else node))


def fresh(prefix="t"):
    CUR["n"] += 1
    return "%s%d" % (prefix, CUR["n"])


def cname(x):
    return "v_" + x


def gname(m):
    return "gen_Tracks_" + m.lstrip("_")


def ind(txt):
    return "\n".join("  " + l for l in txt.split("\n"))


def is_docstring(s):
    return isinstance(s, ast.Expr) and isinstance(s.value, ast.Constant) and isinstance(s.value.value, str)


def is_none(n):
    return isinstance(n, ast.Constant) and n.value is None


def is_self(n, env):
    return isinstance(n, ast.Name) and n.id == "self" and "self" in env and env["self"].ty == "SELF"


def self_attr(n, env, name):
    return isinstance(n, ast.Attribute) and n.attr == name and is_self(n.value, env) and isinstance(n.ctx, ast.Load)


def is_np(n, env, name):
    return (isinstance(n, ast.Attribute) and n.attr == name and isinstance(n.value, ast.Name) and n.value.id == "np"
            and "np" not in env)


def is_graph_nodes_sub(n, env):
    """self.graph.nodes[<e>]  ->  <e>"""
    if (isinstance(n, ast.Subscript) and isinstance(n.value, ast.Attribute) and n.value.attr == "nodes"
            and self_attr(n.value.value, env, "graph")):
        return n.slice
    return None


# --------------------------------------------------------------------------- expressions
def ex(n, env, pre):
    """translate an expression; `pre` collects the raising sub-expressions (name, term) that must be bound first, in
    evaluation order (None: a raising sub-expression is not allowed here)"""

    def hoist(term, ty):
        if pre is None: fail(n, "raising expression not allowed in this position")
        x = fresh("t")
        pre.append((x, term))
        return V(x, ty)

    if isinstance(n, ast.Constant):
        if type(n.value) is bool: return V("true" if n.value else "false", "bool")
        if type(n.value) is int and n.value >= 0: return V("(%d)" % n.value, "int")
        fail(n, "constant")
    if isinstance(n, ast.Name):
        if not isinstance(n.ctx, ast.Load): fail(n, "name context")
        if n.id in env and env[n.id].ty in COQTY: return env[n.id]
        fail(n, "unknown (or possibly unbound) variable, or an object used as a value")
    if isinstance(n, ast.Attribute):
        if n.attr == "time_key" and self_attr(n.value, env, "features") and isinstance(n.ctx, ast.Load): return V("KTime", "key")
        fail(n, "attribute")
    if isinstance(n, ast.List) and len(n.elts) == 1 and isinstance(n.ctx, ast.Load):
        e = ex(n.elts[0], env, pre)
        if e.ty != "node": fail(n, "list literal of a non-node")
        return V("[%s]" % e.coq, "nodes")
    if isinstance(n, ast.Tuple) and len(n.elts) == 2 and isinstance(n.ctx, ast.Load) and isinstance(n.elts[1], ast.Starred):
        a = ex(n.elts[0], env, pre); b = ex(n.elts[1].value, env, pre)
        if a.ty == "arr" and b.ty == "nzidx": return V("(np_index_cons %s %s)" % (a.coq, b.coq), "npindex")
        fail(n, "tuple (<%s>, *<%s>)" % (a.ty, b.ty))
    if isinstance(n, ast.Subscript) and isinstance(n.ctx, ast.Load):
        nd = is_graph_nodes_sub(n, env)
        if nd is not None:
            i = ex(nd, env, pre)
            if i.ty != "node": fail(n, "graph.nodes[..] of a non-node")
            return hoist("nx_node_view s %s" % i.coq, "attrs")
        if self_attr(n.value, env, "segmentation"):
            i = ex(n.slice, env, pre)
            if i.ty != "int": fail(n, "segmentation[<%s>]" % i.ty)
            return hoist("py_seg_frame s %s" % i.coq, "frame")
        d = ex(n.value, env, pre)
        if d.ty == "attrs":
            k = ex(n.slice, env, pre)
            if k.ty != "key": fail(n, "<attrs>[<%s>]" % k.ty)
            return hoist("py_getitem %s %s s" % (d.coq, k.coq), "value")
        if d.ty == "vlist" and isinstance(n.slice, ast.Constant) and type(n.slice.value) is int and n.slice.value == 0:
            return hoist("py_index0 %s s" % d.coq, "value")
        fail(n, "subscript of %s" % d.ty)
    if isinstance(n, ast.UnaryOp) and isinstance(n.op, ast.Not):
        v = ex(n.operand, env, pre)
        if v.ty != "bool": fail(n, "not of a non-boolean")
        return V("(negb %s)" % v.coq, "bool")
    if isinstance(n, ast.BinOp):
        a, b = ex(n.left, env, pre), ex(n.right, env, pre)
        if isinstance(n.op, (ast.Add, ast.Sub)) and a.ty == "int" and b.ty == "int":
            return V("(%s %s %s)" % (a.coq, "+" if isinstance(n.op, ast.Add) else "-", b.coq), "int")
        if isinstance(n.op, ast.Mult) and a.ty == "arr" and b.ty == "int": return V("(np_mul_scalar %s %s)" % (a.coq, b.coq), "arr")
        fail(n, "binary operation on %s, %s" % (a.ty, b.ty))
    if isinstance(n, ast.Compare) and len(n.ops) == 1:
        op, l, r = n.ops[0], n.left, n.comparators[0]
        if isinstance(op, (ast.Is, ast.IsNot)) and is_none(r) and self_attr(l, env, "segmentation"):
            return V("(seg_is_none s)" if isinstance(op, ast.Is) else "(negb (seg_is_none s))", "bool")
        if isinstance(op, (ast.Eq, ast.NotEq)):
            a, b = ex(l, env, pre), ex(r, env, pre)
            if a.ty == "frame" and b.ty in ZLIKE:
                return V("(NpRt.%s %s %s)" % ("np_eq_mask" if isinstance(op, ast.Eq) else "np_ne_mask", a.coq, b.coq), "mask")
            fail(n, "comparison of %s with %s" % (a.ty, b.ty))
        fail(n, "comparison")
    if isinstance(n, ast.ListComp):
        if len(n.generators) != 1: fail(n, "comprehension")
        gen = n.generators[0]
        if gen.ifs or gen.is_async or not isinstance(gen.target, ast.Name): fail(n, "comprehension")
        x = gen.target.id
        if x in env or x in RESERVED: fail(n, "the comprehension variable must be a new name")
        L = ex(gen.iter, env, pre)
        if L.ty != "nodes": fail(n, "comprehension over %s" % L.ty)
        e1 = dict(env); e1[x] = V(cname(x), "node")
        pre2 = []
        e = ex(n.elt, e1, pre2)
        if e.ty != "value": fail(n, "comprehension element of type %s" % e.ty)
        body = binds(pre2) + "Ok (acc ++ [%s]) s" % e.coq
        return hoist("py_for %s [] s (fun %s acc s =>\n%s)" % (L.coq, cname(x), ind(body)), "vlist")
    if isinstance(n, ast.Call):
        f, args = n.func, n.args
        if isinstance(f, ast.Name):
            if f.id in env: fail(n, "call of a local")
            if f.id == "int" and len(args) == 1 and not n.keywords:
                v = ex(args[0], env, pre)
                if v.ty != "value": fail(n, "int(<%s>)" % v.ty)
                return hoist("py_int_value %s s" % v.coq, "int")
            fail(n, "call of %s" % f.id)
        if isinstance(f, ast.Attribute):
            if is_np(f, env, "nonzero") and len(args) == 1 and not n.keywords:
                m = ex(args[0], env, pre)
                if m.ty != "mask": fail(n, "np.nonzero(<%s>)" % m.ty)
                return V("(np_nonzero %s)" % m.coq, "nzidx")
            if is_np(f, env, "ones_like") and len(args) == 1 and not n.keywords:
                a = args[0]
                if (isinstance(a, ast.Subscript) and isinstance(a.slice, ast.Constant) and type(a.slice.value) is int
                        and a.slice.value == 0 and isinstance(a.ctx, ast.Load)):
                    ix = ex(a.value, env, pre)
                    if ix.ty == "nzidx": return V("(np_ones_like_axis0 %s)" % ix.coq, "arr")
                fail(n, "np.ones_like(..) of something that is not <nonzero result>[0]")
            if is_self(f.value, env) and f.attr in METHODS:
                if f.attr not in CUR["sigs"]: fail(n, "call of %s before its translation" % f.attr)
                params, defaults, rty = CUR["sigs"][f.attr]
                given = {}
                if len(args) > len(params): fail(n, "too many arguments")
                for (p, ty), a in zip(params, args): given[p] = a
                for kw in n.keywords:
                    if kw.arg is None or kw.arg not in [p for p, _ in params] or kw.arg in given: fail(n, "keyword argument")
                    given[kw.arg] = kw.value
                # evaluation order = source order: positional arguments, then keywords, as written
                order = [p for p, _ in params[:len(args)]] + [kw.arg for kw in n.keywords]
                vals = {}
                for p in order:
                    ty = dict(params)[p]
                    v = ex(given[p], env, pre)
                    if v.ty != ty: fail(n, "argument %s of %s: %s expected, %s given" % (p, f.attr, ty, v.ty))
                    vals[p] = v.coq
                for p, ty in params:
                    if p not in vals:
                        if p not in defaults: fail(n, "missing argument %s" % p)
                        vals[p] = "%s_default_%s" % (gname(f.attr), p)
                return hoist("%s s %s" % (gname(f.attr), " ".join(vals[p] for p, _ in params)), rty)
            if f.attr == "get" and len(args) == 2 and not n.keywords and is_none(args[1]):
                d = ex(f.value, env, pre)
                if d.ty != "attrs": fail(n, "<%s>.get(..)" % d.ty)
                k = ex(args[0], env, pre)
                if k.ty != "key": fail(n, "<attrs>.get(<%s>, None)" % k.ty)
                return V("(py_attrs_get_none %s %s)" % (d.coq, k.coq), "value")
        fail(n, "call")
    fail(n, "expression")


# --------------------------------------------------------------------------- statements
def binds(pre):
    return "".join("do %s, s <- %s;\n" % (x, t) for x, t in pre)


def assigned(stmts):
    out = []
    for s in stmts:
        for x in ast.walk(s):
            if isinstance(x, ast.Name) and not isinstance(x.ctx, ast.Load) and x.id not in out: out.append(x.id)
    return out


def terminates(stmts):
    if not stmts: return False
    s = stmts[-1]
    if isinstance(s, (ast.Raise, ast.Return)): return True
    if isinstance(s, ast.If): return bool(s.orelse) and terminates(s.body) and terminates(s.orelse)
    return False


def dead(env):
    raise Unsupported("%s: internal: continuation of a block that cannot fall through" % CUR["file"])


def check_target(s, x, env):
    if x in RESERVED or (x in env and env[x].ty not in COQTY): fail(s, "assignment to %s" % x)


def conversion_idiom(s, env):
    """if isinstance(x, np.ndarray): x = list(x)   ->  x, or None"""
    if not (isinstance(s, ast.If) and isinstance(s.test, ast.Call) and isinstance(s.test.func, ast.Name) and s.test.func.id == "isinstance"):
        return None
    t = s.test
    if "isinstance" in env or t.keywords or len(t.args) != 2 or not isinstance(t.args[0], ast.Name) or not is_np(t.args[1], env, "ndarray"):
        fail(s, "isinstance test")
    x = t.args[0].id
    if s.orelse or len(s.body) != 1: fail(s, "isinstance(x, np.ndarray) is only admitted as `if isinstance(x, np.ndarray): x = list(x)`")
    b = s.body[0]
    if not (isinstance(b, ast.Assign) and len(b.targets) == 1 and isinstance(b.targets[0], ast.Name) and b.targets[0].id == x
            and isinstance(b.value, ast.Call) and isinstance(b.value.func, ast.Name) and b.value.func.id == "list" and "list" not in env
            and not b.value.keywords and len(b.value.args) == 1 and isinstance(b.value.args[0], ast.Name) and b.value.args[0].id == x):
        fail(s, "isinstance(x, np.ndarray) is only admitted as `if isinstance(x, np.ndarray): x = list(x)`")
    if x not in env or env[x].ty != "value": fail(s, "ndarray conversion of a non-value")
    return x


def block(stmts, env, k, inloop=False):
    """stmts -> Gallina text; k(env) builds what follows the block"""
    if not stmts: return k(env)
    s, rest = stmts[0], stmts[1:]
    go = lambda e: block(rest, e, k, inloop)
    if is_docstring(s): return go(env)
    if isinstance(s, ast.Return):
        if rest: fail(rest[0], "statement after return")
        if inloop: fail(s, "return inside a loop")
        if s.value is None: fail(s, "bare return")
        if is_none(s.value):
            if not CUR["opt"]: fail(s, "internal: return None")
            return "Ok None s"
        pre = []
        v = ex(s.value, env, pre)
        if v.ty not in ("value", "vlist", "int", "npindex"): fail(s, "return of a value of type %s" % v.ty)
        CUR["ret"].add(v.ty)
        return binds(pre) + ("Ok (Some %s) s" if CUR["opt"] else "Ok %s s") % v.coq
    if isinstance(s, ast.Raise):
        if rest: fail(rest[0], "statement after raise")
        e = s.exc
        if (s.cause is None and isinstance(e, ast.Call) and isinstance(e.func, ast.Name) and e.func.id == "ValueError" and "ValueError" not in env
                and len(e.args) == 1 and not e.keywords and isinstance(e.args[0], ast.Constant) and isinstance(e.args[0].value, str)):
            return "Err EValue s"
        fail(s, "raise")
    if isinstance(s, ast.If):
        x = conversion_idiom(s, env)
        if x is not None:
            e2 = dict(env); e2[x] = V(cname(x), "value")
            return "let %s := np_array_to_list %s in\n" % (cname(x), env[x].coq) + go(e2)
        bt, ot = terminates(s.body), terminates(s.orelse)
        if bt and ot and rest: fail(rest[0], "unreachable statement")
        kb = (lambda e: block(s.body, e, dead, inloop)) if bt else (lambda e: block(s.body + rest, e, k, inloop))
        ko = (lambda e: block(s.orelse, e, dead, inloop)) if ot else (lambda e: block(s.orelse + rest, e, k, inloop))
        pre = []
        c = ex(s.test, env, pre)
        if c.ty != "bool": fail(s.test, "condition of type %s" % c.ty)
        return binds(pre) + "if %s\nthen\n%s\nelse\n%s" % (c.coq, ind(kb(dict(env))), ind(ko(dict(env))))
    if isinstance(s, ast.For):
        if inloop: fail(s, "nested loop")
        if s.orelse: fail(s, "for .. else")
        for x in ast.walk(ast.Module(body=s.body, type_ignores=[])):
            if isinstance(x, (ast.Return, ast.Break, ast.Continue, ast.While, ast.For)): fail(x, "return / break / continue / loop inside a loop")
        t, it = s.target, s.iter
        if not (isinstance(t, ast.Tuple) and len(t.elts) == 2 and all(isinstance(e, ast.Name) for e in t.elts)): fail(s, "loop target")
        a, b = (e.id for e in t.elts)
        if a == b or any(x in env or x in RESERVED for x in (a, b)): fail(s, "the loop targets must be two new names")
        if not (isinstance(it, ast.Call) and isinstance(it.func, ast.Name) and it.func.id == "zip" and "zip" not in env and len(it.args) == 2
                and len(it.keywords) == 1 and it.keywords[0].arg == "strict" and isinstance(it.keywords[0].value, ast.Constant)
                and it.keywords[0].value.value is False and all(isinstance(x, ast.Name) for x in it.args)):
            fail(s, "loop iterable (only zip(X, Y, strict=False) over two locals)")
        X, Y = ex(it.args[0], env, None), ex(it.args[1], env, None)
        if X.ty != "nodes" or Y.ty != "vlist": fail(s, "zip(<%s>, <%s>)" % (X.ty, Y.ty))
        for x in assigned(s.body):
            if x in env: fail(s, "the loop body assigns %s, which exists before the loop" % x)
        e1 = dict(env); e1[a] = V(cname(a), "node"); e1[b] = V(cname(b), "value")
        body = block(s.body, e1, lambda e: "Ok tt s", True)
        return "bind (A := unit) (py_for (py_zip %s %s) tt s (fun '(%s, %s) (_ : unit) s =>\n%s))\n(fun (_ : unit) s =>\n%s)" % (
            X.coq, Y.coq, cname(a), cname(b), ind(body), ind(go(dict(env))))
    if isinstance(s, ast.Assign) and len(s.targets) == 1:
        t, val = s.targets[0], s.value
        if isinstance(t, ast.Name):
            check_target(s, t.id, env)
            pre = []
            v = ex(val, env, pre)
            if v.ty not in COQTY: fail(s, "assignment of a value of type %s" % v.ty)
            if t.id in env and env[t.id].ty != v.ty: fail(s, "re-assignment of %s changes its type (%s -> %s)" % (t.id, env[t.id].ty, v.ty))
            e2 = dict(env); e2[t.id] = V(cname(t.id), v.ty)
            return binds(pre) + "let %s := %s in\n" % (cname(t.id), v.coq) + go(e2)
        if isinstance(t, ast.Subscript) and self_attr(t.value, env, "segmentation"):
            v = ex(val, env, None); p = ex(t.slice, env, None)
            if p.ty != "npindex" or v.ty != "int": fail(s, "segmentation[<%s>] = <%s>" % (p.ty, v.ty))
            return "do _u, s <- py_seg_setitem s %s %s;\n" % (p.coq, v.coq) + go(env)
        if isinstance(t, ast.Subscript):
            nd = is_graph_nodes_sub(t.value, env)
            if nd is not None:
                v = ex(val, env, None); n_ = ex(nd, env, None); k_ = ex(t.slice, env, None)
                if n_.ty != "node" or k_.ty != "key" or v.ty != "value": fail(s, "graph.nodes[<%s>][<%s>] = <%s>" % (n_.ty, k_.ty, v.ty))
                return "do _u, s <- nx_node_setitem s %s %s %s;\n" % (n_.coq, k_.coq, v.coq) + go(env)
        fail(s, "assignment")
    fail(s, "statement")


# --------------------------------------------------------------------------- units
FORBIDDEN = (ast.FunctionDef, ast.AsyncFunctionDef, ast.ClassDef, ast.Lambda, ast.Global, ast.Nonlocal, ast.While, ast.With, ast.Try, ast.Break,
             ast.Continue, ast.Yield, ast.YieldFrom, ast.Await, ast.NamedExpr, ast.AugAssign, ast.AnnAssign, ast.Assert, ast.Import, ast.ImportFrom,
             ast.Delete, ast.IfExp, ast.DictComp, ast.SetComp, ast.GeneratorExp, ast.JoinedStr, ast.Dict, ast.Set, ast.Slice)


def signature(fn):
    a = fn.args
    if a.vararg or a.kwarg or a.kwonlyargs or a.posonlyargs or a.kw_defaults: fail(fn, "signature")
    if not a.args or a.args[0].arg != "self" or a.args[0].annotation is not None: fail(fn, "first parameter is not self")
    params = []
    for p in a.args[1:]:
        if p.annotation is None: fail(fn, "parameter %s without annotation" % p.arg)
        an = ast.unparse(p.annotation)
        if an not in PARAM_TY: fail(fn, "parameter annotation %s" % an)
        if p.arg in RESERVED: fail(fn, "parameter name %s" % p.arg)
        params.append((p.arg, PARAM_TY[an]))
    if len({p for p, _ in params}) != len(params): fail(fn, "duplicate parameters")
    defaults = {}
    for (p, ty), d in zip(params[len(params) - len(a.defaults):], a.defaults):
        if ty != "bool" or not (isinstance(d, ast.Constant) and type(d.value) is bool): fail(fn, "default value of %s" % p)
        defaults[p] = d.value
    return params, defaults


def emit(name, fn):
    CUR["n"] = 0; CUR["ret"] = set()
    params, defaults = signature(fn)
    stmts = fn.body
    for x in ast.walk(ast.Module(body=stmts, type_ignores=[])):
        if isinstance(x, FORBIDDEN): fail(x, "statement / expression kind")
    CUR["opt"] = any(isinstance(x, ast.Return) and x.value is not None and is_none(x.value) for x in ast.walk(fn))
    env = {"self": V("", "SELF")}
    for p, ty in params: env[p] = V(cname(p), ty)
    body = [s for s in stmts if not is_docstring(s)]
    if not body: fail(fn, "empty body")
    if terminates(body):
        txt = block(stmts, env, dead)
        if len(CUR["ret"]) > 1: fail(fn, "return values of types %s" % sorted(CUR["ret"]))
        if len(CUR["ret"]) == 1:
            rty = next(iter(CUR["ret"])); rcoq = COQTY[rty]
            if CUR["opt"]: rcoq = "(option %s)" % rcoq; rty = "opt_" + rty
        elif CUR["opt"]: fail(fn, "a method that only returns None")
        else: rty, rcoq = "unit", "unit"       # every path raises
    else:
        if CUR["opt"]: fail(fn, "a method that returns None on some paths and falls off the end on others")
        txt = block(stmts, env, lambda e: "Ok tt s")
        if CUR["ret"]: fail(fn, "a method that returns a value on some paths only")
        rty, rcoq = "unit", "unit"
    out = []
    for p, ty in params:
        if p in defaults:
            out.append("Definition %s_default_%s : bool := %s.\n" % (gname(name), p, "true" if defaults[p] else "false"))
    out.append("Definition %s (s : state) %s: res %s :=\n%s.\n" % (
        gname(name), "".join("(%s : %s) " % (cname(p), COQTY[ty]) for p, ty in params), rcoq if " " not in rcoq or rcoq.startswith("(") else "(%s)" % rcoq, ind(txt)))
    CUR["sigs"][name] = (params, defaults, rty)
    return "".join(out)


def parse(path):
    CUR["file"] = path
    src = open(path).read()
    return src, ast.parse(src)


def get_class(path, tree, cls):
    c = [n for n in tree.body if isinstance(n, ast.ClassDef) and n.name == cls]
    if len(c) != 1: raise Unsupported("%s: class %s not found exactly once" % (path, cls))
    return c[0]


def no_rebinding(path, tree):
    """nothing assigns to an attribute named like a translated method / calls setattr"""
    for x in ast.walk(tree):
        if isinstance(x, ast.Attribute) and x.attr in METHODS and not isinstance(x.ctx, ast.Load): fail(x, "assignment to / deletion of .%s" % x.attr)
        if isinstance(x, ast.Name) and x.id in ("setattr", "delattr"): fail(x, "use of %s" % x.id)


def class_checks(path, c, own):
    for x in ast.walk(c):
        if isinstance(x, (ast.FunctionDef, ast.AsyncFunctionDef)) and x.name in NO_DEF: fail(x, "%s defines %s" % (c.name, x.name))
        if isinstance(x, (ast.FunctionDef, ast.AsyncFunctionDef)) and x.name in METHODS and (not own or x not in c.body):
            fail(x, "%s defines %s%s" % (c.name, x.name, " (nested)" if own else " (an override of a translated method)"))
    for m in c.body:
        if is_docstring(m) or isinstance(m, ast.FunctionDef): continue
        if own and ast.unparse(m).startswith("refresh = Signal("): continue
        tg = m.targets if isinstance(m, ast.Assign) else [m.target] if isinstance(m, (ast.AnnAssign, ast.AugAssign)) else None
        if own or tg is None or any(isinstance(y, ast.Name) and y.id in METHODS for t in tg for y in ast.walk(t)):
            fail(m, "class-level statement")


def side_conditions(root):
    path = os.path.join(root, TR_FILE)
    src, tree = parse(path)
    imp = [n for n in tree.body if isinstance(n, ast.Import) and any(a.name == "numpy" and a.asname == "np" for a in n.names)]
    if len(imp) != 1: raise Unsupported("%s: `import numpy as np` expected exactly once" % path)
    for n in tree.body:
        bound = []
        if isinstance(n, (ast.Import, ast.ImportFrom)): bound = [(a.asname or a.name).split(".")[0] for a in n.names]
        elif isinstance(n, (ast.FunctionDef, ast.ClassDef, ast.AsyncFunctionDef)): bound = [n.name]
        else: bound = [y.id for y in ast.walk(n) if isinstance(y, ast.Name) and not isinstance(y.ctx, ast.Load)]
        if isinstance(n, ast.If): bound += [(a.asname or a.name).split(".")[0] for m in ast.walk(n) if isinstance(m, (ast.Import, ast.ImportFrom)) for a in m.names]
        for b in bound:
            if b in ("int", "list", "zip", "isinstance", "ValueError") or (b == "np" and n is not imp[0]): fail(n, "module-level binding of %s" % b)
    no_rebinding(path, tree)
    c = get_class(path, tree, "Tracks")
    if c.bases or c.keywords or c.decorator_list: fail(c, "class header")
    class_checks(path, c, True)
    init = [m for m in c.body if isinstance(m, ast.FunctionDef) and m.name == "__init__"]
    if len(init) != 1: fail(c, "__init__")
    lines = [ast.unparse(s) for s in init[0].body]
    for need in ("self.segmentation = segmentation", "self.graph = graph"):
        if lines.count(need) != 1: fail(init[0], "`%s` expected exactly once at the top level of __init__" % need)
    path2 = os.path.join(root, ST_FILE)
    src2, tree2 = parse(path2)
    no_rebinding(path2, tree2)
    c2 = get_class(path2, tree2, "SolutionTracks")
    if [ast.unparse(b) for b in c2.bases] != ["Tracks"] or c2.keywords or c2.decorator_list: fail(c2, "class header")
    class_checks(path2, c2, False)
    CUR["file"] = path
    return src, c


HEADER = """(* GENERATED by harness/translate_accessors.py from %s/src/funtracks -- do not edit.
   Shallow embedding of the accessor methods of Tracks (data_model/tracks.py): get_node_attr, get_nodes_attr, get_times,
   get_time, get_pixels, set_pixels, _set_node_attr, _set_nodes_attr, over the model state of Model/Edit.v; the idiom table
   is at the top of the translator; combinators: Model/PyRt10.v and the ones it lists. *)
From Coq Require Import ZArith List Bool.
From FT Require Import Base.Dict Model.Edit Model.PyRt Model.PyRt3 Model.PyRt9 Model.PyRt10.
From FT Require Model.NpRt.
Import ListNotations.
Open Scope Z_scope.
"""


def main(repo=None):
    repo = repo or REPO
    root = os.path.join(repo, "src", "funtracks")
    CUR["sigs"] = {}
    src, c = side_conditions(root)
    parts = [HEADER % repo]
    for name in METHODS:
        ms = [m for m in c.body if isinstance(m, (ast.FunctionDef, ast.AsyncFunctionDef)) and m.name == name]
        if len(ms) != 1: raise Unsupported("%s: Tracks.%s defined %d times" % (CUR["file"], name, len(ms)))
        fn = ms[0]
        if not isinstance(fn, ast.FunctionDef): fail(fn, "async method")
        if fn.decorator_list: fail(fn, "decorated method (%s)" % ", ".join(ast.unparse(d) for d in fn.decorator_list))
        sha = hashlib.sha256(ast.get_source_segment(src, fn).encode()).hexdigest()[:16]
        parts.append("(* Tracks.%s  <-  %s   sha256=%s *)" % (name, TR_FILE, sha))
        parts.append(emit(name, fn))
    return "\n".join(parts)


def regenerate(out=None, repo=None):
    """(re)write the generated file from the current sources; returns (ok, message).  A source outside the idiom table
    yields a file that does not type-check (fail closed).  The file is written only when its content (ignoring the
    header and the source-hash lines) changes."""
    out = out or OUT
    esc = lambda t: str(t).replace("*)", "* )").replace("(*", "( *")
    try:
        txt = main(repo); ok = True; msg = "translated"
    except Unsupported as e:
        txt = "(* TRANSLATION FAILED: %s *)\nDefinition translation_failed : False := I.\n" % esc(e)
        ok = False; msg = str(e)
    except Exception as e:      # a bug of the translator must not look like a translation
        txt = "(* TRANSLATION FAILED: %s: %s *)\nDefinition translation_failed : False := I.\n" % (type(e).__name__, esc(e))
        ok = False; msg = "%s: %s" % (type(e).__name__, e)
    os.makedirs(os.path.dirname(out), exist_ok=True)
    old = open(out).read() if os.path.exists(out) else None
    strip = lambda t: "\n".join(l for l in t.split("\n") if "sha256=" not in l and not l.startswith("(* GENERATED"))
    if old is None or strip(old) != strip(txt):
        open(out, "w").write(txt)
    return ok, msg


if __name__ == "__main__":
    if len(sys.argv) > 1 and sys.argv[1] == "--stdout":
        sys.stdout.write(main())
    else:
        ok, msg = regenerate(*(sys.argv[1:3]))
        print((ok, msg))
        sys.exit(0 if ok else 1)
