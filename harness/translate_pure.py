"""Fail-closed translation engine: pure Python helper modules -> Gallina (shallow embedding).

Used by  harness/translate_name_mapping.py  (import_export/_name_mapping.py -> Gen/NameMapping_gen.v)
and      harness/translate_utils.py         (import_export/_utils.py: filter_graph_with_ancestors
                                             -> Gen/SubsetUtils_gen.v).
One Gallina definition `gen_<f>` per Python function, over the data representation of the hand
models (Base/Dict.v dicts, strings interned as Z codes) and in the exception / control monad of
Model/PyRt2.v.  Proofs/NameMapTie.v and Proofs/SubsetTie.v prove `gen_<f> args = Ok (<f> args)`
for the hand-written model function <f>; a change of the Python changes the generated text and
un-hooks the tie.

Anything that is not in the table below raises `Unsupported("<file>:<line>: ...")`; nothing is
guessed.  This table, the emitter below, the per-module configuration (signature table, string
constants) in the two entry modules, and Model/PyRt2.v are the trusted part.

CLOSED IDIOM TABLE          (Python variable x is the Gallina variable v_x; re-assignment and in-place
                             mutation of a variable are a shadowing `let`, Python values being
                             immutable Gallina values; the alias discipline at the end makes that sound)
 -- skipped (no effect on the value computed; nothing else is skipped)
 docstrings (a string expression statement first in a module / function body)
 annotations of parameters and results (types come from the entry module's signature table;
   a change of the parameter NAMES or defaults is Unsupported)
 `from __future__ import annotations`; the module-level imports listed by the entry module
 -- function definition
 def f(p1, .., pn[, c=<const>])       Definition gen_f (v_p1 : T1) .. : res (R * M1 * ..) := run (<body>)
                                      Ti, R: the signature table; Mi: the parameters f mutates in place
                                      (returned next to the result, re-bound at the call site); a
                                      parameter with a constant default listed in the table is that
                                      constant (call sites must not pass it)
 -- statements
 x = e                                let v_x := e in ..
 x: T = e                             let v_x : T' := e in ..    (T in the closed grammar str | int | bool | list[.] |
                                      dict[str|int, .] | tuple[..] | str | list[str]; it types `{}` / `[]` and is
                                      handed to Coq; a T that does not fit e is Unsupported / a Coq type error)
 a, b = e   |   _, a, b = e           let '(v_a, v_b) := e in ..
 x = f(a1, .., an)   (f translated)   bind (gen_f a1 .. an) (fun '(v_x, v_m1, ..) => ..)
                                      (arguments at mutated positions must be plain variables m1, ..)
 d[k] = e                             let v_d := set k e v_d in ..           (Single e / Multi e when
                                      d : dict[str, str | list[str]] and e : str / list[str])
 d[k1][k2] = e                        bind (dict_get k1 v_d) (fun t => let v_d := set k1 (set k2 e t) v_d in ..)
 l.remove(e)                          bind (list_remove e v_l) (fun v_l => ..)         (ValueError)
 l.extend(e)                          let v_l := v_l ++ e in ..
 d.update(e)   (dict)                 let v_d := update v_d e in ..                    (Base/Dict.v)
 s.update(e)   (set)                  let v_s := set_update v_s e in ..
 if c: A else: B ; rest               if c then <A; rest> else <B; rest>     (the rest is duplicated)
 for pat in it: body ; rest           py_for it (<vars>) (fun pat '(<vars>) => <body>) (fun '(<vars>) => <rest>)
                                      <vars> = the variables assigned in body that exist before the loop;
                                      variables first assigned in the body are local to one iteration
                                      (using one afterwards / before its assignment is Unsupported)
 continue | end of loop body          Cont (<vars>)
 break                                Brk (<vars>)
 return e                             Ret (e, v_m1, ..)
 -- expressions (a raising sub-expression is bound first, in evaluation order:
 --              bind (<raising>) (fun t => ..); not allowed where evaluation is conditional)
 x                                    v_x
 0 1 2 ..                             0 1 2 ..
 "<string>"                           the code given by the entry module's string table
 (a, b)   (a, b, c)                   (a, b)   (a, b, c)
 []   {}   [e1, .., en]               []   []   [e1; ..; en]
 l.copy()   (elements immutable)      l
 list(e)  (e a list / keys view)      e
 list(s)  set(l)   (sets)             list_of_set s    set_of_list l
 len(l)                               Z.of_nat (length l)
 a == b  a != b  a > b  (str, int)    (a =? b)  negb (a =? b)  (a >? b)
 e in l / e not in l   (list)         memz e l / negb (memz e l)
 e in d / e not in d   (dict)         haskey e d / negb (haskey e d)
 not c   c1 and c2   c1 or c2         negb c   c1 && c2   c1 || c2           (c2 must not raise)
 l   d   as a condition               negb (is_nil l)
 x is not None   x is None            is_some x    negb (is_some x)
 isinstance(x, str)  (x: str | None-like, option Z)      is_some x
 x : option T used as a T             bind (as_some x) (fun t => ..)                   (TypeError)
 d[k]   (dict)                        bind (dict_get k d) (fun t => ..)                (KeyError)
 l[0]   (list)                        bind (list_get0 l) (fun t => ..)                 (IndexError)
 d.get(k, dflt)                       getd k d dflt
 d.keys()   d.items()                 keys d     d
 s.lower()                            lower s                                          (oracle)
 difflib.get_close_matches(q, c, n=1, cutoff=<the constant 0.4>)    close_matches closest q c   (oracle)
 sorted(l)  (ints)                    sort_z l
 enumerate(l)                         enumerate l
 any(c for pat in it)                 existsb (fun pat => c) it
 [e for x in it]                      map (fun x => e) it;   mapM (fun x => <raising e>) it when e is
                                      one raising primitive (bound first)
 {ke: ve for pat in it [if c]}        fold_left (fun acc pat => [if c then] set ke ve acc [else acc]) it []
 feature.get("feature_type") / .get("num_values", 1) / .get("value_names", []) / .get("display_name")
                                      f_type / f_num / f_vnames / f_disp  (record of Model/NameMap.v)
 nx.ancestors(g, n)                   bind (nx_ancestors g n) (fun t => ..)            (NetworkXError)
 -- alias discipline (checked; a violation is Unsupported).  M = variables mutated in place
 (d[k] = .., d[k][j] = .., .remove/.extend/.update, argument at a mutated position of a call).
 * every binding of a variable in M is a parameter or has a fresh right-hand side (literal,
   comprehension, .copy(), list()/set()/sorted(), call of a translated function);
 * a variable in M never occurs as a bare right-hand side, as a stored element, or twice in one call;
 * a function never returns one of its own mutable parameters;
 * the iterable of a `for` does not mention a variable assigned or mutated in its body;
 * the target variables of a `for` / of a comprehension are new names;
 * into a dict that is mutated at depth 2 (d[k][j] = ..) only fresh or immutable values are stored,
   and no variable is bound to one of its values.
 Assumption left to the caller of the entry points: distinct mutable arguments are distinct objects.
"""
import ast, hashlib, os

class Unsupported(Exception): pass

IMMUT = ("str", "int", "bool", "feature", "graph")
def immutable(t):
    if t in IMMUT: return True
    if isinstance(t, tuple) and t[0] in ("tuple",): return all(immutable(x) for x in t[1])
    if isinstance(t, tuple) and t[0] == "opt": return immutable(t[1])
    return False

def unify(a, b):
    """most specific common type, '?' is a wildcard (the element type of `{}` / `[]`); None if none"""
    if a == "?": return b
    if b == "?": return a
    if a == b: return a
    if isinstance(a, tuple) and isinstance(b, tuple) and a[0] == b[0] and len(a) == len(b):
        if a[0] == "tuple":
            if len(a[1]) != len(b[1]): return None
            xs = [unify(x, y) for x, y in zip(a[1], b[1])]
            return None if None in xs else ("tuple", tuple(xs))
        xs = [unify(x, y) for x, y in zip(a[1:], b[1:])]
        return None if None in xs else (a[0],) + tuple(xs)
    return None

def gty(t):
    if t in ("str", "int"): return "Z"
    if t in ("bool", "value", "feature", "graph"): return t
    if t == "?": return "_"
    k = t[0]
    if k == "list": return "list %s" % par(gty(t[1]))
    if k == "set": return "list %s" % par(gty(t[1]))
    if k == "dict": return "dict %s" % par(gty(t[2]))
    if k == "opt": return "option %s" % par(gty(t[1]))
    if k == "tuple": return "(%s)" % " * ".join(par(gty(x)) for x in t[1])
    raise Unsupported("type %r" % (t,))
def par(s): return s if (" " not in s or (s.startswith("(") and s.endswith(")"))) else "(%s)" % s

MUT_METHODS = ("remove", "extend", "update")
BUILTINS = {"len", "list", "set", "sorted", "enumerate", "any", "isinstance"}

class Translator:
    def __init__(self, cfg, path, relname):
        self.cfg = cfg; self.path = path; self.rel = relname
        self.sigs = cfg["sigs"]; self.strs = cfg.get("strings", {})
        self.mutated = {}          # function name -> list of parameter names mutated in place
        self.tmp = 0
    # ---------------------------------------------------------------- errors
    def fail(self, node, why):
        raise Unsupported("%s:%s: %s: %s" % (self.rel, getattr(node, "lineno", "?"), why, ast.dump(node)[:140]))
    def fresh(self):
        self.tmp += 1; return "t%d" % self.tmp
    # ---------------------------------------------------------------- analysis
    def callee(self, c):
        """name of a translated function called by Call node c, else None"""
        if isinstance(c, ast.Call) and isinstance(c.func, ast.Name) and c.func.id in self.sigs:
            if c.func.id not in self.mutated: self.fail(c, "call of %s before (or inside) its definition" % c.func.id)
            return c.func.id
        return None
    def root_of_store(self, t):
        """d / d[k] / d[k][j] as an assignment target -> (root name, depth)"""
        depth = 0
        while isinstance(t, ast.Subscript): t = t.value; depth += 1
        if isinstance(t, ast.Name) and depth in (1, 2): return t.id, depth
        return None, 0
    def effects(self, stmts):
        """(assigned names, names mutated in place, names mutated at depth 2) of a statement list"""
        asg, mut, deep = set(), set(), set()
        def tgt(t):
            if isinstance(t, ast.Name): asg.add(t.id)
            elif isinstance(t, ast.Tuple):
                for e in t.elts: tgt(e)
            elif isinstance(t, ast.Subscript):
                r, d = self.root_of_store(t)
                if r is None: self.fail(t, "assignment target")
                asg.add(r); mut.add(r)
                if d == 2: deep.add(r)
            else: self.fail(t, "assignment target")
        def calls(e):
            for c in ast.walk(e):
                f = self.callee(c)
                if f:
                    for i, a in enumerate(c.args):
                        if i < len(self.sigs[f]["params"]) and self.sigs[f]["params"][i][0] in self.mutated.get(f, ()):
                            if not isinstance(a, ast.Name): self.fail(c, "argument at a mutated position must be a variable")
                            asg.add(a.id); mut.add(a.id)
        def walk(ss):
            for s in ss:
                if isinstance(s, ast.Assign):
                    for t in s.targets: tgt(t)
                    calls(s.value)
                elif isinstance(s, ast.AnnAssign):
                    if s.value is None: self.fail(s, "annotation without value")
                    tgt(s.target); calls(s.value)
                elif isinstance(s, ast.Expr):
                    v = s.value
                    if isinstance(v, ast.Call) and isinstance(v.func, ast.Attribute) and v.func.attr in MUT_METHODS \
                       and isinstance(v.func.value, ast.Name):
                        asg.add(v.func.value.id); mut.add(v.func.value.id)
                    calls(v)
                elif isinstance(s, ast.If): calls(s.test); walk(s.body); walk(s.orelse)
                elif isinstance(s, ast.For):
                    tgt(s.target); calls(s.iter); walk(s.body)
                    if s.orelse: self.fail(s, "for/else")
                elif isinstance(s, ast.Return):
                    if s.value is not None: calls(s.value)
                elif isinstance(s, (ast.Continue, ast.Break)): pass
                else: self.fail(s, "statement")
        walk(stmts)
        return asg, mut, deep
    def names_in(self, e):
        return {n.id for n in ast.walk(e) if isinstance(n, ast.Name)}
    def is_fresh_rhs(self, v):
        if isinstance(v, (ast.List, ast.Dict, ast.ListComp, ast.DictComp)): return True
        if isinstance(v, ast.Call):
            if self.callee(v): return True
            if isinstance(v.func, ast.Name) and v.func.id in ("list", "set", "sorted"): return True
            if isinstance(v.func, ast.Attribute) and v.func.attr == "copy" and not v.args: return True
        return False
    def check_aliases(self, fn, params):
        """the alias discipline of the header, on the whole function body"""
        asg, M, deep = self.effects(fn.body)
        self.M, self.deep = M, deep
        for s in ast.walk(fn):
            if isinstance(s, (ast.Assign, ast.AnnAssign)):
                tg = s.targets if isinstance(s, ast.Assign) else [s.target]
                v = s.value
                for t in tg:
                    if isinstance(t, ast.Name) and t.id in M and not self.is_fresh_rhs(v):
                        self.fail(s, "a variable mutated in place must be bound to a fresh value")
                    if isinstance(t, ast.Tuple):
                        for e in t.elts:
                            if isinstance(e, ast.Name) and e.id in M: self.fail(s, "unpacking into a variable mutated in place")
                    if isinstance(t, ast.Subscript):
                        r, _ = self.root_of_store(t)
                        if isinstance(v, ast.Name) and v.id in M: self.fail(s, "storing a variable that is mutated in place")
                if isinstance(v, ast.Name) and v.id in M: self.fail(s, "aliasing a variable that is mutated in place")
                if isinstance(v, (ast.Tuple, ast.List)):
                    for e in v.elts:
                        if isinstance(e, ast.Name) and e.id in M: self.fail(s, "storing a variable that is mutated in place")
            if isinstance(s, ast.For):
                for n in ast.walk(s.target):
                    if isinstance(n, ast.Name) and n.id in M: self.fail(s, "loop target is mutated in place")
                a2, m2, _ = self.effects(s.body)
                bad = self.names_in(s.iter) & (a2 | m2)
                if bad: self.fail(s, "the iterable mentions %s, assigned in the loop body" % sorted(bad))
            if isinstance(s, ast.Return) and isinstance(s.value, ast.Name) and s.value.id in params \
               and not immutable(params[s.value.id]):
                self.fail(s, "returning a mutable parameter")
            if isinstance(s, ast.Call) and self.callee(s):
                f = self.callee(s)
                for i, a in enumerate(s.args):
                    if i < len(self.sigs[f]["params"]) and self.sigs[f]["params"][i][0] in self.mutated.get(f, ()):
                        others = set()
                        for j, b in enumerate(s.args):
                            if j != i: others |= self.names_in(b)
                        if isinstance(a, ast.Name) and a.id in others: self.fail(s, "a mutated argument occurs twice in the call")
        return M
    # ---------------------------------------------------------------- annotations of locals
    def ann(self, a):
        """closed grammar of local annotations; used only to type empty literals"""
        if isinstance(a, ast.Name) and a.id in ("str", "int", "bool"): return a.id
        if isinstance(a, ast.BinOp) and isinstance(a.op, ast.BitOr):
            l, r = self.ann(a.left), self.ann(a.right)
            if l == "str" and r == ("list", "str"): return "value"
            self.fail(a, "annotation")
        if isinstance(a, ast.Subscript) and isinstance(a.value, ast.Name):
            args = a.slice.elts if isinstance(a.slice, ast.Tuple) else [a.slice]
            if a.value.id == "list" and len(args) == 1: return ("list", self.ann(args[0]))
            if a.value.id == "dict" and len(args) == 2:
                k = self.ann(args[0])
                if k not in ("str", "int"): self.fail(a, "dict key type")
                return ("dict", k, self.ann(args[1]))
            if a.value.id == "tuple": return ("tuple", tuple(self.ann(x) for x in args))
        self.fail(a, "annotation")
    # ---------------------------------------------------------------- patterns
    def pattern(self, t, ty, env, what):
        """a for / comprehension / unpacking target -> (gallina pattern, {name: type})"""
        if isinstance(t, ast.Name):
            if t.id == "_": return "_", {}
            if what != "assign" and t.id in env: self.fail(t, "%s target re-uses the existing variable %s" % (what, t.id))
            return "v_" + t.id, {t.id: ty}
        if isinstance(t, ast.Tuple):
            if not (isinstance(ty, tuple) and ty[0] == "tuple" and len(ty[1]) == len(t.elts)): self.fail(t, "tuple pattern against %r" % (ty,))
            ps, bs = [], {}
            for e, et in zip(t.elts, ty[1]):
                p, b = self.pattern(e, et, env, what)
                if set(b) & set(bs): self.fail(t, "repeated name in pattern")
                ps.append(p); bs.update(b)
            return "(%s)" % ", ".join(ps), bs
        self.fail(t, "pattern")
    def lam(self, pat):
        return pat if not pat.startswith("(") else "'" + pat
    # ---------------------------------------------------------------- expressions
    def need(self, pre, node):
        if pre is None: self.fail(node, "raising expression where evaluation is conditional")
    def unopt(self, code, ty, pre, node):
        if isinstance(ty, tuple) and ty[0] == "opt":
            self.need(pre, node); t = self.fresh(); pre.append((t, "as_some %s" % code)); return t, ty[1]
        return code, ty
    def coerce(self, code, ty, want, node):
        if want == "value" and ty == "str": return "(Single %s)" % code
        if want == "value" and ty == ("list", "str"): return "(Multi %s)" % code
        if unify(ty, want) is None: self.fail(node, "type %r where %r is expected" % (ty, want))
        return code
    def elem(self, code, ty, node):
        """the iterable given by an expression of type ty -> (list code, element type)"""
        if isinstance(ty, tuple) and ty[0] == "list": return code, ty[1]
        if isinstance(ty, tuple) and ty[0] == "items": return code, ("tuple", (ty[1], ty[2]))
        if isinstance(ty, tuple) and ty[0] == "keys": return code, ty[1]
        self.fail(node, "not iterable here: %r" % (ty,))
    def cond(self, n, env, pre):
        """an expression used as a condition -> bool code"""
        code, ty = self.expr(n, env, pre)
        if ty == "bool": return code
        if isinstance(ty, tuple) and ty[0] in ("list", "dict"): return "(negb (is_nil %s))" % code
        self.fail(n, "truth value of %r" % (ty,))
    def expr(self, n, env, pre):
        """-> (gallina code, type).  pre: list collecting (temp, raising code), or None where raising is not allowed"""
        E = lambda x: self.expr(x, env, pre)
        if isinstance(n, ast.Name):
            if n.id in self.consts: self.fail(n, "constant parameter used as a value")
            if n.id not in env: self.fail(n, "variable %s is not defined on this path" % n.id)
            return "v_" + n.id, env[n.id]
        if isinstance(n, ast.Constant):
            if isinstance(n.value, bool) or n.value is None: self.fail(n, "constant")
            if isinstance(n.value, int): return "%d" % n.value if n.value >= 0 else "(%d)" % n.value, "int"
            if isinstance(n.value, str):
                if n.value not in self.strs: self.fail(n, "string constant not in the string table")
                return self.strs[n.value], "str"
            self.fail(n, "constant")
        if isinstance(n, ast.Tuple):
            xs = [E(e) for e in n.elts]
            if len(xs) < 2: self.fail(n, "tuple")
            return "(%s)" % ", ".join(c for c, _ in xs), ("tuple", tuple(t for _, t in xs))
        if isinstance(n, ast.List):
            xs = [E(e) for e in n.elts]
            ty = "?"
            for _, t in xs:
                ty = unify(ty, t)
                if ty is None: self.fail(n, "list literal of mixed types")
            return "[%s]" % "; ".join(c for c, _ in xs), ("list", ty)
        if isinstance(n, ast.Dict):
            if n.keys: self.fail(n, "non-empty dict literal")
            return "[]", ("dict", "?", "?")
        if isinstance(n, ast.UnaryOp) and isinstance(n.op, ast.Not):
            return "(negb %s)" % self.cond(n.operand, env, pre), "bool"
        if isinstance(n, ast.BoolOp):
            op = "&&" if isinstance(n.op, ast.And) else "||"
            cs = [self.cond(n.values[0], env, pre)] + [self.cond(v, env, None) for v in n.values[1:]]
            return "(%s)" % (" %s " % op).join(cs), "bool"
        if isinstance(n, ast.Compare):
            if len(n.ops) != 1: self.fail(n, "comparison chain")
            op, l, r = n.ops[0], n.left, n.comparators[0]
            if isinstance(op, (ast.Is, ast.IsNot)):
                if not (isinstance(r, ast.Constant) and r.value is None): self.fail(n, "is")
                c, t = E(l)
                if not (isinstance(t, tuple) and t[0] == "opt"): self.fail(n, "`is None` on a value that is never None (%r)" % (t,))
                return ("(is_some %s)" if isinstance(op, ast.IsNot) else "(negb (is_some %s))") % c, "bool"
            if isinstance(op, (ast.In, ast.NotIn)):
                (lc, lt), (rc, rt) = E(l), E(r)
                lc, lt = self.unopt(lc, lt, pre, n)
                if isinstance(rt, tuple) and rt[0] == "list":
                    if unify(lt, rt[1]) is None or unify(lt, rt[1]) not in ("str", "int"): self.fail(n, "in: element type")
                    c = "(memz %s %s)" % (lc, rc)
                elif isinstance(rt, tuple) and rt[0] == "dict":
                    if unify(lt, rt[1]) is None: self.fail(n, "in: key type")
                    c = "(haskey %s %s)" % (lc, rc)
                else: self.fail(n, "in on %r" % (rt,))
                return (c if isinstance(op, ast.In) else "(negb %s)" % c), "bool"
            (lc, lt), (rc, rt) = E(l), E(r)
            if not (lt == rt and lt in ("str", "int")): self.fail(n, "comparison of %r and %r" % (lt, rt))
            if isinstance(op, ast.Eq): return "(%s =? %s)" % (lc, rc), "bool"
            if isinstance(op, ast.NotEq): return "(negb (%s =? %s))" % (lc, rc), "bool"
            if isinstance(op, ast.Gt) and lt == "int": return "(%s >? %s)" % (lc, rc), "bool"
            self.fail(n, "comparison operator")
        if isinstance(n, ast.Subscript):
            c, t = E(n.value)
            if isinstance(t, tuple) and t[0] == "dict":
                kc, kt = E(n.slice); kc, kt = self.unopt(kc, kt, pre, n)
                if unify(kt, t[1]) is None: self.fail(n, "key type")
                self.need(pre, n); x = self.fresh(); pre.append((x, "dict_get %s %s" % (kc, c))); return x, t[2]
            if isinstance(t, tuple) and t[0] == "list":
                if not (isinstance(n.slice, ast.Constant) and n.slice.value == 0 and not isinstance(n.slice.value, bool)): self.fail(n, "list index other than 0")
                self.need(pre, n); x = self.fresh(); pre.append((x, "list_get0 %s" % c)); return x, t[1]
            self.fail(n, "subscript of %r" % (t,))
        if isinstance(n, ast.ListComp): return self.listcomp(n, env, pre)
        if isinstance(n, ast.DictComp): return self.dictcomp(n, env, pre)
        if isinstance(n, ast.Call): return self.call(n, env, pre)
        self.fail(n, "expression")
    def comp_head(self, n, env, pre):
        if len(n.generators) != 1: self.fail(n, "nested comprehension")
        g = n.generators[0]
        if g.is_async: self.fail(n, "async comprehension")
        ic, it = self.expr(g.iter, env, pre)      # the iterable is evaluated first, unconditionally
        ic, et = self.elem(ic, it, g.iter)
        pat, bs = self.pattern(g.target, et, env, "comprehension")
        env2 = dict(env); env2.update(bs)
        if len(g.ifs) > 1: self.fail(n, "several comprehension conditions")
        c = self.cond(g.ifs[0], env2, None) if g.ifs else None
        return ic, pat, env2, c
    def listcomp(self, n, env, pre):
        ic, pat, env2, c = self.comp_head(n, env, pre)
        if c is not None: self.fail(n, "filtered list comprehension")
        p2 = []
        ec, et = self.expr(n.elt, env2, p2)
        if not p2: return "(map (fun %s => %s) %s)" % (self.lam(pat), ec, ic), ("list", et)
        if len(p2) == 1 and p2[0][0] == ec:
            self.need(pre, n); x = self.fresh()
            pre.append((x, "mapM (fun %s => %s) %s" % (self.lam(pat), p2[0][1], ic))); return x, ("list", et)
        self.fail(n, "comprehension element with more than one raising step")
    def dictcomp(self, n, env, pre):
        ic, pat, env2, c = self.comp_head(n, env, pre)
        kc, kt = self.expr(n.key, env2, None); vc, vt = self.expr(n.value, env2, None)
        if kt not in ("str", "int"): self.fail(n, "dict key type %r" % (kt,))
        if self.want is not None and isinstance(self.want, tuple) and self.want[0] == "dict":
            vc = self.coerce(vc, vt, self.want[2], n); vt = self.want[2]
        body = "set %s %s acc" % (kc, vc)
        if c is not None: body = "if %s then %s else acc" % (c, body)
        return "(fold_left (fun acc %s => %s) %s [])" % (self.lam(pat), body, ic), ("dict", kt, vt)
    def call(self, n, env, pre):
        E = lambda x: self.expr(x, env, pre)
        f = n.func
        if self.callee(n): self.fail(n, "call of a translated function other than as `x = f(..)`")
        if isinstance(f, ast.Name):
            if n.keywords: self.fail(n, "keyword arguments")
            if f.id in env or f.id in self.consts: self.fail(n, "call of a local variable")
            a = n.args
            if f.id == "len" and len(a) == 1:
                c, t = E(a[0])
                if not (isinstance(t, tuple) and t[0] == "list"): self.fail(n, "len of %r" % (t,))
                return "(Z.of_nat (length %s))" % c, "int"
            if f.id == "list" and len(a) == 1:
                c, t = E(a[0])
                if isinstance(t, tuple) and t[0] == "set": return "(list_of_set %s)" % c, ("list", t[1])
                c, et = self.elem(c, t, n); return c, ("list", et)
            if f.id == "set" and len(a) == 1:
                c, t = E(a[0])
                if t != ("list", "int"): self.fail(n, "set of %r" % (t,))
                return "(set_of_list %s)" % c, ("set", "int")
            if f.id == "sorted" and len(a) == 1:
                c, t = E(a[0]); c, et = self.elem(c, t, n)
                if et != "int": self.fail(n, "sorted on %r" % (et,))
                return "(sort_z %s)" % c, ("list", "int")
            if f.id == "enumerate" and len(a) == 1:
                c, t = E(a[0])
                if t != ("list", "str"): self.fail(n, "enumerate on %r" % (t,))
                return "(enumerate %s)" % c, ("list", ("tuple", ("int", "str")))
            if f.id == "any" and len(a) == 1 and isinstance(a[0], ast.GeneratorExp):
                ic, pat, env2, c = self.comp_head(a[0], env, pre)
                if c is not None: self.fail(n, "filtered generator")
                return "(existsb (fun %s => %s) %s)" % (self.lam(pat), self.cond(a[0].elt, env2, None), ic), "bool"
            if f.id == "isinstance" and len(a) == 2 and isinstance(a[1], ast.Name) and a[1].id == "str":
                c, t = E(a[0])
                if t != ("opt", "str"): self.fail(n, "isinstance on %r" % (t,))
                return "(is_some %s)" % c, "bool"
            self.fail(n, "call")
        if isinstance(f, ast.Attribute):
            # module functions
            if isinstance(f.value, ast.Name) and f.value.id not in env:
                mod = f.value.id
                if (mod, f.attr) == ("difflib", "get_close_matches") and "difflib" in self.cfg["modules"]:
                    kw = {k.arg: k.value for k in n.keywords}
                    if len(n.args) != 2 or set(kw) != {"n", "cutoff"}: self.fail(n, "get_close_matches arguments")
                    if not (isinstance(kw["n"], ast.Constant) and kw["n"].value == 1 and not isinstance(kw["n"].value, bool)): self.fail(n, "get_close_matches n")
                    co = kw["cutoff"]
                    v = co.value if isinstance(co, ast.Constant) else self.consts.get(co.id) if isinstance(co, ast.Name) else None
                    if not (isinstance(v, float) and v == 0.4): self.fail(n, "get_close_matches cutoff is not the constant 0.4")
                    (qc, qt), (cc, ct) = E(n.args[0]), E(n.args[1])
                    cc, et = self.elem(cc, ct, n)
                    if qt != "str" or et != "str": self.fail(n, "get_close_matches argument types")
                    return "(close_matches closest %s %s)" % (qc, cc), ("list", "str")
                if (mod, f.attr) == ("nx", "ancestors") and "nx" in self.cfg["modules"]:
                    if n.keywords or len(n.args) != 2: self.fail(n, "nx.ancestors arguments")
                    (gc, gt), (nc, nt) = E(n.args[0]), E(n.args[1])
                    if gt != "graph" or nt != "int": self.fail(n, "nx.ancestors argument types")
                    self.need(pre, n); x = self.fresh(); pre.append((x, "nx_ancestors %s %s" % (gc, nc))); return x, ("set", "int")
                self.fail(n, "call of %s.%s" % (mod, f.attr))
            oc, ot = E(f.value); oc, ot = self.unopt(oc, ot, pre, n)
            m, a = f.attr, n.args
            if n.keywords: self.fail(n, "keyword arguments")
            if m == "copy" and not a:
                if isinstance(ot, tuple) and ((ot[0] == "list" and immutable(ot[1])) or (ot[0] == "dict" and immutable(ot[2]))): return oc, ot
                self.fail(n, "copy of %r" % (ot,))
            if m == "lower" and not a and ot == "str" and self.cfg.get("lower"): return "(lower %s)" % oc, "str"
            if isinstance(ot, tuple) and ot[0] == "dict":
                if m == "keys" and not a: return "(keys %s)" % oc, ("keys", ot[1])
                if m == "items" and not a: return oc, ("items", ot[1], ot[2])
                if m == "get" and len(a) == 2:
                    (kc, kt), (dc, dt) = E(a[0]), E(a[1])
                    vt = unify(dt, ot[2])
                    if unify(kt, ot[1]) is None or vt is None: self.fail(n, "get: types")
                    return "(getd %s %s %s)" % (kc, oc, dc), vt
            if ot == "feature" and m == "get" and a and isinstance(a[0], ast.Constant):
                key = a[0].value; tab = self.cfg.get("feature_get", {})
                if key in tab:
                    field, ty, dflt = tab[key]
                    ok = (dflt is None and len(a) == 1) or (len(a) == 2 and dflt is not None and ast.dump(a[1]) == ast.dump(ast.parse(dflt, mode="eval").body))
                    if ok: return "(%s %s)" % (field, oc), ty
            self.fail(n, "method call .%s on %r" % (m, ot))
        self.fail(n, "call")
    # ---------------------------------------------------------------- statements
    def tup(self, names):
        if not names: return "tt"
        if len(names) == 1: return "v_" + names[0]
        return "(%s)" % ", ".join("v_" + x for x in names)
    def lamtup(self, names):
        if not names: return "_"
        return self.lam(self.tup(names))
    def wrap(self, pre, body, ind):
        """bind the raising steps collected in pre around body"""
        out = ""
        for t, c in pre: out += "bind (%s) (fun %s =>\n%s" % (c, t, ind)
        return out + body + ")" * len(pre)
    def set_var(self, env, name, ty, node):
        if name in self.consts: self.fail(node, "assignment to a constant parameter")
        if name in env:
            u = unify(env[name], ty)
            if u is None: self.fail(node, "variable %s changes type from %r to %r" % (name, env[name], ty))
            ty = u
        env[name] = ty
    def block(self, stmts, env, loop, ind):
        """statement list -> code of type ctl S R.  loop: the loop-carried variable names, or None at function level"""
        I = ind
        if not stmts:
            if loop is None: raise Unsupported("%s: function %s can end without `return`" % (self.rel, self.fname))
            return "Cont %s" % self.tup(loop)
        s, rest = stmts[0], stmts[1:]
        R = lambda e: self.block(rest, e, loop, ind)
        if isinstance(s, ast.Continue):
            if loop is None: self.fail(s, "continue outside a loop")
            return "Cont %s" % self.tup(loop)
        if isinstance(s, ast.Break):
            if loop is None: self.fail(s, "break outside a loop")
            return "Brk %s" % self.tup(loop)
        if isinstance(s, ast.Return):
            if s.value is None: self.fail(s, "return without value")
            pre = []; self.want = self.ret
            c, t = self.expr(s.value, env, pre); self.want = None
            c = self.coerce(c, t, self.ret, s)
            for m in self.mparams:
                if m not in env: self.fail(s, "mutated parameter not in scope")
            val = "(%s)" % ", ".join([c] + ["v_" + m for m in self.mparams]) if self.mparams else c
            return self.wrap(pre, "Ret %s" % val, I)
        if isinstance(s, ast.If):
            pre = []; c = self.cond(s.test, env, pre)
            a = self.block(s.body + rest, dict(env), loop, ind + "  ")
            b = self.block(s.orelse + rest, dict(env), loop, ind + "  ")
            return self.wrap(pre, "if %s then\n%s  %s\n%selse\n%s  %s" % (c, I, a, I, I, b), I)
        if isinstance(s, ast.For):
            if s.orelse: self.fail(s, "for/else")
            pre = []; ic, it = self.expr(s.iter, env, pre); ic, et = self.elem(ic, it, s.iter)
            pat, bs = self.pattern(s.target, et, env, "for")
            asg, mut, _ = self.effects(s.body)
            state = sorted(x for x in asg if x in env)
            for x in bs:
                if x in asg: self.fail(s, "loop target %s is assigned in the loop body" % x)
            env2 = dict(env); env2.update(bs)
            body = self.block(s.body, env2, state, ind + "    ")
            k = self.block(rest, dict(env), loop, ind)
            code = "py_for %s %s\n%s  (fun %s %s =>\n%s    %s)\n%s  (fun %s =>\n%s%s)" % (
                ic, self.tup(state), I, self.lam(pat), self.lamtup(state), I, body, I, self.lamtup(state), I, k)
            return self.wrap(pre, code, I)
        if isinstance(s, (ast.Assign, ast.AnnAssign)):
            if isinstance(s, ast.Assign):
                if len(s.targets) != 1: self.fail(s, "chained assignment")
                t, v, decl = s.targets[0], s.value, None
            else:
                if s.value is None: self.fail(s, "annotation without value")
                t, v, decl = s.target, s.value, self.ann(s.annotation)
                if not isinstance(t, ast.Name): self.fail(s, "annotated target")
            f = self.callee(v)
            if f:   # x = f(args)
                if not isinstance(t, ast.Name): self.fail(s, "target of a call")
                sig = self.sigs[f]
                if v.keywords or len(v.args) != len(sig["params"]): self.fail(s, "call arity (constant parameters must not be passed)")
                pre, args, outs = [], [], []
                for a, (pn, pt) in zip(v.args, sig["params"]):
                    c, ty = self.expr(a, env, pre)
                    if pn in self.mutated[f]:
                        outs.append(a.id)
                    elif isinstance(ty, tuple) and ty[0] in ("keys",): c, ty = c, ("list", ty[1])
                    if unify(ty, pt) is None: self.fail(s, "argument %s: %r where %r is expected" % (pn, ty, pt))
                    args.append(c)
                    if pn in self.mutated[f]: env[a.id] = unify(ty, pt)
                self.set_var(env, t.id, sig["ret"], s)
                if t.id in outs: self.fail(s, "result assigned to a mutated argument")
                return self.wrap(pre, "bind (%s %s) (fun %s =>\n%s%s)" % (self.cfg["gen_name"](f), " ".join(args), self.lamtup([t.id] + outs), I, R(env)), I)
            if isinstance(t, ast.Name):
                pre = []; self.want = decl
                c, ty = self.expr(v, env, pre); self.want = None
                if isinstance(ty, tuple) and ty[0] in ("keys", "items"): self.fail(s, "binding a dict view")
                if isinstance(v, ast.Name) and not immutable(ty): self.fail(s, "aliasing a mutable value")
                if not immutable(ty) and not self.is_fresh_rhs(v) and (self.names_in(v) & self.deep):
                    self.fail(s, "binding a variable to a value of a dict that is mutated at depth 2")
                if decl is not None:
                    if unify(ty, decl) is None: self.fail(s, "value of type %r for annotation %r" % (ty, decl))
                    ty = unify(ty, decl)
                self.set_var(env, t.id, ty, s)
                if pre and pre[-1][0] == c:      # the value is the last raising step itself
                    last = pre.pop()
                    return self.wrap(pre, "bind (%s) (fun v_%s =>\n%s%s)" % (last[1], t.id, I, R(env)), I)
                asc = " : %s" % gty(ty) if decl is not None and "?" not in repr(ty) else ""      # the declared type, for Coq
                return self.wrap(pre, "let v_%s%s := %s in\n%s%s" % (t.id, asc, c, I, R(env)), I)
            if isinstance(t, ast.Tuple):
                pre = []; c, ty = self.expr(v, env, pre)
                pat, bs = self.pattern(t, ty, env, "assign")
                for x, xt in bs.items():
                    if not immutable(xt): self.fail(s, "unpacking a mutable component")
                    self.set_var(env, x, xt, s)
                return self.wrap(pre, "let '%s := %s in\n%s%s" % (pat, c, I, R(env)), I)
            if isinstance(t, ast.Subscript):
                r, depth = self.root_of_store(t)
                if r is None or r not in env: self.fail(s, "subscript target")
                dt = env[r]
                if not (isinstance(dt, tuple) and dt[0] == "dict"): self.fail(s, "item assignment on %r" % (dt,))
                pre = []
                if depth == 1:      # Python evaluates the right-hand side first, then the key
                    vc, vt = self.expr(v, env, pre)
                    kc, kt = self.expr(t.slice, env, pre); kc, kt = self.unopt(kc, kt, pre, s)
                    if r in self.deep and not (immutable(vt) or self.is_fresh_rhs(v)): self.fail(s, "storing a mutable value into a dict that is mutated at depth 2")
                    k2 = unify(kt, dt[1]); want = dt[2]
                    if k2 is None: self.fail(s, "key type")
                    if want == "?": want = vt
                    vc = self.coerce(vc, vt, want, s)
                    v2 = unify(want, vt) if want != "value" else "value"
                    env[r] = ("dict", k2, v2)
                    return self.wrap(pre, "let v_%s := set %s %s v_%s in\n%s%s" % (r, kc, vc, r, I, R(env)), I)
                # d[k1][k2] = e
                inner = dt[2]
                if not (isinstance(inner, tuple) and inner[0] == "dict"): self.fail(s, "nested item assignment on %r" % (dt,))
                vc, vt = self.expr(v, env, pre)      # right-hand side, then d[k1] (KeyError), then k2
                k1c, k1t = self.expr(t.value.slice, env, pre)
                if unify(k1t, dt[1]) is None: self.fail(s, "key type")
                x = self.fresh(); pre.append((x, "dict_get %s v_%s" % (k1c, r)))
                k2c, k2t = self.expr(t.slice, env, pre)
                if not immutable(vt): self.fail(s, "storing a mutable value at depth 2")
                ki, vi = unify(k2t, inner[1]), unify(vt, inner[2])
                if ki is None or vi is None: self.fail(s, "nested key / value type")
                env[r] = ("dict", dt[1], ("dict", ki, vi))
                return self.wrap(pre, "let v_%s := set %s (set %s %s %s) v_%s in\n%s%s" % (r, k1c, k2c, vc, x, r, I, R(env)), I)
            self.fail(s, "assignment")
        if isinstance(s, ast.Expr):
            v = s.value
            if isinstance(v, ast.Call) and isinstance(v.func, ast.Attribute) and isinstance(v.func.value, ast.Name) \
               and v.func.attr in MUT_METHODS and len(v.args) == 1 and not v.keywords:
                x, m = v.func.value.id, v.func.attr
                if x not in env: self.fail(s, "variable %s is not defined on this path" % x)
                xt = env[x]; pre = []
                ac, at = self.expr(v.args[0], env, pre)
                if m == "remove" and isinstance(xt, tuple) and xt[0] == "list" and unify(at, xt[1]) in ("str", "int"):
                    return self.wrap(pre, "bind (list_remove %s v_%s) (fun v_%s =>\n%s%s)" % (ac, x, x, I, R(env)), I)
                if m == "extend" and isinstance(xt, tuple) and xt[0] == "list" and unify(at, xt) is not None:
                    env[x] = unify(at, xt)
                    return self.wrap(pre, "let v_%s := v_%s ++ %s in\n%s%s" % (x, x, ac, I, R(env)), I)
                if m == "update" and isinstance(xt, tuple) and xt[0] == "dict" and unify(at, xt) is not None:
                    env[x] = unify(at, xt)
                    return self.wrap(pre, "let v_%s := update v_%s %s in\n%s%s" % (x, x, ac, I, R(env)), I)
                if m == "update" and xt == ("set", "int") and at in (("set", "int"), ("list", "int")):
                    return self.wrap(pre, "let v_%s := set_update v_%s %s in\n%s%s" % (x, x, ac, I, R(env)), I)
                self.fail(s, "method statement .%s on %r with %r" % (m, xt, at))
            self.fail(s, "expression statement")
        self.fail(s, "statement")
    # ---------------------------------------------------------------- functions / module
    def strip_doc(self, body):
        if body and isinstance(body[0], ast.Expr) and isinstance(body[0].value, ast.Constant) and isinstance(body[0].value.value, str):
            return body[1:]
        return body
    def function(self, fn):
        name = fn.name; sig = self.sigs[name]; self.fname = name; self.tmp = 0
        a = fn.args
        if a.vararg or a.kwarg or a.kwonlyargs or a.posonlyargs or fn.decorator_list: self.fail(fn, "signature")
        pnames = [x.arg for x in a.args]
        consts = sig.get("consts", {})
        if pnames != [p for p, _ in sig["params"]] + list(consts): self.fail(fn, "parameters differ from the signature table")
        defaults = dict(zip(pnames[len(pnames) - len(a.defaults):], a.defaults))
        opt_ok = {p for p, t in sig["params"] if isinstance(t, tuple) and t[0] == "opt"}
        for p, d in defaults.items():
            if p in consts:
                if not (isinstance(d, ast.Constant) and type(d.value) is type(consts[p]) and d.value == consts[p]): self.fail(fn, "default of %s is not %r" % (p, consts[p]))
            elif p in opt_ok:
                if not (isinstance(d, ast.Constant) and d.value is None): self.fail(fn, "default of %s" % p)
            else: self.fail(fn, "default value of %s" % p)
        if set(consts) - set(defaults): self.fail(fn, "constant parameter without default")
        self.consts = consts
        body = self.strip_doc(fn.body)
        env = {p: t for p, t in sig["params"]}
        fn2 = ast.Module(body=body, type_ignores=[])
        M = self.check_aliases(fn2, env)
        self.mparams = [p for p, _ in sig["params"] if p in M]
        asg, _, _ = self.effects(body)
        for p in self.mparams:
            for s in ast.walk(fn2):
                if isinstance(s, (ast.Assign, ast.AnnAssign)):
                    for t in (s.targets if isinstance(s, ast.Assign) else [s.target]):
                        if isinstance(t, ast.Name) and t.id == p: self.fail(s, "a parameter is both re-bound and mutated in place")
        self.mutated[name] = self.mparams
        self.ret = sig["ret"]; self.want = None
        code = self.block(body, env, None, "    ")
        rt = gty(self.ret)
        if self.mparams: rt = " * ".join([par(rt)] + [par(gty(dict(sig["params"])[m])) for m in self.mparams])
        ps = " ".join("(v_%s : %s)" % (p, gty(t)) for p, t in sig["params"])
        return "Definition %s %s : res (%s) :=\n  run (\n    %s).\n" % (self.cfg["gen_name"](name), ps, rt, code)
    def module(self, src):
        tree = ast.parse(src)
        body = self.strip_doc(tree.body)
        out, seen = [], []
        only = self.cfg.get("only")
        for n in body:
            if isinstance(n, ast.FunctionDef) and (only is None or n.name in only):
                if n.name not in self.sigs: self.fail(n, "function without an entry in the signature table")
                out.append(self.function(n)); seen.append(n.name)
            elif isinstance(n, (ast.Import, ast.ImportFrom)):
                txt = ast.unparse(n)
                if txt in self.cfg["imports_required"]: seen.append(txt)
                elif only is not None or txt in self.cfg.get("imports_skipped", ()): pass
                else: self.fail(n, "module-level import")
            elif only is not None: pass        # other top-level statements of a module translated in part
            else: self.fail(n, "module-level statement")
        want = list(self.cfg["order"])
        if [x for x in seen if x in self.sigs] != want: raise Unsupported("%s: functions found %r, expected %r" % (self.rel, [x for x in seen if x in self.sigs], want))
        for imp in self.cfg["imports_required"]:
            if imp not in seen: raise Unsupported("%s: required import `%s` not found" % (self.rel, imp))
        if only is not None:
            # a module translated in part: the names the function relies on must not be re-bound elsewhere
            for n in ast.walk(tree):
                if isinstance(n, (ast.Assign, ast.AnnAssign, ast.FunctionDef, ast.ClassDef, ast.Import, ast.ImportFrom)):
                    bound = set()
                    if isinstance(n, (ast.FunctionDef, ast.ClassDef)): bound.add(n.name)
                    elif isinstance(n, (ast.Import, ast.ImportFrom)):
                        if ast.unparse(n) not in self.cfg["imports_required"]:
                            bound |= {(al.asname or al.name).split(".")[0] for al in n.names}
                    else:
                        for t in (n.targets if isinstance(n, ast.Assign) else [n.target]):
                            bound |= {x.id for x in ast.walk(t) if isinstance(x, ast.Name)}
                    clash = bound & (set(self.cfg["modules"]) | BUILTINS | set(self.sigs))
                    if clash and not (isinstance(n, ast.FunctionDef) and n in body and n.name in self.sigs): raise Unsupported("%s:%s: the name %s is re-bound" % (self.rel, n.lineno, sorted(clash)))
        return out

def translate(cfg, path, relname):
    src = open(path).read()
    tr = Translator(cfg, path, relname)
    defs = tr.module(src)
    head = "(* generated by %s from %s  sha256=%s *)" % (cfg["tool"], relname, hashlib.sha256(src.encode()).hexdigest()[:16])
    return "\n".join([head] + cfg["preamble"] + defs + cfg["postamble"]) + "\n"

def regenerate(cfg, src, out, relname):
    """(re)write the generated file from the current source; returns (ok, message).  Fail closed:
    on any error the file written does not type-check."""
    try:
        txt = translate(cfg, src, relname); ok = True; msg = "translated"
    except Unsupported as e:
        txt = "(* TRANSLATION FAILED: %s *)\nDefinition translation_failed : False := I.\n" % str(e).replace("*)", "* )"); ok = False; msg = str(e)
    except Exception as e:
        txt = "(* TRANSLATION FAILED: %s: %s *)\nDefinition translation_failed : False := I.\n" % (type(e).__name__, str(e).replace("*)", "* )")); ok = False; msg = "%s: %s" % (type(e).__name__, e)
    os.makedirs(os.path.dirname(out), exist_ok=True)
    old = open(out).read() if os.path.exists(out) else None
    strip = lambda t: "\n".join(t.split("\n")[1:]) if t else t     # the hash line does not count as a change
    if old is None or strip(old) != strip(txt): open(out, "w").write(txt)
    return ok, msg
