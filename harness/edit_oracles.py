"""Direct oracles of the edit-machine properties, evaluated on the implementation only.

An Oracles object is attached to one scenario run (editmachine.run_scenario(on_step=...)):
before(t) snapshots the tracks, after(...) checks every property that speaks about the
step just made and appends (property, what) pairs to self.violations.
"""
from __future__ import annotations

import networkx as nx
import numpy as np

import editmachine as E

EDIT_KINDS = {"add_edge", "delete_edge", "add_node", "delete_node", "swap", "update_attrs", "update_attrs_protected", "paint"}


def snap(t):
    g = t.graph
    nkeys = list(t.features.node_features)
    ekeys = list(t.features.edge_features)
    nodes = {int(n): {k: _plain(g.nodes[n].get(k)) for k in nkeys if g.nodes[n].get(k) is not None} for n in g.nodes}
    edges = {(int(u), int(v)): {k: _plain(g.edges[u, v].get(k)) for k in ekeys if g.edges[u, v].get(k) is not None} for u, v in g.edges}
    seg = None if t.segmentation is None else np.asarray(t.segmentation).tobytes()
    a = t.track_annotator
    return {
        "nodes": nodes, "edges": edges, "seg": seg,
        "tb": {int(k): sorted(map(int, v)) for k, v in a.tracklet_id_to_nodes.items()},
        "lb": {int(k): sorted(map(int, v)) for k, v in a.lineage_id_to_nodes.items()},
        "mt": int(a.max_tracklet_id), "ml": int(a.max_lineage_id),
        "u": len(t.action_history.undo_stack), "r": len(t.action_history.redo_stack),
    }


def _plain(v):
    if isinstance(v, np.ndarray):
        return [float(x) for x in v.tolist()]
    if isinstance(v, (list, tuple)):
        return [_plain(x) for x in v]
    if isinstance(v, (np.floating, float)):
        return float(v)
    if isinstance(v, (np.integer, int)) and not isinstance(v, bool):
        return int(v)
    return v


def obs_state(s):
    """the observable tracks state of C01/C02 (graph + registered features + array)"""
    return (s["nodes"], s["edges"], s["seg"])


def _eq(a, b):
    """exact equality, NaN == NaN"""
    if isinstance(a, dict) and isinstance(b, dict):
        return a.keys() == b.keys() and all(_eq(a[k], b[k]) for k in a)
    if isinstance(a, (list, tuple)) and isinstance(b, (list, tuple)):
        return len(a) == len(b) and all(_eq(x, y) for x, y in zip(a, b))
    if isinstance(a, float) and isinstance(b, float):
        return a == b or (a != a and b != b)
    return a == b


def first_diff(a, b):
    if a["seg"] != b["seg"]:
        return "segmentation differs"
    if a["nodes"].keys() != b["nodes"].keys():
        return "node sets differ: %s vs %s" % (sorted(a["nodes"]), sorted(b["nodes"]))
    if a["edges"].keys() != b["edges"].keys():
        return "edge sets differ: %s vs %s" % (sorted(a["edges"]), sorted(b["edges"]))
    for n in a["nodes"]:
        if not _eq(a["nodes"][n], b["nodes"][n]):
            return "node %d: %s vs %s" % (n, a["nodes"][n], b["nodes"][n])
    for e in a["edges"]:
        if not _eq(a["edges"][e], b["edges"][e]):
            return "edge %s: %s vs %s" % (e, a["edges"][e], b["edges"][e])
    return None


def segments(g):
    parent = {n: n for n in g.nodes}

    def find(x):
        while parent[x] != x:
            parent[x] = parent[parent[x]]
            x = parent[x]
        return x

    for u, v in g.edges:
        if g.out_degree(u) == 1:
            parent[find(u)] = find(v)
    return {n: find(n) for n in g.nodes}


class Oracles:
    def __init__(self, cfg):
        self.cfg = cfg
        self.violations = []
        self.timeline = None
        self.cursor = 0
        self.nrefresh = 0
        self.stats = {"refused_after_subaction_possible": 0, "undo_checked": 0, "redo_checked": 0, "refusals_checked": 0,
                      "forced_edits": 0, "frame_clause_nodes": 0, "rp_values_checked": 0, "iou_values_checked": 0,
                      "paint_exact_checked": 0, "queries_checked": 0}

    def v(self, prop, what, line):
        # (property, what, operation line, index of the operation in the scenario: 0 = construction)
        self.violations.append((prop, what, line, getattr(self, "step", 0)))

    # ---------------------------------------------------------------- static checks of one state
    def check_state(self, t, line, construct=False):
        g = t.graph
        cfg = self.cfg
        tag = "after construction" if construct else "after `%s`" % line
        # C03
        for n in g.nodes:
            if g.in_degree(n) > 1:
                self.v("C03", "%s: node %d has %d parents" % (tag, n, g.in_degree(n)), line)
            if g.out_degree(n) > 2:
                self.v("C03", "%s: node %d has %d children" % (tag, n, g.out_degree(n)), line)
        for u, w in g.edges:
            if not t.get_time(u) < t.get_time(w):
                self.v("C03", "%s: edge (%d,%d) does not lead forward in time" % (tag, u, w), line)
        act = {k for ann in t.annotators for k, (_, on) in ann.all_features.items() if on}
        ns = list(g.nodes)
        # C04
        if "track_id" in act:
            cls = segments(g)
            tid = {n: g.nodes[n].get("track_id") for n in ns}
            done = False
            for a in ns:
                for b in ns:
                    if (tid[a] == tid[b]) != (cls[a] == cls[b]):
                        self.v("C04", "%s: nodes %d,%d: same track id is %s but same segment is %s (ids %s)" % (
                            tag, a, b, tid[a] == tid[b], cls[a] == cls[b], tid), line)
                        done = True
                        break
                if done:
                    break
        # C05
        if "lineage_id" in act and "track_id" in act:
            comp = {}
            for i, c in enumerate(nx.weakly_connected_components(g)):
                for n in c:
                    comp[n] = i
            lid = {n: g.nodes[n].get("lineage_id") for n in ns}
            done = False
            for a in ns:
                for b in ns:
                    if (lid[a] == lid[b]) != (comp[a] == comp[b]):
                        self.v("C05", "%s: nodes %d,%d: same lineage id is %s but connected is %s (ids %s)" % (
                            tag, a, b, lid[a] == lid[b], comp[a] == comp[b], lid), line)
                        done = True
                        break
                if done:
                    break
        # C06 lookups and fresh ids
        if "track_id" in act:
            a = t.track_annotator
            want = {}
            for n in ns:
                want.setdefault(g.nodes[n].get("track_id"), []).append(n)
            got = {k: sorted(v) for k, v in a.tracklet_id_to_nodes.items()}
            if got != {k: sorted(v) for k, v in want.items()}:
                self.v("C06", "%s: track lookup %s but graph says %s" % (tag, got, want), line)
            if t.get_next_track_id() in want:
                self.v("C06", "%s: next track id %d is in use" % (tag, t.get_next_track_id()), line)
            # ids that were not in use before this call were issued by it: each labels one segment only
            prev = getattr(self, "_prev_tids", None)
            if prev is not None:
                cls_ = segments(g)
                for k in set(want) - prev:
                    if len({cls_[n] for n in want[k]}) > 1:
                        self.v("C06", "%s: freshly issued track id %s was handed out while already in use: it is carried by nodes %s of different segments" % (tag, k, sorted(want[k])), line)
            self._prev_tids = set(want)
            if "lineage_id" in act:
                wantl = {}
                for n in ns:
                    wantl.setdefault(g.nodes[n].get("lineage_id"), []).append(n)
                gotl = {k: sorted(v) for k, v in a.lineage_id_to_nodes.items()}
                if gotl != {k: sorted(v) for k, v in wantl.items()}:
                    self.v("C06", "%s: lineage lookup %s but graph says %s" % (tag, gotl, wantl), line)
                if t.get_next_lineage_id() in wantl:
                    self.v("C06", "%s: next lineage id %d is in use" % (tag, t.get_next_lineage_id()), line)
        # C07 / C08 / C09
        if t.segmentation is not None:
            seg = np.asarray(t.segmentation)
            labels = set(np.unique(seg).tolist()) - {0}
            if labels != set(ns):
                self.v("C07", "%s: labels %s but nodes %s" % (tag, sorted(labels), sorted(ns)), line)
            for n in ns:
                fr = sorted({int(f) for f in np.nonzero(seg == n)[0]})
                if fr and fr != [t.get_time(n)]:
                    self.v("C07", "%s: label %d occurs in frames %s, node lives in %d" % (tag, n, fr, t.get_time(n)), line)
                px = t.get_pixels(n)
                ref = np.nonzero(seg[t.get_time(n)] == n)
                if px is None or not all((a_ == b_).all() for a_, b_ in zip(px[1:], ref)) or not (px[0] == t.get_time(n)).all():
                    self.v("C07", "%s: get_pixels(%d) is not the node's mask" % (tag, n), line)
            for n in ns:
                mask = np.nonzero(seg[t.get_time(n)].reshape(-1) == n)[0].tolist()
                if not mask:
                    continue
                for k in E.RP_KEYS:
                    if k in act and k not in getattr(self, "unfresh", ()):
                        self.stats["rp_values_checked"] += 1
                        stored = g.nodes[n].get(k)
                        try:
                            ref = E.rp_reference(cfg, k, None, mask, cfg["scale"])
                        except Exception:  # noqa: BLE001
                            continue
                        if stored is None or not E.close(stored, ref):
                            self.v("C08", "%s: node %d %s stored %s but the current mask gives %s" % (tag, n, k, stored, ref), line)
            if "iou" in act and "iou" not in getattr(self, "unfresh", ()):
                for u, w in g.edges:
                    A = seg[t.get_time(u)].reshape(-1) == u
                    B = seg[t.get_time(w)].reshape(-1) == w
                    inter, union = int((A & B).sum()), int((A | B).sum())
                    ref = inter / union if union and inter else 0.0
                    stored = g.edges[u, w].get("iou")
                    self.stats["iou_values_checked"] += 1
                    if stored is None or abs(float(stored) - ref) > 1e-12:
                        self.v("C09", "%s: edge (%d,%d) iou stored %s but masks give %d/%d" % (tag, u, w, stored, inter, union), line)

    # ---------------------------------------------------------------- per-step protocol
    def start(self, t):
        s = snap(t)
        self.timeline = [s]
        self.cursor = 0
        self.check_state(t, "init", construct=True)

    def before(self, t):
        g = t.graph
        managed = list(E.RP_KEYS)
        raw = {int(n): {k: _plain(g.nodes[n].get(k)) for k in managed} for n in g.nodes}
        rawe = {(int(u), int(v)): _plain(g.edges[u, v].get("iou")) for u, v in g.edges}
        act = {k for ann in t.annotators for k, (_, on) in ann.all_features.items() if on}
        return {"snap": snap(t), "graph": g.copy(), "seg": None if t.segmentation is None else np.asarray(t.segmentation).copy(),
                "raw": raw, "rawe": rawe, "act": act, "reg": list(t.features.keys())}

    def check_toggle(self, t, line, kind, code, before):
        """C10: registry = static + active managed keys; unknown key -> KeyError and nothing changes;
        a disabled feature is not changed by any operation"""
        g = t.graph
        avail = {k for ann in t.annotators for k in ann.all_features}
        act = {k for ann in t.annotators for k, (_, on) in ann.all_features.items() if on}
        reg = set(t.features.keys())
        for k in avail:
            if (k in reg) != (k in act):
                self.v("C10", "after `%s`: feature %s is %sregistered but %sactive" % (line, k, "" if k in reg else "not ", "" if k in act else "not "), line)
        if kind in ("enable", "disable"):
            names = [E.KEYNAME[int(x)] for x in line.split()[1].split(",") if x != "-"]
            unknown = [k for k in names if k not in avail]
            if unknown:
                if code != 13:
                    self.v("C10", "`%s` with unknown feature %s returned code %d instead of KeyError" % (line, unknown, code), line)
                if act != before["act"] or list(t.features.keys()) != before["reg"] or first_diff(before["snap"], snap(t)) is not None:
                    self.v("C10", "`%s` with unknown feature %s changed the tracks" % (line, unknown), line)
            elif code != 0:
                self.v("C10", "`%s` raised (code %d)" % (line, code), line)
        # frozen: keys that are disabled before and after keep their values on surviving nodes / edges
        # nodes that a stroke overwrites may be deleted and re-created inside the one call (rollback of a
        # refused stroke): unregistered values do not survive that, as for any delete + undo
        exempt = set()
        if kind == "paint" and before.get("seg") is not None:
            tk = line.split()
            idx_ = [int(x) for x in tk[3].split(".")] if tk[3] != "-" else []
            exempt = set(int(x) for x in before["seg"][int(tk[2])].reshape(-1)[idx_].tolist()) - {0}
        for k in E.RP_KEYS:
            if k in avail and k not in before["act"] and k not in act:
                for n in g.nodes:
                    if int(n) in exempt:
                        continue
                    if int(n) in before["raw"] and not _eq(_plain(g.nodes[n].get(k)), before["raw"][int(n)][k]):
                        self.v("C10", "`%s` changed the disabled feature %s of node %d: %s -> %s" % (line, k, n, before["raw"][int(n)][k], g.nodes[n].get(k)), line)
        if "iou" in avail and "iou" not in before["act"] and "iou" not in act:
            toks = line.split()
            named = (int(toks[1]), int(toks[2])) if kind == "add_edge" else None  # a forced re-add deletes and re-creates it
            for u, w in g.edges:
                # undo / redo of a group that deletes and re-creates an edge (forced re-add, node deletion with
                # a bridge): the unregistered value does not survive delete + re-create (C10_frozen_iou exempts
                # the edge a basic action adds / removes); it can only vanish that way, never change
                if kind in ("undo", "redo") and "iou" not in g.edges[u, w]:
                    continue
                # a refused stroke is rolled back: the overwritten nodes are deleted and re-created with their
                # edges (same exemption as for their node features above, C10_frozen_paint's paint_nodes)
                if (int(u) in exempt or int(w) in exempt) and "iou" not in g.edges[u, w]:
                    continue
                if (int(u), int(w)) != named and (int(u), int(w)) in before["rawe"] and not _eq(_plain(g.edges[u, w].get("iou")), before["rawe"][(int(u), int(w))]):
                    self.v("C10", "`%s` changed the disabled iou of edge (%d,%d)" % (line, u, w), line)
        if kind == "update_attrs_protected":
            key = E.KEYNAME[int(line.split()[2].split("=")[0])]
            if (key in avail or key == "time") and code != 12:
                self.v("C10", "`%s`: updating the managed feature %s was not refused with ValueError (code %d)" % (line, key, code), line)

    def after(self, t, line, kind, code, before, obs):
        self.step = getattr(self, "step", 0) + 1
        if self.timeline is None:
            self.start(t)
        if code == 15:
            self.v("C03", "`%s` does not terminate" % line, line)
            return
        if kind == "enable" and code == 0:
            toks_ = line.split()
            names_ = [E.KEYNAME[int(x)] for x in toks_[1].split(",") if x != "-"]
            if toks_[2] == "0":
                self.unfresh = getattr(self, "unfresh", set()) | set(names_)
            else:
                self.unfresh = getattr(self, "unfresh", set()) - set(names_)
        if kind == "disable" and code == 0:
            self.unfresh = getattr(self, "unfresh", set()) - {E.KEYNAME[int(x)] for x in line.split()[1].split(",") if x != "-"}
        self.check_toggle(t, line, kind, code, before)
        if kind in ("enable", "disable"):
            # snapshots taken under different registries are not comparable: the timeline oracle
            # (C01/C02) stops at the first switch; all state oracles stay on
            if code == 0:
                self.timeline_off = True
            if obs["rf"][0] != self.nrefresh:
                self.v("C20", "`%s` emitted refresh" % line, line)
                self.nrefresh = obs["rf"][0]
            self.check_state(t, line)
            return
        if getattr(self, "timeline_off", False):
            self.after_no_timeline(t, line, kind, code, before, obs)
            return
        s0, s1 = before["snap"], snap(t)
        nref = obs["rf"][0]
        emitted = nref - self.nrefresh
        self.nrefresh = nref
        payload = obs["rf"][1]
        is_edit = kind in EDIT_KINDS
        # ---- C11 / C20 for refusals
        if is_edit and code >= 10:
            self.stats["refusals_checked"] += 1
            d = first_diff(s0, s1)
            if d is None and (s0["tb"], s0["lb"], s0["u"], s0["r"]) != (s1["tb"], s1["lb"], s1["u"], s1["r"]):
                d = "lookups or history changed: %s -> %s" % ((s0["tb"], s0["lb"], s0["u"], s0["r"]), (s1["tb"], s1["lb"], s1["u"], s1["r"]))
            if d is not None:
                self.v("C11", "refused `%s` (code %d) changed the tracks: %s" % (line, code, d), line)
            if emitted:
                self.v("C11", "refused `%s` emitted refresh" % line, line)
                self.v("C20", "refused `%s` emitted %d refresh" % (line, emitted), line)
        # ---- timeline (C01 / C02)
        tl = self.timeline
        if is_edit and code == 0:
            tl += list(reversed(tl[self.cursor:-1]))
            tl.append(s1)
            self.cursor = len(tl) - 1
            if (s1["u"], s1["r"]) != (len(tl) - 1, 0):
                self.v("C02", "after `%s` the history has %d undo / %d redo entries, timeline has %d steps" % (line, s1["u"], s1["r"], len(tl) - 1), line)
        elif kind == "undo":
            want = self.cursor > 0
            if (code == 1) != want:
                self.v("C02", "undo returned %s with %d earlier states on the timeline" % (code == 1, self.cursor), line)
            if code == 1:
                self.cursor = max(0, self.cursor - 1)
                self.stats["undo_checked"] += 1
            d = first_diff(tl[self.cursor], s1)
            if d is not None:
                self.v("C02", "after undo the state is not timeline[%d]: %s" % (self.cursor, d), line)
                self.v("C01", "undo did not restore the previous state: %s" % d, line)
        elif kind == "redo":
            want = self.cursor < len(tl) - 1
            if (code == 1) != want:
                self.v("C02", "redo returned %s with cursor %d of %d" % (code == 1, self.cursor, len(tl) - 1), line)
            if code == 1:
                self.cursor = min(len(tl) - 1, self.cursor + 1)
                self.stats["redo_checked"] += 1
            d = first_diff(tl[self.cursor], s1)
            if d is not None:
                self.v("C02", "after redo the state is not timeline[%d]: %s" % (self.cursor, d), line)
                self.v("C01", "redo did not reproduce the post-edit state: %s" % d, line)
        else:
            d = first_diff(tl[self.cursor], s1)
            if d is not None and not (is_edit and code >= 10):
                self.v("C16", "`%s` changed the tracks: %s" % (line, d), line)
        # ---- C20
        if is_edit and code == 0:
            if emitted != 1:
                self.v("C20", "successful `%s` emitted %d refresh signals" % (line, emitted), line)
            elif kind == "add_node":
                if payload != line.split()[1]:
                    self.v("C20", "`%s` emitted payload %s" % (line, payload), line)
            elif kind == "paint":
                newv = int(line.split()[1])
                created = newv != 0 and newv in s1["nodes"] and newv not in s0["nodes"]
                if (payload == str(newv)) != created:
                    self.v("C20", "`%s` emitted payload %s (node created: %s)" % (line, payload, created), line)
            elif payload != "n":
                self.v("C20", "`%s` emitted payload %s" % (line, payload), line)
        elif kind in ("undo", "redo"):
            if emitted != (1 if code == 1 else 0):
                self.v("C20", "%s returned %s and emitted %d refresh" % (kind, code == 1, emitted), line)
        elif not is_edit and emitted:
            self.v("C20", "query `%s` emitted refresh" % line, line)
        # ---- static invariants of the new state
        if code != 99:
            self.check_state(t, line)
        # ---- C03 forced minimality, C04/C05 frame clause, C07 paint exactness, C06 queries
        g0, g1 = before["graph"], t.graph
        toks = line.split()
        if is_edit and code == 0:
            removed = set(g0.edges) - set(g1.edges)
            added = set(g1.edges) - set(g0.edges)
            if kind == "add_edge":
                u, w = int(toks[1]), int(toks[2])
                if toks[3] == "1":
                    self.stats["forced_edits"] += 1
                if not removed <= set(g0.in_edges(w)):
                    self.v("C03", "`%s` removed %s, only in-edges of %d conflict" % (line, sorted(removed), w), line)
                if toks[3] == "0" and removed:
                    self.v("C03", "unforced `%s` removed edges %s" % (line, sorted(removed)), line)
                if not added <= {(u, w)}:
                    self.v("C03", "`%s` added %s" % (line, sorted(added)), line)
            self._frame_clause(t, line, kind, toks, g0, g1, s0, s1)
            if kind == "paint" and before["seg"] is not None:
                self.stats["paint_exact_checked"] += 1
                newv, tm = int(toks[1]), int(toks[2])
                idx = [int(x) for x in toks[3].split(".")] if toks[3] != "-" else []
                want = before["seg"].copy()
                want[tm].reshape(-1)[idx] = newv
                if not (np.asarray(t.segmentation) == want).all():
                    self.v("C07", "after `%s` the array is not exactly as painted" % line, line)
        if kind == "q_neighbors":
            self.stats["queries_checked"] += 1
            T, tm = int(toks[1]), int(toks[2])
            mem = sorted((n for n in g1.nodes if g1.nodes[n].get("track_id") == T), key=lambda n: g1.nodes[n]["time"])
            pred = [n for n in mem if g1.nodes[n]["time"] < tm]
            succ = [n for n in mem if g1.nodes[n]["time"] > tm]
            want = [pred[-1] if pred else -1, succ[0] if succ else -1]
            tms = [g1.nodes[n]["time"] for n in mem]
            if len(set(tms)) == len(tms) and obs["aux"] != want:
                self.v("C06", "get_track_neighbors(%d,%d) = %s, a scan of the graph gives %s" % (T, tm, obs["aux"], want), line)
        if kind == "q_has_track":
            self.stats["queries_checked"] += 1
            T, tm = int(toks[1]), int(toks[2])
            want = any(g1.nodes[n].get("track_id") == T and g1.nodes[n]["time"] == tm for n in g1.nodes)
            if (code == 1) != want:
                self.v("C06", "has_track_id_at_time(%d,%d) = %s, a scan of the graph gives %s" % (T, tm, code == 1, want), line)
        if kind == "q_new_ids":
            ids = obs["aux"]
            if len(set(ids)) != len(ids) or any(i in g1.nodes for i in ids):
                self.v("C06", "_get_new_node_ids returned %s (nodes %s)" % (ids, sorted(g1.nodes)), line)

    def after_no_timeline(self, t, line, kind, code, before, obs):
        """the per-step checks that do not need the timeline (used after a feature switch)"""
        s0, s1 = before["snap"], snap(t)
        nref = obs["rf"][0]
        emitted = nref - self.nrefresh
        self.nrefresh = nref
        is_edit = kind in EDIT_KINDS
        if is_edit and code >= 10:
            self.stats["refusals_checked"] += 1
            d = first_diff(s0, s1)
            if d is not None:
                self.v("C11", "refused `%s` (code %d) changed the tracks: %s" % (line, code, d), line)
            if emitted:
                self.v("C20", "refused `%s` emitted %d refresh" % (line, emitted), line)
        if is_edit and code == 0 and emitted != 1:
            self.v("C20", "successful `%s` emitted %d refresh signals" % (line, emitted), line)
        if code != 99:
            self.check_state(t, line)

    def _frame_clause(self, t, line, kind, toks, g0, g1, s0, s1):
        named = set()
        track = None
        if kind in ("add_edge", "delete_edge", "swap"):
            named = {int(toks[1]), int(toks[2])}
        elif kind == "delete_node":
            named = {int(toks[1])}
        elif kind == "add_node":
            named = {int(toks[1])}
            for tok in toks[4:]:
                if tok.startswith("2=z"):
                    track = int(tok[3:])
        elif kind == "paint":
            newv, tm = int(toks[1]), int(toks[2])
            named = {newv} | set(s0["nodes"]) - set(s1["nodes"]) | set(s1["nodes"]) - set(s0["nodes"])
            track = int(toks[4])
        elif kind.startswith("update_attrs"):
            named = {int(toks[1])}
        if track is not None:
            named |= {n for n, a in s0["nodes"].items() if a.get("track_id") == track}
            named |= {n for n, a in s1["nodes"].items() if a.get("track_id") == track}
        union = nx.Graph()
        union.add_nodes_from(g0.nodes)
        union.add_nodes_from(g1.nodes)
        union.add_edges_from(g0.edges)
        union.add_edges_from(g1.edges)
        for comp in nx.connected_components(union):
            if comp & named:
                continue
            for n in comp:
                if n in s0["nodes"] and n in s1["nodes"]:
                    self.stats["frame_clause_nodes"] += 1
                    a0, a1 = s0["nodes"][n], s1["nodes"][n]
                    if a0.get("track_id") != a1.get("track_id"):
                        self.v("C04", "`%s` changed the track id of node %d (%s -> %s) in a component it does not name" % (line, n, a0.get("track_id"), a1.get("track_id")), line)
                    if a0.get("lineage_id") != a1.get("lineage_id"):
                        self.v("C05", "`%s` changed the lineage id of node %d (%s -> %s) in a component it does not name" % (line, n, a0.get("lineage_id"), a1.get("lineage_id")), line)
