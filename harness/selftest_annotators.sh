#!/bin/bash
# Negative self-test of the annotator tie (translate_annotators.py + Proofs/AnnotatorsIous.v + Proofs/AnnotatorsTie.v).
# Copies $VERIF_REPO/src (default /repo/src) to a scratch tree under /tmp, applies one change at a time, regenerates
# the embedding into a scratch Coq root (logical name SC, so the real Gen/Annotators_gen.v is never touched) and
# compiles a copy of the tie against it.  Expected: comment / docstring / message / local-rename changes still
# compile ("pass"); semantic changes make a tie theorem fail ("fail") or are outside the idiom table ("unsupported").
# Needs the .vo files AnnotatorsTie.v imports (Model/PyRt8.vo, Gen/Toggle_gen.vo, Proofs/ToggleTie.vo,
# Proofs/CandGraphProofs.vo, Proofs/EditFresh.vo, ...; nothing generated from candidate_graph/*.py).  Works only under /tmp and removes the scratch tree at the end.
#   usage: selftest_annotators.sh [substring of the case labels to run]
set -u
S=/tmp/annot_scratch.$$
PY=/venv/bin/python
rm -rf $S; mkdir -p $S/coq/Gen $S/coq/Proofs
trap 'rm -rf $S' EXIT
F=$S/src/funtracks
EA=$F/annotators/_edge_annotator.py
RP=$F/annotators/_regionprops_annotator.py
CI=$F/annotators/_compute_ious.py
TR=$F/data_model/tracks.py
ONLY=${1:-}
NRUN=0; NBAD=0

run() {   # $1 = label, $2 = expectation: pass | fail | unsupported | reject (= fail or unsupported)
  case "$1" in *"$ONLY"*) ;; *) return;; esac
  NRUN=$((NRUN+1))
  $PY -c "import sys; sys.path.insert(0,'/verif/harness'); import translate_annotators as t; ok,msg=t.regenerate('$S/coq/Gen/Annotators_gen.v', '$S'); sys.stderr.write(msg+'\n')" 2>$S/err.txt >/dev/null
  local got
  if grep -q "TRANSLATION FAILED" $S/coq/Gen/Annotators_gen.v; then got=unsupported
  else
    sed -e 's/^From FT Require Gen\.Annotators_gen\.$/From SC Require Gen.Annotators_gen./' \
        -e 's/^Module AG := FT\.Gen\.Annotators_gen\.$/Module AG := SC.Gen.Annotators_gen./' \
        /verif/coq/Proofs/AnnotatorsIous.v > $S/coq/Proofs/AnnotatorsIous.v
    sed -e 's/ Gen\.Toggle_gen Gen\.Annotators_gen Proofs\.DictLemmas/ Gen.Toggle_gen Proofs.DictLemmas/' \
        -e 's/^Module AG := FT\.Gen\.Annotators_gen\.$/From SC Require Gen.Annotators_gen. Module AG := SC.Gen.Annotators_gen./' \
        -e 's/ Proofs\.CandGraphProofs Proofs\.AnnotatorsIous\.$/ Proofs.CandGraphProofs. From SC Require Proofs.AnnotatorsIous./' \
        -e 's/FT\.Proofs\.AnnotatorsIous\./SC.Proofs.AnnotatorsIous./g' \
        /verif/coq/Proofs/AnnotatorsTie.v > $S/coq/Proofs/AnnotatorsTie.v
    grep -q "Module AG := SC.Gen.Annotators_gen" $S/coq/Proofs/AnnotatorsTie.v && ! grep -q "Gen.Annotators_gen Proofs" $S/coq/Proofs/AnnotatorsTie.v \
      && grep -q "From SC Require Proofs.AnnotatorsIous" $S/coq/Proofs/AnnotatorsTie.v && ! grep -q "FT.Proofs.AnnotatorsIous" $S/coq/Proofs/AnnotatorsTie.v \
      && grep -q "Module AG := SC.Gen.Annotators_gen" $S/coq/Proofs/AnnotatorsIous.v && ! grep -q "FT.Gen.Annotators_gen\|From FT Require Gen.Annotators_gen" $S/coq/Proofs/AnnotatorsIous.v \
      || { echo "selftest: import lines of AnnotatorsTie.v / AnnotatorsIous.v not recognised"; exit 2; }
    ( cd $S/coq && timeout 600 coqc -Q /verif/coq FT -Q . SC Gen/Annotators_gen.v >$S/out.txt 2>&1 \
        && timeout 900 coqc -Q /verif/coq FT -Q . SC Proofs/AnnotatorsIous.v >>$S/out.txt 2>&1 \
        && timeout 900 coqc -Q /verif/coq FT -Q . SC Proofs/AnnotatorsTie.v >>$S/out.txt 2>&1 ) && got=pass || got=fail
  fi
  local detail="" ok=no
  [ $got = fail ] && detail=$(grep -m1 -A3 "^File" $S/out.txt | tr '\n' ' ' | cut -c1-150)
  [ $got = unsupported ] && detail=$(grep -v conda $S/err.txt | head -1 | cut -c1-170)
  [ "$got" = "$2" ] && ok=yes
  [ "$2" = reject ] && { [ $got = fail ] || [ $got = unsupported ]; } && ok=yes
  printf "%-74s expected %-11s got %-11s %s\n" "$1" "$2" "$got" "$detail"
  [ $ok = yes ] || NBAD=$((NBAD+1))
}
fresh() { rm -rf $S/src; mkdir -p $S/src; cp -r ${VERIF_REPO:-/repo}/src/funtracks $S/src/funtracks; }
# edit <file> <old text> <new text>: exact, single replacement (the self-test fails loudly if the source moved on)
edit() { $PY - "$1" "$2" "$3" <<'EOF'
import sys
p, a, b = sys.argv[1:4]
t = open(p).read()
if t.count(a) != 1:
    sys.stderr.write("selftest: expected exactly one occurrence of %r in %s, found %d\n" % (a, p, t.count(a))); sys.exit(3)
open(p, "w").write(t.replace(a, b))
EOF
  [ $? = 0 ] || { echo "selftest: mutation could not be applied ($1)"; NBAD=$((NBAD+1)); }
}
# ren <file> <old identifier> <new identifier>: whole-word rename everywhere in the file
ren() { $PY - "$1" "$2" "$3" <<'EOF'
import re, sys
p, a, b = sys.argv[1:4]
t = open(p).read()
if not re.search(r"\b%s\b" % re.escape(a), t): sys.stderr.write("selftest: %s not found in %s\n" % (a, p)); sys.exit(3)
open(p, "w").write(re.sub(r"\b%s\b" % re.escape(a), b, t))
EOF
  [ $? = 0 ] || { echo "selftest: rename could not be applied ($1)"; NBAD=$((NBAD+1)); }
}

# ---------------------------------------------------------------- must keep compiling
fresh; run "unchanged copy" pass
fresh; edit $EA "        # anything left has IOU of 0" "        # the rest does not overlap"
       edit $EA "            # Get all incident edges to the modified node" "            # in- and out-edges"
       edit $RP "            # Skip labels that aren't nodes in the graph (e.g., unselected detections)" "            # not a node"
       edit $RP "        \"\"\"Perform the regionprops computation and update all feature values for a
        single frame of segmentation data." "        \"\"\"Another docstring."
       edit $EA "updating edge IOU value to 0\"," "IoU := 0\","
       edit $RP "                \"updating regionprops values to None\"," "                \"values := None\","
       edit $CI "    # get indices where both are not zero (ignore background)" "    # both non-zero"
       run "comment / docstring / warning text changes only" pass
fresh; ren $EA edges_to_update todo; ren $EA masked_start ms; ren $EA masked_end me; ren $EA iou_list found
       ren $EA nodes_by_frame nbf; ren $EA edges_by_target_frame groups; ren $EA target_t tt2; ren $EA nodes_in_t here
       ren $RP region rg; ren $RP masked_frame only_node; ren $RP keys_to_compute wanted; ren $RP spacing sp_
       ren $CI non_zero_indices nz; ren $CI flattened_stacked stacked
       # `spacing=sp_` : the keyword of regionprops_extended keeps its name
       edit $RP "regionprops_extended(seg_frame, sp_=sp_)" "regionprops_extended(seg_frame, spacing=sp_)"
       run "local variables renamed in all three files" pass

# ---------------------------------------------------------------- EdgeAnnotator.compute (bulk IoU)
fresh; edit $EA "        for edge in edges:
            self.tracks._set_edge_attr(edge, self.iou_key, 0)" "        for edge in edges:
            self.tracks.graph.edges[edge].setdefault(self.iou_key, 0)"
       run "bulk IoU: the remaining edges get 0 with setdefault (an old value survives)" reject
fresh; edit $EA "            for t in range(seg.shape[0] - 1):" "            for t in range(len(nodes_by_frame) - 1):"
       run "bulk IoU: loop bounded by the number of populated frames" reject
fresh; edit $EA "                    self._iou_update(edges, seg[t], seg[target_t])" "                    self._iou_update(edges, seg[t], seg[t + 1])"
       run "bulk IoU: a frame-skipping edge compared against frame t + 1" fail
fresh; edit $EA "                edges_by_target_frame = defaultdict(list)
                for edge in self.tracks.graph.out_edges(nodes_in_t):
                    edges_by_target_frame[self.tracks.get_time(edge[1])].append(edge)
                for target_t, edges in edges_by_target_frame.items():
                    self._iou_update(edges, seg[t], seg[target_t])" "                edges = list(self.tracks.graph.out_edges(nodes_in_t))
                self._iou_update(edges, seg[t], seg[t + 1])"
       run "bulk IoU: the code before fix F-09a (no grouping by target frame)" fail
fresh; edit $EA "            for t in range(seg.shape[0] - 1):" "            for t in range(seg.shape[0] - 2):"
       run "bulk IoU: the edges leaving the last but one frame are skipped" fail
fresh; edit $EA "                    self._iou_update(edges, seg[t], seg[target_t])" "                    self._iou_update(edges, seg[target_t], seg[t])"
       run "bulk IoU: the two frames swapped" fail
fresh; edit $EA "                self.tracks._set_edge_attr(edge, self.iou_key, iou)
                edges.remove(edge)" "                self.tracks._set_edge_attr(edge, self.iou_key, iou)"
       run "_iou_update: overlapping edges are not removed from the list (then overwritten with 0)" fail
fresh; edit $EA "            if edge in edges:
                self.tracks._set_edge_attr(edge, self.iou_key, iou)" "            if edge in edges:
                self.tracks._set_edge_attr(edge, self.iou_key, 0)"
       run "_iou_update: overlapping edges get 0" fail
fresh; edit $EA "        if self.iou_key in keys_to_compute:
            nodes_by_frame" "        if self.iou_key not in keys_to_compute:
            nodes_by_frame"
       run "bulk IoU: computed when the key is NOT requested" fail
fresh; edit $EA "                nodes_by_frame[self.tracks.get_time(n)].append(n)" "                nodes_by_frame[self.tracks.get_time(n) + 1].append(n)"
       run "bulk IoU: nodes filed under the next frame" fail

# ---------------------------------------------------------------- EdgeAnnotator.update (incremental IoU)
fresh; edit $EA "            end_seg = self.tracks.segmentation[end_time]" "            end_seg = self.tracks.segmentation[start_time]"
       run "update: the target's mask taken in the source's frame" fail
fresh; edit $EA "            masked_end = np.where(end_seg == target, target, 0)" "            masked_end = np.where(end_seg == source, source, 0)"
       run "update: the target frame masked to the source label" fail
fresh; edit $EA "            if np.max(masked_start) == 0 or np.max(masked_end) == 0:" "            if np.max(masked_start) == 0 and np.max(masked_end) == 0:"
       run "update: 0 only when BOTH labels are missing" fail
fresh; edit $EA "                iou = 0 if len(iou_list) == 0 else iou_list[0][2]" "                iou = iou_list[0][2]"
       run "update: no guard for disjoint masks (IndexError)" fail
fresh; edit $EA "            edges_to_update = list(self.tracks.graph.in_edges(node)) + list(
                self.tracks.graph.out_edges(node)
            )" "            edges_to_update = list(self.tracks.graph.out_edges(node))"
       run "update: only the out-edges of the changed node" fail
fresh; edit $EA "        if self.iou_key not in self.features:
            return

        # Get edges" "        # Get edges"
       run "update: IoU written although the feature is switched off" fail
fresh; edit $EA "        if not isinstance(action, (AddEdge, UpdateNodeSeg)):" "        if not isinstance(action, (AddEdge, UpdateNodeSeg, AddNode)):"
       run "update: a class that is not imported / reacts to AddNode too" reject
fresh; edit $EA "            masked_start = np.where(start_seg == source, source, 0)" "            masked_start = start_seg"
       run "update: the source frame not masked (foreign labels count)" fail
fresh; edit $CI "        union = frame1_label_sizes[id1] + frame2_label_sizes[id2] - intersection" "        union = frame1_label_sizes[id1] + frame2_label_sizes[id2]"
       run "_compute_ious: union counts the intersection twice" fail

# ---------------------------------------------------------------- RegionpropsAnnotator.update / _regionprops_update
fresh; edit $RP "            for key in feature_keys:
                value = getattr(region, self.regionprops_names[key])" "            for key in feature_keys:
                if self.tracks.get_node_attr(node, key) is not None:
                    continue
                value = getattr(region, self.regionprops_names[key])"
       run "regionprops update: keys the caller supplied a value for are skipped" reject
fresh; edit $RP "        keys_to_compute = list(self.features.keys())
        if not keys_to_compute:
            return

        time" "        keys_to_compute = list(self.features.keys())
        keys_to_compute = [k for k in keys_to_compute if k not in action.attributes]
        if not keys_to_compute:
            return

        time"
       run "regionprops update: keys present in the action's attributes are skipped" reject
fresh; edit $RP "            self._regionprops_update(masked_frame, keys_to_compute)" "            self._regionprops_update(seg_frame, keys_to_compute)"
       run "regionprops update: the whole frame measured, not the frame masked to the node" fail
fresh; edit $RP "tuple(self.tracks.scale[1:])" "tuple(self.tracks.scale)"
       run "spacing taken from scale instead of scale[1:]" fail
fresh; edit $RP "        spacing = None if self.tracks.scale is None else tuple(self.tracks.scale[1:])" "        spacing = None"
       run "spacing always None" reject
fresh; edit $RP "            if node not in self.tracks.graph:
                continue
" ""
       run "_regionprops_update: labels that are not nodes are not skipped (KeyError)" fail
fresh; edit $RP "        masked_frame = np.where(seg_frame == node, node, 0)" "        masked_frame = np.where(seg_frame == node, 1, 0)"
       run "regionprops update: the mask relabelled to 1 (another node gets the values)" fail
fresh; edit $RP "        time = self.tracks.get_time(node)
        seg_frame = self.tracks.segmentation[time]" "        time = self.tracks.get_time(node)
        seg_frame = self.tracks.segmentation[time + 1]"
       run "regionprops update: the mask taken in the next frame" fail
fresh; edit $RP "            for key in keys_to_compute:
                value = None
                self.tracks._set_node_attr(node, key, value)" "            pass"
       run "regionprops update: nothing written when the label is gone" reject
fresh; edit $RP "                self.tracks._set_node_attr(node, key, value)
        else:" "                self.tracks._set_node_attr(node, self.pos_key, value)
        else:"
       run "regionprops update: None written under the position key only" reject
fresh; edit $RP "        if not isinstance(action, (AddNode, UpdateNodeSeg)):" "        if not isinstance(action, AddNode):"
       run "regionprops update: UpdateNodeSeg ignored" fail

# ---------------------------------------------------------------- RegionpropsAnnotator.compute
fresh; edit $RP "        for t in range(seg.shape[0]):
            self._regionprops_update(seg[t], keys_to_compute)" "        for t in range(seg.shape[0] - 1):
            self._regionprops_update(seg[t], keys_to_compute)"
       run "regionprops compute: the last frame is not measured" fail
fresh; edit $RP "            self._regionprops_update(seg[t], keys_to_compute)" "            self._regionprops_update(seg[0], keys_to_compute)"
       run "regionprops compute: always frame 0" fail
fresh; edit $RP "        keys_to_compute = self._filter_feature_keys(feature_keys)
        if not keys_to_compute:
            return

        seg = self.tracks.segmentation
        for t in range(seg.shape[0]):" "        keys_to_compute = self._filter_feature_keys(None)
        if not keys_to_compute:
            return

        seg = self.tracks.segmentation
        for t in range(seg.shape[0]):"
       run "regionprops compute: every active key, whatever was requested" reject
# ---------------------------------------------------------------- what the idiom table pins
fresh; edit $TR "    def _set_edge_attr(self, edge: Edge, attr: str, value: Any):
        self.graph.edges[edge][attr] = value" "    def _set_edge_attr(self, edge: Edge, attr: str, value: Any):
        self.graph.edges[edge].setdefault(attr, value)"
       run "Tracks._set_edge_attr no longer overwrites" unsupported
fresh; edit $EA "        self.iou_key = DEFAULT_IOU_KEY" "        self.iou_key = \"overlap\""
       run "EdgeAnnotator.iou_key is another key" unsupported

echo "cases run: $NRUN   unexpected: $NBAD"
[ $NBAD = 0 ]
