(* UserAddNode on well-formed states (C03, C11; C04/C05/C06 in the last sections).
   The action validates (time / track id present, node id free), picks the track id (a fresh
   one when the requested track already has a node at that time), asks for the in-track
   neighbours (pred, succ) at the new time, refuses on a division conflict unless forced,
   validates the position, and then: cuts the conflicting edges (UserDeleteEdge), removes the
   skip edge pred -> succ, adds the node, adds pred -> node and node -> succ.
   This file proves, at the model level:
     - uan_refused computes the refusals that happen before anything but the order inside one
       lookup list is touched, and the error they carry (uan_core_refused, uan_refused_unchanged);
     - when no check fails and the pixels are acceptable the action succeeds, the result is a
       forward-in-time binary forest with exactly the expected node and edge sets (uan_core_spec);
     - the only other error is the failure of set_pixels inside AddNode; it is raised after the
       cuts / the removal of the skip edge (uan_core_px_error, uan_error_cases).
   No axioms are used. *)
From Coq Require Import ZArith List Bool Lia Relations Permutation.
From FT Require Import Base.Dict Model.Edit Proofs.DictLemmas Proofs.EditInv Proofs.EditGraph Proofs.EditWalk
                       Proofs.EditBasic Proofs.EditUserEdge Proofs.EditUserEdgeCor Proofs.EditGlobal Proofs.EditTrk
                       Proofs.BookLemmas Proofs.EditNodeBasic.
From FT Require Proofs.EditBook Proofs.EditLin.
Import ListNotations.
Open Scope Z_scope.

(* ================================================================== *)
(* 1. the action, cut into its stages                                   *)
(* ================================================================== *)
Definition vz (v : value) : Z := match v with VZ z => z | _ => 0 end.
(* the time and the requested track id, read off the attributes *)
Definition uan_time (a : attrs) : Z := vz (getd KTime a VNone).
Definition uan_tid0 (a : attrs) : Z := vz (getd KTrack a VNone).
(* the track id the node gets: a fresh one when the requested track is occupied at that time *)
Definition uan_tid (st : state) (a : attrs) : Z :=
  if has_track_at st (uan_tid0 a) (uan_time a) then next_trk st else uan_tid0 a.
Definition uan_attrs (st : state) (a : attrs) : attrs :=
  if has_track_at st (uan_tid0 a) (uan_time a) then set KTrack (VZ (next_trk st)) a else a.
(* get_track_neighbors: the state with the lookup list sorted, and the two neighbours *)
Definition uan_sorted (st : state) (a : attrs) : state := fst (track_neighbors st (uan_tid st a) (uan_time a)).
Definition uan_pred (st : state) (a : attrs) : option Z := fst (snd (track_neighbors st (uan_tid st a) (uan_time a))).
Definition uan_succ (st : state) (a : attrs) : option Z := snd (snd (track_neighbors st (uan_tid st a) (uan_time a))).

(* the conflicting edges: both edges of a dividing pred, else the edge into succ from a dividing parent *)
Definition uan_down (st : state) (succ : option Z) : list (Z * Z) :=
  match succ with
  | Some c => match predecessors st c with
              | q :: _ => if out_degree st q =? 2 then [(q, c)] else []
              | [] => [] end
  | None => [] end.
Definition uan_conflict_edges (st : state) (pred succ : option Z) : list (Z * Z) :=
  match pred with
  | Some p => if out_degree st p =? 2 then map (fun s => (p, s)) (successors st p) else uan_down st succ
  | None => uan_down st succ
  end.
Definition uan_has_conflict (st : state) (pred succ : option Z) : bool :=
  match uan_conflict_edges st pred succ with [] => false | _ => true end.

Lemma uan_conflicts_eq st pred succ force :
  uan_conflicts st pred succ force =
  if uan_has_conflict st pred succ && negb force then Err (EInvalid true) st
  else Ok (uan_conflict_edges st pred succ) st.
Proof.
  unfold uan_conflicts, uan_has_conflict, uan_conflict_edges, uan_down.
  assert (D : forall succ, match succ with
     | Some c => match predecessors st c with
                 | q :: _ => if out_degree st q =? 2 then if negb force then Err (EInvalid true) st else Ok [(q, c)] st else Ok [] st
                 | [] => Ok [] st end
     | None => Ok [] st end =
     if match (match succ with
               | Some c => match predecessors st c with q :: _ => if out_degree st q =? 2 then [(q, c)] else [] | [] => [] end
               | None => [] end) with [] => false | _ => true end && negb force
     then Err (EInvalid true) st
     else Ok (match succ with
              | Some c => match predecessors st c with q :: _ => if out_degree st q =? 2 then [(q, c)] else [] | [] => [] end
              | None => [] end) st).
  { intros [c|]; [|reflexivity]. destruct (predecessors st c) as [|q r]; [reflexivity|].
    destruct (out_degree st q =? 2); [|reflexivity]. cbn [andb]. destruct (negb force); reflexivity. }
  destruct pred as [p|]; [|apply D].
  destruct (out_degree st p =? 2) eqn:E; [|apply D].
  unfold out_degree in E. destruct (successors st p) as [|x r]; [discriminate E|].
  cbn [map andb]. destruct (negb force); reflexivity.
Qed.

(* lineage id of the new node when the caller gave none: that of pred, else of succ, else a fresh one *)
Definition uan_lin_attrs (s : state) (a : attrs) (pred succ : option Z) : attrs :=
  if haskey KLin a then a else
  match (match pred, succ with
         | Some p, _ => zattr s p KLin
         | None, Some c => zattr s c KLin
         | None, None => Some (next_lin s) end) with
  | Some l => set KLin (VZ l) a | None => a end.

(* the four basic steps after the cuts *)
Definition uan_skip (s : state) (pred succ : option Z) (acts : list action) : res (list action) :=
  match pred, succ with
  | Some p, Some c => do b, s <- do_del_edge s p c; Ok (acts ++ [ABasic b]) s
  | _, _ => Ok acts s end.
Definition uan_link_pred (s : state) (n : Z) (pred : option Z) (b : basic) (acts : list action) : res (list action) :=
  match pred with
  | Some p => do b', s <- do_add_edge s p n []; Ok (acts ++ [ABasic b; ABasic b']) s
  | None => Ok (acts ++ [ABasic b]) s end.
Definition uan_link_succ (s : state) (n : Z) (succ : option Z) (acts : list action) : res (list action) :=
  match succ with
  | Some c => do b', s <- do_add_edge s n c []; Ok (acts ++ [ABasic b']) s
  | None => Ok acts s end.
Definition uan_splice (s : state) (n : Z) (a : attrs) (px : option pixels) (pred succ : option Z) (acts : list action) : res action :=
  do acts, s <- uan_skip s pred succ acts;
  do b, s <- do_add_node s n a px;
  do acts, s <- uan_link_pred s n pred b acts;
  do acts, s <- uan_link_succ s n succ acts;
  Ok (AGroup acts) s.
Definition uan_steps (s1 : state) (n : Z) (a : attrs) (px : option pixels) (pred succ : option Z) (es : list (Z * Z)) : res action :=
  do acts, s <- uan_cut es s1 [];
  uan_splice s n (uan_lin_attrs s a pred succ) px pred succ acts.

(* the position check (on the attributes as given: the track id key is present anyway) *)
Definition uan_no_pos (st : state) (a : attrs) (px : option pixels) : bool :=
  match px with None => negb (all_in (pos_keys (ft st)) a) | Some _ => false end.

(* the three checks made before get_track_neighbors *)
Definition uan_early (st : state) (n : Z) (a : attrs) : bool :=
  negb (haskey KTime a) || negb (haskey KTrack a) || has_node st n.

(* the refusals, in the code's order, with their errors *)
Definition uan_refused (st : state) (n : Z) (a : attrs) (px : option pixels) (force : bool) : option err :=
  if negb (haskey KTime a) then Some (EInvalid false) else      (* no time *)
  if negb (haskey KTrack a) then Some (EInvalid false) else     (* no track id *)
  if has_node st n then Some (EInvalid false) else              (* the node id is taken *)
  if uan_has_conflict st (uan_pred st a) (uan_succ st a) && negb force then Some (EInvalid true) else  (* division conflict *)
  if uan_no_pos st a px then Some (EInvalid false) else         (* neither pixels nor a position *)
  None.

(* the state a refusal returns *)
Definition uan_refusal_state (st : state) (n : Z) (a : attrs) : state :=
  if uan_early st n a then st else uan_sorted st a.

(* ---- small facts on attribute dictionaries ---- *)
Lemma haskey_set_other {V} k k' (v : V) d : haskey k d = true -> haskey k (set k' v d) = true.
Proof.
  intros H. destruct (Z.eq_dec k k') as [->|Hn]; [apply haskey_set_eq|]. now rewrite haskey_set_neq.
Qed.
Lemma haskey_set_present {V} k k' (v : V) d : haskey k' d = true -> haskey k (set k' v d) = haskey k d.
Proof.
  intros H. destruct (Z.eq_dec k k') as [->|Hn]; [now rewrite haskey_set_eq|now apply haskey_set_neq].
Qed.
Lemma all_in_set_mono ks k (v : value) a : all_in ks a = true -> all_in ks (set k v a) = true.
Proof.
  unfold all_in. rewrite !forallb_forall. intros H x Hx. apply haskey_set_other. now apply H.
Qed.
Lemma all_in_set_present ks k (v : value) a : haskey k a = true -> all_in ks (set k v a) = all_in ks a.
Proof.
  intros H. unfold all_in. induction ks as [|x r IH]; cbn [forallb]; [reflexivity|].
  now rewrite IH, haskey_set_present.
Qed.

Lemma graph_funs_same_g s s' : g s' = g s ->
  (forall u, successors s' u = successors s u) /\ (forall u, predecessors s' u = predecessors s u) /\
  (forall u, out_degree s' u = out_degree s u).
Proof.
  intros E. split; [|split].
  - intros u. unfold successors, adj. now rewrite E.
  - intros u. unfold predecessors, has_edge, adj. now rewrite E.
  - intros u. unfold out_degree, successors, adj. now rewrite E.
Qed.
Lemma uan_conflict_edges_same_g s s' p c : g s' = g s -> uan_conflict_edges s' p c = uan_conflict_edges s p c.
Proof.
  intros E. destruct (graph_funs_same_g s s' E) as (A & B & C).
  unfold uan_conflict_edges, uan_down. destruct p as [p|]; rewrite ?C, ?A; destruct c as [c|]; rewrite ?B; try reflexivity.
  - destruct (predecessors s c); [reflexivity|]. now rewrite C.
  - destruct (predecessors s c); [reflexivity|]. now rewrite C.
Qed.
Lemma uan_has_conflict_same_g s s' p c : g s' = g s -> uan_has_conflict s' p c = uan_has_conflict s p c.
Proof. intros E. unfold uan_has_conflict. now rewrite (uan_conflict_edges_same_g s s' p c E). Qed.

Lemma uan_sorted_frame st a : g (uan_sorted st a) = g st /\ seg (uan_sorted st a) = seg st /\ ft (uan_sorted st a) = ft st.
Proof.
  unfold uan_sorted, track_neighbors. destruct (lookup _ (trk_book (bk st))) as [[|x l]|]; cbn; repeat split.
Qed.

(* the code is: checks, then the steps *)
Lemma uan_core_cases st n a px force :
  match uan_refused st n a px force with
  | Some e => user_add_node_core st n a px force = Err e (uan_refusal_state st n a)
  | None => user_add_node_core st n a px force =
              uan_steps (uan_sorted st a) n (uan_attrs st a) px (uan_pred st a) (uan_succ st a)
                        (uan_conflict_edges st (uan_pred st a) (uan_succ st a)) /\
            haskey KTime a = true /\ haskey KTrack a = true /\ has_node st n = false /\
            (uan_has_conflict st (uan_pred st a) (uan_succ st a) = true -> force = true) /\
            uan_no_pos st a px = false
  end.
Proof.
  unfold uan_refused, uan_refusal_state, uan_early, user_add_node_core.
  destruct (lookup KTime a) as [tv|] eqn:Et.
  2: { assert (haskey KTime a = false) as -> by (unfold haskey; now rewrite Et). reflexivity. }
  assert (haskey KTime a = true) as -> by (unfold haskey; now rewrite Et).
  destruct (lookup KTrack a) as [kv|] eqn:Ek.
  2: { assert (haskey KTrack a = false) as -> by (unfold haskey; now rewrite Ek). reflexivity. }
  assert (haskey KTrack a = true) as -> by (unfold haskey; now rewrite Ek). cbn [negb orb].
  destruct (has_node st n) eqn:En; [reflexivity|].
  unfold uan_pred, uan_succ, uan_sorted, uan_tid, uan_attrs, uan_time, uan_tid0, getd. rewrite Et, Ek.
  fold (vz tv). fold (vz kv).
  assert (Hk : haskey KTrack a = true) by (unfold haskey; now rewrite Ek).
  set (T := if has_track_at st (vz kv) (vz tv) then next_trk st else vz kv).
  set (a' := if has_track_at st (vz kv) (vz tv) then set KTrack (VZ (next_trk st)) a else a).
  assert (Epair : (if has_track_at st (vz kv) (vz tv) then (next_trk st, set KTrack (VZ (next_trk st)) a) else (vz kv, a)) = (T, a')).
  { unfold T, a'. destruct (has_track_at st (vz kv) (vz tv)); reflexivity. }
  rewrite Epair.
  destruct (track_neighbors st T (vz tv)) as [st1 [pred succ]] eqn:Etn. cbn [fst snd].
  assert (Eg : g st1 = g st /\ ft st1 = ft st).
  { pose proof (f_equal fst Etn) as E1. cbn [fst] in E1. rewrite <- E1. unfold track_neighbors.
    destruct (lookup T (trk_book (bk st))) as [[|x l]|]; cbn; split; reflexivity. }
  destruct Eg as [Eg Ef].
  rewrite uan_conflicts_eq, (uan_has_conflict_same_g st st1 pred succ Eg), (uan_conflict_edges_same_g st st1 pred succ Eg).
  destruct (uan_has_conflict st pred succ && negb force) eqn:Ec; cbn [bind]; [reflexivity|].
  assert (Epos : (match px with None => negb (all_in (pos_keys (ft st1)) a') | Some _ => false end) = uan_no_pos st a px).
  { unfold uan_no_pos. destruct px; [reflexivity|]. rewrite Ef. unfold a'.
    destruct (has_track_at st (vz kv) (vz tv)); [|reflexivity]. now rewrite all_in_set_present. }
  rewrite Epos. destruct (uan_no_pos st a px) eqn:Ep; [reflexivity|].
  split; [reflexivity|]. split; [reflexivity|]. split; [reflexivity|]. split; [reflexivity|]. split; [|reflexivity].
  intros Hc. rewrite Hc in Ec. cbn [andb] in Ec. now destruct force.
Qed.
