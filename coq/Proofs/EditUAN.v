(* UserAddNode on well-formed states (C03, C11; C04/C05/C06 in the last sections).
   The action validates (time / track id present, node id free), picks the track id (a fresh
   one when the requested track already has a node at that time), asks for the in-track
   neighbours (pred, succ) at the new time, refuses on a division conflict unless forced,
   validates the position and the pixels, and then: cuts the conflicting edges (UserDeleteEdge), removes the
   skip edge pred -> succ, adds the node, adds pred -> node and node -> succ.
   This file proves, at the model level:
     - uan_refused computes the refusals that happen before anything but the order inside one
       lookup list is touched, and the error they carry (uan_core_refused, uan_refused_unchanged);
     - when no check fails the action succeeds, the result is a forward-in-time binary forest with
       exactly the expected node and edge sets (uan_core_spec);
     - there is no other error: every error is one of the refusals, so an error never comes with a
       mutated graph (uan_core_ok_iff, uan_error_cases).  The last check is the validation of the
       pixels (px_check), made before the first sub-action.
   No axioms are used. *)
From Coq Require Import ZArith List Bool Lia Relations Permutation.
From FT Require Import Base.Dict Model.Edit Proofs.DictLemmas Proofs.EditInv Proofs.EditGraph Proofs.EditWalk
                       Proofs.EditBasic Proofs.EditUserEdge Proofs.EditUserEdgeCor Proofs.EditGlobal Proofs.EditTrk
                       Proofs.BookLemmas Proofs.EditNodeBasic.
From FT Require Proofs.EditBook Proofs.EditLin.
Import ListNotations.
Open Scope Z_scope.

(* ================================================================== *)
(* 1. the action, cut into its stages                                   *)
(* ================================================================== *)
Definition vz (v : value) : Z := match v with VZ z => z | _ => 0 end.
(* the time and the requested track id, read off the attributes *)
Definition uan_time (a : attrs) : Z := vz (getd KTime a VNone).
Definition uan_tid0 (a : attrs) : Z := vz (getd KTrack a VNone).
(* the track id the node gets: a fresh one when the requested track is occupied at that time *)
Definition uan_tid (st : state) (a : attrs) : Z :=
  if has_track_at st (uan_tid0 a) (uan_time a) then next_trk st else uan_tid0 a.
Definition uan_attrs (st : state) (a : attrs) : attrs :=
  if has_track_at st (uan_tid0 a) (uan_time a) then set KTrack (VZ (next_trk st)) a else a.
(* get_track_neighbors: the state with the lookup list sorted, and the two neighbours *)
Definition uan_sorted (st : state) (a : attrs) : state := fst (track_neighbors st (uan_tid st a) (uan_time a)).
Definition uan_pred (st : state) (a : attrs) : option Z := fst (snd (track_neighbors st (uan_tid st a) (uan_time a))).
Definition uan_succ (st : state) (a : attrs) : option Z := snd (snd (track_neighbors st (uan_tid st a) (uan_time a))).

(* the conflicting edges: both edges of a dividing pred, else the edge into succ from a dividing parent *)
Definition uan_down (st : state) (succ : option Z) : list (Z * Z) :=
  match succ with
  | Some c => match predecessors st c with
              | q :: _ => if out_degree st q =? 2 then [(q, c)] else []
              | [] => [] end
  | None => [] end.
Definition uan_conflict_edges (st : state) (pred succ : option Z) : list (Z * Z) :=
  match pred with
  | Some p => if out_degree st p =? 2 then map (fun s => (p, s)) (successors st p) else uan_down st succ
  | None => uan_down st succ
  end.
Definition uan_has_conflict (st : state) (pred succ : option Z) : bool :=
  match uan_conflict_edges st pred succ with [] => false | _ => true end.

Lemma uan_conflicts_eq st pred succ force :
  uan_conflicts st pred succ force =
  if uan_has_conflict st pred succ && negb force then Err (EInvalid true) st
  else Ok (uan_conflict_edges st pred succ) st.
Proof.
  unfold uan_conflicts, uan_has_conflict, uan_conflict_edges, uan_down.
  assert (D : forall succ, match succ with
     | Some c => match predecessors st c with
                 | q :: _ => if out_degree st q =? 2 then if negb force then Err (EInvalid true) st else Ok [(q, c)] st else Ok [] st
                 | [] => Ok [] st end
     | None => Ok [] st end =
     if match (match succ with
               | Some c => match predecessors st c with q :: _ => if out_degree st q =? 2 then [(q, c)] else [] | [] => [] end
               | None => [] end) with [] => false | _ => true end && negb force
     then Err (EInvalid true) st
     else Ok (match succ with
              | Some c => match predecessors st c with q :: _ => if out_degree st q =? 2 then [(q, c)] else [] | [] => [] end
              | None => [] end) st).
  { intros [c|]; [|reflexivity]. destruct (predecessors st c) as [|q r]; [reflexivity|].
    destruct (out_degree st q =? 2); [|reflexivity]. cbn [andb]. destruct (negb force); reflexivity. }
  destruct pred as [p|]; [|apply D].
  destruct (out_degree st p =? 2) eqn:E; [|apply D].
  unfold out_degree in E. destruct (successors st p) as [|x r]; [discriminate E|].
  cbn [map andb]. destruct (negb force); reflexivity.
Qed.

(* lineage id of the new node when the caller gave none: that of pred, else of succ, else a fresh one *)
Definition uan_lin_attrs (s : state) (a : attrs) (pred succ : option Z) : attrs :=
  if haskey KLin a then a else
  match (match pred, succ with
         | Some p, _ => zattr s p KLin
         | None, Some c => zattr s c KLin
         | None, None => Some (next_lin s) end) with
  | Some l => set KLin (VZ l) a | None => a end.

(* the four basic steps after the cuts *)
Definition uan_skip (s : state) (pred succ : option Z) (acts : list action) : res (list action) :=
  match pred, succ with
  | Some p, Some c => do b, s <- do_del_edge s p c; Ok (acts ++ [ABasic b]) s
  | _, _ => Ok acts s end.
Definition uan_link_pred (s : state) (n : Z) (pred : option Z) (b : basic) (acts : list action) : res (list action) :=
  match pred with
  | Some p => do b', s <- do_add_edge s p n []; Ok (acts ++ [ABasic b; ABasic b']) s
  | None => Ok (acts ++ [ABasic b]) s end.
Definition uan_link_succ (s : state) (n : Z) (succ : option Z) (acts : list action) : res (list action) :=
  match succ with
  | Some c => do b', s <- do_add_edge s n c []; Ok (acts ++ [ABasic b']) s
  | None => Ok acts s end.
Definition uan_splice (s : state) (n : Z) (a : attrs) (px : option pixels) (pred succ : option Z) (acts : list action) : res action :=
  do acts, s <- uan_skip s pred succ acts;
  do b, s <- do_add_node s n a px;
  do acts, s <- uan_link_pred s n pred b acts;
  do acts, s <- uan_link_succ s n succ acts;
  Ok (AGroup acts) s.
Definition uan_steps (s1 : state) (n : Z) (a : attrs) (px : option pixels) (pred succ : option Z) (es : list (Z * Z)) : res action :=
  do acts, s <- uan_cut es s1 [];
  uan_splice s n (uan_lin_attrs s a pred succ) px pred succ acts.

(* the position check (on the attributes as given: the track id key is present anyway) *)
Definition uan_no_pos (st : state) (a : attrs) (px : option pixels) : bool :=
  match px with None => negb (all_in (pos_keys (ft st)) a) | Some _ => false end.

(* the three checks made before get_track_neighbors *)
Definition uan_early (st : state) (n : Z) (a : attrs) : bool :=
  negb (haskey KTime a) || negb (haskey KTrack a) || has_node st n.

(* the refusals, in the code's order, with their errors *)
Definition uan_refused (st : state) (n : Z) (a : attrs) (px : option pixels) (force : bool) : option err :=
  if negb (haskey KTime a) then Some (EInvalid false) else      (* no time *)
  if negb (haskey KTrack a) then Some (EInvalid false) else     (* no track id *)
  if has_node st n then Some (EInvalid false) else              (* the node id is taken *)
  if uan_has_conflict st (uan_pred st a) (uan_succ st a) && negb force then Some (EInvalid true) else  (* division conflict *)
  if uan_no_pos st a px then Some (EInvalid false) else         (* neither pixels nor a position *)
  px_check st px.                                               (* pixels set_pixels would reject: ValueError / IndexError *)

(* the state a refusal returns *)
Definition uan_refusal_state (st : state) (n : Z) (a : attrs) : state :=
  if uan_early st n a then st else uan_sorted st a.

(* ---- small facts on attribute dictionaries ---- *)
Lemma haskey_set_other {V} k k' (v : V) d : haskey k d = true -> haskey k (set k' v d) = true.
Proof.
  intros H. destruct (Z.eq_dec k k') as [->|Hn]; [apply haskey_set_eq|]. now rewrite haskey_set_neq.
Qed.
Lemma haskey_set_present {V} k k' (v : V) d : haskey k' d = true -> haskey k (set k' v d) = haskey k d.
Proof.
  intros H. destruct (Z.eq_dec k k') as [->|Hn]; [now rewrite haskey_set_eq|now apply haskey_set_neq].
Qed.
Lemma all_in_set_mono ks k (v : value) a : all_in ks a = true -> all_in ks (set k v a) = true.
Proof.
  unfold all_in. rewrite !forallb_forall. intros H x Hx. apply haskey_set_other. now apply H.
Qed.
Lemma all_in_set_present ks k (v : value) a : haskey k a = true -> all_in ks (set k v a) = all_in ks a.
Proof.
  intros H. unfold all_in. induction ks as [|x r IH]; cbn [forallb]; [reflexivity|].
  now rewrite IH, haskey_set_present.
Qed.

Lemma graph_funs_same_g s s' : g s' = g s ->
  (forall u, successors s' u = successors s u) /\ (forall u, predecessors s' u = predecessors s u) /\
  (forall u, out_degree s' u = out_degree s u).
Proof.
  intros E. split; [|split].
  - intros u. unfold successors, adj. now rewrite E.
  - intros u. unfold predecessors, has_edge, adj. now rewrite E.
  - intros u. unfold out_degree, successors, adj. now rewrite E.
Qed.
Lemma uan_conflict_edges_same_g s s' p c : g s' = g s -> uan_conflict_edges s' p c = uan_conflict_edges s p c.
Proof.
  intros E. destruct (graph_funs_same_g s s' E) as (A & B & C).
  unfold uan_conflict_edges, uan_down. destruct p as [p|]; rewrite ?C, ?A; destruct c as [c|]; rewrite ?B; try reflexivity.
  - destruct (predecessors s c); [reflexivity|]. now rewrite C.
  - destruct (predecessors s c); [reflexivity|]. now rewrite C.
Qed.
Lemma uan_has_conflict_same_g s s' p c : g s' = g s -> uan_has_conflict s' p c = uan_has_conflict s p c.
Proof. intros E. unfold uan_has_conflict. now rewrite (uan_conflict_edges_same_g s s' p c E). Qed.

Lemma uan_sorted_frame st a : g (uan_sorted st a) = g st /\ seg (uan_sorted st a) = seg st /\ ft (uan_sorted st a) = ft st.
Proof.
  unfold uan_sorted, track_neighbors. destruct (lookup _ (trk_book (bk st))) as [[|x l]|]; cbn; repeat split.
Qed.

(* the code is: checks, then the steps *)
Lemma uan_core_cases st n a px force :
  match uan_refused st n a px force with
  | Some e => user_add_node_core st n a px force = Err e (uan_refusal_state st n a)
  | None => user_add_node_core st n a px force =
              uan_steps (uan_sorted st a) n (uan_attrs st a) px (uan_pred st a) (uan_succ st a)
                        (uan_conflict_edges st (uan_pred st a) (uan_succ st a)) /\
            haskey KTime a = true /\ haskey KTrack a = true /\ has_node st n = false /\
            (uan_has_conflict st (uan_pred st a) (uan_succ st a) = true -> force = true) /\
            uan_no_pos st a px = false /\ px_check st px = None
  end.
Proof.
  unfold uan_refused, uan_refusal_state, uan_early, user_add_node_core.
  destruct (lookup KTime a) as [tv|] eqn:Et.
  2: { assert (haskey KTime a = false) as -> by (unfold haskey; now rewrite Et). reflexivity. }
  assert (haskey KTime a = true) as -> by (unfold haskey; now rewrite Et).
  destruct (lookup KTrack a) as [kv|] eqn:Ek.
  2: { assert (haskey KTrack a = false) as -> by (unfold haskey; now rewrite Ek). reflexivity. }
  assert (haskey KTrack a = true) as -> by (unfold haskey; now rewrite Ek). cbn [negb orb].
  destruct (has_node st n) eqn:En; [reflexivity|].
  unfold uan_pred, uan_succ, uan_sorted, uan_tid, uan_attrs, uan_time, uan_tid0, getd. rewrite Et, Ek.
  fold (vz tv). fold (vz kv).
  assert (Hk : haskey KTrack a = true) by (unfold haskey; now rewrite Ek).
  set (T := if has_track_at st (vz kv) (vz tv) then next_trk st else vz kv).
  set (a' := if has_track_at st (vz kv) (vz tv) then set KTrack (VZ (next_trk st)) a else a).
  assert (Epair : (if has_track_at st (vz kv) (vz tv) then (next_trk st, set KTrack (VZ (next_trk st)) a) else (vz kv, a)) = (T, a')).
  { unfold T, a'. destruct (has_track_at st (vz kv) (vz tv)); reflexivity. }
  rewrite Epair.
  destruct (track_neighbors st T (vz tv)) as [st1 [pred succ]] eqn:Etn. cbn [fst snd].
  assert (Eg : g st1 = g st /\ ft st1 = ft st /\ seg st1 = seg st).
  { pose proof (f_equal fst Etn) as E1. cbn [fst] in E1. rewrite <- E1. unfold track_neighbors.
    destruct (lookup T (trk_book (bk st))) as [[|x l]|]; cbn; repeat split; reflexivity. }
  destruct Eg as (Eg & Ef & Esg).
  rewrite uan_conflicts_eq, (uan_has_conflict_same_g st st1 pred succ Eg), (uan_conflict_edges_same_g st st1 pred succ Eg).
  destruct (uan_has_conflict st pred succ && negb force) eqn:Ec; cbn [bind]; [reflexivity|].
  assert (Epos : (match px with None => negb (all_in (pos_keys (ft st1)) a') | Some _ => false end) = uan_no_pos st a px).
  { unfold uan_no_pos. destruct px; [reflexivity|]. rewrite Ef. unfold a'.
    destruct (has_track_at st (vz kv) (vz tv)); [|reflexivity]. now rewrite all_in_set_present. }
  rewrite Epos. destruct (uan_no_pos st a px) eqn:Ep; [reflexivity|].
  assert (Epx : px_check st1 px = px_check st px) by (unfold px_check; now rewrite Esg).
  rewrite Epx. destruct (px_check st px) as [e|] eqn:Epc; [reflexivity|].
  split; [reflexivity|]. split; [reflexivity|]. split; [reflexivity|]. split; [reflexivity|]. split; [|split; reflexivity].
  intros Hc. rewrite Hc in Ec. cbn [andb] in Ec. now destruct force.
Qed.

(* ================================================================== *)
(* 2. refusals (C11)                                                    *)
(* ================================================================== *)
(* get_track_neighbors only reorders one lookup list *)
Lemma track_neighbors_reordered st T t : EditBook.reordered T st (fst (track_neighbors st T t)).
Proof.
  unfold track_neighbors. destruct (lookup T (trk_book (bk st))) as [[|x l]|] eqn:El; cbn [fst]; try apply EditBook.reordered_refl.
  pose proof (EditBook.sort_by_time_perm st (x :: l)) as Hp.
  remember (sort_by_time st (x :: l)) as l' eqn:El'. clear El'.
  unfold EditBook.reordered. cbn. do 10 (split; [reflexivity|]).
  split; [apply keys_set_in; eapply lookup_Some_keys; eauto|].
  split; [intros T' HT; now apply lookup_set_neq|].
  intros l1 E1. rewrite El in E1. injection E1 as <-.
  exists l'. split; [apply lookup_set_eq|exact Hp].
Qed.

Lemma uan_refusal_state_reordered st n a : EditBook.reordered (uan_tid st a) st (uan_refusal_state st n a).
Proof.
  unfold uan_refusal_state. destruct (uan_early st n a); [apply EditBook.reordered_refl|apply track_neighbors_reordered].
Qed.

(* a refused UserAddNode: the error is the one of the first failing check; the state returned is the
   given one when the check precedes get_track_neighbors, else the given one with one lookup list sorted *)
Theorem uan_core_refused st n a px force e : uan_refused st n a px force = Some e ->
  exists st', user_add_node_core st n a px force = Err e st' /\
    EditBook.reordered (uan_tid st a) st st' /\ (uan_early st n a = true -> st' = st).
Proof.
  intros R. pose proof (uan_core_cases st n a px force) as C. rewrite R in C.
  exists (uan_refusal_state st n a). split; [exact C|]. split; [apply uan_refusal_state_reordered|].
  intros E. unfold uan_refusal_state. now rewrite E.
Qed.

(* the same, field by field: graph (nodes, attributes, edges), array, features, history, log, counters are
   unchanged; the lineage lookup is unchanged; the track lookup has the same keys and, per key, the same members *)
Definition untouched (st st' : state) : Prop :=
  g st' = g st /\ seg st' = seg st /\ ft st' = ft st /\ undo_stack st' = undo_stack st /\
  redo_stack st' = redo_stack st /\ rlog st' = rlog st /\ nctr st' = nctr st /\
  lin_book (bk st') = lin_book (bk st) /\ max_trk (bk st') = max_trk (bk st) /\ max_lin (bk st') = max_lin (bk st) /\
  keys (trk_book (bk st')) = keys (trk_book (bk st)) /\
  (forall T l, lookup T (trk_book (bk st)) = Some l -> exists l', lookup T (trk_book (bk st')) = Some l' /\ Permutation l l').

Lemma reordered_untouched T st st' : EditBook.reordered T st st' -> untouched st st'.
Proof.
  intros (A1&A2&A3&A4&A5&A6&A7&A8&A9&A10&A11&A12&A13). unfold untouched. do 11 (split; [assumption|]).
  intros T' l E. destruct (Z.eq_dec T' T) as [->|Hn]; [now apply A13|].
  exists l. split; [now rewrite A12|apply Permutation_refl].
Qed.
Lemma untouched_refl st : untouched st st.
Proof. apply (reordered_untouched 0). apply EditBook.reordered_refl. Qed.

Theorem uan_refused_unchanged st n a px force e : uan_refused st n a px force = Some e ->
  exists st', user_add_node_core st n a px force = Err e st' /\ untouched st st'.
Proof.
  intros R. destruct (uan_core_refused st n a px force e R) as (st' & H & Hr & _).
  exists st'. split; [exact H|]. eapply reordered_untouched; eauto.
Qed.

(* the refusals, spelled out *)
Theorem uan_refusals st n a px force :
  (haskey KTime a = false -> user_add_node_core st n a px force = Err (EInvalid false) st) /\
  (haskey KTrack a = false -> user_add_node_core st n a px force = Err (EInvalid false) st) /\
  (has_node st n = true -> user_add_node_core st n a px force = Err (EInvalid false) st) /\
  (haskey KTime a = true -> haskey KTrack a = true -> has_node st n = false ->
   uan_has_conflict st (uan_pred st a) (uan_succ st a) = true -> force = false ->
   user_add_node_core st n a px force = Err (EInvalid true) (uan_sorted st a)) /\
  (haskey KTime a = true -> haskey KTrack a = true -> has_node st n = false ->
   (uan_has_conflict st (uan_pred st a) (uan_succ st a) = true -> force = true) ->
   px = None -> all_in (pos_keys (ft st)) a = false ->
   user_add_node_core st n a px force = Err (EInvalid false) (uan_sorted st a)) /\
  (haskey KTime a = true -> haskey KTrack a = true -> has_node st n = false ->
   (uan_has_conflict st (uan_pred st a) (uan_succ st a) = true -> force = true) ->
   forall e, px_check st px = Some e ->
   user_add_node_core st n a px force = Err e (uan_sorted st a)).
Proof.
  pose proof (uan_core_cases st n a px force) as C. unfold uan_refused, uan_refusal_state, uan_early in C.
  split; [|split; [|split; [|split; [|split]]]].
  - intros H. rewrite H in C. exact C.
  - intros H. rewrite H in C. destruct (haskey KTime a); exact C.
  - intros H. rewrite H in C. rewrite !orb_true_r in C. destruct (haskey KTime a); [destruct (haskey KTrack a)|]; exact C.
  - intros H1 H2 H3 H4 ->. rewrite H1, H2, H3, H4 in C. exact C.
  - intros H1 H2 H3 H4 -> H6. rewrite H1, H2, H3 in C. cbn [negb orb] in C.
    destruct (uan_has_conflict st (uan_pred st a) (uan_succ st a)); [rewrite (H4 eq_refl) in *|]; cbn [negb andb] in C;
      unfold uan_no_pos in C; rewrite H6 in C; exact C.
  - intros H1 H2 H3 H4 e H5. rewrite H1, H2, H3 in C. cbn [negb orb] in C.
    assert (Hp : uan_no_pos st a px = false) by (unfold uan_no_pos; destruct px; [reflexivity|discriminate H5]).
    rewrite Hp, H5 in C.
    destruct (uan_has_conflict st (uan_pred st a) (uan_succ st a)); [rewrite (H4 eq_refl) in *|]; cbn [negb andb] in C; exact C.
Qed.

(* the pixel validation, as a proposition *)
Lemma px_check_ok st px : px_check st px = None <-> px_ok st px.
Proof.
  unfold px_check. destruct px as [p|]; cbn [px_ok]; [|tauto].
  destruct (seg st) as [sg|].
  - destruct (frame_ok sg (fst p)) eqn:E; split; [eauto|reflexivity|discriminate|].
    intros (sg' & [= <-] & F). congruence.
  - split; [discriminate|]. intros (sg' & C & _). discriminate C.
Qed.
Lemma px_check_err st px e : px_check st px = Some e ->
  px <> None /\ ((e = EValue /\ seg st = None) \/ (e = EIndex /\ seg st <> None)).
Proof.
  unfold px_check. destruct px as [p|]; [|discriminate]. intros H. split; [discriminate|].
  destruct (seg st) as [sg|]; [|injection H as <-; auto].
  destruct (frame_ok sg (fst p)); [discriminate|]. injection H as <-. right. split; [reflexivity|discriminate].
Qed.

(* ================================================================== *)
(* 3. the cuts                                                          *)
(* ================================================================== *)
Lemma uan_cut_spec : forall es s acc, W_dict s -> W_forest s -> NoDup es ->
  (forall e, In e es -> edge s (fst e) (snd e)) ->
  exists r s', uan_cut es s acc = Ok r s' /\ W_dict s' /\ W_forest s' /\ gstep s s' /\
    (forall x y, edge s' x y <-> edge s x y /\ ~ In (x, y) es).
Proof.
  induction es as [|e r IH]; intros s acc Hd Hf Hnd He; cbn [uan_cut].
  - exists acc, s. split; [reflexivity|]. split; [exact Hd|]. split; [exact Hf|]. split; [apply gstep_refl|].
    intros x y. cbn [In]. tauto.
  - inversion Hnd as [|? ? Hni Hnd']; subst.
    destruct (ude_core_spec s (fst e) (snd e) Hd Hf) as [_ Hy].
    destruct (Hy (He e (or_introl eq_refl))) as (a1 & s1 & H1 & Hd1 & Hf1 & G1 & E1 & _).
    unfold user_delete_edge, top_wrap. rewrite H1. cbn [bind].
    destruct (IH s1 (acc ++ [a1]) Hd1 Hf1 Hnd') as (r' & s' & H' & Hd' & Hf' & G' & E').
    { intros e' Hin. apply E1. split; [apply He; now right|].
      intros [A B]. apply Hni. destruct e as [e1 e2], e' as [e1' e2']. cbn [fst snd] in A, B. now subst. }
    exists r', s'. split; [exact H'|]. split; [exact Hd'|]. split; [exact Hf'|].
    split; [eapply gstep_trans; eauto|].
    intros x y. rewrite E', E1. cbn [In]. destruct e as [e1 e2]. cbn [fst snd]. split.
    + intros [[A B] C]. split; [exact A|]. intros [D|D]; [injection D as <- <-; apply B; auto|contradiction].
    + intros [A B]. split; [split; [exact A|]|]; [intros [-> ->]; apply B; now left|intros C; apply B; now right].
Qed.

(* ================================================================== *)
(* 4. the neighbours and the conflicting edges                          *)
(* ================================================================== *)
(* the track id finally used has no node at the new time *)
Lemma uan_tid_free st a : W_book st -> has_track_at st (uan_tid st a) (uan_time a) = false.
Proof.
  intros Wb. unfold uan_tid. destruct (has_track_at st (uan_tid0 a) (uan_time a)) eqn:E; [|exact E].
  destruct (has_track_at st (next_trk st) (uan_time a)) eqn:E'; [|reflexivity].
  apply (EditBook.has_track_at_spec st _ _ Wb) in E'. destruct E' as (m & Nm & Tm & _).
  exfalso. exact (EditBook.next_trk_fresh st Wb m Nm Tm).
Qed.

Lemma uan_neighbors_eq st a :
  track_neighbors st (uan_tid st a) (uan_time a) = (uan_sorted st a, (uan_pred st a, uan_succ st a)).
Proof. unfold uan_sorted, uan_pred, uan_succ. destruct (track_neighbors st _ _) as [s [p c]]. reflexivity. Qed.

(* what get_track_neighbors returns, on a well-formed state *)
Lemma uan_nbr_facts st a : W_dict st -> W_forest st -> W_trk st -> W_book st ->
  W_book (uan_sorted st a) /\
  (forall p, uan_pred st a = Some p ->
     is_node st p /\ time_of st p < uan_time a /\ trk st p = Some (uan_tid st a) /\
     (forall c, uan_succ st a = Some c -> successors st p = [c] /\ predecessors st c = [p]) /\
     (uan_succ st a = None -> length (successors st p) <> 1%nat)) /\
  (forall c, uan_succ st a = Some c ->
     is_node st c /\ uan_time a < time_of st c /\ trk st c = Some (uan_tid st a) /\
     (uan_pred st a = None -> head st c)).
Proof.
  intros Hd Hf Ht Wb. pose proof (uan_neighbors_eq st a) as E. pose proof (uan_tid_free st a Wb) as Hno.
  destruct (uan_pred st a) as [p|]; destruct (uan_succ st a) as [c|].
  - destruct (neighbors_adjacent st _ _ _ p c Hd Hf Ht Wb E Hno) as (He & Hnd & Hs & Hp & Tp & Tc & Htm & _ & Wb').
    destruct (wd_edge_nodes _ Hd p c He) as [Np Nc].
    split; [exact Wb'|]. split.
    + intros p0 [= <-]. split; [exact Np|]. split; [lia|]. split; [exact Tp|]. split; [|discriminate].
      intros c0 [= <-]. now split.
    + intros c0 [= <-]. split; [exact Nc|]. split; [lia|]. split; [exact Tc|]. discriminate.
  - destruct (neighbors_pred_only st _ _ _ p Hd Hf Ht Wb E Hno) as (Hl & Tp & Htm & _ & Wb').
    split; [exact Wb'|]. split; [|discriminate].
    intros p0 [= <-]. split; [eapply EditBook.zattr_is_node; exact Tp|]. split; [exact Htm|]. split; [exact Tp|].
    split; [discriminate|]. intros _. exact Hl.
  - destruct (neighbors_succ_only st _ _ _ c Hd Hf Ht Wb E Hno) as (Hh & Tc & Htm & _ & Wb').
    split; [exact Wb'|]. split; [discriminate|].
    intros c0 [= <-]. split; [apply Hh|]. split; [exact Htm|]. split; [exact Tc|]. intros _. exact Hh.
  - destruct (EditBook.track_neighbors_spec st _ _ _ _ _ Wb E) as (_ & Wb' & _). split; [exact Wb'|]. split; discriminate.
Qed.

Lemma out_degree_2 st u : out_degree st u =? 2 = true <-> length (successors st u) = 2%nat.
Proof. unfold out_degree. rewrite Z.eqb_eq. lia. Qed.

Lemma in_map_pair (p x y : Z) l : In (x, y) (map (fun s => (p, s)) l) <-> x = p /\ In y l.
Proof.
  rewrite in_map_iff. split.
  - intros (s & E & Hs). injection E as <- <-. auto.
  - intros [-> Hy]. exists y. auto.
Qed.

(* the plan: the conflicting edges are distinct edges of the graph; once they are removed pred has no child
   but succ, and succ no parent but pred; nothing conflicts when both neighbours exist *)
Lemma uan_plan st a : W_dict st -> W_forest st -> W_trk st -> W_book st ->
  let pred := uan_pred st a in let succ := uan_succ st a in let es := uan_conflict_edges st pred succ in
  NoDup es /\ (forall e, In e es -> edge st (fst e) (snd e)) /\
  (forall p y, pred = Some p -> edge st p y -> ~ In (p, y) es -> succ = Some y) /\
  (forall c q, succ = Some c -> edge st q c -> ~ In (q, c) es -> pred = Some q) /\
  (forall p c, pred = Some p -> succ = Some c -> es = []).
Proof.
  intros Hd Hf Ht Wb. cbv zeta. destruct (uan_nbr_facts st a Hd Hf Ht Wb) as (_ & FP & FS).
  assert (Hdown : forall c, NoDup (uan_down st (Some c)) /\ (forall e, In e (uan_down st (Some c)) -> edge st (fst e) (snd e))).
  { intros c. unfold uan_down. destruct (predecessors st c) as [|q r] eqn:Ep; [split; [constructor|intros e []]|].
    destruct (out_degree st q =? 2); [|split; [constructor|intros e []]].
    split; [repeat constructor; intros []|]. intros e [<-|[]]. cbn [fst snd].
    assert (In q (predecessors st c)) as Hin by (rewrite Ep; now left). apply in_predecessors in Hin. tauto. }
  unfold uan_conflict_edges.
  destruct (uan_pred st a) as [p|] eqn:EP.
  - destruct (FP p eq_refl) as (Np & Tmp & Tp & Hboth & Hlast).
    destruct (out_degree st p =? 2) eqn:Eo.
    + (* pred divides: both its edges go; succ cannot exist *)
      apply out_degree_2 in Eo.
      assert (Hnos : uan_succ st a = None).
      { destruct (uan_succ st a) as [c|]; [|reflexivity]. destruct (Hboth c eq_refl) as [Hs _]. rewrite Hs in Eo. discriminate Eo. }
      split; [|split; [|split; [|split]]].
      * apply FinFun.Injective_map_NoDup; [intros x y [= ->]; reflexivity|apply (wd_adj_nodup _ Hd)].
      * intros [x y] Hin. apply in_map_pair in Hin. destruct Hin as [-> Hy]. cbn [fst snd]. now apply edge_successors.
      * intros p0 y [= <-] He Hni. exfalso. apply Hni. apply in_map_pair. split; [reflexivity|now apply edge_successors].
      * intros c q Hc. rewrite Hnos in Hc. discriminate Hc.
      * intros p0 c _ Hc. rewrite Hnos in Hc. discriminate Hc.
    + assert (Eo' : length (successors st p) <> 2%nat) by (intros C; apply out_degree_2 in C; congruence).
      destruct (uan_succ st a) as [c|] eqn:ES.
      * destruct (Hboth c eq_refl) as [Hs Hp].
        assert (Enil : uan_down st (Some c) = []).
        { unfold uan_down. rewrite Hp, Eo. reflexivity. }
        rewrite Enil. split; [constructor|]. split; [intros e []|]. split; [|split; [|reflexivity]].
        -- intros p0 y [= <-] He _. apply edge_successors in He. rewrite Hs in He. destruct He as [<-|[]]. reflexivity.
        -- intros c0 q [= <-] He _. f_equal.
           assert (In q (predecessors st c)) as Hin by (apply in_predecessors; split; [apply (wd_edge_nodes _ Hd q c He)|exact He]).
           rewrite Hp in Hin. destruct Hin as [<-|[]]. reflexivity.
      * cbn [uan_down]. split; [constructor|]. split; [intros e []|]. split; [|split; [discriminate|reflexivity]].
        intros p0 y [= <-] He _. exfalso. pose proof (Hlast eq_refl) as H1. pose proof (wf_out _ Hf p) as H2.
        apply edge_successors in He. destruct (successors st p) as [|z [|z2 [|z3 r]]]; cbn [length] in *; [destruct He|lia|lia|lia].
  - destruct (uan_succ st a) as [c|] eqn:ES.
    + destruct (Hdown c) as [A B]. split; [exact A|]. split; [exact B|]. split; [discriminate|]. split; [|discriminate].
      intros c0 q [= <-] He Hni. exfalso. destruct (FS c eq_refl) as (Nc & _ & _ & Hh). destruct (Hh eq_refl) as [_ Hdiv].
      pose proof (Hdiv q He) as Dq. unfold divides in Dq. pose proof (wf_out _ Hf q) as Oq.
      assert (Eq2 : out_degree st q =? 2 = true) by (apply out_degree_2; lia).
      assert (Hq : In q (predecessors st c)) by (apply in_predecessors; split; [apply (wd_edge_nodes _ Hd q c He)|exact He]).
      apply Hni. unfold uan_down. destruct (predecessors st c) as [|q' r] eqn:Ep; [destruct Hq|].
      assert (q' = q) as ->.
      { assert (In q' (predecessors st c)) as Hin by (rewrite Ep; now left). apply in_predecessors in Hin.
        apply (wf_in _ Hf q' q c); tauto. }
      rewrite Eq2. now left.
    + cbn [uan_down]. split; [constructor|]. split; [intros e []|]. split; [discriminate|]. split; discriminate.
Qed.

(* ================================================================== *)
(* 5. the splice: skip edge out, node in, two edges in                  *)
(* ================================================================== *)
(* a step that only changes the edge relation *)
Definition estep (s s' : state) : Prop :=
  node_ids s' = node_ids s /\ (forall m k, attr s' m k = attr s m k) /\ rest_eq s s'.
Lemma estep_refl s : estep s s.
Proof. split; [reflexivity|]. split; [reflexivity|apply rest_eq_refl]. Qed.
Lemma estep_trans a b c : estep a b -> estep b c -> estep a c.
Proof.
  intros (A1 & A2 & A3) (B1 & B2 & B3). split; [congruence|]. split; [|eapply rest_eq_trans; eauto].
  intros m k. now rewrite B2, A2.
Qed.
Lemma estep_is_node s s' m : estep s s' -> (is_node s' m <-> is_node s m).
Proof. intros (A & _). unfold is_node. now rewrite A. Qed.
Lemma estep_time s s' m : estep s s' -> time_of s' m = time_of s m.
Proof. intros (_ & A & _). unfold time_of, zattr. now rewrite A. Qed.
Lemma estep_trk s s' m : estep s s' -> trk s' m = trk s m.
Proof. intros (_ & A & _). unfold trk, zattr. now rewrite A. Qed.
Lemma estep_lin s s' m : estep s s' -> lin s' m = lin s m.
Proof. intros (_ & A & _). unfold lin, zattr. now rewrite A. Qed.
Lemma estep_ft s s' : estep s s' -> ft s' = ft s.
Proof. intros (_ & _ & R). apply R. Qed.
Lemma estep_seg s s' : estep s s' -> seg s' = seg s.
Proof. intros (_ & _ & R). apply R. Qed.
Lemma estep_bk s s' : estep s s' -> bk s' = bk s.
Proof. intros (_ & _ & R). apply R. Qed.
Lemma estep_hist s s' : estep s s' -> hist_eq s s'.
Proof. intros (_ & _ & R). now apply rest_eq_hist. Qed.
Lemma estep_gstep s s' : estep s s' -> gstep s s'.
Proof. intros (A & B & C). now apply rest_eq_gstep. Qed.

Lemma no_edges_nil st u : (forall y, ~ edge st u y) -> successors st u = [].
Proof.
  intros H. destruct (successors st u) as [|y r] eqn:E; [reflexivity|].
  exfalso. apply (H y). apply edge_successors. rewrite E. now left.
Qed.

(* DeleteEdge(pred, succ) when both exist *)
Lemma uan_skip_step s pred succ acts : W_dict s -> W_forest s ->
  (forall p c, pred = Some p -> succ = Some c -> edge s p c) ->
  exists r s', uan_skip s pred succ acts = Ok r s' /\ W_dict s' /\ W_forest s' /\ estep s s' /\
    (forall x y, edge s' x y <-> edge s x y /\ ~ (pred = Some x /\ succ = Some y)) /\ (W_book s -> W_book s').
Proof.
  intros Hd Hf He. unfold uan_skip.
  assert (Hnone : (pred = None \/ succ = None) ->
    exists r s', Ok acts s = Ok r s' /\ W_dict s' /\ W_forest s' /\ estep s s' /\
      (forall x y, edge s' x y <-> edge s x y /\ ~ (pred = Some x /\ succ = Some y)) /\ (W_book s -> W_book s')).
  { intros Hn. exists acts, s. split; [reflexivity|]. split; [exact Hd|]. split; [exact Hf|]. split; [apply estep_refl|].
    split; [|auto].
    intros x y. split; [|tauto]. intros H. split; [exact H|]. intros [A B]. destruct Hn as [Hn|Hn]; congruence. }
  destruct pred as [p|]; [|apply Hnone; now left]. destruct succ as [c|]; [|apply Hnone; now right].
  destruct (do_del_edge_spec s p c (He p c eq_refl eq_refl)) as (b & s' & H & _). rewrite H. cbn [bind].
  destruct (do_del_edge_WS s p c b s' Hd Hf H) as (Hd' & Hf' & E' & Hn' & Ha' & Hr').
  exists (acts ++ [ABasic b]), s'. split; [reflexivity|]. split; [exact Hd'|]. split; [exact Hf'|].
  split; [split; [exact Hn'|split; [exact Ha'|exact Hr']]|].
  split; [|apply (EditBook.del_edge_W_book s p c b s' H)].
  intros x y. rewrite E'. split; intros [A B]; (split; [exact A|]).
  - intros [[= <-] [= <-]]. apply B. auto.
  - intros [-> ->]. apply B. auto.
Qed.

(* AddEdge(u, v) onto a parentless v from a u with room *)
Lemma add_edge_step s u v : W_dict s -> W_forest s -> is_node s u -> is_node s v ->
  time_of s u < time_of s v -> (forall q, ~ edge s q v) -> (length (successors s u) <= 1)%nat ->
  exists b s', do_add_edge s u v [] = Ok b s' /\ W_dict s' /\ W_forest s' /\ estep s s' /\
    (forall x y, edge s' x y <-> edge s x y \/ (x = u /\ y = v)) /\ (W_book s -> W_book s').
Proof.
  intros Hd Hf Nu Nv Ht Hnp Ho.
  destruct (do_add_edge_spec s u v [] Nu Nv) as (b & s' & H & _). exists b, s'. split; [exact H|].
  destruct (do_add_edge_WS s u v [] b s' Hd Hf H Ht) as (Hd' & Hf' & E' & Hn' & Ha' & Hr').
  { intros q Hq. exfalso. exact (Hnp q Hq). }
  { now right. }
  split; [exact Hd'|]. split; [exact Hf'|]. split; [split; [exact Hn'|split; [exact Ha'|exact Hr']]|].
  split; [exact E'|apply (EditBook.add_edge_W_book s u v [] b s' H)].
Qed.

Lemma uan_link_pred_step s n pred b acts : W_dict s -> W_forest s -> is_node s n -> (forall q, ~ edge s q n) ->
  (forall p, pred = Some p -> is_node s p /\ time_of s p < time_of s n /\ (forall y, ~ edge s p y)) ->
  exists r s', uan_link_pred s n pred b acts = Ok r s' /\ W_dict s' /\ W_forest s' /\ estep s s' /\
    (forall x y, edge s' x y <-> edge s x y \/ (pred = Some x /\ y = n)) /\ (W_book s -> W_book s').
Proof.
  intros Hd Hf Nn Hnp Hp. unfold uan_link_pred. destruct pred as [p|].
  - destruct (Hp p eq_refl) as (Np & Ht & Hno).
    destruct (add_edge_step s p n Hd Hf Np Nn Ht Hnp) as (b' & s' & H & Hd' & Hf' & Es & E' & Wb').
    { rewrite (no_edges_nil s p Hno). cbn. lia. }
    rewrite H. cbn [bind]. eexists _, s'. split; [reflexivity|]. split; [exact Hd'|]. split; [exact Hf'|]. split; [exact Es|].
    split; [|exact Wb'].
    intros x y. rewrite E'. split; (intros [A|[A B]]; [now left|right]).
    + subst. auto.
    + injection A as <-. auto.
  - eexists _, s. split; [reflexivity|]. split; [exact Hd|]. split; [exact Hf|]. split; [apply estep_refl|].
    split; [|auto].
    intros x y. split; [now left|intros [A|[A _]]; [exact A|discriminate A]].
Qed.

Lemma uan_link_succ_step s n succ acts : W_dict s -> W_forest s -> is_node s n -> (length (successors s n) <= 1)%nat ->
  (forall c, succ = Some c -> is_node s c /\ time_of s n < time_of s c /\ (forall q, ~ edge s q c)) ->
  exists r s', uan_link_succ s n succ acts = Ok r s' /\ W_dict s' /\ W_forest s' /\ estep s s' /\
    (forall x y, edge s' x y <-> edge s x y \/ (x = n /\ succ = Some y)) /\ (W_book s -> W_book s').
Proof.
  intros Hd Hf Nn Ho Hc. unfold uan_link_succ. destruct succ as [c|].
  - destruct (Hc c eq_refl) as (Nc & Ht & Hno).
    destruct (add_edge_step s n c Hd Hf Nn Nc Ht Hno Ho) as (b' & s' & H & Hd' & Hf' & Es & E' & Wb').
    rewrite H. cbn [bind]. eexists _, s'. split; [reflexivity|]. split; [exact Hd'|]. split; [exact Hf'|]. split; [exact Es|].
    split; [|exact Wb'].
    intros x y. rewrite E'. split; (intros [A|[A B]]; [now left|right]).
    + subst. auto.
    + injection B as <-. auto.
  - eexists _, s. split; [reflexivity|]. split; [exact Hd|]. split; [exact Hf|]. split; [apply estep_refl|].
    split; [|auto].
    intros x y. split; [now left|intros [A|[_ A]]; [exact A|discriminate A]].
Qed.

(* the splice on a state in which pred has no child but succ and succ no parent but pred *)
Lemma uan_splice_spec s n a px pred succ acts t T L :
  W_dict s -> W_forest s -> ~ is_node s n -> EditBook.rp_disjoint s -> NoDup (keys a) ->
  lookup KTime a = Some (VZ t) -> lookup KTrack a = Some (VZ T) -> lookup KLin a = Some (VZ L) ->
  (px = None -> all_in (pos_keys (ft s)) a = true) -> px_ok s px ->
  (forall p, pred = Some p -> is_node s p /\ time_of s p < t) ->
  (forall c, succ = Some c -> is_node s c /\ t < time_of s c) ->
  (forall p c, pred = Some p -> succ = Some c -> edge s p c) ->
  (forall p y, pred = Some p -> edge s p y -> succ = Some y) ->
  (forall c q, succ = Some c -> edge s q c -> pred = Some q) ->
  exists act s', uan_splice s n a px pred succ acts = Ok act s' /\ W_dict s' /\ W_forest s' /\
    (forall m, is_node s' m <-> is_node s m \/ m = n) /\ node_ids s' = node_ids s ++ [n] /\
    (forall x y, edge s' x y <-> (edge s x y /\ ~ (pred = Some x /\ succ = Some y)) \/
                                  (pred = Some x /\ y = n) \/ (x = n /\ succ = Some y)) /\
    time_of s' n = t /\ trk s' n = Some T /\ lin s' n = Some L /\
    (forall k v, lookup k a = Some v -> ~ In k (rp_act (ft s)) -> attr s' n k = Some v) /\
    (forall m k, m <> n -> attr s' m k = attr s m k) /\
    seg s' = seg_after s px n /\ hist_eq s s' /\ (cfg_ok s -> W_book s -> cfg_ok s' /\ W_book s').
Proof.
  intros Hd Hf Hn Hrp Hnd Ha0 Ha1 Ha2 Hpos Hpx HP HS Hboth Hpy Hcq. unfold uan_splice.
  (* 1. the skip edge *)
  destruct (uan_skip_step s pred succ acts Hd Hf Hboth) as (r1 & s1 & H1 & Hd1 & Hf1 & E1 & Ed1 & Wb1).
  rewrite H1. cbn [bind].
  assert (Hn1 : ~ is_node s1 n) by (rewrite (estep_is_node _ _ _ E1); exact Hn).
  assert (Hrp1 : EditBook.rp_disjoint s1) by (unfold EditBook.rp_disjoint; rewrite (estep_ft _ _ E1); exact Hrp).
  (* 2. the node *)
  destruct (do_add_node_ok s1 n a px T Hd1 Hn1 Hnd) as (b & s2 & H2).
  { apply Hrp1. unfold EditBook.id_key. auto. }
  { eapply lookup_Some_haskey; eauto. }
  { exact Ha1. }
  { rewrite (estep_ft _ _ E1). exact Hpos. }
  { destruct px as [p|]; [|exact I]. cbn [px_ok] in *. rewrite (estep_seg _ _ E1). exact Hpx. }
  rewrite H2. cbn [bind].
  destruct (do_add_node_WS s1 n a px b s2 t T L Hd1 Hf1 Hn1 Hrp1 Hnd Ha0 Ha1 Ha2 H2)
    as (Hd2 & Hf2 & Nd2 & Ids2 & Su2 & Ed2 & Sn2 & Nin2 & Tm2 & Tk2 & Ln2 & New2 & At2 & Tmo2 & _ & Sg2 & Hh2 & _).
  assert (Nn2 : is_node s2 n) by (apply Nd2; now right).
  assert (Hne : forall m, is_node s m -> m <> n) by (intros m Hm ->; contradiction).
  (* 3. pred -> n *)
  destruct (uan_link_pred_step s2 n pred b r1 Hd2 Hf2 Nn2 Nin2) as (r3 & s3 & H3 & Hd3 & Hf3 & E3 & Ed3 & Wb3).
  { intros p Hp. destruct (HP p Hp) as [Np Tp]. split; [|split].
    - apply Nd2. left. now apply (estep_is_node _ _ _ E1).
    - rewrite Tm2, (Tmo2 p (Hne p Np)), (estep_time _ _ _ E1). exact Tp.
    - intros y Hy. apply Ed2, Ed1 in Hy. destruct Hy as [Hy Hnot]. apply Hnot. split; [exact Hp|]. eapply Hpy; eauto. }
  rewrite H3. cbn [bind].
  (* 4. n -> succ *)
  destruct (uan_link_succ_step s3 n succ r3 Hd3 Hf3) as (r4 & s4 & H4 & Hd4 & Hf4 & E4 & Ed4 & Wb4).
  { now apply (estep_is_node _ _ _ E3). }
  { assert (successors s3 n = []) as ->; [|cbn; lia]. apply no_edges_nil. intros y Hy. apply Ed3 in Hy.
    destruct Hy as [Hy|[Hp _]].
    - apply edge_successors in Hy. rewrite Sn2 in Hy. destruct Hy.
    - destruct (HP n Hp) as [Np _]. contradiction. }
  { intros c Hc. destruct (HS c Hc) as [Nc Tc]. split; [|split].
    - apply (estep_is_node _ _ _ E3). apply Nd2. left. now apply (estep_is_node _ _ _ E1).
    - rewrite !(estep_time _ _ _ E3), Tm2, (Tmo2 c (Hne c Nc)), (estep_time _ _ _ E1). exact Tc.
    - intros q Hq. apply Ed3 in Hq. destruct Hq as [Hq|[_ Hq]]; [|exact (Hne c Nc Hq)].
      apply Ed2, Ed1 in Hq. destruct Hq as [Hq Hnot]. apply Hnot. split; [eapply Hcq; eauto|exact Hc]. }
  rewrite H4. cbn [bind].
  exists (AGroup r4), s4. split; [reflexivity|]. split; [exact Hd4|]. split; [exact Hf4|].
  pose proof (estep_trans _ _ _ E3 E4) as E34.
  split; [intros m; rewrite (estep_is_node _ _ _ E34), Nd2, (estep_is_node _ _ _ E1); tauto|].
  split; [destruct E34 as (I34 & _); destruct E1 as (I1 & _); now rewrite I34, Ids2, I1|].
  split; [intros x y; rewrite Ed4, Ed3, Ed2, Ed1; tauto|].
  split; [now rewrite (estep_time _ _ _ E34)|]. split; [now rewrite (estep_trk _ _ _ E34)|].
  split; [now rewrite (estep_lin _ _ _ E34)|].
  split; [intros k v Hk Hnk; destruct E34 as (_ & A34 & _); rewrite A34; apply New2; [exact Hk|now rewrite (estep_ft _ _ E1)]|].
  split; [intros m k Hm; destruct E34 as (_ & A34 & _); destruct E1 as (_ & A1 & _); now rewrite A34, At2, A1|].
  split; [rewrite (estep_seg _ _ E34), Sg2; unfold seg_after; now rewrite (estep_seg _ _ E1)|].
  assert (Hh : hist_eq s s4).
  { eapply hist_eq_trans; [apply (estep_hist _ _ E1)|]. eapply hist_eq_trans; [exact Hh2|apply (estep_hist _ _ E34)]. }
  split; [exact Hh|].
  intros C Wb. split; [apply (EditLin.cfg_ok_ft s s4); [apply Hh|exact C]|].
  apply Wb4, Wb3. apply (EditBook.add_node_W_book s1 n a px b s2); [|exact Hn1|exact H2|now apply Wb1].
  apply (EditLin.cfg_ok_ft s s1); [apply (estep_ft _ _ E1)|exact C].
Qed.

(* ================================================================== *)
(* 6. the attributes of the new node                                    *)
(* ================================================================== *)
(* the caller's attributes: a dictionary whose time / track id / lineage id entries, if any, are integers *)
Record attrs_ok (a : attrs) : Prop := {
  ao_nodup : NoDup (keys a);
  ao_time : forall v, lookup KTime a = Some v -> exists t, v = VZ t;
  ao_track : forall v, lookup KTrack a = Some v -> exists T, v = VZ T;
  ao_lin : forall v, lookup KLin a = Some v -> exists l, v = VZ l
}.

Lemma K_distinct : KTime <> KTrack /\ KTime <> KLin /\ KTrack <> KLin.
Proof. unfold KTime, KTrack, KLin. lia. Qed.

Lemma uan_attrs_facts st a : attrs_ok a -> haskey KTime a = true -> haskey KTrack a = true ->
  lookup KTime (uan_attrs st a) = Some (VZ (uan_time a)) /\
  lookup KTrack (uan_attrs st a) = Some (VZ (uan_tid st a)) /\
  NoDup (keys (uan_attrs st a)) /\
  lookup KLin (uan_attrs st a) = lookup KLin a /\
  (forall k, k <> KTrack -> lookup k (uan_attrs st a) = lookup k a) /\
  (forall ks, all_in ks (uan_attrs st a) = all_in ks a).
Proof.
  intros [And At Ak Al] Ht Hk. destruct K_distinct as (D1 & D2 & D3).
  destruct (haskey_lookup _ _ Ht) as [tv Etv]. destruct (haskey_lookup _ _ Hk) as [kv Ekv].
  destruct (At tv Etv) as [t ->]. destruct (Ak kv Ekv) as [T0 ->].
  assert (Et : uan_time a = t) by (unfold uan_time, getd; now rewrite Etv).
  assert (E0 : uan_tid0 a = T0) by (unfold uan_tid0, getd; now rewrite Ekv).
  unfold uan_attrs, uan_tid. rewrite Et, E0. destruct (has_track_at st T0 t).
  - split; [rewrite lookup_set_neq by exact D1; exact Etv|]. split; [apply lookup_set_eq|].
    split; [now apply NoDup_keys_set|]. split; [apply lookup_set_neq; congruence|].
    split; [intros k Hne; now apply lookup_set_neq|]. intros ks. now apply all_in_set_present.
  - repeat split; auto.
Qed.

Lemma uan_lin_attrs_facts s a pred succ : W_dict s -> NoDup (keys a) ->
  (forall v, lookup KLin a = Some v -> exists l, v = VZ l) ->
  (forall p, pred = Some p -> is_node s p) -> (forall c, succ = Some c -> is_node s c) ->
  let a' := uan_lin_attrs s a pred succ in
  exists L, lookup KLin a' = Some (VZ L) /\ NoDup (keys a') /\
    (forall k, k <> KLin -> lookup k a' = lookup k a) /\
    (forall ks, all_in ks a = true -> all_in ks a' = true) /\
    (haskey KLin a = false ->
       (forall p, pred = Some p -> lin s p = Some L) /\
       (pred = None -> forall c, succ = Some c -> lin s c = Some L) /\
       (pred = None -> succ = None -> L = next_lin s)).
Proof.
  intros Hd Hnd Hl HP HS. cbv zeta. unfold uan_lin_attrs.
  destruct (haskey KLin a) eqn:Eh.
  - destruct (haskey_lookup _ _ Eh) as [v Ev]. destruct (Hl v Ev) as [l ->].
    exists l. split; [exact Ev|]. split; [exact Hnd|]. split; [reflexivity|]. split; [auto|discriminate].
  - assert (Hset : forall l, exists L, lookup KLin (set KLin (VZ l) a) = Some (VZ L) /\ NoDup (keys (set KLin (VZ l) a)) /\
       (forall k, k <> KLin -> lookup k (set KLin (VZ l) a) = lookup k a) /\
       (forall ks, all_in ks a = true -> all_in ks (set KLin (VZ l) a) = true) /\ L = l).
    { intros l. exists l. split; [apply lookup_set_eq|]. split; [now apply NoDup_keys_set|].
      split; [intros k Hk; now apply lookup_set_neq|]. split; [intros ks; apply all_in_set_mono|reflexivity]. }
    destruct pred as [p|]; [|destruct succ as [c|]].
    + destruct (wd_lin _ Hd p (HP p eq_refl)) as [l El]. apply zattr_attr in El. rewrite El.
      destruct (Hset l) as (L & A & B & C & D & ->). exists l. repeat (split; [assumption|]).
      intros _. split; [intros p0 [= <-]; exact El|split; discriminate].
    + destruct (wd_lin _ Hd c (HS c eq_refl)) as [l El]. apply zattr_attr in El. rewrite El.
      destruct (Hset l) as (L & A & B & C & D & ->). exists l. repeat (split; [assumption|]).
      intros _. split; [discriminate|]. split; [intros _ c0 [= <-]; exact El|discriminate].
    + destruct (Hset (next_lin s)) as (L & A & B & C & D & ->). exists (next_lin s). repeat (split; [assumption|]).
      intros _. split; [discriminate|]. split; [intros _ c0; discriminate|reflexivity].
Qed.

(* ================================================================== *)
(* 7. the accepted action                                               *)
(* ================================================================== *)
Lemma reordered_gstep T s s' : EditBook.reordered T s s' -> gstep s s'.
Proof.
  intros R. destruct (reordered_frame T s s' R) as (Eg & Es & Ef & Eu & Er & El & En & Eids & _ & Ha & _).
  constructor; auto.
Qed.

(* everything up to and including the cuts: the state the splice starts from *)
Lemma uan_after_cuts st n a px force : W_dict st -> W_forest st -> W_trk st -> W_book st ->
  uan_refused st n a px force = None ->
  let t := uan_time a in let pred := uan_pred st a in let succ := uan_succ st a in
  let es := uan_conflict_edges st pred succ in
  exists acts s2, uan_cut es (uan_sorted st a) [] = Ok acts s2 /\
    user_add_node_core st n a px force =
      uan_splice s2 n (uan_lin_attrs s2 (uan_attrs st a) pred succ) px pred succ acts /\
    W_dict s2 /\ W_forest s2 /\ gstep st s2 /\ ~ is_node s2 n /\
    (forall x y, edge s2 x y <-> edge st x y /\ ~ In (x, y) es) /\
    (forall p, pred = Some p -> is_node s2 p /\ time_of s2 p < t) /\
    (forall c, succ = Some c -> is_node s2 c /\ t < time_of s2 c) /\
    (forall p c, pred = Some p -> succ = Some c -> edge s2 p c) /\
    (forall p y, pred = Some p -> edge s2 p y -> succ = Some y) /\
    (forall c q, succ = Some c -> edge s2 q c -> pred = Some q) /\
    haskey KTime a = true /\ haskey KTrack a = true /\ uan_no_pos st a px = false /\
    (es <> [] -> force = true) /\ px_ok st px.
Proof.
  intros Hd Hf Ht Wb R. cbv zeta.
  pose proof (uan_core_cases st n a px force) as C. rewrite R in C. destruct C as (Hc & Hkt & Hkk & Hnn & Hforce & Hpos & Hpc).
  destruct (uan_nbr_facts st a Hd Hf Ht Wb) as (_ & FP & FS).
  destruct (uan_plan st a Hd Hf Ht Wb) as (Pnd & Pe & Ppy & Pcq & Pboth). cbv zeta in *.
  pose proof (track_neighbors_reordered st (uan_tid st a) (uan_time a)) as Hr. fold (uan_sorted st a) in Hr.
  destruct (reordered_frame _ _ _ Hr) as (Eg & _ & _ & _ & _ & _ & _ & _ & Hnode1 & _ & Htm1 & _ & _ & _ & _ & Hedge1 & _ & _ & _ & Wd1 & Wf1 & _).
  pose proof (reordered_gstep _ _ _ Hr) as G1.
  set (es := uan_conflict_edges st (uan_pred st a) (uan_succ st a)) in *.
  destruct (uan_cut_spec es (uan_sorted st a) [] (Wd1 Hd) (Wf1 Hf) Pnd) as (acts & s2 & H2 & Hd2 & Hf2 & G2 & E2).
  { intros e He. apply Hedge1. now apply Pe. }
  pose proof (gstep_trans _ _ _ G1 G2) as G.
  assert (Ed : forall x y, edge s2 x y <-> edge st x y /\ ~ In (x, y) es) by (intros x y; rewrite E2, Hedge1; tauto).
  exists acts, s2. split; [exact H2|]. split; [rewrite Hc; unfold uan_steps; rewrite H2; reflexivity|].
  split; [exact Hd2|]. split; [exact Hf2|]. split; [exact G|].
  split; [rewrite (gstep_is_node _ _ n G); now apply has_node_false|]. split; [exact Ed|].
  split; [intros p Hp; destruct (FP p Hp) as (Np & Tp & _); split; [now apply (gstep_is_node _ _ p G)|now rewrite (gstep_time _ _ p G)]|].
  split; [intros c Hs; destruct (FS c Hs) as (Nc & Tc & _); split; [now apply (gstep_is_node _ _ c G)|now rewrite (gstep_time _ _ c G)]|].
  split.
  { intros p c Hp Hs. apply Ed. rewrite (Pboth p c Hp Hs). split; [|intros []].
    destruct (FP p Hp) as (_ & _ & _ & Hb & _). destruct (Hb c Hs) as [Hsu _]. apply edge_successors. rewrite Hsu. now left. }
  split; [intros p y Hp Hy; apply Ed in Hy; destruct Hy as [A B]; eapply Ppy; eauto|].
  split; [intros c q Hs Hq; apply Ed in Hq; destruct Hq as [A B]; eapply Pcq; eauto|].
  split; [exact Hkt|]. split; [exact Hkk|]. split; [exact Hpos|]. split; [|now apply px_check_ok].
  intros Hne. apply Hforce. unfold uan_has_conflict. fold es. destruct es; [congruence|reflexivity].
Qed.

(* UserAddNode accepted: the new node is spliced into its track *)
Theorem uan_core_spec st n a px force :
  W_dict st -> W_forest st -> W_trk st -> W_book st -> EditBook.rp_disjoint st -> attrs_ok a ->
  uan_refused st n a px force = None ->
  let t := uan_time a in let T := uan_tid st a in let pred := uan_pred st a in let succ := uan_succ st a in
  let es := uan_conflict_edges st pred succ in
  exists act st', user_add_node_core st n a px force = Ok act st' /\ W_dict st' /\ W_forest st' /\
    (forall x, is_node st' x <-> is_node st x \/ x = n) /\ node_ids st' = node_ids st ++ [n] /\
    time_of st' n = t /\ trk st' n = Some T /\
    (forall x y, edge st' x y <->
       (edge st x y /\ ~ In (x, y) es /\ ~ (pred = Some x /\ succ = Some y)) \/
       (pred = Some x /\ y = n) \/ (x = n /\ succ = Some y)) /\
    (exists L, lin st' n = Some L /\
       (haskey KLin a = false -> (forall p, pred = Some p -> lin st' p = Some L) /\
                                 (pred = None -> forall c, succ = Some c -> lin st' c = Some L))) /\
    (forall k v, lookup k (uan_attrs st a) = Some v -> k <> KLin -> ~ In k (rp_act (ft st)) -> attr st' n k = Some v) /\
    (forall m k, m <> n -> k <> KTrack -> k <> KLin -> attr st' m k = attr st m k) /\
    seg st' = seg_after st px n /\ hist_eq st st'.
Proof.
  intros Hd Hf Ht Wb Hrp Ao R. cbv zeta.
  destruct (uan_after_cuts st n a px force Hd Hf Ht Wb R)
    as (acts & s2 & _ & Hc & Hd2 & Hf2 & G & Hn2 & Ed & HP & HS & Hboth & Hpy & Hcq & Hkt & Hkk & Hpos & _ & Hpx). cbv zeta in *.
  destruct (uan_attrs_facts st a Ao Hkt Hkk) as (A0 & A1 & And & Alin & Aoth & Aall).
  destruct (uan_lin_attrs_facts s2 (uan_attrs st a) (uan_pred st a) (uan_succ st a) Hd2 And) as (L & L1 & Lnd & Loth & Lall & Llin).
  { rewrite Alin. apply (ao_lin _ Ao). }
  { intros p Hp. apply (HP p Hp). }
  { intros c Hs. apply (HS c Hs). }
  cbv zeta in *. destruct K_distinct as (D1 & D2 & D3).
  assert (Hrp2 : EditBook.rp_disjoint s2) by (unfold EditBook.rp_disjoint; rewrite (gs_ft _ _ G); exact Hrp).
  assert (B0 : lookup KTime (uan_lin_attrs s2 (uan_attrs st a) (uan_pred st a) (uan_succ st a)) = Some (VZ (uan_time a)))
    by (rewrite Loth by exact D2; exact A0).
  assert (B1 : lookup KTrack (uan_lin_attrs s2 (uan_attrs st a) (uan_pred st a) (uan_succ st a)) = Some (VZ (uan_tid st a)))
    by (rewrite Loth by exact D3; exact A1).
  assert (Bpos : px = None -> all_in (pos_keys (ft s2)) (uan_lin_attrs s2 (uan_attrs st a) (uan_pred st a) (uan_succ st a)) = true).
  { intros ->. apply Lall. rewrite Aall, (gs_ft _ _ G). unfold uan_no_pos in Hpos. now apply negb_false_iff in Hpos. }
  assert (Bpx : px_ok s2 px).
  { destruct px as [p|]; [|exact I]. cbn [px_ok] in *. rewrite (gs_seg _ _ G). exact Hpx. }
  destruct (uan_splice_spec s2 n _ px _ _ acts (uan_time a) (uan_tid st a) L Hd2 Hf2 Hn2 Hrp2 Lnd B0 B1 L1 Bpos Bpx HP HS Hboth Hpy Hcq)
    as (act & s' & H & Hd' & Hf' & Nd' & Ids' & Ed' & Tm' & Tk' & Ln' & New' & At' & Sg' & Hh' & _).
  exists act, s'. split; [rewrite Hc; exact H|]. split; [exact Hd'|]. split; [exact Hf'|].
    split; [intros x; rewrite Nd', (gstep_is_node _ _ x G); tauto|].
    split; [now rewrite Ids', (gs_nodes _ _ G)|]. split; [exact Tm'|]. split; [exact Tk'|].
    split; [intros x y; rewrite Ed', Ed; tauto|].
    assert (Hold : forall m, is_node s2 m -> lin s' m = lin s2 m).
    { intros m Hm. unfold lin, zattr. rewrite At'; [reflexivity|]. intros ->. contradiction. }
    split.
    { exists L. split; [exact Ln'|]. intros Hno.
      assert (Hno' : haskey KLin (uan_attrs st a) = false) by (unfold haskey in *; now rewrite Alin).
      destruct (Llin Hno') as (LP & LS & _). split.
      - intros p Hp. rewrite (Hold p (proj1 (HP p Hp))). now apply LP.
      - intros Hp c Hs. rewrite (Hold c (proj1 (HS c Hs))). now apply LS. }
    split; [intros k v Hk Hkl Hrk; apply New'; [rewrite Loth by exact Hkl; exact Hk|now rewrite (gs_ft _ _ G)]|].
    split; [intros m k Hm Hk1 Hk2; rewrite At' by exact Hm; now apply (gs_attr _ _ G)|].
    split; [rewrite Sg'; unfold seg_after; now rewrite (gs_seg _ _ G)|].
    eapply hist_eq_trans; [|exact Hh']. unfold hist_eq.
    rewrite (gs_ft _ _ G), (gs_undo _ _ G), (gs_redo _ _ G), (gs_rlog _ _ G), (gs_nctr _ _ G). repeat split.
Qed.

(* ================================================================== *)
(* 8. the pixel validation: the error set_pixels would raise, raised first *)
(* ================================================================== *)
(* pixels that set_pixels rejects (no array: ValueError; frame index out of range: IndexError) are refused
   by the last check, before the first sub-action: the graph is as given *)
Theorem uan_px_refused st n a px force e :
  uan_refused st n a px force = Some e -> px_check st px = Some e -> uan_early st n a = false ->
  (uan_has_conflict st (uan_pred st a) (uan_succ st a) = true -> force = true) -> uan_no_pos st a px = false ->
  user_add_node_core st n a px force = Err e (uan_sorted st a) /\ untouched st (uan_sorted st a) /\
  px <> None /\ ((e = EValue /\ seg st = None) \/ (e = EIndex /\ seg st <> None)).
Proof.
  intros R Hpc He _ _. pose proof (uan_core_cases st n a px force) as C. rewrite R in C.
  unfold uan_refusal_state in C. rewrite He in C. split; [exact C|].
  split; [eapply reordered_untouched; apply track_neighbors_reordered|]. now apply px_check_err.
Qed.

(* when every other check passes, the verdict is that of the pixel validation *)
Lemma uan_refused_px st n a px force : uan_early st n a = false ->
  (uan_has_conflict st (uan_pred st a) (uan_succ st a) = true -> force = true) -> uan_no_pos st a px = false ->
  uan_refused st n a px force = px_check st px.
Proof.
  unfold uan_early, uan_refused. intros He Hc Hp.
  destruct (haskey KTime a); [|discriminate He]. destruct (haskey KTrack a); [|discriminate He]. cbn [negb orb] in *.
  rewrite He, Hp. destruct (uan_has_conflict st (uan_pred st a) (uan_succ st a)); [rewrite (Hc eq_refl)|]; reflexivity.
Qed.

(* ================================================================== *)
(* 9. corollaries                                                       *)
(* ================================================================== *)
(* accepted exactly when no check fails: no sub-action of an accepted UserAddNode can fail *)
Theorem uan_core_ok_iff st n a px force :
  W_dict st -> W_forest st -> W_trk st -> W_book st -> EditBook.rp_disjoint st -> attrs_ok a ->
  ((exists act st', user_add_node_core st n a px force = Ok act st') <-> uan_refused st n a px force = None).
Proof.
  intros Hd Hf Ht Wb Hrp Ao. split.
  - intros (act & st' & H). destruct (uan_refused st n a px force) as [e|] eqn:R; [|reflexivity].
    destruct (uan_core_refused st n a px force e R) as (s & H' & _). congruence.
  - intros R. destruct (uan_core_spec st n a px force Hd Hf Ht Wb Hrp Ao R) as (act & st' & H & _). eauto.
Qed.

(* C11: every error is a refusal - the error is the one of the first failing check, and the state that
   comes with it is the given one up to the order inside one lookup list *)
Theorem uan_error_cases st n a px force e st' :
  W_dict st -> W_forest st -> W_trk st -> W_book st -> EditBook.rp_disjoint st -> attrs_ok a ->
  user_add_node_core st n a px force = Err e st' ->
  uan_refused st n a px force = Some e /\ untouched st st' /\ (uan_early st n a = true -> st' = st).
Proof.
  intros Hd Hf Ht Wb Hrp Ao H. destruct (uan_refused st n a px force) as [e0|] eqn:R.
  - destruct (uan_core_refused st n a px force e0 R) as (s & H' & Hr & He). rewrite H in H'. injection H' as <- <-.
    split; [reflexivity|]. split; [eapply reordered_untouched; eauto|exact He].
  - destruct (uan_core_spec st n a px force Hd Hf Ht Wb Hrp Ao R) as (act & s & H' & _). congruence.
Qed.

Corollary uan_error_is_refusal st n a px force e st' :
  W_dict st -> W_forest st -> W_trk st -> W_book st -> EditBook.rp_disjoint st -> attrs_ok a ->
  user_add_node_core st n a px force = Err e st' -> uan_refused st n a px force = Some e /\ untouched st st'.
Proof.
  intros Hd Hf Ht Wb Hrp Ao H.
  destruct (uan_error_cases st n a px force e st' Hd Hf Ht Wb Hrp Ao H) as (A & B & _). auto.
Qed.

(* in particular the error of unacceptable pixels leaves every edge in place *)
Corollary uan_px_error_untouched st n a px force e st' :
  W_dict st -> W_forest st -> W_trk st -> W_book st -> EditBook.rp_disjoint st -> attrs_ok a ->
  user_add_node_core st n a px force = Err e st' -> ~ px_ok st px ->
  untouched st st' /\ (forall x y, edge st' x y <-> edge st x y) /\ (forall x, is_node st' x <-> is_node st x).
Proof.
  intros Hd Hf Ht Wb Hrp Ao H _.
  destruct (uan_error_cases st n a px force e st' Hd Hf Ht Wb Hrp Ao H) as (_ & U & _).
  split; [exact U|]. destruct U as (Eg & _). split.
  - intros x y. now apply same_g_edge.
  - intros x. now apply (EditLin.is_node_same_g st st' x).
Qed.

Corollary uan_keeps_dict st n a px force act st' :
  W_dict st -> W_forest st -> W_trk st -> W_book st -> EditBook.rp_disjoint st -> attrs_ok a ->
  user_add_node_core st n a px force = Ok act st' -> W_dict st'.
Proof.
  intros Hd Hf Ht Wb Hrp Ao H.
  pose proof (proj1 (uan_core_ok_iff st n a px force Hd Hf Ht Wb Hrp Ao) (ex_intro _ act (ex_intro _ st' H))) as R.
  destruct (uan_core_spec st n a px force Hd Hf Ht Wb Hrp Ao R) as (act0 & s & H' & A & _). congruence.
Qed.

(* C03: an accepted UserAddNode keeps the forward-in-time binary forest; the new node sits between pred and succ *)
Corollary uan_keeps_forest st n a px force act st' :
  W_dict st -> W_forest st -> W_trk st -> W_book st -> EditBook.rp_disjoint st -> attrs_ok a ->
  user_add_node_core st n a px force = Ok act st' ->
  W_dict st' /\ W_forest st' /\
  (forall x, is_node st' x <-> is_node st x \/ x = n) /\ time_of st' n = uan_time a /\ trk st' n = Some (uan_tid st a) /\
  (forall x y, edge st' x y <->
     (edge st x y /\ ~ In (x, y) (uan_conflict_edges st (uan_pred st a) (uan_succ st a)) /\
      ~ (uan_pred st a = Some x /\ uan_succ st a = Some y)) \/
     (uan_pred st a = Some x /\ y = n) \/ (x = n /\ uan_succ st a = Some y)).
Proof.
  intros Hd Hf Ht Wb Hrp Ao H.
  pose proof (proj1 (uan_core_ok_iff st n a px force Hd Hf Ht Wb Hrp Ao) (ex_intro _ act (ex_intro _ st' H))) as R.
  destruct (uan_core_spec st n a px force Hd Hf Ht Wb Hrp Ao R) as (act0 & s & H' & A & B & C & _ & D & E & F & _).
  rewrite H in H'. injection H' as _ <-. auto 10.
Qed.

(* ---- the public entry point (with the history / refresh tail) ---- *)
Lemma top_wrap_err top p r e st' : top_wrap top p r = Err e st' -> r = Err e st'.
Proof. unfold top_wrap. destruct r; [discriminate|auto]. Qed.

Theorem user_add_node_keeps_forest st n a px force top act st' :
  W_dict st -> W_forest st -> W_trk st -> W_book st -> EditBook.rp_disjoint st -> attrs_ok a ->
  user_add_node st n a px force top = Ok act st' ->
  W_dict st' /\ W_forest st' /\
  (forall x, is_node st' x <-> is_node st x \/ x = n) /\ time_of st' n = uan_time a /\ trk st' n = Some (uan_tid st a) /\
  (forall x y, edge st' x y <->
     (edge st x y /\ ~ In (x, y) (uan_conflict_edges st (uan_pred st a) (uan_succ st a)) /\
      ~ (uan_pred st a = Some x /\ uan_succ st a = Some y)) \/
     (uan_pred st a = Some x /\ y = n) \/ (x = n /\ uan_succ st a = Some y)).
Proof.
  intros Hd Hf Ht Wb Hrp Ao H. unfold user_add_node in H.
  destruct (top_wrap_inv _ _ _ _ _ H) as (s & Hc & Eg & _).
  destruct (uan_keeps_forest st n a px force act s Hd Hf Ht Wb Hrp Ao Hc) as (A & B & C & D & E & F).
  split; [now apply (W_dict_same_g s)|]. split; [now apply (W_forest_same_g s)|].
  split; [intros x; rewrite (EditLin.is_node_same_g s st' x Eg); apply C|].
  split; [now rewrite (EditLin.time_same_g s st' n Eg)|]. split; [now rewrite (same_g_trk _ _ Eg)|].
  intros x y. rewrite (same_g_edge _ _ Eg). apply F.
Qed.

(* C11 for the public entry point: an error means that a check failed; the history and the log are alone
   (the tail is not reached) and so is everything else but the order inside one lookup list *)
Theorem user_add_node_error_cases st n a px force top e st' :
  W_dict st -> W_forest st -> W_trk st -> W_book st -> EditBook.rp_disjoint st -> attrs_ok a ->
  user_add_node st n a px force top = Err e st' ->
  uan_refused st n a px force = Some e /\ untouched st st' /\ (uan_early st n a = true -> st' = st).
Proof.
  intros Hd Hf Ht Wb Hrp Ao H. unfold user_add_node in H. apply top_wrap_err in H.
  now apply uan_error_cases.
Qed.

Theorem user_add_node_refused_unchanged st n a px force top e st' :
  W_dict st -> W_forest st -> W_trk st -> W_book st -> EditBook.rp_disjoint st -> attrs_ok a ->
  user_add_node st n a px force top = Err e st' -> uan_refused st n a px force = Some e /\ untouched st st'.
Proof.
  intros Hd Hf Ht Wb Hrp Ao H. unfold user_add_node in H. apply top_wrap_err in H.
  now apply uan_error_is_refusal.
Qed.

(* accepted exactly when no check fails, for the public entry point *)
Theorem user_add_node_ok_iff st n a px force top :
  W_dict st -> W_forest st -> W_trk st -> W_book st -> EditBook.rp_disjoint st -> attrs_ok a ->
  ((exists act st', user_add_node st n a px force top = Ok act st') <-> uan_refused st n a px force = None).
Proof.
  intros Hd Hf Ht Wb Hrp Ao. rewrite <- (uan_core_ok_iff st n a px force Hd Hf Ht Wb Hrp Ao).
  unfold user_add_node, top_wrap. destruct (user_add_node_core st n a px force) as [a0 s0|e0 s0].
  - split; intros _; eauto.
  - split; intros (x & y & C); discriminate C.
Qed.

(* ================================================================== *)
(* 10. track ids across one cut (finer than EditTrk.ude_trk's frame)    *)
(* ================================================================== *)
(* UserDeleteEdge(u, v) relabels only below v and below v's sibling: every node not later than u keeps its
   track id, and so does v itself when u was dividing (v keeps its id, the sibling takes u's) *)
Lemma ude_trk_keep st u v : W_dict st -> W_forest st -> W_trk st -> trk_act (ft st) = true -> edge st u v ->
  exists a st', user_delete_edge_core st u v = Ok a st' /\
    (forall m, time_of st m <= time_of st u -> trk st' m = trk st m) /\
    (divides st u -> trk st' v = trk st v).
Proof.
  intros Hd Hf Ht Cta He. unfold user_delete_edge_core. pose proof He as He'. unfold edge in He'. rewrite He'. cbn [negb].
  destruct (do_del_edge_spec st u v He) as (b1 & s1 & H1 & _ & _ & Hs1 & _). rewrite H1. cbn [bind].
  destruct (do_del_edge_WS st u v b1 s1 Hd Hf H1) as (Hd1 & Hf1 & He1 & Hn1 & Ha1 & Hr1).
  assert (gstep st s1) as G1 by (now apply rest_eq_gstep).
  assert (Cta1 : trk_act (ft s1) = true) by (rewrite (gs_ft _ _ G1); exact Cta).
  destruct (wd_edge_nodes _ Hd u v He) as [Nu Nv].
  assert (Nu1 : is_node s1 u) by (now apply (gstep_is_node _ _ _ G1)).
  assert (Nv1 : is_node s1 v) by (now apply (gstep_is_node _ _ _ G1)).
  assert (Hlen : length (successors s1 u) = (length (successors st u) - 1)%nat).
  { rewrite Hs1, Z.eqb_refl. apply filter_remove_length; [apply (wd_adj_nodup _ Hd)|now apply edge_successors]. }
  assert (Hs1u : successors s1 u = filter (fun x => negb (v =? x)) (successors st u)) by (now rewrite Hs1, Z.eqb_refl).
  assert (Hs1x : forall x, x <> u -> successors s1 x = successors st x).
  { intros x Hx. rewrite Hs1. destruct (Z.eqb_spec x u); [contradiction|reflexivity]. }
  assert (Htm1 : forall m, time_of s1 m = time_of st m) by (intros m; apply (gstep_time _ _ m G1)).
  pose proof (wf_time _ Hf u v He) as Huv.
  pose proof (wf_out _ Hf u) as Hout.
  assert (Hposlen : (1 <= length (successors st u))%nat).
  { apply edge_successors in He. destruct (successors st u); [destruct He|cbn; lia]. }
  (* a node not later than u is not on a chain that starts later than u *)
  assert (Hearly : forall w m, time_of st u < time_of st w -> time_of st m <= time_of st u ->
                   memz m (chain s1 (length (nodes (g s1))) w) = false).
  { intros w m Hw Hm. apply memz_false. intros Hin. destruct (chain_time s1 Hf1 _ w m Hin) as [->|Hlt]; rewrite ?Htm1 in *; lia. }
  unfold out_degree. destruct (successors s1 u) as [|sib rest] eqn:Es.
  - (* plain edge *)
    cbn [length Z.of_nat Z.eqb].
    destruct (upd_track_step s1 v (next_trk s1) (Some (next_lin s1)) Hd1 Hf1 Nv1) as (b2 & s2 & H2 & _).
    rewrite H2. cbn [bind]. eexists _, s2. split; [reflexivity|].
    destruct (relabel_walk st s1 u v (next_trk s1) (Some (next_lin s1)) b2 s2 Hd Hf Ht Hd1 Hf1 Hn1 Ha1 Hs1x Nv Huv Cta1 H2) as [Tr _].
    split.
    + intros m Hm. rewrite Tr, (Hearly v m Huv Hm). reflexivity.
    + intros D. exfalso. unfold divides in D. cbn [length] in Hlen. lia.
  - destruct rest as [|z rest']; [|exfalso; cbn [length] in Hlen; lia].
    (* division edge *)
    cbn [length]. change (Z.of_nat 1 =? 0) with false. change (Z.of_nat 1 =? 1) with true. cbv iota.
    destruct (wd_track _ Hd1 u Nu1) as [t Htk]. apply zattr_attr in Htk. rewrite Htk.
    assert (Esib1 : edge s1 u sib) by (apply edge_successors; rewrite Es; now left).
    assert (Esib : edge st u sib) by (apply He1 in Esib1; tauto).
    assert (Hsv : sib <> v) by (intros ->; apply He1 in Esib1; destruct Esib1 as [_ C]; apply C; auto).
    assert (Nsib1 : is_node s1 sib) by (apply (wd_edge_nodes _ Hd1 u sib Esib1)).
    assert (Nsib : is_node st sib) by (apply (wd_edge_nodes _ Hd u sib Esib)).
    pose proof (wf_time _ Hf u sib Esib) as Hus.
    destruct (upd_track_step s1 sib t None Hd1 Hf1 Nsib1) as (b2 & s2 & H2 & Hd2 & Hf2 & G2 & E2 & S2).
    rewrite H2. cbn [bind].
    destruct (relabel_walk st s1 u sib t None b2 s2 Hd Hf Ht Hd1 Hf1 Hn1 Ha1 Hs1x Nsib Hus Cta1 H2) as [Tr _].
    assert (Nv2 : is_node s2 v) by (now apply (gstep_is_node _ _ _ G2)).
    destruct (wd_track _ Hd2 v Nv2) as [tv Htv]. apply zattr_attr in Htv. rewrite Htv.
    destruct (upd_track_step s2 v tv (Some (next_lin s2)) Hd2 Hf2 Nv2) as (b3 & s3 & H3 & _).
    rewrite H3. cbn [bind].
    assert (Cta2 : trk_act (ft s2) = true) by (rewrite (gs_ft _ _ G2); exact Cta1).
    destruct (do_upd_track_same_id s2 v tv (Some (next_lin s2)) b3 s3 Hd2 Cta2 H3 Htv) as [Tr3 _].
    eexists _, s3. split; [reflexivity|]. split.
    + intros m Hm. rewrite Tr3, Tr, (Hearly sib m Hus Hm). reflexivity.
    + intros _. rewrite Tr3, Tr.
      assert (memz v (chain s1 (length (nodes (g s1))) sib) = false) as ->; [|reflexivity].
      apply memz_false. intros Hin. destruct (chain_parent s1 _ sib v Hin) as [C|(p & _ & Hp)]; [now apply Hsv|].
      assert (Epv : edge s1 p v) by (apply edge_successors; rewrite Hp; now left).
      apply He1 in Epv. destruct Epv as [Epv Hnot]. apply Hnot. split; [|reflexivity]. exact (wf_in _ Hf p u v Epv He).
Qed.

Lemma ude_core_ok_edge st u v a st' : user_delete_edge_core st u v = Ok a st' -> edge st u v.
Proof.
  unfold user_delete_edge_core, edge. destruct (has_edge st u v); [reflexivity|discriminate].
Qed.

(* the cuts keep the id invariants; they relabel nothing that is not later than every cut source, and a
   single cut of a division edge keeps the id of its target *)
Lemma uan_cut_keep : forall es s acc r s', EditLin.LWF s -> W_trk s -> uan_cut es s acc = Ok r s' ->
  EditLin.LWF s' /\ W_trk s' /\
  (forall m, (forall e, In e es -> time_of s m <= time_of s (fst e)) -> trk s' m = trk s m) /\
  (forall q c, es = [(q, c)] -> divides s q -> trk s' c = trk s c).
Proof.
  induction es as [|e r0 IH]; intros s acc r s' L Ht H; cbn [uan_cut] in H.
  - injection H as _ <-. split; [exact L|]. split; [exact Ht|]. split; [reflexivity|discriminate].
  - destruct (EditLin.bind_ok _ _ _ _ H) as (x & s1 & Hx & Hrest).
    unfold user_delete_edge, top_wrap in Hx.
    destruct (user_delete_edge_core s (fst e) (snd e)) as [x0 s0|e0 s0] eqn:Hc; [|discriminate Hx]. injection Hx as -> ->.
    pose proof L as [C Hd Hf Hl Hb].
    pose proof (ude_core_ok_edge _ _ _ _ _ Hc) as He.
    assert (Cta : trk_act (ft s) = true) by apply C.
    pose proof (EditLin.ude_core_LWF s _ _ x s1 L Hc) as L1.
    destruct (ude_trk s _ _ Hd Hf Ht (W_book_trk_bounded s Hb) Cta He) as (a1 & s1' & Hc1 & Ht1 & _).
    rewrite Hc in Hc1. injection Hc1 as _ <-.
    destruct (ude_trk_keep s _ _ Hd Hf Ht Cta He) as (a2 & s2' & Hc2 & K1 & K2).
    rewrite Hc in Hc2. injection Hc2 as _ <-.
    destruct (ude_core_spec s (fst e) (snd e) Hd Hf) as [_ Hy]. destruct (Hy He) as (a3 & s3' & Hc3 & _ & _ & G & _).
    rewrite Hc in Hc3. injection Hc3 as _ <-.
    destruct (IH s1 _ r s' L1 Ht1 Hrest) as (L' & Ht' & K1' & _).
    split; [exact L'|]. split; [exact Ht'|]. split.
    + intros m Hm. rewrite K1'.
      * apply K1. apply Hm. now left.
      * intros e' He'. rewrite !(gstep_time _ _ _ G). apply Hm. now right.
    + intros q c Hes D. injection Hes as -> ->. cbn [uan_cut] in Hrest. injection Hrest as _ <-.
      cbn [fst snd] in K2. now apply K2.
Qed.

(* the three shapes of the conflict list *)
Lemma uan_es_cases st a : W_dict st -> W_forest st -> W_trk st -> W_book st ->
  let pred := uan_pred st a in let succ := uan_succ st a in let es := uan_conflict_edges st pred succ in
  es = [] \/
  (exists p, pred = Some p /\ succ = None /\ forall e, In e es -> fst e = p) \/
  (exists c q, pred = None /\ succ = Some c /\ es = [(q, c)] /\ divides st q).
Proof.
  intros Hd Hf Ht Wb. cbv zeta. destruct (uan_nbr_facts st a Hd Hf Ht Wb) as (_ & FP & _).
  unfold uan_conflict_edges. destruct (uan_pred st a) as [p|] eqn:EP.
  - destruct (FP p eq_refl) as (_ & _ & _ & Hboth & _).
    destruct (out_degree st p =? 2) eqn:Eo.
    + right. left. exists p. split; [reflexivity|]. split.
      * apply out_degree_2 in Eo. destruct (uan_succ st a) as [c|]; [|reflexivity].
        destruct (Hboth c eq_refl) as [Hs _]. rewrite Hs in Eo. discriminate Eo.
      * intros [x y] Hin. apply in_map_pair in Hin. cbn [fst]. tauto.
    + left. destruct (uan_succ st a) as [c|]; [|reflexivity]. destruct (Hboth c eq_refl) as [_ Hp].
      unfold uan_down. now rewrite Hp, Eo.
  - destruct (uan_succ st a) as [c|]; [|now left]. unfold uan_down.
    destruct (predecessors st c) as [|q r]; [now left|]. destruct (out_degree st q =? 2) eqn:Eo; [|now left].
    right. right. exists c, q. repeat split. apply out_degree_2 in Eo. unfold divides. lia.
Qed.

(* ================================================================== *)
(* 11. the splice and the id invariants, abstractly                     *)
(* ================================================================== *)
Lemma opt_cases {A} (o : option A) : o = None \/ exists x, o = Some x.
Proof. destruct o; eauto. Qed.

Lemma divides_iff st u : W_dict st -> (divides st u <-> exists y1 y2, y1 <> y2 /\ edge st u y1 /\ edge st u y2).
Proof.
  intros Hd. unfold divides. pose proof (wd_adj_nodup _ Hd u) as Hnd. setoid_rewrite edge_successors.
  destruct (successors st u) as [|y1 [|y2 r]]; cbn [length In].
  - split; [lia|intros (y1 & y2 & _ & [] & _)].
  - split; [lia|]. intros (a & b & Hne & [<-|[]] & [<-|[]]). exfalso. now apply Hne.
  - split; [|lia]. intros _. exists y1, y2. split; [|auto]. intros ->. inversion Hnd as [|? ? Hx _]. apply Hx. now left.
Qed.

(* [s'] is [s] with the new node n spliced between pred and succ *)
Record spliced (s s' : state) (n : Z) (pred succ : option Z) : Prop := {
  sp_nodes : forall m, is_node s' m <-> is_node s m \/ m = n;
  sp_edges : forall x y, edge s' x y <-> (edge s x y /\ ~ (pred = Some x /\ succ = Some y)) \/
                                         (pred = Some x /\ y = n) \/ (x = n /\ succ = Some y);
  sp_new : ~ is_node s n;
  sp_pred : forall p, pred = Some p -> is_node s p;
  sp_succ : forall c, succ = Some c -> is_node s c;
  sp_both : forall p c, pred = Some p -> succ = Some c -> edge s p c;
  sp_py : forall p y, pred = Some p -> edge s p y -> succ = Some y;
  sp_cq : forall c q, succ = Some c -> edge s q c -> pred = Some q
}.

Section Spliced.
Variables (s s' : state) (n : Z) (pred succ : option Z).
Hypothesis Hd : W_dict s.
Hypothesis Hd' : W_dict s'.
Hypothesis Sp : spliced s s' n pred succ.

Lemma sp_old_ne m : is_node s m -> m <> n.
Proof. intros Hm ->. exact (sp_new _ _ _ _ _ Sp Hm). Qed.

(* out-edges *)
Lemma sp_out_other x y : x <> n -> pred <> Some x -> (edge s' x y <-> edge s x y).
Proof.
  intros Hx Hp. rewrite (sp_edges _ _ _ _ _ Sp). split.
  - intros [[A _]|[[A _]|[A _]]]; [exact A|contradiction|contradiction].
  - intros A. left. split; [exact A|]. intros [B _]. contradiction.
Qed.
Lemma sp_out_pred p y : pred = Some p -> (edge s' p y <-> y = n).
Proof.
  intros Hp. rewrite (sp_edges _ _ _ _ _ Sp). split.
  - intros [[A B]|[[_ A]|[A _]]]; [|exact A|].
    + exfalso. apply B. split; [exact Hp|]. exact (sp_py _ _ _ _ _ Sp p y Hp A).
    + exfalso. exact (sp_old_ne p (sp_pred _ _ _ _ _ Sp p Hp) A).
  - intros ->. right. left. auto.
Qed.
Lemma sp_out_new y : edge s' n y <-> succ = Some y.
Proof.
  rewrite (sp_edges _ _ _ _ _ Sp). split.
  - intros [[A _]|[[A _]|[_ A]]]; [| |exact A].
    + exfalso. apply (sp_new _ _ _ _ _ Sp). apply (wd_edge_nodes _ Hd n y A).
    + exfalso. exact (sp_old_ne n (sp_pred _ _ _ _ _ Sp n A) eq_refl).
  - intros A. right. right. auto.
Qed.
(* in-edges *)
Lemma sp_in_other x y : y <> n -> succ <> Some y -> (edge s' x y <-> edge s x y).
Proof.
  intros Hy Hs. rewrite (sp_edges _ _ _ _ _ Sp). split.
  - intros [[A _]|[[_ A]|[_ A]]]; [exact A|contradiction|contradiction].
  - intros A. left. split; [exact A|]. intros [_ B]. contradiction.
Qed.
Lemma sp_in_succ c x : succ = Some c -> (edge s' x c <-> x = n).
Proof.
  intros Hs. rewrite (sp_edges _ _ _ _ _ Sp). split.
  - intros [[A B]|[[_ A]|[A _]]]; [| |exact A].
    + exfalso. apply B. split; [|exact Hs]. exact (sp_cq _ _ _ _ _ Sp c x Hs A).
    + exfalso. exact (sp_old_ne c (sp_succ _ _ _ _ _ Sp c Hs) A).
  - intros ->. right. right. auto.
Qed.
Lemma sp_in_new x : edge s' x n <-> pred = Some x.
Proof.
  rewrite (sp_edges _ _ _ _ _ Sp). split.
  - intros [[A _]|[[A _]|[_ A]]]; [|exact A|].
    + exfalso. apply (sp_new _ _ _ _ _ Sp). apply (wd_edge_nodes _ Hd x n A).
    + exfalso. exact (sp_old_ne n (sp_succ _ _ _ _ _ Sp n A) eq_refl).
  - intros A. right. left. auto.
Qed.

(* divisions *)
Lemma sp_div_other x : x <> n -> pred <> Some x -> (divides s' x <-> divides s x).
Proof.
  intros Hx Hp. rewrite (divides_iff s' x Hd'), (divides_iff s x Hd).
  split; intros (y1 & y2 & Hne & E1 & E2); exists y1, y2; (split; [exact Hne|]).
  - split; now apply (sp_out_other x _ Hx Hp).
  - split; now apply (sp_out_other x _ Hx Hp).
Qed.
Lemma sp_div_pred p : pred = Some p -> ~ divides s' p.
Proof.
  intros Hp D. apply (divides_iff s' p Hd') in D. destruct D as (y1 & y2 & Hne & E1 & E2).
  apply (sp_out_pred p _ Hp) in E1. apply (sp_out_pred p _ Hp) in E2. congruence.
Qed.
Lemma sp_div_new : ~ divides s' n.
Proof.
  intros D. apply (divides_iff s' n Hd') in D. destruct D as (y1 & y2 & Hne & E1 & E2).
  apply sp_out_new in E1. apply sp_out_new in E2. congruence.
Qed.

(* heads and roots of the new state *)
Lemma sp_head_new : head s' n -> pred = None.
Proof.
  intros [_ Hh]. destruct (opt_cases pred) as [Hp|[p Hp]]; [exact Hp|]. exfalso.
  apply (sp_div_pred p Hp). apply Hh. apply sp_in_new. exact Hp.
Qed.
Lemma sp_head_succ c : succ = Some c -> ~ head s' c.
Proof. intros Hs [_ Hh]. apply sp_div_new. apply Hh. now apply (sp_in_succ c). Qed.
Lemma sp_head_old x : head s' x -> x <> n -> head s x /\ succ <> Some x.
Proof.
  intros Hh Hx. assert (Hs : succ <> Some x) by (intros C; exact (sp_head_succ x C Hh)).
  split; [|exact Hs]. destruct Hh as [Nx Hh]. apply (sp_nodes _ _ _ _ _ Sp) in Nx. destruct Nx as [Nx|Nx]; [|contradiction].
  split; [exact Nx|]. intros p Hp.
  assert (Np : is_node s p) by apply (wd_edge_nodes _ Hd p x Hp).
  assert (Hpp : pred <> Some p).
  { intros C. apply Hs. exact (sp_py _ _ _ _ _ Sp p x C Hp). }
  apply (sp_div_other p (sp_old_ne p Np) Hpp). apply Hh. now apply (sp_in_other p x Hx Hs).
Qed.
Lemma sp_root_new : root s' n -> pred = None.
Proof.
  intros [_ Hr]. destruct (opt_cases pred) as [Hp|[p Hp]]; [exact Hp|]. exfalso. apply (Hr p). apply sp_in_new. exact Hp.
Qed.
Lemma sp_root_succ c : succ = Some c -> ~ root s' c.
Proof. intros Hs [_ Hr]. apply (Hr n). now apply (sp_in_succ c). Qed.
Lemma sp_root_old x : root s' x -> x <> n -> root s x /\ succ <> Some x.
Proof.
  intros Hr Hx. assert (Hs : succ <> Some x) by (intros C; exact (sp_root_succ x C Hr)).
  split; [|exact Hs]. destruct Hr as [Nx Hr]. apply (sp_nodes _ _ _ _ _ Sp) in Nx. destruct Nx as [Nx|Nx]; [|contradiction].
  split; [exact Nx|]. intros p Hp. apply (Hr p). now apply (sp_in_other p x Hx Hs).
Qed.
(* succ, when there is no pred, was parentless *)
Lemma sp_succ_orphan c : pred = None -> succ = Some c -> forall q, ~ edge s q c.
Proof. intros Hp Hs q Hq. pose proof (sp_cq _ _ _ _ _ Sp c q Hs Hq) as C. congruence. Qed.

(* ---- W_trk ---- *)
Variable T : Z.
Hypothesis Ht : W_trk s.
Hypothesis Tn : trk s' n = Some T.
Hypothesis Told : forall m, m <> n -> trk s' m = trk s m.
Hypothesis Tp : forall p, pred = Some p -> trk s p = Some T.
Hypothesis Tc : forall c, succ = Some c -> trk s c = Some T.
Hypothesis Tnone : pred = None -> succ = None -> forall m, is_node s m -> trk s m <> Some T.

Lemma spliced_W_trk : W_trk s'.
Proof.
  constructor.
  - intros u v He Hnd. destruct (Z.eq_dec u n) as [->|Hu].
    + apply sp_out_new in He. rewrite Tn, (Told v (sp_old_ne v (sp_succ _ _ _ _ _ Sp v He))). symmetry. now apply Tc.
    + assert (Hcase : pred = Some u \/ pred <> Some u).
      { destruct (opt_cases pred) as [Hp|[p Hp]]; [right; congruence|]. destruct (Z.eq_dec u p) as [->|Hup]; [now left|right; congruence]. }
      destruct Hcase as [Hp|Hpp].
      * apply (sp_out_pred u v Hp) in He. subst v. rewrite Tn, (Told u Hu). now apply Tp.
      * apply (sp_out_other u v Hu Hpp) in He.
        assert (Hv : v <> n) by (apply sp_old_ne; apply (wd_edge_nodes _ Hd u v He)).
        rewrite (Told u Hu), (Told v Hv). apply (wt1 _ Ht u v He). intros D. apply Hnd. now apply (sp_div_other u Hu Hpp).
  - assert (Hnew : forall b, head s' n -> head s' b -> b <> n -> trk s' b = Some T -> False).
    { intros b Hn Hb Hbn Eb. pose proof (sp_head_new Hn) as Hp. destruct (sp_head_old b Hb Hbn) as [Hb' Hsb].
      rewrite (Told b Hbn) in Eb. destruct (opt_cases succ) as [Hs|[c Hs]].
      - exact (Tnone Hp Hs b (proj1 Hb') Eb).
      - apply Hsb. rewrite Hs. f_equal. apply (wt2 _ Ht c b); [|exact Hb'|rewrite Eb; now apply Tc].
        split; [apply (sp_succ _ _ _ _ _ Sp c Hs)|]. intros q Hq. exfalso. exact (sp_succ_orphan c Hp Hs q Hq). }
    intros a b Ha Hb E. destruct (Z.eq_dec a n) as [->|Han]; destruct (Z.eq_dec b n) as [->|Hbn]; [reflexivity| | |].
    + exfalso. apply (Hnew b Ha Hb Hbn). now rewrite <- E.
    + exfalso. apply (Hnew a Hb Ha Han). now rewrite E.
    + destruct (sp_head_old a Ha Han) as [Ha' _]. destruct (sp_head_old b Hb Hbn) as [Hb' _].
      rewrite (Told a Han), (Told b Hbn) in E. exact (wt2 _ Ht a b Ha' Hb' E).
Qed.

(* ---- W_lin ---- *)
Variable L : Z.
Hypothesis Hl : W_lin s.
Hypothesis Ln : lin s' n = Some L.
Hypothesis Lold : forall m, m <> n -> lin s' m = lin s m.
Hypothesis Lp : forall p, pred = Some p -> lin s p = Some L.
Hypothesis Lc : pred = None -> forall c, succ = Some c -> lin s c = Some L.
Hypothesis Lnone : pred = None -> succ = None -> forall m, is_node s m -> lin s m <> Some L.

Lemma spliced_W_lin : W_lin s'.
Proof.
  assert (Lc' : forall c, succ = Some c -> lin s c = Some L).
  { intros c Hs. destruct (opt_cases pred) as [Hp|[p Hp]]; [now apply Lc|].
    rewrite <- (wl1 _ Hl p c (sp_both _ _ _ _ _ Sp p c Hp Hs)). now apply Lp. }
  constructor.
  - intros u v He. destruct (Z.eq_dec u n) as [->|Hu].
    + apply sp_out_new in He. rewrite Ln, (Lold v (sp_old_ne v (sp_succ _ _ _ _ _ Sp v He))). symmetry. now apply Lc'.
    + assert (Hcase : pred = Some u \/ pred <> Some u).
      { destruct (opt_cases pred) as [Hp|[p Hp]]; [right; congruence|]. destruct (Z.eq_dec u p) as [->|Hup]; [now left|right; congruence]. }
      destruct Hcase as [Hp|Hpp].
      * apply (sp_out_pred u v Hp) in He. subst v. rewrite Ln, (Lold u Hu). now apply Lp.
      * apply (sp_out_other u v Hu Hpp) in He.
        assert (Hv : v <> n) by (apply sp_old_ne; apply (wd_edge_nodes _ Hd u v He)).
        rewrite (Lold u Hu), (Lold v Hv). exact (wl1 _ Hl u v He).
  - assert (Hnew : forall b, root s' n -> root s' b -> b <> n -> lin s' b = Some L -> False).
    { intros b Hn Hb Hbn Eb. pose proof (sp_root_new Hn) as Hp. destruct (sp_root_old b Hb Hbn) as [Hb' Hsb].
      rewrite (Lold b Hbn) in Eb. destruct (opt_cases succ) as [Hs|[c Hs]].
      - exact (Lnone Hp Hs b (proj1 Hb') Eb).
      - apply Hsb. rewrite Hs. f_equal. apply (wl2 _ Hl c b); [|exact Hb'|rewrite Eb; now apply Lc].
        split; [apply (sp_succ _ _ _ _ _ Sp c Hs)|]. exact (sp_succ_orphan c Hp Hs). }
    intros a b Ha Hb E. destruct (Z.eq_dec a n) as [->|Han]; destruct (Z.eq_dec b n) as [->|Hbn]; [reflexivity| | |].
    + exfalso. apply (Hnew b Ha Hb Hbn). now rewrite <- E.
    + exfalso. apply (Hnew a Hb Ha Han). now rewrite E.
    + destruct (sp_root_old a Ha Han) as [Ha' _]. destruct (sp_root_old b Hb Hbn) as [Hb' _].
      rewrite (Lold a Han), (Lold b Hbn) in E. exact (wl2 _ Hl a b Ha' Hb' E).
Qed.
End Spliced.

(* ================================================================== *)
(* 12. C04 / C05 / C06: the id invariants and the lookups are kept       *)
(* ================================================================== *)
Lemma W_lin_same_g s s' : g s' = g s -> W_lin s -> W_lin s'.
Proof.
  intros E W.
  assert (Hr : forall a, root s' a -> root s a).
  { intros a [Na Pa]. split; [now apply (EditLin.is_node_same_g s s' a E)|].
    intros p Hp. apply (Pa p). now apply (EditLin.edge_same_g s s' p a E). }
  constructor.
  - intros u v He. rewrite !(EditLin.lin_same_g s s' _ E). apply (wl1 _ W). now apply (EditLin.edge_same_g s s' u v E).
  - intros a b Ha Hb Eq. rewrite !(EditLin.lin_same_g s s' _ E) in Eq. apply (wl2 _ W); auto.
Qed.

(* the track of the new node is empty when get_track_neighbors finds nobody *)
Lemma uan_empty_track st a : W_book st -> uan_pred st a = None -> uan_succ st a = None ->
  forall m, is_node st m -> trk st m <> Some (uan_tid st a).
Proof.
  intros Wb Hp Hs m Nm Tm. pose proof (uan_neighbors_eq st a) as E. rewrite Hp, Hs in E.
  destruct (EditBook.track_neighbors_spec st _ _ _ _ _ Wb E) as (_ & _ & PP & SS). cbn in PP, SS.
  assert (M : EditBook.track_nodes st (uan_tid st a) m) by (split; assumption).
  pose proof (no_track_at st _ _ Wb (uan_tid_free st a Wb) m M) as N0.
  pose proof (PP m M) as N1. pose proof (SS m M) as N2. lia.
Qed.

(* the accepted action, with every invariant of the id bookkeeping.
   The caller supplies no lineage id (the action computes it); a caller-supplied one is outside the domain:
   nothing relates it to the lineage of the neighbours. *)
Theorem uan_core_keeps_ids st n a px force act st' :
  EditLin.LWF st -> W_trk st -> EditBook.rp_disjoint st -> attrs_ok a -> haskey KLin a = false ->
  user_add_node_core st n a px force = Ok act st' ->
  EditLin.LWF st' /\ W_trk st'.
Proof.
  intros LW Ht Hrp Ao Hnl H. pose proof LW as [C Hd Hf Hl Wb].
  pose proof (proj1 (uan_core_ok_iff st n a px force Hd Hf Ht Wb Hrp Ao) (ex_intro _ act (ex_intro _ st' H))) as R.
  destruct (uan_after_cuts st n a px force Hd Hf Ht Wb R)
    as (acts & s2 & Hcut & Hc & Hd2 & Hf2 & G & Hn2 & Ed & HP & HS & Hboth & Hpy & Hcq & Hkt & Hkk & Hpos & _ & Hpx). cbv zeta in *.
  (* the sorted state *)
  pose proof (track_neighbors_reordered st (uan_tid st a) (uan_time a)) as Hr. fold (uan_sorted st a) in Hr.
  destruct (reordered_frame _ _ _ Hr) as (Eg & _ & _ & _ & _ & _ & _ & _ & Hnode1 & _ & Htm1 & Htrk1 & _ & _ & _ & _ & Hdiv1 & _ & _ & Wd1 & Wf1 & Wt1 & Wc1).
  destruct (uan_nbr_facts st a Hd Hf Ht Wb) as (Wb1 & FP & FS).
  assert (L1 : EditLin.LWF (uan_sorted st a)).
  { constructor; [now apply Wc1|now apply Wd1|now apply Wf1|now apply (W_lin_same_g st)|exact Wb1]. }
  (* the cuts *)
  destruct (uan_cut_keep _ _ _ _ _ L1 (Wt1 Ht) Hcut) as (L2 & Ht2 & K1 & K2).
  pose proof L2 as [C2 _ _ Hl2 Wb2].
  assert (Tfacts : (forall p, uan_pred st a = Some p -> trk s2 p = Some (uan_tid st a)) /\
                   (forall c, uan_succ st a = Some c -> trk s2 c = Some (uan_tid st a)) /\
                   (uan_pred st a = None -> uan_succ st a = None -> forall m, is_node s2 m -> trk s2 m <> Some (uan_tid st a))).
  { destruct (uan_es_cases st a Hd Hf Ht Wb) as [Hes|[(p & Hp & Hs & Hes)|(c & q & Hp & Hs & Hes & Dq)]]; cbv zeta in Hes.
    - assert (Hsame : forall m, trk s2 m = trk st m).
      { intros m. rewrite K1, Htrk1; [reflexivity|]. intros e He. rewrite Hes in He. destruct He. }
      split; [intros p Hp; rewrite Hsame; apply (FP p Hp)|]. split; [intros c Hs; rewrite Hsame; apply (FS c Hs)|].
      intros Hp Hs m Nm. rewrite Hsame. apply (uan_empty_track st a Wb Hp Hs). now apply (gstep_is_node _ _ m G).
    - split; [|split; [intros c Hs'; congruence|intros Hp'; congruence]].
      intros p0 Hp0. rewrite Hp in Hp0. injection Hp0 as <-. rewrite K1, Htrk1; [apply (FP p Hp)|].
      intros e He. rewrite (Hes e He). lia.
    - split; [intros p Hp'; congruence|]. split; [|intros _ Hs'; congruence].
      intros c0 Hc0. rewrite Hs in Hc0. injection Hc0 as <-. rewrite (K2 q c Hes), Htrk1; [apply (FS c Hs)|now apply Hdiv1]. }
  destruct Tfacts as (Tp & Tc & Tnone).
  (* the attributes *)
  destruct (uan_attrs_facts st a Ao Hkt Hkk) as (A0 & A1 & And & Alin & Aoth & Aall).
  destruct (uan_lin_attrs_facts s2 (uan_attrs st a) (uan_pred st a) (uan_succ st a) Hd2 And) as (L & Lk & Lnd & Loth & Lall & Llin).
  { rewrite Alin. apply (ao_lin _ Ao). }
  { intros p Hp. apply (HP p Hp). }
  { intros c Hs. apply (HS c Hs). }
  cbv zeta in *. destruct K_distinct as (D1 & D2 & D3).
  assert (Hno' : haskey KLin (uan_attrs st a) = false) by (unfold haskey in *; now rewrite Alin).
  destruct (Llin Hno') as (LP & LS & LN).
  assert (Hrp2 : EditBook.rp_disjoint s2) by (unfold EditBook.rp_disjoint; rewrite (gs_ft _ _ G); exact Hrp).
  assert (B0 : lookup KTime (uan_lin_attrs s2 (uan_attrs st a) (uan_pred st a) (uan_succ st a)) = Some (VZ (uan_time a)))
    by (rewrite Loth by exact D2; exact A0).
  assert (B1 : lookup KTrack (uan_lin_attrs s2 (uan_attrs st a) (uan_pred st a) (uan_succ st a)) = Some (VZ (uan_tid st a)))
    by (rewrite Loth by exact D3; exact A1).
  assert (Bpos : px = None -> all_in (pos_keys (ft s2)) (uan_lin_attrs s2 (uan_attrs st a) (uan_pred st a) (uan_succ st a)) = true).
  { intros ->. apply Lall. rewrite Aall, (gs_ft _ _ G). unfold uan_no_pos in Hpos. now apply negb_false_iff in Hpos. }
  assert (Bpx : px_ok s2 px).
  { destruct px as [p|]; [|exact I]. cbn [px_ok] in *. rewrite (gs_seg _ _ G). exact Hpx. }
  destruct (uan_splice_spec s2 n _ px _ _ acts (uan_time a) (uan_tid st a) L Hd2 Hf2 Hn2 Hrp2 Lnd B0 B1 Lk Bpos Bpx HP HS Hboth Hpy Hcq)
    as (act' & s' & H' & Hd' & Hf' & Nd' & _ & Ed' & _ & Tk' & Ln' & _ & At' & _ & _ & Hbook).
  rewrite Hc, H' in H. injection H as _ <-.
  destruct (Hbook C2 Wb2) as [C' Wb'].
  assert (Sp : spliced s2 s' n (uan_pred st a) (uan_succ st a)).
  { constructor; [exact Nd'|exact Ed'|exact Hn2|intros p Hp; apply (HP p Hp)|intros c Hs; apply (HS c Hs)|exact Hboth|exact Hpy|exact Hcq]. }
  assert (Told : forall m, m <> n -> trk s' m = trk s2 m) by (intros m Hm; unfold trk, zattr; now rewrite At').
  assert (Lold : forall m, m <> n -> lin s' m = lin s2 m) by (intros m Hm; unfold lin, zattr; now rewrite At').
  split.
  - constructor; [exact C'|exact Hd'|exact Hf'| |exact Wb'].
    apply (spliced_W_lin s2 s' n _ _ Hd2 Sp L Hl2 Ln' Lold LP LS).
    intros Hp Hs m Nm. rewrite (LN Hp Hs). now apply EditBook.next_lin_fresh.
  - exact (spliced_W_trk s2 s' n _ _ Hd2 Hd' Sp _ Ht2 Tk' Told Tp Tc Tnone).
Qed.

Theorem user_add_node_keeps_ids st n a px force top act st' :
  EditLin.LWF st -> W_trk st -> EditBook.rp_disjoint st -> attrs_ok a -> haskey KLin a = false ->
  user_add_node st n a px force top = Ok act st' ->
  EditLin.LWF st' /\ W_trk st'.
Proof.
  intros LW Ht Hrp Ao Hnl H. unfold user_add_node, top_wrap in H.
  destruct (user_add_node_core st n a px force) as [a0 s0|e0 s0] eqn:Hc; [|discriminate H]. injection H as <- <-.
  destruct (uan_core_keeps_ids st n a px force a0 s0 LW Ht Hrp Ao Hnl Hc) as [L' T'].
  destruct top; [|auto]. destruct (finish_top_graph s0 a0 (Some n)) as (Eg & _ & Ef & Eb).
  split; [now apply (EditLin.LWF_same s0)|now apply (W_trk_same_g s0)].
Qed.

(* the invariant bundle of this file: every conjunct of WF that concerns the graph and the id bookkeeping *)
Corollary user_add_node_keeps_all st n a px force top act st' :
  cfg_ok st -> W_dict st -> W_forest st -> W_trk st -> W_lin st -> W_book st ->
  EditBook.rp_disjoint st -> attrs_ok a -> haskey KLin a = false ->
  user_add_node st n a px force top = Ok act st' ->
  cfg_ok st' /\ W_dict st' /\ W_forest st' /\ W_trk st' /\ W_lin st' /\ W_book st'.
Proof.
  intros C Hd Hf Ht Hl Wb Hrp Ao Hnl H.
  destruct (user_add_node_keeps_ids st n a px force top act st' (EditLin.Build_LWF st C Hd Hf Hl Wb) Ht Hrp Ao Hnl H) as [[C' Hd' Hf' Hl' Wb'] Ht'].
  auto 10.
Qed.
