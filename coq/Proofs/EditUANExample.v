(* Concrete states satisfying the hypotheses of the UserAddNode theorems of Proofs/EditUAN.v
   (non-vacuity), and the three behaviours on them: a splice into a gap, a refused / forced add
   below a division, and the refusal of pixels that set_pixels would reject. *)
From Coq Require Import ZArith List Bool Lia.
From FT Require Import Base.Dict Model.Edit Model.EditExec Proofs.DictLemmas Proofs.EditInv Proofs.EditGraph
                       Proofs.EditBasic Proofs.EditUserEdge Proofs.EditTrk Proofs.EditNodeBasic Proofs.EditUAN.
From FT Require Proofs.EditBook Proofs.EditLin.
Import ListNotations.
Open Scope Z_scope.

(* ---- the gap state exg of EditNodeBasic.v: 1 (t = 0) -> 2 (t = 2), one track, one lineage ---- *)
Lemma exg_W_lin : W_lin exg.
Proof.
  constructor.
  - intros u v He. apply exg_edges in He. injection He as -> ->. reflexivity.
  - assert (R : forall a, root exg a -> a = 1).
    { intros a [Na Pa]. apply exg_nodes in Na. destruct Na as [->| ->]; [reflexivity|]. exfalso. apply (Pa 1). reflexivity. }
    intros a b Ra Rb _. now rewrite (R a Ra), (R b Rb).
Qed.
Lemma exg_cfg : cfg_ok exg.
Proof. unfold cfg_ok. cbn. intuition. Qed.
Lemma exg_LWF : EditLin.LWF exg.
Proof. constructor; [apply exg_cfg|apply exg_W_dict|apply exg_W_forest|apply exg_W_lin|apply exg_W_book]. Qed.
Lemma exg_rp : EditBook.rp_disjoint exg.
Proof. intros k _ []. Qed.

(* the new node: time 1, a position, track 1 *)
Definition a_mid : attrs := [(KTime, VZ 1); (KPos, VTok 5); (KTrack, VZ 1)].
Lemma a_mid_ok : attrs_ok a_mid.
Proof.
  constructor.
  - cbn. repeat constructor; cbn; intuition discriminate.
  - cbn. intros v [= <-]. eauto.
  - cbn. intros v [= <-]. eauto.
  - cbn. discriminate.
Qed.

(* splice into the gap: accepted without force; 1 -> 3 -> 2 replaces 1 -> 2; every invariant is kept *)
Example exg_add_between : exists act st', user_add_node_core exg 3 a_mid None false = Ok act st' /\
  W_dict st' /\ W_forest st' /\ is_node st' 3 /\ time_of st' 3 = 1 /\ trk st' 3 = Some 1 /\
  edge st' 1 3 /\ edge st' 3 2 /\ ~ edge st' 1 2 /\ EditLin.LWF st' /\ W_trk st'.
Proof.
  assert (R : uan_refused exg 3 a_mid None false = None) by (vm_compute; reflexivity).
  assert (P : uan_pred exg a_mid = Some 1) by (vm_compute; reflexivity).
  assert (S : uan_succ exg a_mid = Some 2) by (vm_compute; reflexivity).
  destruct (uan_core_spec exg 3 a_mid None false exg_W_dict exg_W_forest exg_W_trk exg_W_book exg_rp a_mid_ok R)
    as (act & st' & H & Hd & Hf & Nd & _ & Tm & Tk & Ed & _).
  exists act, st'. split; [exact H|]. split; [exact Hd|]. split; [exact Hf|].
  split; [apply Nd; now right|]. split; [exact Tm|]. split; [exact Tk|].
  split; [apply Ed; right; left; auto|]. split; [apply Ed; right; right; auto|].
  split; [intros C; apply Ed in C; destruct C as [(_ & _ & C)|[[_ C]|[C _]]]; [apply C; auto|discriminate C|discriminate C]|].
  apply (uan_core_keeps_ids exg 3 a_mid None false act st' exg_LWF exg_W_trk exg_rp a_mid_ok eq_refl H).
Qed.

(* the same request with pixels although there is no array: the pixel validation refuses with ValueError
   before anything is touched; the skip edge 1 -> 2 is still there in the state that comes back *)
Example exg_px_error : exists st', user_add_node_core exg 3 a_mid (Some (1, [0])) false = Err EValue st' /\
  untouched exg st' /\ edge st' 1 2 /\ ~ is_node st' 3.
Proof.
  assert (R : uan_refused exg 3 a_mid (Some (1, [0])) false = Some EValue) by (vm_compute; reflexivity).
  destruct (uan_refused_unchanged exg 3 a_mid (Some (1, [0])) false EValue R) as (st' & H & U).
  exists st'. split; [exact H|]. split; [exact U|].
  assert (Hpx : ~ px_ok exg (Some (1, [0]))) by (intros (sg & C & _); discriminate C).
  destruct (uan_px_error_untouched exg 3 a_mid (Some (1, [0])) false EValue st' exg_W_dict exg_W_forest exg_W_trk exg_W_book
              exg_rp a_mid_ok H Hpx) as (_ & E & N).
  split; [apply E; reflexivity|]. rewrite N, exg_nodes. lia.
Qed.
(* it is the sixth refusal, with the error px_check computes *)
Example exg_px_refusal : px_check exg (Some (1, [0])) = Some EValue /\
  user_add_node_core exg 3 a_mid (Some (1, [0])) false = Err EValue (uan_sorted exg a_mid).
Proof.
  split; [reflexivity|].
  destruct (uan_refusals exg 3 a_mid (Some (1, [0])) false) as (_ & _ & _ & _ & _ & H).
  apply H; try reflexivity. vm_compute. discriminate.
Qed.

(* a refusal before get_track_neighbors returns the very same state *)
Example exg_refused_exists : user_add_node_core exg 2 a_mid None false = Err (EInvalid false) exg.
Proof. destruct (uan_refusals exg 2 a_mid None false) as (_ & _ & H & _). apply H. reflexivity. Qed.
Example exg_refused_no_pos : exists st', user_add_node_core exg 3 [(KTime, VZ 1); (KTrack, VZ 1)] None false = Err (EInvalid false) st' /\
  untouched exg st'.
Proof. apply uan_refused_unchanged. vm_compute. reflexivity. Qed.

(* ---- the division state ex4 of EditTrk.v: 1 divides into 2 and 3, 2 -> 4 ---- *)
Lemma ex4_W_lin : W_lin ex4.
Proof.
  constructor.
  - intros u v H. apply ex4_edges in H. destruct H as [E|[E|E]]; injection E as -> ->; reflexivity.
  - assert (R : forall a, root ex4 a -> a = 1).
    { intros a [Na Ha]. apply ex4_nodes in Na. destruct Na as [->|[->|[->| ->]]]; [reflexivity| | |]; exfalso.
      - apply (Ha 1). reflexivity.
      - apply (Ha 1). reflexivity.
      - apply (Ha 2). reflexivity. }
    intros a b Ra Rb _. now rewrite (R a Ra), (R b Rb).
Qed.
Lemma ex4_LWF : EditLin.LWF ex4.
Proof.
  constructor; [|apply ex4_W_dict|apply ex4_W_forest|apply ex4_W_lin|apply ex4_W_book].
  unfold cfg_ok. cbn. intuition.
Qed.
Lemma ex4_rp : EditBook.rp_disjoint ex4.
Proof. intros k _ []. Qed.

(* continuing track 1 below its division: a conflict (both edges out of 1) *)
Definition a_below : attrs := [(KTime, VZ 1); (KPos, VTok 7); (KTrack, VZ 1)].
Lemma a_below_ok : attrs_ok a_below.
Proof.
  constructor.
  - cbn. repeat constructor; cbn; intuition discriminate.
  - cbn. intros v [= <-]. eauto.
  - cbn. intros v [= <-]. eauto.
  - cbn. discriminate.
Qed.

Example ex4_conflict_refused : exists st', user_add_node_core ex4 7 a_below None false = Err (EInvalid true) st' /\ untouched ex4 st'.
Proof. apply uan_refused_unchanged. vm_compute. reflexivity. Qed.

Example ex4_conflict_forced : exists act st', user_add_node_core ex4 7 a_below None true = Ok act st' /\
  W_dict st' /\ W_forest st' /\ edge st' 1 7 /\ ~ edge st' 1 2 /\ ~ edge st' 1 3 /\ edge st' 2 4 /\
  EditLin.LWF st' /\ W_trk st'.
Proof.
  assert (R : uan_refused ex4 7 a_below None true = None) by (vm_compute; reflexivity).
  assert (P : uan_pred ex4 a_below = Some 1) by (vm_compute; reflexivity).
  assert (S : uan_succ ex4 a_below = None) by (vm_compute; reflexivity).
  assert (Es : uan_conflict_edges ex4 (Some 1) None = [(1, 2); (1, 3)]) by (vm_compute; reflexivity).
  destruct (uan_core_spec ex4 7 a_below None true ex4_W_dict ex4_W_forest ex4_W_trk ex4_W_book ex4_rp a_below_ok R)
    as (act & st' & H & Hd & Hf & _ & _ & _ & _ & Ed & _).
  rewrite P, S, Es in Ed.
  exists act, st'. split; [exact H|]. split; [exact Hd|]. split; [exact Hf|].
  split; [apply Ed; right; left; auto|].
  split; [intros C; apply Ed in C; destruct C as [(_ & C & _)|[[_ C]|[C _]]]; [apply C; cbn; auto|discriminate C|discriminate C]|].
  split; [intros C; apply Ed in C; destruct C as [(_ & C & _)|[[_ C]|[C _]]]; [apply C; cbn; auto|discriminate C|discriminate C]|].
  split.
  { apply Ed. left. split; [reflexivity|]. split; [cbn; intros [C|[C|[]]]; discriminate C|intros [_ C]; discriminate C]. }
  apply (uan_core_keeps_ids ex4 7 a_below None true act st' ex4_LWF ex4_W_trk ex4_rp a_below_ok eq_refl H).
Qed.

(* a node put before the head 2 of track 2, whose parent divides: the conflict is the edge 1 -> 2 *)
Definition a_before : attrs := [(KTime, VZ 0); (KPos, VTok 8); (KTrack, VZ 2)].
Lemma a_before_ok : attrs_ok a_before.
Proof.
  constructor.
  - cbn. repeat constructor; cbn; intuition discriminate.
  - cbn. intros v [= <-]. eauto.
  - cbn. intros v [= <-]. eauto.
  - cbn. discriminate.
Qed.
Example ex4_before_head_forced : exists act st', user_add_node_core ex4 8 a_before None true = Ok act st' /\
  edge st' 8 2 /\ ~ edge st' 1 2 /\ edge st' 1 3 /\ EditLin.LWF st' /\ W_trk st'.
Proof.
  assert (R : uan_refused ex4 8 a_before None true = None) by (vm_compute; reflexivity).
  assert (P : uan_pred ex4 a_before = None) by (vm_compute; reflexivity).
  assert (S : uan_succ ex4 a_before = Some 2) by (vm_compute; reflexivity).
  assert (Es : uan_conflict_edges ex4 None (Some 2) = [(1, 2)]) by (vm_compute; reflexivity).
  destruct (uan_core_spec ex4 8 a_before None true ex4_W_dict ex4_W_forest ex4_W_trk ex4_W_book ex4_rp a_before_ok R)
    as (act & st' & H & _ & _ & _ & _ & _ & _ & Ed & _).
  rewrite P, S, Es in Ed.
  exists act, st'. split; [exact H|].
  split; [apply Ed; right; right; auto|].
  split; [intros C; apply Ed in C; destruct C as [(_ & C & _)|[[C _]|[C _]]]; [apply C; cbn; auto|discriminate C|discriminate C]|].
  split.
  { apply Ed. left. split; [reflexivity|]. split; [cbn; intros [C|[]]; discriminate C|intros [C _]; discriminate C]. }
  apply (uan_core_keeps_ids ex4 8 a_before None true act st' ex4_LWF ex4_W_trk ex4_rp a_before_ok eq_refl H).
Qed.

(* the requested track is occupied at that time: a fresh track id (4) and no neighbours *)
Example ex4_fresh_track : uan_tid ex4 [(KTime, VZ 1); (KPos, VTok 9); (KTrack, VZ 2)] = 4 /\
  uan_pred ex4 [(KTime, VZ 1); (KPos, VTok 9); (KTrack, VZ 2)] = None /\
  uan_succ ex4 [(KTime, VZ 1); (KPos, VTok 9); (KTrack, VZ 2)] = None.
Proof. vm_compute. auto. Qed.
