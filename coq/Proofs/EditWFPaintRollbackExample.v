(* Non-vacuity of Proofs/EditWFPaintRollback.v: rolled-back refused strokes on states reachable from
   EditWFEdge.exs.  In both, UserUpdateSegmentation has already deleted / shrunk the overwritten
   nodes when the nested UserAddNode is refused (forceable division conflict); the rollback
   re-creates them (at the end of the dictionaries), the caller restores the array.  Every
   registered feature, every IoU, the array and the lookups (as sets) are as before. *)
From Coq Require Import ZArith List Bool Lia.
From FT Require Import Base.Dict Model.Edit Model.EditExec Proofs.EditInv Proofs.EditWFEdge Proofs.EditWFNode
  Proofs.EditWFNodeExample Proofs.EditWFPaint Proofs.EditWFPaintRollback.
From FT Require Proofs.EditSessions Proofs.EditInverse.
Import ListNotations.
Open Scope Z_scope.

Definition exs_reg_ok := EditSessions.exs_reg_ok.

(* A: node 5 painted below 3 (frame 2, pixels 0 and 3); then label 7 in track 1 over all of node 4 and one
   pixel of node 5: 4 is deleted, 5 shrunk, UserAddNode refused (1 divides), both undone *)
Definition exr_opsA : list op := [OPaint 5 2 [0; 3] 3 false; OPaint 7 2 [1; 2; 3] 1 false; ODelNode 5].

Example exr_A_WF : WF (run exs exr_opsA).
Proof. apply run_strokes_WF; [reflexivity|apply exs_WF|apply exs_rp_disjoint|apply exs_reg_ok|]. intros o [<-|[<-|[<-|[]]]]; exact I. Qed.

Example exr_A_effect :
  let s1 := run exs (firstn 1 exr_opsA) in let s2 := run exs (firstn 2 exr_opsA) in
  snd (step s1 (OPaint 7 2 [1; 2; 3] 1 false)) = (11, []) /\
  paint_preb s1 7 2 [1; 2; 3] 1 false = false /\                      (* outside the partial theorem *)
  seg s2 = seg s1 /\ seg s1 = Some [[1; 1; 0; 0]; [2; 2; 3; 0]; [5; 4; 4; 5]] /\
  keys (nodes (g s1)) = [1; 2; 3; 4; 5] /\ keys (nodes (g s2)) = [1; 2; 3; 5; 4] /\   (* 4 was re-created *)
  map (fun n => (n, node_attrs s2 n)) [1; 2; 3; 4; 5] = map (fun n => (n, node_attrs s1 n)) [1; 2; 3; 4; 5] /\
  all_edges s1 = [(1, 2); (1, 3); (2, 4); (3, 5)] /\ all_edges s2 = [(1, 2); (1, 3); (2, 4); (3, 5)] /\
  map (fun e => edge_attrs s2 (fst e) (snd e)) (all_edges s1) = map (fun e => edge_attrs s1 (fst e) (snd e)) (all_edges s1) /\
  trk_book (bk s2) = trk_book (bk s1) /\ lin_book (bk s1) = [(1, [1; 2; 3; 4; 5])] /\ lin_book (bk s2) = [(1, [1; 2; 3; 5; 4])].
Proof. vm_compute. repeat split. Qed.

(* B: 1 -> 2 -> 4 is one track, 6 divides into 3 and 5; label 7 in the track of 6 over all of node 2 and a
   background pixel: UserDeleteNode(2) bridges 1 -> 4, UserAddNode is refused (6 divides), the bridge is
   removed and 2 is back between 1 and 4 with its IoUs *)
Definition exr_opsB : list op :=
  [ODelEdge 1 3; OAddNode 6 [(KTime, VZ 0); (KTrack, VZ 20)] (Some (0, [2; 3])) false; OAddEdge 6 3 false;
   OAddNode 5 [(KTime, VZ 2); (KTrack, VZ 21)] (Some (2, [0])) false; OAddEdge 6 5 false;
   OPaint 7 1 [0; 1; 3] 20 false; OPaint 0 1 [0] 0 false].

Example exr_B_WF : WF (run exs exr_opsB).
Proof. apply run_paint_WF_all_check; [reflexivity|apply exs_WF|apply exs_rp_disjoint|apply exs_reg_ok|vm_compute; reflexivity]. Qed.

Example exr_B_pre : forall pre o post, exr_opsB = pre ++ o :: post -> op_pre (run exs pre) o.
Proof. apply pre_alongb_spec. vm_compute. reflexivity. Qed.

Example exr_B_effect :
  let s1 := run exs (firstn 5 exr_opsB) in let s2 := run exs (firstn 6 exr_opsB) in
  snd (step s1 (OPaint 7 1 [0; 1; 3] 20 false)) = (11, []) /\
  paint_preb s1 7 1 [0; 1; 3] 20 false = false /\
  seg s2 = seg s1 /\ seg s1 = Some [[1; 1; 6; 6]; [2; 2; 3; 0]; [5; 4; 4; 0]] /\
  keys (nodes (g s1)) = [1; 2; 3; 4; 6; 5] /\ keys (nodes (g s2)) = [1; 3; 4; 6; 5; 2] /\
  map (fun n => (n, node_attrs s2 n)) [1; 2; 3; 4; 5; 6] = map (fun n => (n, node_attrs s1 n)) [1; 2; 3; 4; 5; 6] /\
  all_edges s1 = [(1, 2); (2, 4); (6, 3); (6, 5)] /\ all_edges s2 = [(1, 2); (6, 3); (6, 5); (2, 4)] /\
  map (fun e => edge_attrs s2 (fst e) (snd e)) (all_edges s1) = map (fun e => edge_attrs s1 (fst e) (snd e)) (all_edges s1) /\
  lookup 1 (trk_book (bk s1)) = Some [1; 2; 4] /\ lookup 1 (trk_book (bk s2)) = Some [1; 4; 2] /\
  (undo_stack s2, rlog s2, nctr s2) = (undo_stack s1, rlog s1, nctr s1).
Proof. vm_compute. repeat split. Qed.

(* the general statement, instantiated: well formed and observably equal *)
Example exr_B_obs :
  let s1 := run exs (firstn 5 exr_opsB) in
  WF (fst (step s1 (OPaint 7 1 [0; 1; 3] 20 false))) /\ EditInverse.obs_eq s1 (fst (step s1 (OPaint 7 1 [0; 1; 3] 20 false))).
Proof.
  cbv zeta. set (s1 := run exs (firstn 5 exr_opsB)).
  destruct (run_paint_WF_all (firstn 5 exr_opsB) exs) as (W1 & R1 & G1); [reflexivity|apply exs_WF|apply exs_rp_disjoint|apply exs_reg_ok| |].
  { apply pre_alongb_spec. vm_compute. reflexivity. }
  fold s1 in W1, R1, G1. cbn [step]. rewrite fst_fin.
  destruct (paint s1 7 1 [0; 1; 3] 20 false) as [a s|e s] eqn:E; cbn [rstate].
  - exfalso. assert (C : fst (snd (fin (paint s1 7 1 [0; 1; 3] 20 false))) = 11) by (vm_compute; reflexivity). rewrite E in C. discriminate C.
  - exact (paint_refused_WF s1 7 1 [0; 1; 3] 20 false e s W1 R1 G1 E).
Qed.
