(* The definitions translated from the current funtracks sources below the user actions
   (Gen/Core*_gen.v, rewritten by harness/translate_core.py on every run):
     data_model/solution_tracks.py   get_next_track_id, get_next_lineage_id, get_track_id, get_lineage_id,
                                     get_track_neighbors, has_track_id_at_time
     data_model/tracks.py            _get_new_node_ids, undo, redo
     annotators/_track_annotator.py  the bookkeeping helpers, _handle_add_node, _handle_delete_node,
                                     _handle_update_track_ids, update
     actions/*.py                    __init__ (which applies the action), _apply and inverse of the seven basic actions
   ARE the hand-written functions of Model/Edit.v (or the slice of a [do_*] function that the method
   implements; each slice comes with a lemma [do_*_slice] showing that the [do_*] function is literally
   built from it): Leibniz equality of the whole result -- value or error, and the state, also the state
   at a raise -- for all arguments.  If the Python changes its behaviour the regenerated definition
   changes and the corresponding equality stops being provable.

   Hypotheses: none, except
   - [gen_get_lineage_id_eq]: the node is in the graph (the hand model's convention: a missing node reads
     as "no attributes"; the unconditional form is [gen_get_lineage_id_char]);
   - [gen_handle_update_track_ids_eq]: every node the walk can reach carries a track id ([walk_dom]; follows
     from W_dict, which every property theorem about do_upd_track has -- [W_dict_walk_dom]).  Without it the
     Python raises KeyError in the middle of the walk where the hand model treats "no track id" as
     "another tracklet" ([walk_dom_needed]);
   - the constructors that collect values into a Python dict -- DeleteEdge, DeleteNode (saved attributes, keyed by
     features.edge_features / node_features) and UpdateNodeAttrs (previous values, keyed by the argument dict):
     the key list has no duplicates ([reg_nodup_needed]); DeleteNode in addition: the node is in the graph or the
     registry is not empty ([del_node_needs_registry]; cfg_ok gives the latter).  [inverse_dom] collects what
     `action.inverse()` needs per class.

   One file per source group, so that a property only depends on the sources it talks about:
     Proofs/CoreTieBase.v      shared small facts (no generated file)
     Proofs/CoreTieQueries.v   solution_tracks.py   <- Gen/CoreQueries_gen.v only
     Proofs/CoreTieTracks.v    tracks.py            <- Gen/CoreTracks_gen.v only
     Proofs/CoreTieHistory.v   PyRt3.hist_undo / hist_redo vs Gen/History_gen.v (no core generated file)
     Proofs/CoreTieAnnot.v     _track_annotator.py  <- Gen/CoreAnnot_gen.v, Gen/CoreQueries_gen.v
     Proofs/CoreTieActions.v   actions/*.py         <- Gen/CoreActions_gen.v, CoreAnnot_gen.v, CoreQueries_gen.v
   This file only re-exports them (and Gen/Core_gen.v, which re-exports the four generated files).

   The proofs never mention a generated variable name: the generated loop bodies are picked up from
   the goal, so a renaming of a Python local does not touch them. *)
From FT Require Export Gen.Core_gen.
From FT Require Export Proofs.CoreTieBase Proofs.CoreTieQueries Proofs.CoreTieTracks Proofs.CoreTieHistory Proofs.CoreTieAnnot Proofs.CoreTieActions.
