(* The definitions translated from the current funtracks sources below the user actions
   (Gen/Core_gen.v, rewritten by harness/translate_core.py on every run):
     data_model/solution_tracks.py   get_next_track_id, get_next_lineage_id, get_track_id, get_lineage_id,
                                     get_track_neighbors, has_track_id_at_time
     data_model/tracks.py            _get_new_node_ids, undo, redo
     annotators/_track_annotator.py  the bookkeeping helpers, _handle_add_node, _handle_delete_node,
                                     _handle_update_track_ids, update
     actions/*.py                    __init__ (which applies the action), _apply and inverse of the seven basic actions
   ARE the hand-written functions of Model/Edit.v (or the slice of a [do_*] function that the method
   implements; each slice comes with a lemma [do_*_slice] showing that the [do_*] function is literally
   built from it): Leibniz equality of the whole result -- value or error, and the state, also the state
   at a raise -- for all arguments.  If the Python changes its behaviour the regenerated definition
   changes and the corresponding equality stops being provable.

   Hypotheses: none, except
   - [gen_get_lineage_id_eq]: the node is in the graph (the hand model's convention: a missing node reads
     as "no attributes"; the unconditional form is [gen_get_lineage_id_char]);
   - [gen_handle_update_track_ids_eq]: every node the walk can reach carries a track id ([walk_dom]; follows
     from W_dict, which every property theorem about do_upd_track has -- [W_dict_walk_dom]).  Without it the
     Python raises KeyError in the middle of the walk where the hand model treats "no track id" as
     "another tracklet" ([walk_dom_needed]);
   - the constructors that collect values into a Python dict -- DeleteEdge, DeleteNode (saved attributes, keyed by
     features.edge_features / node_features) and UpdateNodeAttrs (previous values, keyed by the argument dict):
     the key list has no duplicates ([reg_nodup_needed]); DeleteNode in addition: the node is in the graph or the
     registry is not empty ([del_node_needs_registry]; cfg_ok gives the latter).  [inverse_dom] collects what
     `action.inverse()` needs per class.

   The proofs never mention a generated variable name: the generated loop bodies are picked up from
   the goal, so a renaming of a Python local does not touch them. *)
From Coq Require Import ZArith List Bool Lia Arith.
From FT Require Import Base.Dict Model.Edit Model.PyRt Model.PyRt3 Gen.Core_gen.
From FT Require Import Proofs.DictLemmas Proofs.EditInv Proofs.EditGraph Proofs.EditWalk.
From FT Require Proofs.EditBook Proofs.EditFrame Gen.History_gen.
Import ListNotations.
Open Scope Z_scope.

(* ================================================================== *)
(* 0. small facts                                                      *)
(* ================================================================== *)
Lemma len_eq0 : forall A (l : list A), (Z.of_nat (length l) =? 0) = match l with [] => true | _ => false end.
Proof. destruct l; reflexivity. Qed.

Lemma set_set_eq {V} k (v v' : V) d : set k v (set k v' d) = set k v d.
Proof.
  induction d as [|[k' w] r IH]; cbn; [now rewrite Z.eqb_refl|].
  destruct (k =? k') eqn:E; cbn; rewrite ?Z.eqb_refl, ?E; [reflexivity|now rewrite IH].
Qed.
Lemma set_same {V} k (v : V) d : lookup k d = Some v -> set k v d = d.
Proof.
  induction d as [|[k' w] r IH]; cbn; [discriminate|].
  destruct (k =? k') eqn:E; intros H.
  - apply Z.eqb_eq in E. subst k'. now inversion H.
  - now rewrite IH.
Qed.
Lemma del_set_eq {V} k (v : V) d : del k (set k v d) = del k d.
Proof.
  induction d as [|[k' w] r IH]; cbn; [now rewrite Z.eqb_refl|].
  destruct (k =? k') eqn:E; cbn; rewrite ?Z.eqb_refl, ?E; [reflexivity|now rewrite IH].
Qed.

(* record eta for the lookups: writing back what is there changes nothing *)
Lemma set_trk_book_same st : set_trk_book st (trk_book (bk st)) = st.
Proof. destruct st as [g0 sg f [tb lb mt ml] u r lg c]. reflexivity. Qed.
Lemma set_lin_book_same st : set_lin_book st (lin_book (bk st)) = st.
Proof. destruct st as [g0 sg f [tb lb mt ml] u r lg c]. reflexivity. Qed.
Lemma upd_bk_same st : upd_bk st (bk st) = st.
Proof. destruct st as [g0 sg f b u r lg c]. reflexivity. Qed.
Lemma books_eta (b : books) : {| trk_book := trk_book b; lin_book := lin_book b; max_trk := max_trk b; max_lin := max_lin b |} = b.
Proof. destruct b. reflexivity. Qed.

Lemma zattr_has_node st n k z : zattr st n k = Some z -> has_node st n = true.
Proof.
  unfold zattr, attr, node_attrs, getd, has_node, haskey. destruct (lookup n (nodes (g st))); [reflexivity|discriminate].
Qed.

(* ================================================================== *)
(* 1. data_model/solution_tracks.py                                    *)
(* ================================================================== *)
Theorem gen_get_next_track_id_eq : forall st, gen_get_next_track_id st = Ok (next_trk st) st.
Proof. reflexivity. Qed.
Theorem gen_get_next_lineage_id_eq : forall st, gen_get_next_lineage_id st = Ok (next_lin st) st.
Proof. reflexivity. Qed.

(* the model of tracks.get_track_id is PyRt.py_get_track_id (what the user-action translator maps it to) *)
Theorem gen_get_track_id_eq : forall st n, gen_get_track_id st n = py_get_track_id st n.
Proof.
  intros. unfold gen_get_track_id, py_get_track_id, py_node_attr_req_z, key_is_none.
  destruct (zattr st n KTrack); reflexivity.
Qed.

(* the model of tracks.get_lineage_id(n) is [zattr st n KLin] *)
Theorem gen_get_lineage_id_char : forall st n,
  gen_get_lineage_id st n = if has_node st n then Ok (zattr st n KLin) st else Err EKey st.
Proof.
  intros. unfold gen_get_lineage_id, py_node_attr_get_z, key_is_none. destruct (has_node st n); reflexivity.
Qed.
Theorem gen_get_lineage_id_eq : forall st n, has_node st n = true -> gen_get_lineage_id st n = Ok (zattr st n KLin) st.
Proof. intros st n H. rewrite gen_get_lineage_id_char, H. reflexivity. Qed.

(* list.sort(key=get_time) is the model's stable insertion sort *)
Lemma py_insert_by_time st x l : py_insert_by (fun n => time_of st n) x l = insert_by_time st x l.
Proof. induction l as [|y r IH]; cbn; [reflexivity|]. now rewrite IH. Qed.
Lemma py_sorted_by_time st l : py_sorted_by (fun n => time_of st n) l = sort_by_time st l.
Proof.
  unfold py_sorted_by, sort_by_time. generalize (@nil Z) as acc.
  induction l as [|x r IH]; intros acc; cbn [fold_left]; [reflexivity|]. now rewrite py_insert_by_time, IH.
Qed.

Theorem gen_get_track_neighbors_eq : forall st T t,
  gen_get_track_neighbors st T t = let '(s', r) := track_neighbors st T t in Ok r s'.
Proof.
  intros st T t. unfold gen_get_track_neighbors, track_neighbors, haskey, py_getitem.
  destruct (lookup T (trk_book (bk st))) as [l|] eqn:E; cbn [negb bind]; [|reflexivity].
  rewrite len_eq0. destruct l as [|x r]; [reflexivity|]. cbn [bind]. rewrite E. cbn [bind].
  rewrite py_sorted_by_time.
  set (l' := sort_by_time st (x :: r)).
  set (s' := set_trk_book st (set T l' (trk_book (bk st)))).
  match goal with |- context [py_for_brk _ _ _ ?f] => set (F := f) end.
  assert (L : forall l p, py_for_brk l (p, None) s' F = Ok (scan_neighbors st t l p) s').
  { induction l as [|c q IH]; intros p; cbn [py_for_brk scan_neighbors]; [reflexivity|].
    unfold F at 1. change (time_of s' c) with (time_of st c).
    destruct (time_of st c <? t); cbn [bind fst snd]; [apply IH|].
    destruct (time_of st c >? t); cbn [bind fst snd]; [reflexivity|apply IH]. }
  rewrite L. cbn [bind]. destruct (scan_neighbors st t l' None). reflexivity.
Qed.

Lemma memz_map_time (f : Z -> Z) t l : memz t (map f l) = existsb (fun n => f n =? t) l.
Proof. unfold memz. induction l as [|x r IH]; cbn; [reflexivity|]. now rewrite IH, Z.eqb_sym. Qed.

Theorem gen_has_track_id_at_time_eq : forall st T t,
  gen_has_track_id_at_time st T t = Ok (has_track_at st T t) st.
Proof.
  intros. unfold gen_has_track_id_at_time, has_track_at.
  destruct (lookup T (trk_book (bk st))) as [[|x r]|]; try reflexivity.
  now rewrite memz_map_time.
Qed.

(* ================================================================== *)
(* 2. data_model/tracks.py                                             *)
(* ================================================================== *)
Lemma list_set_app : forall pre x r v, list_set (pre ++ x :: r) (length pre) v = pre ++ v :: r.
Proof. induction pre as [|y p IH]; intros; cbn; [reflexivity|]. now rewrite IH. Qed.

(* _get_new_node_ids: the fuel of the hand model -- or any larger one -- is enough: the collision loop
   stops on an unused id before it runs out (pigeonhole, EditBook.skip_used_spec) *)
Theorem gen_get_new_node_ids_eq : forall st n fuel, (S (length (nodes (g st))) <= fuel)%nat ->
  gen_get_new_node_ids fuel st (Z.of_nat n) = let '(s', ids) := get_new_node_ids st n in Ok ids s'.
Proof.
  intros st n fuel Hfuel. unfold gen_get_new_node_ids, get_new_node_ids, py_range, py_enumerate.
  rewrite Nat2Z.id, map_map.
  set (ids := map (fun i => nctr st + Z.of_nat i) (seq 0 n)).
  change (nctr st + Z.of_nat n) with (nctr st + Z.of_nat n).
  match goal with |- context [py_for _ _ _ ?f] => set (F := f) end.
  (* the collision loop *)
  assert (W : forall k id c id' c' (s0 : state) k', skip_used k st id c = (id', c') -> has_node st id' = false -> (k <= k')%nat ->
              forall C B, C = (fun (i : Z) (s : state) => has_node s i) ->
              B = (fun (i : Z) (s : state) => Ok (nctr s) (upd_nctr s (nctr s + 1))) ->
              py_while_from s0 k' id (upd_nctr st c) C B = Ok id' (upd_nctr st c')).
  { induction k as [|k IH]; intros id c id' c' s0 k' Hs Hf Hk C B -> ->; cbn [skip_used] in Hs.
    - inversion Hs; subst. destruct k'; cbn [py_while_from]; change (has_node (upd_nctr st c') id') with (has_node st id'); now rewrite Hf.
    - destruct (has_node st id) eqn:Ei.
      + destruct k' as [|k']; [lia|]. cbn [py_while_from]. change (has_node (upd_nctr st c) id) with (has_node st id). rewrite Ei.
        cbn [bind]. change (upd_nctr (upd_nctr st c) (nctr (upd_nctr st c) + 1)) with (upd_nctr st (c + 1)).
        change (nctr (upd_nctr st c)) with c.
        apply (IH c (c + 1) id' c' s0 k' Hs Hf ltac:(lia) _ _ eq_refl eq_refl).
      + inversion Hs; subst. destruct k'; cbn [py_while_from]; change (has_node (upd_nctr st c') id') with (has_node st id'); now rewrite Ei. }
  (* the loop over the ids *)
  assert (L : forall rest pre c r' c', new_ids_loop st rest c = (r', c') -> (forall i, In i rest -> i < c) ->
              py_for (combine (map Z.of_nat (seq (length pre) (length rest))) rest) (pre ++ rest) (upd_nctr st c) F
              = Ok (pre ++ r') (upd_nctr st c')).
  { induction rest as [|i r IH]; intros pre c r' c' Hl Hlt; cbn [new_ids_loop] in Hl.
    - inversion Hl; subst. reflexivity.
    - destruct (skip_used (S (length (nodes (g st)))) st i c) as [i1 c1] eqn:Es.
      destruct (new_ids_loop st r c1) as [r1 c2] eqn:El. inversion Hl; subst. clear Hl.
      destruct (EditBook.skip_used_spec st i c i1 c1 (Hlt i (or_introl eq_refl)) Es) as (Hfresh & Hc & _).
      apply EditBook.has_node_false in Hfresh.
      cbn [length seq map combine py_for]. unfold F at 1. cbn beta iota. unfold py_while.
      rewrite (W _ _ _ _ _ (upd_nctr st c) fuel Es Hfresh Hfuel _ _ eq_refl eq_refl). cbn [bind].
      unfold py_list_setitem. rewrite app_length. cbn [length].
      replace ((0 <=? Z.of_nat (length pre)) && (Z.of_nat (length pre) <? Z.of_nat (length pre + S (length r)))) with true
        by (symmetry; apply andb_true_iff; split; [apply Z.leb_le|apply Z.ltb_lt]; lia).
      rewrite Nat2Z.id, list_set_app. cbn [bind].
      specialize (IH (pre ++ [i1]) c1 r1 c' El (fun x Hx => Z.lt_le_trans _ _ _ (Hlt x (or_intror Hx)) Hc)).
      rewrite app_length in IH. cbn [length] in IH. rewrite Nat.add_1_r, <- !app_assoc in IH. exact IH. }
  destruct (new_ids_loop st ids (nctr st + Z.of_nat n)) as [ids' c'] eqn:El.
  change (upd_nctr st (nctr st + Z.of_nat n)) with (upd_nctr st (nctr st + Z.of_nat n)).
  pose proof (L ids [] _ _ _ El) as L0. cbn [length app] in L0. rewrite L0.
  - reflexivity.
  - intros i Hi. unfold ids in Hi. apply in_map_iff in Hi. destruct Hi as (j & <- & Hj). apply in_seq in Hj. lia.
Qed.
(* with exactly the hand model's fuel *)
Corollary gen_get_new_node_ids_same_fuel : forall st n,
  gen_get_new_node_ids (S (length (nodes (g st)))) st (Z.of_nat n) = let '(s', ids) := get_new_node_ids st n in Ok ids s'.
Proof. intros. now apply gen_get_new_node_ids_eq. Qed.

(* Tracks.undo / redo: call the history, emit refresh only when it says True *)
Theorem gen_undo_eq : forall st, gen_undo st = undo st.
Proof.
  intros. unfold gen_undo, undo, hist_undo.
  destruct (length (undo_stack st) <=? length (redo_stack st))%nat; [reflexivity|].
  destruct (nth_error _ _); [|reflexivity]. destruct (inv_action st a); reflexivity.
Qed.
Theorem gen_redo_eq : forall st, gen_redo st = redo st.
Proof.
  intros. unfold gen_redo, redo, hist_redo. destruct (rev (redo_stack st)); [reflexivity|].
  destruct (inv_action _ _); reflexivity.
Qed.

(* [hist_undo] / [hist_redo] (Model/PyRt3.v) and the code generated from actions/action_history.py: whenever
   `action.inverse()` does not raise, the same answer and the same stacks, the new state under the
   cursor.  ([inv_total] as in Proofs/HistoryGen.v; there the same statement is made for the model's
   [undo] / [redo].) *)
Module G := FT.Gen.History_gen.
Definition inv_total (s : state) (a : action) : state * action :=
  match inv_action s a with Ok b s' => (s', b) | Err _ s' => (s', a) end.
Definition to_hist (st : state) : G.hist state action :=
  {| G.cur := st; G.undo_stack := undo_stack st; G.redo_stack := redo_stack st |}.

Theorem hist_undo_generated : forall st dA,
  let gr := G.undo state action inv_total dA (to_hist st) in
  match hist_undo st with
  | Ok b s' => snd gr = b /\ undo_stack s' = G.undo_stack _ _ (fst gr) /\ redo_stack s' = G.redo_stack _ _ (fst gr) /\
               (b = true -> upd_hist (G.cur _ _ (fst gr)) (undo_stack s') (redo_stack s') = s')
  | Err _ _ => True
  end.
Proof.
  intros st dA. unfold hist_undo, G.undo, G.undo_pointer, to_hist. cbn [G.undo_stack G.redo_stack G.cur].
  set (lu := length (undo_stack st)). set (lr := length (redo_stack st)).
  destruct (Nat.leb_spec lu lr) as [Hle|Hgt].
  - destruct (Z.ltb_spec (Z.of_nat lu - Z.of_nat lr - 1) 0) as [_|H]; [|lia]. cbn. repeat split; auto. discriminate.
  - destruct (Z.ltb_spec (Z.of_nat lu - Z.of_nat lr - 1) 0) as [H|_]; [lia|].
    replace (Z.to_nat (Z.of_nat lu - Z.of_nat lr - 1)) with (lu - lr - 1)%nat by lia.
    destruct (nth_error (undo_stack st) (lu - lr - 1)) as [a|] eqn:En.
    + rewrite (nth_error_nth _ _ dA En). unfold inv_total.
      destruct (inv_action st a) as [b s1|e s1] eqn:Ei; cbn [bind]; [|exact I].
      pose proof (EditFrame.aux_inv_action st a) as F. rewrite Ei in F. cbn [rstate] in F. destruct F as (F1 & F2 & _).
      cbn. rewrite F1, F2. repeat split; auto.
    + apply nth_error_None in En. fold lu in En. lia.
Qed.

Lemma rev_cons_last {A} (l : list A) b r' (d : A) : rev l = b :: r' -> last l d = b /\ removelast l = rev r'.
Proof.
  intros H. assert (E : l = rev r' ++ [b]) by (rewrite <- (rev_involutive l), H; reflexivity).
  subst l. split; [apply last_last|apply removelast_last].
Qed.

(* redo pops before it inverts: the generated code runs `inverse` on the state it holds ([cur]); the model
   on that state with the popped stack -- [inv_action] never looks at the stacks, so the theorem is stated
   for the popped state *)
Theorem hist_redo_generated : forall st dA,
  let gr := G.redo state action inv_total dA (to_hist st) in
  match rev (redo_stack st) with
  | [] => hist_redo st = Ok false st /\ snd gr = false
  | b :: r' =>
      snd gr = true /\ G.undo_stack _ _ (fst gr) = undo_stack st /\ G.redo_stack _ _ (fst gr) = rev r' /\
      last (redo_stack st) dA = b /\
      hist_redo st = do _x, s <- inv_action (upd_hist st (undo_stack st) (rev r')) b; Ok true s
  end.
Proof.
  intros st dA. unfold hist_redo, G.redo, to_hist. cbn [G.undo_stack G.redo_stack G.cur].
  destruct (rev (redo_stack st)) as [|b r'] eqn:E.
  - apply (f_equal (@rev action)) in E. rewrite rev_involutive in E. cbn in E. rewrite E. cbn. auto.
  - destruct (rev_cons_last _ _ _ dA E) as [E1 E2].
    assert (Hn : redo_stack st <> []) by (intros H; rewrite H in E; discriminate).
    destruct (Z.eqb_spec (Z.of_nat (length (redo_stack st))) 0) as [H|_].
    + destruct (redo_stack st); [congruence|cbn in H; lia].
    + destruct (inv_total st (last (redo_stack st) dA)) as [s2 x]. cbn. rewrite E2. auto.
Qed.

(* ================================================================== *)
(* 3. annotators/_track_annotator.py                                   *)
(* ================================================================== *)
Lemma zmax_gtb a b : (if b >? a then b else a) = Z.max a b.
Proof. destruct (Z.gtb_spec b a); lia. Qed.

(* projections of a state that was just built *)
Ltac stnorm := cbn [set_trk_book set_lin_book set_max_trk set_max_lin upd_bk upd_nctr bk g ft seg undo_stack redo_stack rlog nctr
                    trk_book lin_book max_trk max_lin].

(* _add_to_tracklet_bookkeeping = book_add_extend + the running maximum *)
Theorem gen_add_to_tracklet_bookkeeping_eq : forall st ns id,
  gen_add_to_tracklet_bookkeeping st ns id =
  Ok tt (upd_bk st {| trk_book := book_add_extend (trk_book (bk st)) ns id; lin_book := lin_book (bk st);
                      max_trk := Z.max (max_trk (bk st)) id; max_lin := max_lin (bk st) |}).
Proof.
  intros st ns id. unfold gen_add_to_tracklet_bookkeeping, book_add_extend, getd, haskey, py_getitem.
  destruct (lookup id (trk_book (bk st))) as [l|] eqn:E; cbn [negb bind]; stnorm.
  - rewrite E. cbn [bind]. stnorm. rewrite <- zmax_gtb.
    destruct (id >? max_trk (bk st)); reflexivity.
  - rewrite lookup_set_eq. cbn [bind]. stnorm.
    rewrite set_set_eq, <- zmax_gtb.
    destruct (id >? max_trk (bk st)); reflexivity.
Qed.

(* _remove_from_tracklet_bookkeeping = book_remove *)
Definition rm_fold (ns l : list Z) : list Z := fold_left (fun acc n => if memz n acc then remove1 n acc else acc) ns l.

Theorem gen_remove_from_tracklet_bookkeeping_eq : forall st ns id,
  gen_remove_from_tracklet_bookkeeping st ns id = Ok tt (set_trk_book st (book_remove (trk_book (bk st)) ns id)).
Proof.
  intros st ns id. unfold gen_remove_from_tracklet_bookkeeping, book_remove, haskey.
  destruct (lookup id (trk_book (bk st))) as [l|] eqn:E; cbn [negb bind]; [|now rewrite set_trk_book_same].
  match goal with |- context [py_for _ _ _ ?f] => set (F := f) end.
  assert (L : forall ns l s, lookup id (trk_book (bk s)) = Some l ->
              py_for ns tt s F = Ok tt (set_trk_book s (set id (rm_fold ns l) (trk_book (bk s))))).
  { clear. induction ns as [|n r IH]; intros l s El; cbn [py_for rm_fold fold_left].
    - now rewrite (set_same _ _ _ El), set_trk_book_same.
    - unfold F at 1. unfold py_getitem, py_list_remove. rewrite El. cbn [bind].
      destruct (memz n l) eqn:Em; cbn [bind].
      + rewrite El. cbn [bind]. rewrite Em. cbn [bind].
        rewrite (IH (remove1 n l)); stnorm; [|apply lookup_set_eq]. now rewrite set_set_eq.
      + now rewrite (IH l s El). }
  rewrite (L ns l st E). cbn [bind]. stnorm. unfold py_getitem, py_delitem, haskey. rewrite lookup_set_eq. cbn [bind].
  fold (rm_fold ns l). destruct (rm_fold ns l) as [|y q] eqn:Er; stnorm.
  - rewrite lookup_set_eq. cbn [bind]. stnorm. now rewrite del_set_eq.
  - reflexivity.
Qed.

Theorem gen_remove_from_lineage_bookkeeping_eq : forall st ns id,
  gen_remove_from_lineage_bookkeeping st ns id = Ok tt (set_lin_book st (book_remove (lin_book (bk st)) ns id)).
Proof.
  intros st ns id. unfold gen_remove_from_lineage_bookkeeping, book_remove, haskey.
  destruct (lookup id (lin_book (bk st))) as [l|] eqn:E; cbn [negb bind]; [|now rewrite set_lin_book_same].
  match goal with |- context [py_for _ _ _ ?f] => set (F := f) end.
  assert (L : forall ns l s, lookup id (lin_book (bk s)) = Some l ->
              py_for ns tt s F = Ok tt (set_lin_book s (set id (rm_fold ns l) (lin_book (bk s))))).
  { clear. induction ns as [|n r IH]; intros l s El; cbn [py_for rm_fold fold_left].
    - now rewrite (set_same _ _ _ El), set_lin_book_same.
    - unfold F at 1. unfold py_getitem, py_list_remove. rewrite El. cbn [bind].
      destruct (memz n l) eqn:Em; cbn [bind].
      + rewrite El. cbn [bind]. rewrite Em. cbn [bind].
        rewrite (IH (remove1 n l)); stnorm; [|apply lookup_set_eq]. now rewrite set_set_eq.
      + now rewrite (IH l s El). }
  rewrite (L ns l st E). cbn [bind]. stnorm. unfold py_getitem, py_delitem, haskey. rewrite lookup_set_eq. cbn [bind].
  fold (rm_fold ns l). destruct (rm_fold ns l) as [|y q] eqn:Er; stnorm.
  - rewrite lookup_set_eq. cbn [bind]. stnorm. now rewrite del_set_eq.
  - reflexivity.
Qed.

(* _add_to_lineage_bookkeeping = book_add_dedup + the running maximum *)
Definition dd_fold (ns l : list Z) : list Z := fold_left (fun acc n => if memz n acc then acc else acc ++ [n]) ns l.

Theorem gen_add_to_lineage_bookkeeping_eq : forall st ns id,
  gen_add_to_lineage_bookkeeping st ns id =
  Ok tt (upd_bk st {| trk_book := trk_book (bk st); lin_book := book_add_dedup (lin_book (bk st)) ns id;
                      max_trk := max_trk (bk st); max_lin := Z.max (max_lin (bk st)) id |}).
Proof.
  intros st ns id. unfold gen_add_to_lineage_bookkeeping, book_add_dedup.
  match goal with |- context [py_for _ _ _ ?f] => set (F := f) end.
  assert (L : forall ns l s, lookup id (lin_book (bk s)) = Some l ->
              py_for ns tt s F = Ok tt (set_lin_book s (set id (dd_fold ns l) (lin_book (bk s))))).
  { clear. induction ns as [|n r IH]; intros l s El; cbn [py_for dd_fold fold_left].
    - now rewrite (set_same _ _ _ El), set_lin_book_same.
    - unfold F at 1. unfold py_getitem. rewrite El. cbn [bind].
      destruct (memz n l) eqn:Em; cbn [bind negb].
      + now rewrite (IH l s El).
      + rewrite El. cbn [bind].
        rewrite (IH (l ++ [n])); stnorm; [|apply lookup_set_eq]. now rewrite set_set_eq. }
  unfold getd, haskey.
  destruct (lookup id (lin_book (bk st))) as [l|] eqn:E; cbn [negb bind].
  - rewrite (L ns l st E). cbn [bind]. stnorm. fold (dd_fold ns l). rewrite <- zmax_gtb.
    destruct (id >? max_lin (bk st)); reflexivity.
  - rewrite (L ns [] _); stnorm; [|apply lookup_set_eq]. cbn [bind]. stnorm. fold (dd_fold ns []).
    rewrite set_set_eq, <- zmax_gtb. destruct (id >? max_lin (bk st)); reflexivity.
Qed.

(* _update_*_bookkeeping: remove, then add *)
Theorem gen_update_tracklet_bookkeeping_eq : forall st ns old new,
  gen_update_tracklet_bookkeeping st ns old new =
  Ok tt (upd_bk st {| trk_book := book_add_extend (book_remove (trk_book (bk st)) ns old) ns new; lin_book := lin_book (bk st);
                      max_trk := Z.max (max_trk (bk st)) new; max_lin := max_lin (bk st) |}).
Proof.
  intros. unfold gen_update_tracklet_bookkeeping.
  rewrite gen_remove_from_tracklet_bookkeeping_eq. cbn [bind]. rewrite gen_add_to_tracklet_bookkeeping_eq. reflexivity.
Qed.
Theorem gen_update_lineage_bookkeeping_eq : forall st ns old new,
  gen_update_lineage_bookkeeping st ns old new =
  Ok tt (upd_bk st {| trk_book := trk_book (bk st);
                      lin_book := book_add_dedup (match old with Some o => book_remove (lin_book (bk st)) ns o | None => lin_book (bk st) end) ns new;
                      max_trk := max_trk (bk st); max_lin := Z.max (max_lin (bk st)) new |}).
Proof.
  intros. unfold gen_update_lineage_bookkeeping. destruct old as [o|]; cbn [bind].
  - rewrite gen_remove_from_lineage_bookkeeping_eq. cbn [bind]. rewrite gen_add_to_lineage_bookkeeping_eq. reflexivity.
  - rewrite gen_add_to_lineage_bookkeeping_eq. reflexivity.
Qed.

Lemma bind_ext_l : forall A B (r : res A) (f1 f2 : A -> state -> res B),
  (forall a s, f1 a s = f2 a s) -> bind r f1 = bind r f2.
Proof. intros A B r f1 f2 H. destruct r; cbn [bind]; auto. Qed.

(* _handle_add_node: the tail of do_add_node *)
Definition book_handle_add_node (st : state) (n : Z) : res unit :=
  match zattr st n KTrack with
  | None => Err EKey st
  | Some t =>
    let b := bk st in
    let tb := book_add_extend (trk_book b) [n] t in
    let mt := Z.max (max_trk b) t in
    let '(lb, ml) := if lin_act (ft st)
                     then match zattr st n KLin with
                          | Some l => (book_add_dedup (lin_book b) [n] l, Z.max (max_lin b) l)
                          | None => (lin_book b, max_lin b) end
                     else (lin_book b, max_lin b) in
    Ok tt (upd_bk st {| trk_book := tb; lin_book := lb; max_trk := mt; max_lin := ml |})
  end.
Theorem gen_handle_add_node_eq : forall st n a px, gen_handle_add_node st n a px = book_handle_add_node st n.
Proof.
  intros st n a px. unfold gen_handle_add_node, book_handle_add_node. rewrite gen_get_track_id_eq. unfold py_get_track_id.
  destruct (zattr st n KTrack) as [t|] eqn:Et; cbn [bind]; [|reflexivity].
  rewrite gen_add_to_tracklet_bookkeeping_eq. cbn [bind]. stnorm.
  destruct (lin_act (ft st)); [|reflexivity].
  unfold py_node_attr_get_z. change (has_node (upd_bk st ?b) n) with (has_node st n). rewrite (zattr_has_node _ _ _ _ Et). cbn [bind].
  change (zattr (upd_bk st ?b) n KLin) with (zattr st n KLin).
  destruct (zattr st n KLin) as [l|]; [|reflexivity].
  rewrite gen_add_to_lineage_bookkeeping_eq. reflexivity.
Qed.
(* do_add_node is: validation, pixels, graph, regionprops -- then exactly this slice *)
Lemma do_add_node_slice : forall st n a px,
  do_add_node st n a px =
  if negb (haskey KTime a) then Err EValue st else
  if negb (haskey KTrack a) then Err EValue st else
  if (match px with None => negb (all_in (pos_keys (ft st)) a) | Some _ => false end) then Err EValue st else
  do _u, st <- (match px with Some p => set_pixels st p n | None => Ok tt st end);
  let nd := nodes (g st) in
  let st := if haskey n nd then st
            else upd_g st {| nodes := nd ++ [(n, [])]; succs := set n (getd n (succs (g st)) []) (succs (g st)) |} in
  let st := fold_left (fun s kv => set_node_attr s n (fst kv) (snd kv)) a st in
  let st := rp_update st n in
  if negb (trk_act (ft st)) then Ok (BAddNode n a px) st else
  do _u, st <- book_handle_add_node st n; Ok (BAddNode n a px) st.
Proof.
  intros. unfold do_add_node, book_handle_add_node.
  repeat match goal with |- (if ?c then _ else _) = (if ?c then _ else _) => destruct c; [reflexivity|] end.
  apply bind_ext_l. intros u s. cbv zeta.
  match goal with |- (if ?c then _ else _) = _ => destruct c; [reflexivity|] end.
  match goal with |- context [zattr ?s n KTrack] => destruct (zattr s n KTrack); [|reflexivity] end.
  match goal with |- context [lin_act ?f] => destruct (lin_act f) end; [|reflexivity].
  match goal with |- context [zattr ?s n KLin] => destruct (zattr s n KLin); reflexivity end.
Qed.

(* _handle_delete_node: the tail of do_del_node *)
Definition book_handle_delete_node (st : state) (n : Z) (saved : attrs) : res unit :=
  let b := bk st in
  let tb := match lookup KTrack saved with Some (VZ t) => book_remove (trk_book b) [n] t | _ => trk_book b end in
  let lb := if lin_act (ft st)
            then match lookup KLin saved with Some (VZ l) => book_remove (lin_book b) [n] l | _ => lin_book b end
            else lin_book b in
  Ok tt (upd_bk st {| trk_book := tb; lin_book := lb; max_trk := max_trk b; max_lin := max_lin b |}).
Theorem gen_handle_delete_node_eq : forall st n saved px, gen_handle_delete_node st n saved px = book_handle_delete_node st n saved.
Proof.
  intros st n saved px. unfold gen_handle_delete_node, book_handle_delete_node, py_attrs_get_z. cbv zeta.
  assert (E0 : forall s, Ok tt s = Ok tt (upd_bk s {| trk_book := trk_book (bk s); lin_book := lin_book (bk s); max_trk := max_trk (bk s); max_lin := max_lin (bk s) |}))
    by (intros s; now rewrite books_eta, upd_bk_same).
  destruct (lookup KTrack saved) as [[t| | | |]|]; cbn [bind];
    try rewrite gen_remove_from_tracklet_bookkeeping_eq; cbn [bind]; stnorm;
    (destruct (lin_act (ft st)); [destruct (lookup KLin saved) as [[l| | | |]|]|]);
    try rewrite gen_remove_from_lineage_bookkeeping_eq; stnorm; try reflexivity; apply E0.
Qed.
Lemma do_del_node_slice : forall st n pxo,
  do_del_node st n pxo =
  match lookup n (nodes (g st)) with
  | None => Err EKey st
  | Some d =>
    let saved := saved_attrs (reg_node (ft st)) d in
    let px := match pxo with Some p => Some p | None => get_pixels st n end in
    do _u, st <- (match px with Some p => set_pixels st p 0 | None => Ok tt st end);
    let sc := map (fun ua => (fst ua, del n (snd ua))) (del n (succs (g st))) in
    let st := upd_g st {| nodes := del n (nodes (g st)); succs := sc |} in
    if negb (trk_act (ft st)) then Ok (BDelNode n saved px) st else
    do _u, st <- book_handle_delete_node st n saved; Ok (BDelNode n saved px) st
  end.
Proof.
  intros. unfold do_del_node, book_handle_delete_node. destruct (lookup n (nodes (g st))); [|reflexivity].
  cbv zeta. apply bind_ext_l. intros u s. match goal with |- (if ?c then _ else _) = _ => destruct c; reflexivity end.
Qed.

(* ---------- _handle_update_track_ids: the relabel walk ---------- *)
Definition has_trk (st : state) (n : Z) : Prop := exists t, zattr st n KTrack = Some t.
(* every node that has a parent carries a track id *)
Definition succ_trk (st : state) : Prop := forall u v, In v (successors st u) -> has_trk st v.
Definition walk_dom (st : state) (start : Z) : Prop := has_trk st start /\ succ_trk st.

Lemma W_dict_walk_dom st start : W_dict st -> has_trk st start -> walk_dom st start.
Proof.
  intros W H. split; [exact H|]. intros u v Hv. apply edge_successors in Hv. destruct (wd_edge_nodes st W u v Hv) as [_ Hn].
  destruct (wd_track st W v Hn) as [k Hk]. exists k. now apply zattr_attr.
Qed.

(* what one visit keeps: track ids stay, the successor lists are the same *)
Definition keeps (s s' : state) : Prop := (forall m, has_trk s m -> has_trk s' m) /\ (forall u, successors s' u = successors s u).
Lemma visit_keeps oldT newT newL s flag tn ln next n :
  keeps s (acc_state (visit oldT newT newL (s, flag, tn, ln, next) n)) /\
  acc_next (visit oldT newT newL (s, flag, tn, ln, next) n) = next ++ successors s n.
Proof.
  destruct (visit_struct oldT newT newL s flag tn ln next n) as [H1 H2].
  pose proof (visit_vz oldT newT newL s flag tn ln next n) as H3.
  split; [split|exact H2].
  - intros m [t Ht]. apply zattr_attr in Ht. destruct (H3 m KTrack (or_introl eq_refl) (ex_intro _ t Ht)) as [z Hz].
    exists z. now apply zattr_attr.
  - intros u. apply (same_struct_successors _ _ _ H1).
Qed.
Lemma keeps_succ_trk s s' : keeps s s' -> succ_trk s -> succ_trk s'.
Proof. intros [K1 K2] H u v Hv. rewrite K2 in Hv. apply K1. eapply H; eauto. Qed.

Definition book_handle_update_track_ids_at (fuel : nat) (st : state) (start oldT newT : Z) (oldL newL : option Z) : res unit :=
  let newL' := if lin_act (ft st) then newL else None in
  match walk fuel oldT newT newL' st [start] true [] [] with
  | None => Err EFuel st
  | Some (st1, tn, ln) =>
    let b := bk st1 in
    let tb := book_add_extend (book_remove (trk_book b) tn oldT) tn newT in
    let mt := Z.max (max_trk b) newT in
    let '(lb, ml) := match newL' with
                     | Some l => (book_add_dedup (match oldL with Some o => book_remove (lin_book b) ln o | None => lin_book b end) ln l,
                                  Z.max (max_lin b) l)
                     | None => (lin_book b, max_lin b) end in
    Ok tt (upd_bk st1 {| trk_book := tb; lin_book := lb; max_trk := mt; max_lin := ml |})
  end.
(* the hand model's fuel *)
Definition book_handle_update_track_ids (st : state) (start oldT newT : Z) (oldL newL : option Z) : res unit :=
  book_handle_update_track_ids_at (S (length (nodes (g st)))) st start oldT newT oldL newL.

Lemma has_trk_sna s n k z m : has_trk s m -> has_trk (set_node_attr s n k (VZ z)) m.
Proof.
  intros [t Ht]. apply zattr_attr in Ht.
  destruct (vz_pres_sna s n k z m KTrack (or_introl eq_refl) (ex_intro _ t Ht)) as [y Hy]. exists y. now apply zattr_attr.
Qed.

Theorem gen_handle_update_track_ids_at_eq : forall fuel st start oldT newT oldL newL, walk_dom st start ->
  gen_handle_update_track_ids fuel st start oldT newT oldL newL =
  book_handle_update_track_ids_at fuel st start oldT newT oldL newL.
Proof.
  intros fuel0 st start oldT newT oldL newL [Hstart Hsucc].
  unfold gen_handle_update_track_ids, book_handle_update_track_ids_at. cbv zeta.
  (* the lineage update is on (NL = Some l) or off (NL = None): the same script for the four cases *)
  destruct (lin_act (ft st)) eqn:Ela; destruct newL as [l|]; cbn [py_is_some andb].
  all: match goal with |- context [walk _ _ _ ?nl _ _ _ _ _] => set (NL := nl) end.
  all: match goal with |- context [py_while _ _ _ ?c ?b] => set (C := c); set (B := b) end.
  all: assert (LV : forall curr s ln tn flag, succ_trk s -> (forall n, In n curr -> has_trk s n) ->
            let '(s', flag', tn', ln', next') := fold_left (visit oldT newT NL) curr (s, flag, tn, ln, []) in
            B (ln, tn, flag, curr) s = Ok (ln', tn', flag', next') s' /\ succ_trk s' /\ (forall n, In n next' -> has_trk s' n))
    by (intros curr0 s0 ln0 tn0 flag0 Hs0 Hc0; unfold B; cbv beta iota;
        match goal with |- context [py_for _ _ _ ?f] => set (F := f) end;
        assert (LF : forall curr s ln tn flag next, succ_trk s -> (forall n, In n curr -> has_trk s n) -> (forall n, In n next -> has_trk s n) ->
                  let '(s', flag', tn', ln', next') := fold_left (visit oldT newT NL) curr (s, flag, tn, ln, next) in
                  py_for curr (ln, tn, flag, next) s F = Ok (ln', tn', flag', next') s' /\ succ_trk s' /\ (forall n, In n next' -> has_trk s' n))
          by (induction curr as [|n r IH]; intros s ln tn flag next Hs Hc Hn; cbn [fold_left py_for]; [auto|];
              destruct (visit_keeps oldT newT NL s flag tn ln next n) as [[K1 K2] K3];
              assert (E : F n (ln, tn, flag, next) s =
                          (let '(s1, f1, tn1, ln1, nx1) := visit oldT newT NL (s, flag, tn, ln, next) n in Ok (ln1, tn1, f1, nx1) s1))
                by (destruct (Hc n (or_introl eq_refl)) as [t0 Ht0]; pose proof (zattr_has_node _ _ _ _ Ht0) as Hnode;
                    unfold F, visit, NL, py_set_node_attr; cbn [val_of_optz]; rewrite ?Hnode; cbn [bind];
                    destruct flag; [|reflexivity];
                    rewrite gen_get_track_id_eq; unfold py_get_track_id;
                    match goal with |- context [zattr ?sa n KTrack] =>
                      assert (Ha : has_trk sa n) by (first [exact (ex_intro _ t0 Ht0) | apply has_trk_sna; exact (ex_intro _ t0 Ht0)]);
                      destruct Ha as [ta Hta]; rewrite Hta; cbn [bind];
                      destruct (ta =? oldT); [|reflexivity];
                      rewrite (zattr_has_node _ _ _ _ Hta); reflexivity
                    end);
              rewrite E; destruct (visit oldT newT NL (s, flag, tn, ln, next) n) as [[[[s1 f1] tn1] ln1] nx1]; cbn [acc_state acc_next] in *; cbn [bind];
              apply IH;
              [ apply (keeps_succ_trk s s1 (conj K1 K2) Hs)
              | intros m Hm; apply K1, Hc; now right
              | intros m Hm; subst nx1; apply in_app_or in Hm; destruct Hm as [Hm|Hm]; [apply K1, Hn, Hm|apply K1; eapply Hs; eauto] ]);
        specialize (LF curr0 s0 ln0 tn0 flag0 [] Hs0 Hc0 (fun n (H : In n []) => match H with end));
        destruct (fold_left (visit oldT newT NL) curr0 (s0, flag0, tn0, ln0, [])) as [[[[s1 f1] tn1] ln1] nx1];
        destruct LF as (LF1 & LF2 & LF3); rewrite LF1; cbn [bind]; auto).
  all: assert (LW : forall fuel s curr flag tn ln, succ_trk s -> (forall n, In n curr -> has_trk s n) ->
            forall (K : list Z * list Z * bool * list Z -> state -> res unit),
            (forall ln tn f1 f2 c1 c2 s, K (ln, tn, f1, c1) s = K (ln, tn, f2, c2) s) ->
            bind (py_while_from st fuel (ln, tn, flag, curr) s C B) K =
            match walk fuel oldT newT NL s curr flag tn ln with
            | Some (s', tn', ln') => K (ln', tn', true, []) s'
            | None => Err EFuel st
            end)
    by (induction fuel as [|f IH]; intros s curr flag tn ln Hs Hc K HK;
        (destruct curr as [|c0 cs]; cbn [py_while_from walk]; unfold C at 1; cbn [py_truthy]; [cbn [bind]; apply HK|]);
        [ reflexivity
        | pose proof (LV (c0 :: cs) s ln tn flag Hs Hc) as L;
          destruct (fold_left (visit oldT newT NL) (c0 :: cs) (s, flag, tn, ln, [])) as [[[[s1 f1] tn1] ln1] nx1];
          destruct L as (L1 & L2 & L3); rewrite L1; cbn [bind]; apply IH; assumption ]).
  all: unfold py_while; rewrite LW; [|exact Hsucc|intros n [<-|[]]; exact Hstart|intros; reflexivity].
  all: destruct (walk fuel0 oldT newT NL st [start] true [] []) as [[[s1 tn1] ln1]|]; [|reflexivity].
  all: cbv beta iota; rewrite gen_update_tracklet_bookkeeping_eq; cbn [bind]; rewrite ?gen_update_lineage_bookkeeping_eq; reflexivity.
Qed.
Theorem gen_handle_update_track_ids_eq : forall st start oldT newT oldL newL, walk_dom st start ->
  gen_handle_update_track_ids (S (length (nodes (g st)))) st start oldT newT oldL newL =
  book_handle_update_track_ids st start oldT newT oldL newL.
Proof. intros. now apply gen_handle_update_track_ids_at_eq. Qed.

(* "for fuel large enough": on a well-formed forest the walk ends within the hand model's fuel
   (EditWalk.levels_empty), and more fuel changes nothing *)
Lemma walk_mono oldT newT newL : forall f st curr flag tn ln r,
  walk f oldT newT newL st curr flag tn ln = Some r -> forall f', (f <= f')%nat -> walk f' oldT newT newL st curr flag tn ln = Some r.
Proof.
  induction f as [|k IH]; intros st curr flag tn ln r H f' Hle; destruct curr as [|c cs]; cbn [walk] in H; try discriminate.
  - destruct f'; exact H.
  - destruct f'; exact H.
  - destruct f' as [|k']; [lia|]. cbn [walk].
    destruct (fold_left (visit oldT newT newL) (c :: cs) (st, flag, tn, ln, [])) as [[[[s1 f1] tn1] ln1] nx1].
    apply (IH _ _ _ _ _ _ H). lia.
Qed.
Definition fuel_ok (st : state) (fuel : nat) : Prop :=
  fuel = S (length (nodes (g st))) \/ (W_dict st /\ W_forest st /\ (S (length (nodes (g st))) <= fuel)%nat).
Theorem gen_handle_update_track_ids_fuel : forall fuel st start oldT newT oldL newL, walk_dom st start -> fuel_ok st fuel ->
  gen_handle_update_track_ids fuel st start oldT newT oldL newL = book_handle_update_track_ids st start oldT newT oldL newL.
Proof.
  intros fuel st start oldT newT oldL newL Hw [->|(Wd & Wf & Hle)]; [now apply gen_handle_update_track_ids_eq|].
  rewrite gen_handle_update_track_ids_at_eq by exact Hw.
  unfold book_handle_update_track_ids, book_handle_update_track_ids_at. cbv zeta.
  destruct (walk (S (length (nodes (g st)))) oldT newT (if lin_act (ft st) then newL else None) st [start] true [] []) as [r|] eqn:W.
  - now rewrite (walk_mono _ _ _ _ _ _ _ _ _ _ W fuel Hle).
  - exfalso. apply walk_none in W. apply W. now apply levels_empty.
Qed.

(* do_upd_track is: read the old ids -- then exactly this slice *)
Lemma do_upd_track_slice : forall st start newT newL,
  do_upd_track st start newT newL =
  if negb (has_node st start) then Err EKey st else
  match zattr st start KTrack with
  | None => Err EKey st
  | Some oldT =>
    let oldL := zattr st start KLin in
    if negb (trk_act (ft st)) then Ok (BUpdTrack start oldT newT oldL newL) st else
    do _u, s <- book_handle_update_track_ids st start oldT newT oldL newL; Ok (BUpdTrack start oldT newT oldL newL) s
  end.
Proof.
  intros. unfold do_upd_track, book_handle_update_track_ids, book_handle_update_track_ids_at.
  destruct (negb (has_node st start)); [reflexivity|]. destruct (zattr st start KTrack) as [oldT|]; [|reflexivity].
  cbv zeta. destruct (negb (trk_act (ft st))); [reflexivity|].
  destruct (walk _ _ _ _ _ _ _ _ _) as [[[s1 tn] ln]|]; [|reflexivity].
  destruct (lin_act (ft st)); [destruct newL|]; reflexivity.
Qed.

(* the hypothesis is needed: node 2, a child of node 1, has no track id.  Relabelling from node 1, the Python
   raises KeyError at get_track_id(2) -- after node 1 was relabelled -- where the hand model reads "no track id"
   as "another tracklet" and finishes. *)
Example walk_dom_needed :
  let nd := [(1, [(KTime, VZ 0); (KTrack, VZ 5)]); (2, [(KTime, VZ 1)])] in
  let st0 := {| g := {| nodes := nd; succs := [(1, [(2, [])]); (2, [])] |}; seg := None;
                ft := {| reg_node := []; reg_edge := []; pos_keys := []; rp_all := []; rp_act := [];
                         iou_avail := false; iou_act := false; trk_act := true; lin_act := true |};
                bk := {| trk_book := [(5, [1])]; lin_book := []; max_trk := 5; max_lin := 0 |};
                undo_stack := []; redo_stack := []; rlog := []; nctr := 0 |} in
  (exists s, gen_handle_update_track_ids 3 st0 1 5 6 None None = Err EKey s /\ zattr s 1 KTrack = Some 6) /\
  (exists s, book_handle_update_track_ids st0 1 5 6 None None = Ok tt s).
Proof. split; eexists; vm_compute; [split|]; reflexivity. Qed.

(* TrackAnnotator.update: nothing when the tracklet feature is off, else the handler of the action's class *)
Definition book_track_annotator_update (st : state) (b : basic) : res unit :=
  if negb (trk_act (ft st)) then Ok tt st else
  match b with
  | BUpdTrack start oldT newT oldL newL => book_handle_update_track_ids st start oldT newT oldL newL
  | BAddNode n _ _ => book_handle_add_node st n
  | BDelNode n saved _ => book_handle_delete_node st n saved
  | _ => Ok tt st
  end.
Lemma bind_ret : forall A (r : res A), bind r (fun a s => Ok a s) = r.
Proof. destruct r; reflexivity. Qed.
Lemma bind_tt : forall (r : res unit), bind r (fun _ s => Ok tt s) = r.
Proof. destruct r as [[] s|e s]; reflexivity. Qed.
Theorem gen_track_annotator_update_eq : forall fuel st b,
  (forall start oldT newT oldL newL, b = BUpdTrack start oldT newT oldL newL -> walk_dom st start /\ fuel_ok st fuel) ->
  gen_track_annotator_update fuel st b = book_track_annotator_update st b.
Proof.
  intros fuel st b H. unfold gen_track_annotator_update, book_track_annotator_update.
  destruct (negb (trk_act (ft st))); [reflexivity|].
  destruct b; try reflexivity; rewrite ?gen_handle_add_node_eq, ?gen_handle_delete_node_eq; try apply bind_tt.
  destruct (H _ _ _ _ _ eq_refl) as [Hw Hf]. rewrite gen_handle_update_track_ids_fuel by assumption. apply bind_tt.
Qed.
(* the actions TrackAnnotator.update ignores *)
Lemma gen_track_annotator_update_other : forall fuel st b,
  match b with BUpdTrack _ _ _ _ _ | BAddNode _ _ _ | BDelNode _ _ _ => False | _ => True end ->
  gen_track_annotator_update fuel st b = Ok tt st.
Proof.
  intros fuel st b H. unfold gen_track_annotator_update. destruct (negb (trk_act (ft st))); [reflexivity|].
  destruct b; try reflexivity; contradiction.
Qed.

(* ================================================================== *)
(* 4. actions/*.py: constructor (= apply) and inverse of the basic actions *)
(* ================================================================== *)
(* UpdateTrackIDs(tracks, start, tracklet_id, lineage_id) = do_upd_track *)
Theorem gen_UpdateTrackIDs_init_fuel : forall fuel st start newT newL, succ_trk st -> fuel_ok st fuel ->
  gen_UpdateTrackIDs_init fuel st start newT newL = do_upd_track st start newT newL.
Proof.
  intros fuel st start newT newL Hs Hfuel. rewrite do_upd_track_slice. unfold gen_UpdateTrackIDs_init.
  rewrite gen_get_track_id_eq. unfold py_get_track_id.
  destruct (zattr st start KTrack) as [oldT|] eqn:Et; cbn [bind].
  - rewrite (zattr_has_node _ _ _ _ Et). cbn [negb]. rewrite gen_get_lineage_id_eq by (eapply zattr_has_node; eauto). cbn [bind].
    unfold gen_UpdateTrackIDs_apply, py_regionprops_update, py_edge_update. cbn [bind].
    rewrite gen_track_annotator_update_eq.
    + unfold book_track_annotator_update. destruct (negb (trk_act (ft st))); cbn [bind]; [reflexivity|].
      destruct (book_handle_update_track_ids st start oldT newT (zattr st start KLin) newL) as [[] s|e s]; reflexivity.
    + intros ? ? ? ? ? E. inversion E; subst. split; [split; [eexists; eassumption|exact Hs]|exact Hfuel].
  - destruct (negb (has_node st start)); reflexivity.
Qed.
Theorem gen_UpdateTrackIDs_init_eq : forall st start newT newL, succ_trk st ->
  gen_UpdateTrackIDs_init (S (length (nodes (g st)))) st start newT newL = do_upd_track st start newT newL.
Proof. intros. apply gen_UpdateTrackIDs_init_fuel; [assumption|now left]. Qed.
Lemma W_dict_succ_trk st : W_dict st -> succ_trk st.
Proof.
  intros W u v Hv. apply edge_successors in Hv. destruct (wd_edge_nodes st W u v Hv) as [_ Hn].
  destruct (wd_track st W v Hn) as [k Hk]. exists k. now apply zattr_attr.
Qed.
(* with the invariants every property theorem about do_upd_track carries: any fuel from the model's on *)
Corollary gen_UpdateTrackIDs_init_WF : forall fuel st start newT newL, W_dict st -> W_forest st ->
  (S (length (nodes (g st))) <= fuel)%nat ->
  gen_UpdateTrackIDs_init fuel st start newT newL = do_upd_track st start newT newL.
Proof. intros. apply gen_UpdateTrackIDs_init_fuel; [now apply W_dict_succ_trk|right; auto]. Qed.
(* UpdateTrackIDs.inverse(): construct the action with the old ids = inv_basic *)
Theorem gen_UpdateTrackIDs_inverse_eq : forall fuel st start oldT newT oldL newL, succ_trk st -> fuel_ok st fuel ->
  gen_UpdateTrackIDs_inverse fuel st start oldT newT oldL newL = inv_basic st (BUpdTrack start oldT newT oldL newL).
Proof.
  intros. unfold gen_UpdateTrackIDs_inverse. rewrite bind_ret. cbn [inv_basic]. now apply gen_UpdateTrackIDs_init_fuel.
Qed.

(* ---------- frame facts of the pieces the actions are made of ---------- *)
Lemma has_node_sna st n k v m : has_node (set_node_attr st n k v) m = has_node st m.
Proof.
  unfold set_node_attr. destruct (lookup n (nodes (g st))) as [d|] eqn:E; [|reflexivity].
  unfold has_node, haskey. cbn. destruct (Z.eq_dec m n) as [->|Hn]; [now rewrite lookup_set_eq, E|now rewrite lookup_set_neq].
Qed.
Lemma has_node_dna st n k m : has_node (del_node_attr st n k) m = has_node st m.
Proof.
  unfold del_node_attr. destruct (lookup n (nodes (g st))) as [d|] eqn:E; [|reflexivity].
  unfold has_node, haskey. cbn. destruct (Z.eq_dec m n) as [->|Hn]; [now rewrite lookup_set_eq, E|now rewrite lookup_set_neq].
Qed.
Lemma fold_sna_frame n v : forall (l : list Z) st,
  let s' := fold_left (fun s k => set_node_attr s n k v) l st in
  seg s' = seg st /\ ft s' = ft st /\ forall m, has_node s' m = has_node st m.
Proof.
  induction l as [|k r IH]; intros st; cbn [fold_left]; [auto|].
  destruct (IH (set_node_attr st n k v)) as (A & B & C). destruct (sna_rest st n k v) as (R1 & R2 & _).
  cbv zeta. rewrite A, B. repeat split; auto. intros m. now rewrite C, has_node_sna.
Qed.
Lemma rp_update_frame st n :
  seg (rp_update st n) = seg st /\ ft (rp_update st n) = ft st /\ forall m, has_node (rp_update st n) m = has_node st m.
Proof. unfold rp_update. destruct (seg st) as [sg|] eqn:Es; [|auto]. rewrite <- Es. apply fold_sna_frame. Qed.
Lemma rp_update_inactive st n : seg st = None \/ rp_act (ft st) = [] -> rp_update st n = st.
Proof. unfold rp_update. intros [H|H]; rewrite H; [reflexivity|]. destruct (seg st); reflexivity. Qed.
Lemma fold_set_attrs_frame n : forall (a : attrs) st,
  let s' := fold_left (fun s kv => set_node_attr s n (fst kv) (snd kv)) a st in
  seg s' = seg st /\ ft s' = ft st /\ forall m, has_node s' m = has_node st m.
Proof.
  induction a as [|[k v] r IH]; intros st; cbn [fold_left fst snd]; [auto|].
  destruct (IH (set_node_attr st n k v)) as (A & B & C). destruct (sna_rest st n k v) as (R1 & R2 & _).
  cbv zeta. rewrite A, B. repeat split; auto. intros m. now rewrite C, has_node_sna.
Qed.

(* ---------- UpdateNodeSeg(tracks, node, pixels, added) = do_upd_seg ---------- *)
Theorem gen_UpdateNodeSeg_init_eq : forall fuel st n px added,
  gen_UpdateNodeSeg_init fuel st n px added = do_upd_seg st n px added.
Proof.
  intros fuel st n px added. unfold gen_UpdateNodeSeg_init, gen_UpdateNodeSeg_apply, do_upd_seg, set_pixels. cbv zeta.
  destruct (seg st) as [sg|] eqn:Es; [|reflexivity]. destruct (frame_ok sg (fst px)); [|reflexivity]. cbn [bind].
  match goal with |- context [upd_seg st ?x] => set (s1 := upd_seg st x) end.
  assert (Hs1 : seg s1 = Some (upd_frame (Z.to_nat (fst px)) (fun f => write_frame 0 f (snd px) (if added then n else 0)) sg)) by reflexivity.
  unfold py_regionprops_update. rewrite Hs1.
  change (rp_act (ft s1)) with (rp_act (ft st)). change (has_node s1 n) with (has_node st n). change (iou_act (ft s1)) with (iou_act (ft st)).
  destruct (rp_update_frame s1 n) as (F1 & F2 & F3).
  assert (E2 : forall s2, seg s2 = seg s1 -> ft s2 = ft s1 -> has_node s2 n = has_node st n ->
            (do _u, s <- py_edge_update s2 (BUpdSeg n px added); do _u0, s0 <- gen_track_annotator_update fuel s (BUpdSeg n px added); Ok tt s0) =
            (if negb (has_node st n) && iou_act (ft st) then Err ENetworkX s2
             else Ok tt (iou_update_edges s2 (map (fun p => (p, n)) (predecessors s2 n) ++ map (fun c => (n, c)) (successors s2 n))))).
  { intros s2 G1 G2 G3. unfold py_edge_update. rewrite G1, Hs1, G2, G3. change (iou_act (ft s1)) with (iou_act (ft st)).
    destruct (iou_act (ft st)) eqn:Ei; [destruct (has_node st n)|]; cbn [negb andb bind]; rewrite ?andb_false_r;
      try rewrite gen_track_annotator_update_other by exact I; try reflexivity.
    unfold iou_update_edges. rewrite G1, Hs1, G2. change (iou_act (ft s1)) with (iou_act (ft st)). now rewrite Ei. }
  destruct (rp_act (ft st)) as [|k0 ks] eqn:Er.
  - cbn [bind]. rewrite andb_false_r. rewrite (rp_update_inactive s1 n) by (right; exact Er).
    rewrite (E2 s1 eq_refl eq_refl eq_refl). destruct (negb (has_node st n) && iou_act (ft st)); reflexivity.
  - destruct (has_node st n) eqn:Eh; cbn [negb andb bind]; [|reflexivity].
    rewrite (E2 (rp_update s1 n) F1 F2 (eq_trans (F3 n) Eh)). reflexivity.
Qed.
Theorem gen_UpdateNodeSeg_inverse_eq : forall fuel st n px added,
  gen_UpdateNodeSeg_inverse fuel st n px added = inv_basic st (BUpdSeg n px added).
Proof. intros. unfold gen_UpdateNodeSeg_inverse. rewrite bind_ret. apply gen_UpdateNodeSeg_init_eq. Qed.

(* ---------- AddEdge(tracks, edge, attributes) = do_add_edge ---------- *)
Theorem gen_AddEdge_init_eq : forall fuel st u v oa,
  gen_AddEdge_init fuel st (u, v) oa = do_add_edge st u v (match oa with Some a => a | None => [] end).
Proof.
  intros fuel st u v oa. unfold gen_AddEdge_init, gen_AddEdge_apply, do_add_edge. cbn [fst snd py_for].
  destruct (has_node st u); cbn [negb bind]; [|reflexivity].
  destruct (has_node st v); cbn [negb bind]; [|reflexivity].
  unfold py_regionprops_update, py_edge_update. cbn [bind].
  rewrite gen_track_annotator_update_other by exact I. reflexivity.
Qed.

(* ---------- DeleteEdge(tracks, edge) = do_del_edge ----------
   the saved attributes are collected into a dict, key by key of features.edge_features: the model's list
   of pairs is that dict as long as the registry lists no key twice (it is the key list of a Python dict) *)
Definition saved_step (d : attrs) (acc : attrs) (k : Z) : attrs :=
  match lookup k d with Some VNone => acc | Some v => acc ++ [(k, v)] | None => acc end.
Lemma set_notin {V} k (v : V) d : ~ In k (keys d) -> set k v d = d ++ [(k, v)].
Proof.
  induction d as [|[k' w] r IH]; cbn; [reflexivity|]. intros H.
  destruct (k =? k') eqn:E; [apply Z.eqb_eq in E; subst; tauto|]. rewrite IH; [reflexivity|tauto].
Qed.
Lemma saved_loop (F : Z -> attrs -> state -> res attrs) (d : attrs) (s : state) :
  (forall k acc, F k acc s = Ok (match py_opt_value (lookup k d) with Some v => set k v acc | None => acc end) s) ->
  forall reg acc, NoDup reg -> (forall k, In k reg -> ~ In k (keys acc)) ->
  py_for reg acc s F = Ok (fold_left (saved_step d) reg acc) s.
Proof.
  intros HF. induction reg as [|k r IH]; intros acc Hnd Hacc; cbn [py_for fold_left]; [reflexivity|].
  inversion Hnd as [|? ? Hk Hr]; subst. rewrite HF. cbn [bind].
  assert (E : match py_opt_value (lookup k d) with Some v => set k v acc | None => acc end = saved_step d acc k).
  { unfold saved_step, py_opt_value. destruct (lookup k d) as [[]|]; try reflexivity; apply set_notin, Hacc; now left. }
  rewrite E. apply IH; [exact Hr|]. intros k' Hk'. unfold saved_step.
  assert (Hb : ~ In k' (keys acc)) by (apply Hacc; now right).
  destruct (lookup k d) as [[]|]; try exact Hb; unfold keys; rewrite map_app, in_app_iff; cbn; intros [H|[H|[]]]; try tauto; subst; tauto.
Qed.
Lemma saved_attrs_fold reg d : saved_attrs reg d = fold_left (saved_step d) reg [].
Proof. reflexivity. Qed.

Theorem gen_DeleteEdge_init_eq : forall fuel st u v, NoDup (reg_edge (ft st)) ->
  gen_DeleteEdge_init fuel st (u, v) = do_del_edge st u v.
Proof.
  intros fuel st u v Hnd. unfold gen_DeleteEdge_init, do_del_edge. cbn [fst snd].
  destruct (has_edge st u v) eqn:He; cbn [negb]; [|reflexivity].
  match goal with |- context [py_for _ _ _ ?f] => set (F := f) end.
  rewrite (saved_loop F (edge_attrs st u v) st); [|intros k acc; unfold F, py_edge_attr_get; cbn [fst snd]; rewrite He; cbn [bind]; destruct (py_opt_value _); reflexivity|exact Hnd|intros k _ []].
  cbn [bind]. rewrite <- saved_attrs_fold.
  unfold gen_DeleteEdge_apply, nx_remove_edge. cbn [fst snd]. rewrite He. cbn [bind].
  unfold py_regionprops_update, py_edge_update. cbn [bind]. rewrite gen_track_annotator_update_other by exact I. reflexivity.
Qed.
Theorem gen_AddEdge_inverse_eq : forall fuel st u v a, NoDup (reg_edge (ft st)) ->
  gen_AddEdge_inverse fuel st (u, v) a = inv_basic st (BAddEdge u v a).
Proof. intros. unfold gen_AddEdge_inverse. rewrite bind_ret. now apply gen_DeleteEdge_init_eq. Qed.
Theorem gen_DeleteEdge_inverse_eq : forall fuel st u v saved,
  gen_DeleteEdge_inverse fuel st (u, v) saved = inv_basic st (BDelEdge u v saved).
Proof. intros. unfold gen_DeleteEdge_inverse. rewrite bind_ret. apply (gen_AddEdge_init_eq fuel st u v (Some saved)). Qed.

Lemma bind_assoc : forall A B C (r : res A) (f : A -> state -> res B) (h : B -> state -> res C),
  bind (bind r f) h = bind r (fun a s => bind (f a s) h).
Proof. destruct r; reflexivity. Qed.

(* ---------- AddNode(tracks, node, attributes, pixels) = do_add_node ---------- *)
Lemma has_node_nx_add_node st n : has_node (nx_add_node st n) n = true.
Proof.
  unfold nx_add_node, has_node. destruct (haskey n (nodes (g st))) eqn:E; [exact E|].
  cbn. apply haskey_keys. unfold keys. rewrite map_app, in_app_iff. right. now left.
Qed.
Lemma set_attrs_loop (F : Z * value -> unit -> state -> res unit) n :
  (forall kv s, has_node s n = true -> F kv tt s = Ok tt (set_node_attr s n (fst kv) (snd kv))) ->
  forall (a : attrs) s, has_node s n = true ->
  py_for a tt s F = Ok tt (fold_left (fun s kv => set_node_attr s n (fst kv) (snd kv)) a s).
Proof.
  intros HF. induction a as [|kv r IH]; intros s Hs; cbn [py_for fold_left]; [reflexivity|].
  rewrite HF by exact Hs. cbn [bind]. apply IH. now rewrite has_node_sna.
Qed.

Theorem gen_AddNode_init_eq : forall fuel st n a px,
  gen_AddNode_init fuel st n a px = do_add_node st n a px.
Proof.
  intros fuel st n a px. rewrite do_add_node_slice. unfold gen_AddNode_init.
  destruct (negb (haskey KTime a)); [reflexivity|]. destruct (negb (haskey KTrack a)); [reflexivity|].
  (* the position check: one key, or all keys of the list *)
  assert (Hpos : (match px with
                  | Some _ => Ok tt st
                  | None => if pos_is_list st
                            then if forallb (fun k => haskey k a) (pos_keys (ft st)) then Ok tt st else Err EValue st
                            else if negb (haskey (pos_single st) a) then Err EValue st else Ok tt st
                  end) = (if (match px with None => negb (all_in (pos_keys (ft st)) a) | Some _ => false end) then Err EValue st else Ok tt st)).
  { destruct px as [p|]; [reflexivity|]. unfold pos_is_list, pos_single, all_in.
    destruct (pos_keys (ft st)) as [|k [|k2 r]]; cbn [forallb hd negb]; try reflexivity.
    - rewrite andb_true_r. destruct (haskey k a); reflexivity.
    - destruct (haskey k a && (haskey k2 a && forallb (fun k0 => haskey k0 a) r)); reflexivity. }
  rewrite Hpos. destruct (match px with None => negb (all_in (pos_keys (ft st)) a) | Some _ => false end); cbn [bind]; [reflexivity|].
  unfold gen_AddNode_apply.
  assert (Hpx : (match px with Some p => do _u, s <- set_pixels st p n; Ok tt s | None => Ok tt st end) =
                (match px with Some p => set_pixels st p n | None => Ok tt st end))
    by (destruct px; [apply bind_tt|reflexivity]).
  rewrite Hpx, bind_assoc. apply bind_ext_l. intros [] s1. cbv zeta.
  match goal with |- context [py_for _ _ _ ?f] => set (F := f) end.
  change (if haskey n (nodes (g s1)) then s1 else _) with (nx_add_node s1 n).
  rewrite (set_attrs_loop F n); [|intros [k v] s Hs; unfold F, py_set_node_attr; cbn [fst snd]; rewrite Hs; reflexivity|apply has_node_nx_add_node].
  cbn [bind].
  set (s2 := fold_left (fun s kv => set_node_attr s n (fst kv) (snd kv)) a (nx_add_node s1 n)).
  assert (Hn2 : has_node s2 n = true) by (unfold s2; rewrite (proj2 (proj2 (fold_set_attrs_frame n a _))); apply has_node_nx_add_node).
  assert (Hrp : py_regionprops_update s2 (BAddNode n a px) = Ok tt (rp_update s2 n)).
  { unfold py_regionprops_update. destruct (seg s2) eqn:Es; [|now rewrite rp_update_inactive by auto].
    destruct (rp_act (ft s2)) eqn:Er; [now rewrite rp_update_inactive by auto|]. now rewrite Hn2. }
  rewrite Hrp. cbn [bind]. unfold py_edge_update. cbn [bind].
  rewrite gen_track_annotator_update_eq by (intros; discriminate).
  unfold book_track_annotator_update. destruct (negb (trk_act (ft (rp_update s2 n)))); cbn [bind]; [reflexivity|].
  destruct (book_handle_add_node (rp_update s2 n) n) as [[] s|e s]; reflexivity.
Qed.

(* ---------- DeleteNode(tracks, node, pixels) = do_del_node ----------
   The constructor reads the node's attributes key by key of features.node_features: the first read raises
   KeyError for a node that is not in the graph -- if there is a key to read.  The hand model answers KeyError
   at once; with an empty registry and a missing node the Python gets as far as graph.remove_node
   (NetworkXError, after zeroing the pixels it was given): [del_node_needs_registry].  Every configuration the
   property theorems talk about registers the time key (cfg_ok). *)
Theorem gen_DeleteNode_init_eq : forall fuel st n pxo, NoDup (reg_node (ft st)) ->
  has_node st n = true \/ reg_node (ft st) <> [] ->
  gen_DeleteNode_init fuel st n pxo = do_del_node st n pxo.
Proof.
  intros fuel st n pxo Hnd Hreg. rewrite do_del_node_slice. unfold gen_DeleteNode_init.
  match goal with |- context [py_for _ _ _ ?f] => set (F := f) end.
  destruct (lookup n (nodes (g st))) as [d|] eqn:El.
  - assert (Hn : has_node st n = true) by (unfold has_node, haskey; now rewrite El).
    assert (Hd : forall k, attr st n k = lookup k d) by (intros k; unfold attr, node_attrs, getd; now rewrite El).
    rewrite (saved_loop F d st); [|intros k acc; unfold F, py_node_attr_get; rewrite Hn, Hd; cbn [bind]; destruct (py_opt_value _); reflexivity|exact Hnd|intros k _ []].
    cbn [bind]. rewrite <- saved_attrs_fold. cbv zeta.
    set (saved := saved_attrs (reg_node (ft st)) d).
    assert (Epx : (match pxo with Some p => Some p | None => get_pixels st n end) = (match pxo with Some p => Some p | None => get_pixels st n end)) by reflexivity.
    set (px := match pxo with Some p => Some p | None => get_pixels st n end).
    unfold gen_DeleteNode_apply.
    assert (Hpx : (match px with Some p => do _u, s <- set_pixels st p 0; Ok tt s | None => Ok tt st end) =
                  (match px with Some p => set_pixels st p 0 | None => Ok tt st end))
      by (destruct px; [apply bind_tt|reflexivity]).
    rewrite Hpx.
    assert (Hsp : forall u s1, (match px with Some p => set_pixels st p 0 | None => Ok tt st end) = Ok u s1 -> has_node s1 n = true).
    { intros u s1. destruct px as [p|]; [|intros H; inversion H; subst; exact Hn].
      unfold set_pixels. destruct (seg st); [|discriminate]. destruct (frame_ok _ _); [|discriminate]. intros H. inversion H; subst. exact Hn. }
    destruct (match px with Some p => set_pixels st p 0 | None => Ok tt st end) as [[] s1|e s1] eqn:Esp; cbn [bind]; [|reflexivity].
    unfold nx_remove_node. rewrite (Hsp tt s1 eq_refl). cbn [bind].
    unfold py_regionprops_update, py_edge_update. cbn [bind].
    rewrite gen_track_annotator_update_eq by (intros; discriminate).
    unfold book_track_annotator_update.
    match goal with |- context [trk_act ?x] => destruct (negb (trk_act x)) end; cbn [bind]; [reflexivity|].
    match goal with |- context [book_handle_delete_node ?s ?m ?sv] => destruct (book_handle_delete_node s m sv) as [[] s'|e s'] end; reflexivity.
  - assert (Hn : has_node st n = false) by (unfold has_node, haskey; now rewrite El).
    destruct Hreg as [H|H]; [congruence|].
    destruct (reg_node (ft st)) as [|k r]; [congruence|]. cbn [py_for]. unfold F at 1, py_node_attr_get. rewrite Hn. reflexivity.
Qed.
Theorem gen_AddNode_inverse_eq : forall fuel st n a px, NoDup (reg_node (ft st)) ->
  has_node st n = true \/ reg_node (ft st) <> [] ->
  gen_AddNode_inverse fuel st n a px = inv_basic st (BAddNode n a px).
Proof. intros. unfold gen_AddNode_inverse. rewrite bind_ret. now apply gen_DeleteNode_init_eq. Qed.
Theorem gen_DeleteNode_inverse_eq : forall fuel st n saved px,
  gen_DeleteNode_inverse fuel st n saved px = inv_basic st (BDelNode n saved px).
Proof. intros. unfold gen_DeleteNode_inverse. rewrite bind_ret. apply gen_AddNode_init_eq. Qed.

(* ---------- UpdateNodeAttrs(tracks, node, attrs) = do_upd_attrs ----------
   [NoDup (keys new)]: the argument is a Python dict; the previous values are collected into a dict too *)
Lemma protected_keys_eq st : annot_all_features st ++ [KTime] = protected_keys st.
Proof. unfold annot_all_features, protected_keys. now rewrite <- !app_assoc. Qed.
Lemma val_of_opt_value o : val_of_opt (py_opt_value o) = match o with Some v => v | None => VNone end.
Proof. destruct o as [[]|]; reflexivity. Qed.

Theorem gen_UpdateNodeAttrs_init_eq : forall fuel st n new, NoDup (keys new) ->
  gen_UpdateNodeAttrs_init fuel st n new = do_upd_attrs st n new.
Proof.
  intros fuel st n new Hnd. unfold gen_UpdateNodeAttrs_init, do_upd_attrs. cbv zeta. rewrite protected_keys_eq.
  (* the protected keys *)
  assert (L1 : forall (l : attrs) s, py_for (keys l) tt s (fun k (_ : unit) s => if memz k (protected_keys st) then Err EValue s else Ok tt s) =
                 if existsb (fun kv => memz (fst kv) (protected_keys st)) l then Err EValue s else Ok tt s).
  { induction l as [|[k v] r IH]; intros s; cbn [keys map py_for existsb fst]; [reflexivity|].
    destruct (memz k (protected_keys st)); cbn [bind orb]; [reflexivity|apply IH]. }
  rewrite L1. destruct (existsb _ new); cbn [bind]; [reflexivity|].
  destruct (lookup n (nodes (g st))) as [d|] eqn:El.
  - assert (Hn : has_node st n = true) by (unfold has_node, haskey; now rewrite El).
    assert (Hd : forall k, attr st n k = lookup k d) by (intros k; unfold attr, node_attrs, getd; now rewrite El).
    (* the previous values *)
    match goal with |- context [py_for (keys new) [] st ?f] => set (G := f) end.
    assert (L2 : forall (l acc : list (Z * value)), NoDup (keys l) -> (forall k, In k (keys l) -> ~ In k (keys acc)) ->
                   py_for (keys l) acc st G = Ok (acc ++ map (fun kv => (fst kv, match lookup (fst kv) d with Some v => v | None => VNone end)) l) st).
    { induction l as [|[k v] r IH]; intros acc Hl Hacc; cbn [keys map py_for fst]; [now rewrite app_nil_r|].
      inversion Hl as [|? ? Hk Hr]; subst. unfold G at 1, py_node_attr_get. rewrite Hn, Hd. cbn [bind]. rewrite val_of_opt_value.
      rewrite set_notin by (apply Hacc; now left). rewrite (IH _ Hr).
      - now rewrite <- app_assoc.
      - intros k' Hk'. unfold keys. rewrite map_app, in_app_iff. cbn. intros [H|[H|[]]]; [revert H; apply Hacc; now right|subst; contradiction]. }
    rewrite (L2 new [] Hnd (fun k _ H => H)). cbn [bind app].
    (* the new values *)
    unfold gen_UpdateNodeAttrs_apply.
    match goal with |- context [py_for new tt st ?f] => set (H := f) end.
    assert (L3 : forall (l : attrs) s, has_node s n = true -> py_for l tt s H = Ok tt (fold_left (fun s kv => apply_attr s n kv) l s)).
    { induction l as [|[k v] r IH]; intros s Hs; cbn [py_for fold_left]; [reflexivity|].
      unfold H at 1, apply_attr, py_pop_node_attr, py_set_node_attr. cbn [fst snd]. rewrite Hs.
      destruct v; cbn [py_value_is_none bind]; apply IH; rewrite ?has_node_sna, ?has_node_dna; exact Hs. }
    rewrite (L3 new st Hn). cbn [bind]. unfold py_regionprops_update, py_edge_update. cbn [bind].
    rewrite gen_track_annotator_update_other by exact I. reflexivity.
  - assert (Hn : has_node st n = false) by (unfold has_node, haskey; now rewrite El).
    destruct new as [|[k v] r]; cbn [keys map py_for bind].
    + unfold gen_UpdateNodeAttrs_apply. cbn [py_for bind]. unfold py_regionprops_update, py_edge_update. cbn [bind].
      rewrite gen_track_annotator_update_other by exact I. reflexivity.
    + unfold py_node_attr_get. rewrite Hn. reflexivity.
Qed.
Theorem gen_UpdateNodeAttrs_inverse_eq : forall fuel st n prev new, NoDup (keys prev) ->
  gen_UpdateNodeAttrs_inverse fuel st n prev new = inv_basic st (BUpdAttrs n prev new).
Proof. intros. unfold gen_UpdateNodeAttrs_inverse. rewrite bind_ret. now apply gen_UpdateNodeAttrs_init_eq. Qed.

(* ---------- `action.inverse()` for an arbitrary basic action = inv_basic ----------
   Python dispatches on the class of the action; [gen_inverse] is that dispatch over the generated methods. *)
Definition gen_inverse (fuel : nat) (st : state) (b : basic) : res basic :=
  match b with
  | BAddNode n a px => gen_AddNode_inverse fuel st n a px
  | BDelNode n saved px => gen_DeleteNode_inverse fuel st n saved px
  | BAddEdge u v a => gen_AddEdge_inverse fuel st (u, v) a
  | BDelEdge u v saved => gen_DeleteEdge_inverse fuel st (u, v) saved
  | BUpdAttrs n prev new => gen_UpdateNodeAttrs_inverse fuel st n prev new
  | BUpdSeg n px added => gen_UpdateNodeSeg_inverse fuel st n px added
  | BUpdTrack start oldT newT oldL newL => gen_UpdateTrackIDs_inverse fuel st start oldT newT oldL newL
  end.
Definition inverse_dom (st : state) (b : basic) : Prop :=
  match b with
  | BAddNode n _ _ => NoDup (reg_node (ft st)) /\ (has_node st n = true \/ reg_node (ft st) <> [])
  | BAddEdge _ _ _ => NoDup (reg_edge (ft st))
  | BUpdAttrs _ prev _ => NoDup (keys prev)
  | BUpdTrack _ _ _ _ _ => succ_trk st
  | _ => True
  end.
Theorem gen_inverse_eq : forall fuel st b, inverse_dom st b -> fuel_ok st fuel ->
  gen_inverse fuel st b = inv_basic st b.
Proof.
  intros fuel st b H Hfuel. destruct b; cbn [gen_inverse inverse_dom] in *.
  - destruct H. now apply gen_AddNode_inverse_eq.
  - apply gen_DeleteNode_inverse_eq.
  - now apply gen_AddEdge_inverse_eq.
  - apply gen_DeleteEdge_inverse_eq.
  - now apply gen_UpdateNodeAttrs_inverse_eq.
  - apply gen_UpdateNodeSeg_inverse_eq.
  - now apply gen_UpdateTrackIDs_inverse_eq.
Qed.
(* the configuration the property theorems are stated for gives the registry half of [inverse_dom] *)
Lemma cfg_ok_reg_nonempty st : cfg_ok st -> reg_node (ft st) <> [].
Proof. intros (_ & _ & H & _) E. rewrite E in H. destruct H. Qed.

(* the registry hypothesis of DeleteNode is needed: no node-feature key registered, node 7 not in the graph.
   The Python zeroes the pixels it was given and then fails in graph.remove_node (NetworkXError); the hand
   model answers KeyError with the array untouched. *)
Example del_node_needs_registry :
  let st0 := {| g := {| nodes := []; succs := [] |}; seg := Some [[5]];
                ft := {| reg_node := []; reg_edge := []; pos_keys := []; rp_all := []; rp_act := [];
                         iou_avail := false; iou_act := false; trk_act := true; lin_act := true |};
                bk := {| trk_book := []; lin_book := []; max_trk := 0; max_lin := 0 |};
                undo_stack := []; redo_stack := []; rlog := []; nctr := 0 |} in
  (exists s, gen_DeleteNode_init 1 st0 7 (Some (0, [0])) = Err ENetworkX s /\ seg s = Some [[0]]) /\
  do_del_node st0 7 (Some (0, [0])) = Err EKey st0.
Proof. split; [eexists; split|]; vm_compute; reflexivity. Qed.
(* ... and so is "no key twice": the model's saved attributes list the pair twice, a dict cannot *)
Example reg_nodup_needed :
  let st0 := {| g := {| nodes := [(1, []); (2, [])]; succs := [(1, [(2, [(8, VTok 3)])]); (2, [])] |}; seg := None;
                ft := {| reg_node := []; reg_edge := [8; 8]; pos_keys := []; rp_all := []; rp_act := [];
                         iou_avail := false; iou_act := false; trk_act := true; lin_act := true |};
                bk := {| trk_book := []; lin_book := []; max_trk := 0; max_lin := 0 |};
                undo_stack := []; redo_stack := []; rlog := []; nctr := 0 |} in
  (exists s, gen_DeleteEdge_init 1 st0 (1, 2) = Ok (BDelEdge 1 2 [(8, VTok 3)]) s) /\
  (exists s, do_del_edge st0 1 2 = Ok (BDelEdge 1 2 [(8, VTok 3); (8, VTok 3)]) s).
Proof. split; eexists; vm_compute; reflexivity. Qed.

(*PRINT-ASSUMPTIONS*)
Print Assumptions gen_get_next_track_id_eq.
Print Assumptions gen_get_next_lineage_id_eq.
Print Assumptions gen_get_track_id_eq.
Print Assumptions gen_get_lineage_id_char.
Print Assumptions gen_get_lineage_id_eq.
Print Assumptions gen_get_track_neighbors_eq.
Print Assumptions gen_has_track_id_at_time_eq.
Print Assumptions gen_get_new_node_ids_eq.
Print Assumptions gen_get_new_node_ids_same_fuel.
Print Assumptions gen_undo_eq.
Print Assumptions gen_redo_eq.
Print Assumptions hist_undo_generated.
Print Assumptions hist_redo_generated.
Print Assumptions gen_add_to_tracklet_bookkeeping_eq.
Print Assumptions gen_remove_from_tracklet_bookkeeping_eq.
Print Assumptions gen_add_to_lineage_bookkeeping_eq.
Print Assumptions gen_remove_from_lineage_bookkeeping_eq.
Print Assumptions gen_update_tracklet_bookkeeping_eq.
Print Assumptions gen_update_lineage_bookkeeping_eq.
Print Assumptions gen_handle_add_node_eq.
Print Assumptions do_add_node_slice.
Print Assumptions gen_handle_delete_node_eq.
Print Assumptions do_del_node_slice.
Print Assumptions gen_handle_update_track_ids_eq.
Print Assumptions do_upd_track_slice.
Print Assumptions W_dict_walk_dom.
Print Assumptions walk_dom_needed.
Print Assumptions gen_track_annotator_update_eq.
Print Assumptions gen_UpdateTrackIDs_init_eq.
Print Assumptions gen_UpdateTrackIDs_inverse_eq.
Print Assumptions gen_UpdateNodeSeg_init_eq.
Print Assumptions gen_UpdateNodeSeg_inverse_eq.
Print Assumptions gen_AddEdge_init_eq.
Print Assumptions gen_DeleteEdge_init_eq.
Print Assumptions gen_AddEdge_inverse_eq.
Print Assumptions gen_DeleteEdge_inverse_eq.
Print Assumptions gen_AddNode_init_eq.
Print Assumptions gen_DeleteNode_init_eq.
Print Assumptions gen_AddNode_inverse_eq.
Print Assumptions gen_DeleteNode_inverse_eq.
Print Assumptions gen_UpdateNodeAttrs_init_eq.
Print Assumptions gen_UpdateNodeAttrs_inverse_eq.
Print Assumptions gen_inverse_eq.
Print Assumptions del_node_needs_registry.
Print Assumptions reg_nodup_needed.
Print Assumptions gen_handle_update_track_ids_at_eq.
Print Assumptions gen_handle_update_track_ids_fuel.
Print Assumptions gen_UpdateTrackIDs_init_fuel.
Print Assumptions gen_UpdateTrackIDs_init_WF.
