(* Read-only operations of the edit machine (property C16).
   The model (Model/Edit.v) is deliberately not pure by construction: it mirrors the writes the
   code performs.  Two "queries" of the implementation write:
     - SolutionTracks.get_track_neighbors sorts tracklet_id_to_nodes[track_id] IN PLACE
       ([track_neighbors] returns the state with the sorted list stored back);
     - Tracks._get_new_node_ids advances node_id_counter ([get_new_node_ids] returns the state
       with the new counter).  It is a private fresh-id source, NOT a read-only query; it is
       excluded from C16 and the exception is stated explicitly below (new_ids_exception).
   All other queries (has_track_id_at_time, get_next_track_id, get_next_lineage_id, get_pixels,
   get_time, successors, predecessors, degrees, attribute reads) are functions [state -> value]
   in the model: they cannot return a changed state, and EditExec.step threads the state through.

   [ro_eq] is the observation equivalence of C16: everything equal, except that the lists of the
   track lookup are compared as multisets (same keys in the same order, each list a permutation).

   No scale field: the model state has no scale component because no modelled operation reads or
   writes tracks.scale after commit 2aa8c45 (export_to_geff used to assign tracks.scale when it
   was None).  The scale clause of C16 is decided by the snapshot harness (harness/props/c16.py),
   not by a theorem.

   This file depends on the model only (no other proof file). *)
From Coq Require Import ZArith List Bool Lia Permutation.
From FT Require Import Base.Dict Model.Edit Model.EditExec.
Import ListNotations.
Open Scope Z_scope.

(* ================================================================== *)
(* 1. lookups compared "as lookups"                                    *)
(* ================================================================== *)

Definition entry_eq (x y : Z * list Z) : Prop := fst x = fst y /\ Permutation (snd x) (snd y).
(* position-wise: same keys in the same order, lists permutations of each other *)
Definition book_eq (b b' : dict (list Z)) : Prop := Forall2 entry_eq b b'.

Lemma entry_eq_refl : forall x, entry_eq x x.
Proof. intros x. split; [reflexivity | apply Permutation_refl]. Qed.

Lemma book_eq_refl : forall b, book_eq b b.
Proof. intros b. induction b as [| x r IH]; constructor; [apply entry_eq_refl | exact IH]. Qed.

Lemma book_eq_sym : forall b b', book_eq b b' -> book_eq b' b.
Proof.
  intros b b' H. induction H as [| x y r r' [Hk Hp] _ IH]; constructor.
  - split; [symmetry; exact Hk | apply Permutation_sym; exact Hp].
  - exact IH.
Qed.

Lemma book_eq_trans : forall b1 b2 b3, book_eq b1 b2 -> book_eq b2 b3 -> book_eq b1 b3.
Proof.
  intros b1 b2 b3 H. revert b3. induction H as [| x y r r' [Hk Hp] _ IH]; intros b3 H23.
  - inversion H23; subst. constructor.
  - inversion H23 as [| y' z r2 r3 [Hk' Hp'] Hr]; subst. constructor.
    + split; [congruence | eapply Permutation_trans; eassumption].
    + apply IH. exact Hr.
Qed.

(* the formulation of the property text: same keys in the same order ... *)
Lemma book_eq_keys : forall b b', book_eq b b' -> keys b = keys b'.
Proof.
  intros b b' H. unfold keys in *. induction H as [| x y r r' [Hk _] _ IH]; cbn [map]; [reflexivity |].
  rewrite Hk, IH. reflexivity.
Qed.

(* ... and for every key the two lists are permutations of each other *)
Definition lookup_rel (o o' : option (list Z)) : Prop :=
  match o, o' with
  | Some l, Some l' => Permutation l l'
  | None, None => True
  | _, _ => False
  end.
Lemma book_eq_lookup : forall b b', book_eq b b' -> forall k, lookup_rel (lookup k b) (lookup k b').
Proof.
  intros b b' H k. induction H as [| [k1 l1] [k2 l2] r r' [Hk Hp] _ IH]; cbn in *; [exact I |].
  subst k2. destruct (k =? k1); [exact Hp | exact IH].
Qed.

(* d[T] = l' where d[T] was a permutation of l' : an equal lookup *)
Lemma book_eq_set : forall (b : dict (list Z)) T l l',
  lookup T b = Some l -> Permutation l l' -> book_eq b (set T l' b).
Proof.
  intros b T l l' Hl Hp. induction b as [| [k v] r IH]; cbn in *; [discriminate Hl |].
  destruct (T =? k) eqn:E.
  - inversion Hl; subst v. apply Z.eqb_eq in E. subst k.
    constructor; [split; [reflexivity | exact Hp] | apply book_eq_refl].
  - constructor; [apply entry_eq_refl | apply IH; exact Hl].
Qed.

(* ================================================================== *)
(* 2. the observation equivalence                                      *)
(* ================================================================== *)

Definition ro_eq (s s' : state) : Prop :=
  g s = g s' /\ seg s = seg s' /\ ft s = ft s' /\
  undo_stack s = undo_stack s' /\ redo_stack s = redo_stack s' /\ rlog s = rlog s' /\
  nctr s = nctr s' /\
  max_trk (bk s) = max_trk (bk s') /\ max_lin (bk s) = max_lin (bk s') /\
  lin_book (bk s) = lin_book (bk s') /\
  book_eq (trk_book (bk s)) (trk_book (bk s')).

Lemma ro_refl : forall s, ro_eq s s.
Proof.
  intros s. unfold ro_eq.
  do 10 (split; [reflexivity |]). apply book_eq_refl.
Qed.

Lemma ro_sym : forall s s', ro_eq s s' -> ro_eq s' s.
Proof.
  intros s s' (H1 & H2 & H3 & H4 & H5 & H6 & H7 & H8 & H9 & H10 & H11). unfold ro_eq.
  do 10 (split; [symmetry; assumption |]). apply book_eq_sym. exact H11.
Qed.

Lemma ro_trans : forall s1 s2 s3, ro_eq s1 s2 -> ro_eq s2 s3 -> ro_eq s1 s3.
Proof.
  intros s1 s2 s3 (H1 & H2 & H3 & H4 & H5 & H6 & H7 & H8 & H9 & H10 & H11)
                  (K1 & K2 & K3 & K4 & K5 & K6 & K7 & K8 & K9 & K10 & K11). unfold ro_eq.
  do 10 (split; [congruence |]). eapply book_eq_trans; eassumption.
Qed.

(* equal states are equivalent; the converse fails (see the example in Props/C16.v) *)
Lemma ro_of_eq : forall s s', s = s' -> ro_eq s s'.
Proof. intros s s' E. subst s'. apply ro_refl. Qed.

(* ================================================================== *)
(* 3. candidates.sort(key=get_time) is a permutation                   *)
(* ================================================================== *)

Lemma insert_by_time_perm : forall st x l, Permutation (insert_by_time st x l) (x :: l).
Proof.
  intros st x l. induction l as [| y r IH]; cbn [insert_by_time].
  - apply Permutation_refl.
  - destruct (time_of st x <? time_of st y).
    + apply Permutation_refl.
    + eapply Permutation_trans; [apply perm_skip; exact IH | apply perm_swap].
Qed.

Lemma sort_fold_perm : forall st l acc,
  Permutation (fold_left (fun a x => insert_by_time st x a) l acc) (l ++ acc).
Proof.
  intros st l. induction l as [| x r IH]; intros acc; cbn [fold_left app].
  - apply Permutation_refl.
  - eapply Permutation_trans; [apply IH |].
    eapply Permutation_trans; [apply Permutation_app_head; apply insert_by_time_perm |].
    apply Permutation_sym, Permutation_middle.
Qed.

Lemma sort_by_time_perm : forall st l, Permutation (sort_by_time st l) l.
Proof.
  intros st l. unfold sort_by_time.
  eapply Permutation_trans; [apply sort_fold_perm |]. rewrite app_nil_r. apply Permutation_refl.
Qed.

(* ================================================================== *)
(* 4. the queries                                                      *)
(* ================================================================== *)

(* get_track_neighbors: the only write is the in-place sort of the queried list *)
Theorem neighbors_ro : forall st T t, ro_eq st (fst (track_neighbors st T t)).
Proof.
  intros st T t. unfold track_neighbors.
  destruct (lookup T (trk_book (bk st))) as [[| x l] |] eqn:E; cbn [fst]; try apply ro_refl.
  unfold ro_eq, upd_bk.
  cbn [g seg ft bk undo_stack redo_stack rlog nctr max_trk max_lin lin_book trk_book].
  do 10 (split; [reflexivity |]).
  apply (book_eq_set _ T (x :: l)); [exact E | apply Permutation_sym, sort_by_time_perm].
Qed.

(* ... and it is exactly: every other list untouched, the queried one stored back sorted *)
Theorem neighbors_exact : forall st T t,
  let s := fst (track_neighbors st T t) in
  (forall k, k <> T -> lookup k (trk_book (bk s)) = lookup k (trk_book (bk st))) /\
  (forall l, lookup T (trk_book (bk st)) = Some l -> lookup T (trk_book (bk s)) = Some (sort_by_time st l)).
Proof.
  intros st T t. unfold track_neighbors.
  assert (Hset : forall (b : dict (list Z)) k v, k <> T -> lookup k (set T v b) = lookup k b).
  { intros b k v Hk. induction b as [| [k2 v2] r IH]; cbn.
    - destruct (Z.eqb_spec k T); [contradiction | reflexivity].
    - destruct (Z.eqb_spec T k2) as [-> | Hn]; cbn.
      + destruct (Z.eqb_spec k k2); [contradiction | reflexivity].
      + destruct (k =? k2); [reflexivity | exact IH]. }
  assert (Hsame : forall (b : dict (list Z)) v, lookup T (set T v b) = Some v).
  { intros b v. induction b as [| [k2 v2] r IH]; cbn; [rewrite Z.eqb_refl; reflexivity |].
    destruct (Z.eqb_spec T k2) as [-> | Hn]; cbn; [rewrite Z.eqb_refl; reflexivity |].
    destruct (Z.eqb_spec T k2); [contradiction | exact IH]. }
  destruct (lookup T (trk_book (bk st))) as [[| x l] |] eqn:E; cbn [fst]; cbv zeta.
  - split; [reflexivity |]. intros l Hl. inversion Hl; subst. exact E.
  - split; cbn [bk upd_bk trk_book].
    + intros k Hk. apply Hset. exact Hk.
    + intros l0 Hl. inversion Hl; subst. apply Hsame.
  - split; [reflexivity |]. intros l Hl. discriminate Hl.
Qed.

(* the ops of EditExec.step that the implementation documents as queries *)
Definition is_query (o : op) : bool :=
  match o with ONeighbors _ _ | OHasTrackAt _ _ | ONextIds => true | _ => false end.

Theorem step_query_ro : forall st o, is_query o = true -> ro_eq st (fst (step st o)).
Proof.
  intros st o Hq. destruct o; try discriminate Hq; cbn [step].
  - pose proof (neighbors_ro st T t) as H.
    destruct (track_neighbors st T t) as [s [p c]]. exact H.
  - apply ro_refl.
  - apply ro_refl.
Qed.

(* has_track_id_at_time / get_next_*_id / get_pixels return no state: as ops they return the
   very state they were given (stronger than ro_eq) *)
Theorem step_pure_query_same : forall st o,
  match o with OHasTrackAt _ _ | ONextIds => fst (step st o) = st | _ => True end.
Proof. intros st o. destruct o; cbn; auto. Qed.

Theorem run_queries_ro : forall ops st, forallb is_query ops = true -> ro_eq st (run st ops).
Proof.
  intros ops. induction ops as [| o r IH]; intros st H.
  - apply ro_refl.
  - cbn [forallb] in H. apply andb_true_iff in H. destruct H as [Ho Hr].
    change (run st (o :: r)) with (run (fst (step st o)) r).
    eapply ro_trans; [apply step_query_ro; exact Ho | apply IH; exact Hr].
Qed.

(* ---------- the documented exception: _get_new_node_ids ---------- *)
Lemma skip_used_mono : forall fuel st id c, c <= snd (skip_used fuel st id c).
Proof.
  intros fuel st. induction fuel as [| f IH]; intros id c; cbn [skip_used].
  - cbn. lia.
  - destruct (has_node st id); [| cbn; lia].
    specialize (IH c (c + 1)). lia.
Qed.

Lemma new_ids_loop_mono : forall st ids c, c <= snd (new_ids_loop st ids c).
Proof.
  intros st ids. induction ids as [| i r IH]; intros c; cbn [new_ids_loop].
  - cbn. lia.
  - pose proof (skip_used_mono (S (length (nodes (g st)))) st i c) as H1.
    destruct (skip_used (S (length (nodes (g st)))) st i c) as [i' c'] eqn:E1. cbn [snd] in H1.
    specialize (IH c').
    destruct (new_ids_loop st r c') as [r' c''] eqn:E2. cbn [snd] in *. lia.
Qed.

(* everything but the counter is untouched; the counter advances by at least n: for n > 0 the
   call is observable, hence not read-only *)
Theorem new_ids_exception : forall st n,
  let s := fst (step st (ONewIds n)) in
  g s = g st /\ seg s = seg st /\ ft s = ft st /\ bk s = bk st /\
  undo_stack s = undo_stack st /\ redo_stack s = redo_stack st /\ rlog s = rlog st /\
  nctr st + Z.of_nat n <= nctr s.
Proof.
  intros st n. cbn [step]. unfold get_new_node_ids.
  pose proof (new_ids_loop_mono st (map (fun i => nctr st + Z.of_nat i) (seq 0 n)) (nctr st + Z.of_nat n)) as Hm.
  destruct (new_ids_loop st _ _) as [ids' c]. cbn in *. repeat split. exact Hm.
Qed.

(* ================================================================== *)
(* 5. ro_eq is an observation equivalence: queries cannot tell          *)
(*    equivalent states apart                                           *)
(* ================================================================== *)

Lemma time_of_g : forall s s', g s = g s' -> forall n, time_of s n = time_of s' n.
Proof. intros s s' E n. unfold time_of, zattr, attr, node_attrs. rewrite E. reflexivity. Qed.

Lemma existsb_perm : forall (f : Z -> bool) l l', Permutation l l' -> existsb f l = existsb f l'.
Proof.
  intros f l l' H. induction H as [| x l l' _ IH | x y l | l1 l2 l3 _ IH1 _ IH2]; cbn.
  - reflexivity.
  - rewrite IH. reflexivity.
  - destruct (f x), (f y); reflexivity.
  - congruence.
Qed.

Lemma existsb_ext' : forall (f h : Z -> bool) l, (forall x, f x = h x) -> existsb f l = existsb h l.
Proof. intros f h l E. induction l as [| x r IH]; cbn; [reflexivity | rewrite E, IH; reflexivity]. Qed.

Theorem queries_respect_ro : forall s s', ro_eq s s' ->
  (forall T t, has_track_at s T t = has_track_at s' T t) /\
  next_trk s = next_trk s' /\ next_lin s = next_lin s' /\
  (forall n, get_pixels s n = get_pixels s' n) /\
  (forall n, successors s n = successors s' n) /\
  (forall n, predecessors s n = predecessors s' n) /\
  (forall n k, attr s n k = attr s' n k).
Proof.
  intros s s' (Hg & Hseg & _ & _ & _ & _ & _ & Hmt & Hml & _ & Hb).
  split; [| split; [| split; [| split; [| split; [| split]]]]].
  - intros T t. unfold has_track_at.
    pose proof (book_eq_lookup _ _ Hb T) as Hl.
    destruct (lookup T (trk_book (bk s))) as [l |], (lookup T (trk_book (bk s'))) as [l' |];
      cbn in Hl; try contradiction; [| reflexivity].
    rewrite (existsb_perm _ _ _ Hl). apply existsb_ext'. intros n.
    rewrite (time_of_g s s' Hg). reflexivity.
  - unfold next_trk. rewrite Hmt. reflexivity.
  - unfold next_lin. rewrite Hml. reflexivity.
  - intros n. unfold get_pixels. rewrite Hseg, (time_of_g s s' Hg). reflexivity.
  - intros n. unfold successors, adj. rewrite Hg. reflexivity.
  - intros n. unfold predecessors, has_edge, adj. rewrite Hg. reflexivity.
  - intros n k. unfold attr, node_attrs. rewrite Hg. reflexivity.
Qed.
