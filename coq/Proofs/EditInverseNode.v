(* C01 for the composite user actions that Proofs/EditInverse.v leaves open:
   UserSwapPredecessors, UserDeleteNode, UserAddNode - undo, and undo / redo any number of times.

   Inverting a recorded group applies the inverses of its members last to first.  The inverse of
   a DeleteEdge re-adds the edge at the END of the adjacency row (and re-adding a node puts it at
   the end of the node table and drops its unregistered attributes), so the state an earlier
   member's inverse runs in is in general only OBSERVABLY equal to the state recorded after that
   member.  Hence every law below is stated in the robust form

       recorded step  st --b--> st1,  any sx with  W_dict sx  and  obs_eq sx st1
       ==>  inv sx b = Ok b' sx'  with  W_dict sx'  and  obs_eq sx' st            [X_undo_obs]

   which is [ConsN W_dict 1] of Proofs/EditInverse.v and composes by [group_ConsN].  Moreover the
   inverse b' is itself a basic action executed in sx, and the preconditions of the laws flip (they
   hold for the opposite action in every state that looks like the post-state), so every recorded
   step is [ConsN W_dict n] for all n [X_ConsN]: the strongest form, [TrI W_dict] / [Consistent].

   The one place where the order of an adjacency row matters is the relabelling walk of
   UpdateTrackIDs; it is handled through the order-independent description of the walk in
   Proofs/EditTrk.v (the walk relabels the unbranched chain below the start node) and a symmetric
   precondition [P_trk].

    1. transport of the graph readers along obs_eq;
    2. UpdateTrackIDs;  3. AddEdge / DeleteEdge;  4. where the track precondition comes from;
    5. UserDeleteEdge / UserAddEdge;  6. UserSwapPredecessors;
    7. UserDeleteNode up to its DeleteNode;  8.-11. AddNode / DeleteNode;
   12. UserDeleteNode;  13. UserAddNode.

   Main statements: C01_user_swap(_at/_consistent/_redo), C01_user_delete_node(_px/_at/_consistent),
   C01_user_add_node(_at/_consistent), C01_user_delete_edge_consistent, C01_user_add_edge_consistent.
   No axioms are used. *)
From Coq Require Import ZArith List Bool Lia Relations.
From FT Require Import Base.Dict Model.Edit Proofs.DictLemmas Proofs.EditInv Proofs.BookLemmas Proofs.EditBook Proofs.EditInverse.
From FT Require Proofs.EditWalk Proofs.EditLin Proofs.EditTrk Proofs.EditBasic Proofs.EditGraph Proofs.EditUserEdge
  Proofs.EditSwap Proofs.EditWFEdge.
Import ListNotations.
Open Scope Z_scope.

(* ================================================================== *)
(* 1. what observational equality transports                            *)
(* ================================================================== *)
Lemma obsv_zpart (a b : option value) : obsv a = obsv b ->
  match a with Some (VZ z) => Some z | _ => None end = match b with Some (VZ z) => Some z | _ => None end.
Proof.
  destruct a as [[| | | |]|], b as [[| | | |]|]; cbn; intros H; try reflexivity; try discriminate H;
    injection H; intros; subst; reflexivity.
Qed.

Lemma obsv_Some (a b : option value) v : obsv a = obsv b -> a = Some v -> v <> VNone -> b = Some v.
Proof.
  intros H -> Hv. destruct v; try contradiction; destruct b as [[| | | |]|]; cbn in H; try discriminate H; try exact (eq_sym H).
Qed.

Lemma NoDup_same_length (l l' : list Z) : NoDup l -> NoDup l' -> (forall x, In x l' <-> In x l) -> length l' = length l.
Proof.
  intros H1 H2 H. apply Nat.le_antisymm; apply NoDup_incl_length; try assumption; intros x Hx; now apply H.
Qed.

Lemma NoDup_single (l : list Z) c : NoDup l -> (forall x, In x l <-> x = c) -> l = [c].
Proof.
  intros Hn H. destruct l as [|a [|b r]].
  - exfalso. apply (proj2 (H c) eq_refl).
  - f_equal. apply H. now left.
  - exfalso. assert (a = c) by (apply H; now left). assert (b = c) by (apply H; right; now left). subst.
    inversion Hn as [|? ? Hx _]. apply Hx. now left.
Qed.

Section ObsTransport.
  Variables s sx : state.
  Hypothesis O : obs_eq s sx.
  Hypothesis Cfg : cfg_ok s.

  Lemma obs_cfg : cfg_ok sx.
  Proof. unfold cfg_ok. rewrite (oe_ft _ _ O). exact Cfg. Qed.
  Lemma obs_rp_disjoint : rp_disjoint s -> rp_disjoint sx.
  Proof. unfold rp_disjoint. now rewrite (oe_ft _ _ O). Qed.
  Lemma obs_zattr n k : In k (reg_node (ft s)) -> zattr sx n k = zattr s n k.
  Proof. intros Hk. unfold zattr. apply obsv_zpart. exact (oe_nattr _ _ O n k Hk). Qed.
  Lemma obs_trk n : trk sx n = trk s n.
  Proof. apply obs_zattr. apply Cfg. Qed.
  Lemma obs_lin n : lin sx n = lin s n.
  Proof. apply obs_zattr. apply Cfg. Qed.
  Lemma obs_time n : time_of sx n = time_of s n.
  Proof. unfold time_of. rewrite obs_zattr; [reflexivity|apply Cfg]. Qed.
  Lemma obs_edge u v : edge sx u v <-> edge s u v.
  Proof. unfold edge. now rewrite (oe_edges _ _ O). Qed.
  Lemma obs_has_node n : has_node sx n = has_node s n.
  Proof.
    destruct (has_node s n) eqn:E.
    - apply has_node_is_node. apply (oe_nodes _ _ O). now apply has_node_is_node.
    - apply has_node_false. rewrite (oe_nodes _ _ O). now apply has_node_false.
  Qed.
  Lemma obs_reach a b : EditWalk.reach sx a b <-> EditWalk.reach s a b.
  Proof. apply EditLin.reach_ext. exact obs_edge. Qed.
  Lemma obs_succ_in u v : In v (successors sx u) <-> In v (successors s u).
  Proof. rewrite <- !edge_successors. apply obs_edge. Qed.
  Lemma obs_iou_of sg u v : iou_of sx sg u v = iou_of s sg u v.
  Proof. unfold iou_of. now rewrite !obs_time. Qed.

  Hypothesis WD : W_dict s.
  Hypothesis WDx : W_dict sx.

  Lemma obs_succ_len u : length (successors sx u) = length (successors s u).
  Proof. apply NoDup_same_length; [apply (wd_adj_nodup s WD)|apply (wd_adj_nodup sx WDx)|apply obs_succ_in]. Qed.
  Lemma obs_nodes_len : length (nodes (g sx)) = length (nodes (g s)).
  Proof.
    pose proof (NoDup_same_length (node_ids s) (node_ids sx) (wd_nodup s WD) (wd_nodup sx WDx) (oe_nodes _ _ O)) as H.
    unfold node_ids, keys in H. now rewrite !map_length in H.
  Qed.
  Lemma obs_single u c : successors sx u = [c] <-> successors s u = [c].
  Proof.
    split; intros E.
    - apply NoDup_single; [apply (wd_adj_nodup s WD)|]. intros x. rewrite <- obs_succ_in, E. cbn. intuition.
    - apply NoDup_single; [apply (wd_adj_nodup sx WDx)|]. intros x. rewrite obs_succ_in, E. cbn. intuition.
  Qed.
  Lemma obs_W_forest : W_forest s -> W_forest sx.
  Proof.
    intros [F1 F2 F3]. constructor.
    - intros u u' v H1 H2. apply (F1 u u' v); now apply obs_edge.
    - intros u. rewrite obs_succ_len. apply F2.
    - intros u v H. rewrite !obs_time. apply F3. now apply obs_edge.
  Qed.
  Lemma obs_chain : forall k n, EditTrk.chain sx k n = EditTrk.chain s k n /\ EditTrk.chain_end sx k n = EditTrk.chain_end s k n.
  Proof.
    induction k as [|k IH]; intros n; cbn [EditTrk.chain EditTrk.chain_end]; [auto|].
    destruct (successors s n) as [|c [|c2 r]] eqn:E.
    - destruct (successors sx n) as [|d [|d2 r']] eqn:E'; auto. apply obs_single in E'. congruence.
    - apply obs_single in E. rewrite E. destruct (IH c) as [-> ->]. auto.
    - destruct (successors sx n) as [|d [|d2 r']] eqn:E'; auto. apply obs_single in E'. congruence.
  Qed.
  (* the id attributes, which W_dict keeps integer on nodes *)
  Lemma obs_id_attr n k : k = KTrack \/ k = KLin -> attr sx n k = attr s n k.
  Proof.
    intros Hk. destruct (in_dec Z.eq_dec n (node_ids s)) as [Hn|Hn].
    - assert (Hnx : is_node sx n) by (now apply (oe_nodes _ _ O)).
      assert (Hz : zattr sx n k = zattr s n k) by (apply obs_zattr; destruct Hk as [-> | ->]; apply Cfg).
      destruct Hk as [-> | ->].
      + destruct (wd_track s WD n Hn) as [z Ez]. destruct (wd_track sx WDx n Hnx) as [z' Ez'].
        rewrite (zattr_VZ _ _ _ _ Ez), (zattr_VZ _ _ _ _ Ez') in Hz. congruence.
      + destruct (wd_lin s WD n Hn) as [z Ez]. destruct (wd_lin sx WDx n Hnx) as [z' Ez'].
        rewrite (zattr_VZ _ _ _ _ Ez), (zattr_VZ _ _ _ _ Ez') in Hz. congruence.
    - assert (Hnx : ~ is_node sx n) by (now rewrite (oe_nodes _ _ O)).
      assert (E : forall t, ~ is_node t n -> attr t n k = None).
      { intros t Ht. unfold attr, node_attrs, getd. apply lookup_None_keys in Ht. unfold node_ids in Ht. now rewrite Ht. }
      now rewrite !E.
  Qed.
End ObsTransport.

Lemma id_attr_eq a b n k : W_dict a -> W_dict b -> (is_node b n <-> is_node a n) -> k = KTrack \/ k = KLin ->
  zattr b n k = zattr a n k -> attr b n k = attr a n k.
Proof.
  intros WDa WDb Hn Hk Hz. destruct (in_dec Z.eq_dec n (node_ids a)) as [Ha|Ha].
  - assert (Hb : is_node b n) by (now apply Hn). destruct Hk as [-> | ->].
    + destruct (wd_track a WDa n Ha) as [z Ez]. destruct (wd_track b WDb n Hb) as [z' Ez'].
      rewrite (zattr_VZ _ _ _ _ Ez), (zattr_VZ _ _ _ _ Ez') in Hz. congruence.
    + destruct (wd_lin a WDa n Ha) as [z Ez]. destruct (wd_lin b WDb n Hb) as [z' Ez'].
      rewrite (zattr_VZ _ _ _ _ Ez), (zattr_VZ _ _ _ _ Ez') in Hz. congruence.
  - assert (Hb : ~ is_node b n) by (now rewrite Hn).
    assert (E : forall t, ~ is_node t n -> attr t n k = None).
    { intros t Ht. unfold attr, node_attrs, getd. apply lookup_None_keys in Ht. unfold node_ids in Ht. now rewrite Ht. }
    now rewrite !E.
Qed.

(* ================================================================== *)
(* 2. UpdateTrackIDs, robustly                                          *)
(* ================================================================== *)
(* The precondition in an order-independent and symmetric form: the unbranched chain below the
   start node carries the start node's id, and when the chain ends in a division none of the
   children carries the old or the new id.  (When the new id is the id the start node already
   carries nothing is relabelled and no condition is needed.) *)
Definition trk_pre (st : state) (start newT : Z) : Prop :=
  let K := length (nodes (g st)) in
  (forall x, In x (EditTrk.chain st K start) -> trk st x = trk st start) /\
  (forall c, (2 <= length (successors st (EditTrk.chain_end st K start)))%nat ->
             In c (successors st (EditTrk.chain_end st K start)) -> trk st c <> trk st start /\ trk st c <> Some newT).
Definition P_trk (st : state) (start newT : Z) : Prop := trk st start = Some newT \/ trk_pre st start newT.

Lemma same_struct_nodes_len s s' : EditWalk.same_struct s s' -> length (nodes (g s')) = length (nodes (g s)).
Proof. intros (H & _). unfold node_ids, keys in H. apply (f_equal (@length Z)) in H. now rewrite !map_length in H. Qed.

Lemma upd_track_trk_effect st start newT newL b st1 oldT :
  cfg_ok st -> W_dict st -> W_forest st -> trk st start = Some oldT -> P_trk st start newT ->
  do_upd_track st start newT newL = Ok b st1 ->
  let Rl := if oldT =? newT then [] else EditTrk.chain st (length (nodes (g st))) start in
  (forall m, trk st1 m = if memz m Rl then Some newT else trk st m) /\ (forall m, In m Rl -> trk st m = Some oldT).
Proof.
  intros Cfg WD WF Ht HP H. cbv zeta. destruct (Z.eqb_spec oldT newT) as [->|Hne].
  - destruct (EditTrk.do_upd_track_same_id st start newT newL b st1 WD (proj1 Cfg) H Ht) as [T _].
    split; [intros m; apply T|intros m []].
  - destruct HP as [E|[H1 H2]]; [congruence|].
    destruct (EditTrk.do_upd_track_trk st start newT newL b st1 oldT WD WF (proj1 Cfg) H) as [T _].
    + intros x Hx. now rewrite (H1 x Hx).
    + intros c1 c2 r Es. rewrite <- Ht. apply (H2 c1); rewrite Es; [cbn; lia|now left].
    + split; [exact T|]. intros m Hm. now rewrite (H1 m Hm).
Qed.

(* a child of the division that ends the chain is not on the chain *)
Lemma child_not_in_chain st K start c : W_forest st ->
  (2 <= length (successors st (EditTrk.chain_end st K start)))%nat -> In c (successors st (EditTrk.chain_end st K start)) ->
  ~ In c (EditTrk.chain st K start).
Proof.
  intros WF Hl Hc Hin. set (e := EditTrk.chain_end st K start) in *.
  assert (Hec : edge st e c) by (now apply edge_successors).
  destruct (EditTrk.chain_parent st K start c Hin) as [->|(p & Hp & Eps)].
  - pose proof (EditTrk.chain_reach st K start e (EditTrk.chain_end_in st K start)) as R.
    pose proof (wf_time st WF e start Hec). destruct (EditLin.reach_time st WF start e R) as [E|T]; [rewrite <- E in *|]; lia.
  - assert (p = e) by (apply (wf_in st WF p e c); [apply edge_successors; rewrite Eps; now left|exact Hec]). subst p.
    rewrite Eps in Hl. cbn in Hl. lia.
Qed.

Lemma P_trk_flip st start newT newL b st1 oldT :
  cfg_ok st -> W_dict st -> W_forest st -> trk st start = Some oldT -> P_trk st start newT ->
  do_upd_track st start newT newL = Ok b st1 -> trk st1 start = Some newT /\ P_trk st1 start oldT.
Proof.
  intros Cfg WD WF Ht HP H.
  destruct (upd_track_trk_effect st start newT newL b st1 oldT Cfg WD WF Ht HP H) as [T Tin]. cbv zeta in T, Tin.
  pose proof (EditWalk.do_upd_track_struct st start newT newL _ eq_refl) as SS. rewrite H in SS. cbn [rstate] in SS.
  destruct (Z.eqb_spec oldT newT) as [->|Hne].
  - assert (E : trk st1 start = Some newT) by (now rewrite T). split; [exact E|now left].
  - destruct HP as [E|[H1 H2]]; [congruence|].
    set (K := length (nodes (g st))) in *.
    assert (Hs : In start (EditTrk.chain st K start)) by apply EditTrk.chain_self.
    assert (E : trk st1 start = Some newT) by (rewrite T; apply memz_In in Hs; now rewrite Hs).
    split; [exact E|]. right. unfold trk_pre. rewrite (same_struct_nodes_len _ _ SS). fold K.
    destruct (EditTrk.chain_ext st st1 (fun u => EditWalk.same_struct_successors _ _ u SS) K start) as [-> ->].
    rewrite (EditWalk.same_struct_successors _ _ _ SS). split.
    + intros x Hx. rewrite T, E. apply memz_In in Hx. now rewrite Hx.
    + intros c Hl Hc. pose proof (child_not_in_chain st K start c WF Hl Hc) as Hn. apply memz_false in Hn.
      rewrite T, Hn, E. destruct (H2 c Hl Hc) as [A B]. split; [exact B|now rewrite <- Ht].
Qed.

Lemma P_trk_obs s sx start T : obs_eq s sx -> cfg_ok s -> W_dict s -> W_dict sx -> P_trk s start T -> P_trk sx start T.
Proof.
  intros O Cfg WD WDx [E|[H1 H2]]; [left; now rewrite (obs_trk s sx O Cfg)|right].
  unfold trk_pre. rewrite (obs_nodes_len s sx O WD WDx). set (K := length (nodes (g s))) in *.
  destruct (obs_chain s sx O WD WDx K start) as [-> ->]. split.
  - intros x Hx. rewrite !(obs_trk s sx O Cfg). now apply H1.
  - intros c Hl Hc. rewrite (obs_succ_len s sx O WD WDx) in Hl. apply (obs_succ_in s sx O) in Hc.
    rewrite !(obs_trk s sx O Cfg). now apply H2.
Qed.

Lemma lin_down_obs s sx start : obs_eq s sx -> cfg_ok s -> lin_down s start -> lin_down sx start.
Proof. intros O Cfg H m R. rewrite !(obs_lin s sx O Cfg). apply H. now apply (obs_reach s sx O). Qed.

(* undoing a recorded UpdateTrackIDs from any state that looks like the recorded post-state *)
Theorem upd_track_undo_obs st start newT newL b st1 sx :
  cfg_ok st -> W_dict st -> W_forest st -> lin_down st start -> P_trk st start newT ->
  do_upd_track st start newT newL = Ok b st1 -> W_dict sx -> obs_eq sx st1 ->
  exists b' sx', inv_basic sx b = Ok b' sx' /\ W_dict sx' /\ obs_eq sx' st.
Proof.
  intros Cfg WD WF Hlin HP H WDx Ox. apply obs_eq_sym in Ox.
  pose proof (EditWalk.do_upd_track_struct st start newT newL _ eq_refl) as SS. rewrite H in SS. cbn [rstate] in SS.
  pose proof SS as (S1 & S2 & S3 & _ & S5 & S6 & _).
  assert (Cfg1 : cfg_ok st1) by (unfold cfg_ok; now rewrite S6).
  pose proof (upd_track_W_dict _ _ _ _ _ _ Cfg WD H) as WD1.
  pose proof (EditWalk.same_struct_W_forest _ _ SS WF) as WF1.
  destruct (do_upd_track_char _ _ _ _ _ _ Cfg H) as (oldT & _ & _ & _ & Hs & Ht & -> & _).
  destruct (wd_lin st WD start Hs) as [o Eo]. apply zattr_VZ in Eo. rewrite Eo. cbn [inv_basic].
  pose proof (obs_cfg st1 sx Ox Cfg1) as Cfgx.
  pose proof (obs_W_forest st1 sx Ox Cfg1 WD1 WDx WF1) as WFx.
  assert (Hsx : is_node sx start) by (apply (oe_nodes _ _ Ox), (EditWalk.same_struct_is_node _ _ _ SS), Hs).
  destruct (EditWalk.do_upd_track_ok sx start oldT (Some o) WDx WFx Hsx) as (b' & sx' & H2).
  exists b', sx'. split; [exact H2|]. pose proof (upd_track_W_dict _ _ _ _ _ _ Cfgx WDx H2) as WDx'. split; [exact WDx'|].
  pose proof (EditWalk.do_upd_track_struct sx start oldT (Some o) _ eq_refl) as SSx. rewrite H2 in SSx. cbn [rstate] in SSx.
  pose proof SSx as (X1 & X2 & X3 & _ & X5 & X6 & _).
  (* track ids *)
  destruct (upd_track_trk_effect st start newT newL _ st1 oldT Cfg WD WF Ht HP H) as [T Tin]. cbv zeta in T, Tin.
  destruct (P_trk_flip st start newT newL _ st1 oldT Cfg WD WF Ht HP H) as [Ht1 HP1].
  assert (Htx : trk sx start = Some newT) by (now rewrite (obs_trk st1 sx Ox Cfg1)).
  pose proof (P_trk_obs st1 sx start oldT Ox Cfg1 WD1 WDx HP1) as HPx.
  destruct (upd_track_trk_effect sx start oldT (Some o) b' sx' newT Cfgx WDx WFx Htx HPx H2) as [Tx _]. cbv zeta in Tx.
  assert (Etrk : forall m, trk sx' m = trk st m).
  { intros m. rewrite Tx, (Z.eqb_sym newT oldT). destruct (Z.eqb_spec oldT newT) as [->|Hne].
    - cbn. now rewrite (obs_trk st1 sx Ox Cfg1), T.
    - rewrite (obs_nodes_len st1 sx Ox WD1 WDx), (same_struct_nodes_len _ _ SS).
      set (K := length (nodes (g st))) in *.
      destruct (obs_chain st1 sx Ox WD1 WDx K start) as [-> _].
      destruct (EditTrk.chain_ext st st1 (fun u => EditWalk.same_struct_successors _ _ u SS) K start) as [-> _].
      destruct (memz m (EditTrk.chain st K start)) eqn:Em.
      + apply memz_In in Em. symmetry. now apply Tin.
      + now rewrite (obs_trk st1 sx Ox Cfg1), T, Em. }
  (* lineage ids *)
  pose proof (EditLin.do_upd_track_lin st start newT newL _ st1 WD (proj1 Cfg) (proj1 (proj2 Cfg)) Hs H) as L1.
  pose proof (EditLin.do_upd_track_lin sx start oldT (Some o) b' sx' WDx (proj1 Cfgx) (proj1 (proj2 Cfgx)) Hsx H2) as [L2 L3].
  assert (Elin : forall m, lin sx' m = lin st m).
  { intros m. destruct (EditLin.reach_dec st WD WF start m) as [R|R].
    - rewrite L2; [|apply (obs_reach st1 sx Ox), (EditWalk.reach_same_struct _ _ _ _ SS), R].
      rewrite (Hlin m R). symmetry. exact Eo.
    - rewrite L3; [|intros R'; apply R; apply (EditWalk.reach_same_struct _ _ _ _ SS), (obs_reach st1 sx Ox), R'].
      rewrite (obs_lin st1 sx Ox Cfg1). destruct newL as [l|]; [now apply (proj2 L1)|apply L1]. }
  assert (Enode : forall n, is_node st n <-> is_node sx' n).
  { intros n. rewrite (EditWalk.same_struct_is_node _ _ n SSx), (oe_nodes _ _ Ox), (EditWalk.same_struct_is_node _ _ n SS). tauto. }
  constructor.
  - exact Enode.
  - intros u v. now rewrite <- (EditWalk.same_struct_has_edge _ _ u v SS), <- (oe_edges _ _ Ox), <- (EditWalk.same_struct_has_edge _ _ u v SSx).
  - intros n k Hk. unfold attr_obs. destruct (Z.eq_dec k KTrack) as [->|Hk1]; [|destruct (Z.eq_dec k KLin) as [->|Hk2]].
    + f_equal. symmetry. apply id_attr_eq; auto. now symmetry. apply Etrk.
    + f_equal. symmetry. apply id_attr_eq; auto. now symmetry. apply Elin.
    + rewrite <- (S3 n k Hk1 Hk2). rewrite X6 in Hk. rewrite (oe_ft _ _ Ox) in Hk. fold (attr_obs st1 n k).
      rewrite <- (oe_nattr _ _ Ox n k Hk). unfold attr_obs. now rewrite (X3 n k Hk1 Hk2).
  - intros u v k Hk. rewrite X6, (oe_ft _ _ Ox) in Hk. pose proof (oe_eattr _ _ Ox u v k Hk) as E.
    unfold eattr_obs, edge_attrs, adj in *. now rewrite <- S2, <- E, X2.
  - now rewrite <- S5, <- (oe_seg _ _ Ox), X5.
  - now rewrite <- S6, <- (oe_ft _ _ Ox), X6.
Qed.


(* ---- the same law any number of times: the inverse that an undo records is itself an UpdateTrackIDs run
   in the state the undo ran in, and the preconditions hold there again ---- *)
Lemma lin_down_after st start newT newL b st1 :
  cfg_ok st -> W_dict st -> W_forest st -> lin_down st start -> do_upd_track st start newT newL = Ok b st1 -> lin_down st1 start.
Proof.
  intros Cfg WD WF Hlin H.
  pose proof (EditWalk.do_upd_track_struct st start newT newL _ eq_refl) as SS. rewrite H in SS. cbn [rstate] in SS.
  destruct (do_upd_track_char _ _ _ _ _ _ Cfg H) as (oldT & _ & _ & _ & Hs & _).
  pose proof (EditLin.do_upd_track_lin st start newT newL _ st1 WD (proj1 Cfg) (proj1 (proj2 Cfg)) Hs H) as L.
  intros m Hm. apply (EditWalk.reach_same_struct st st1 start m SS) in Hm. destruct newL as [l|].
  - destruct L as [L1 _]. rewrite (L1 m Hm). symmetry. apply L1. apply rt_refl.
  - rewrite !L. now apply Hlin.
Qed.

Theorem upd_track_ConsN : forall n st start newT newL b st1,
  cfg_ok st -> W_dict st -> W_forest st -> lin_down st start -> P_trk st start newT ->
  do_upd_track st start newT newL = Ok b st1 -> ConsN W_dict n (ABasic b) st st1.
Proof.
  induction n as [|k IH]; intros st start newT newL b st1 Cfg WD WF Hlin HP H; [exact Logic.I|].
  cbn [ConsN]. intros s WDs Os.
  destruct (upd_track_undo_obs st start newT newL b st1 s Cfg WD WF Hlin HP H WDs Os) as (b' & s' & I2 & WD' & O').
  exists (ABasic b'), s'. rewrite inv_action_basic, I2. cbn [bind]. split; [reflexivity|]. split; [exact WD'|]. split; [exact O'|].
  apply (ConsN_eqv W_dict k (ABasic b') s st1 s' st Os O').
  (* the inverse is an UpdateTrackIDs run in s, and its preconditions hold there *)
  pose proof (EditWalk.do_upd_track_struct st start newT newL _ eq_refl) as SS. rewrite H in SS. cbn [rstate] in SS.
  pose proof SS as (_ & _ & _ & _ & _ & S6 & _).
  assert (Cfg1 : cfg_ok st1) by (unfold cfg_ok; now rewrite S6).
  pose proof (upd_track_W_dict _ _ _ _ _ _ Cfg WD H) as WD1.
  pose proof (EditWalk.same_struct_W_forest _ _ SS WF) as WF1.
  destruct (do_upd_track_char _ _ _ _ _ _ Cfg H) as (oldT & _ & _ & _ & Hs & Ht & Eb & _). subst b.
  destruct (wd_lin st WD start Hs) as [o Eo]. apply zattr_VZ in Eo. rewrite Eo in I2. cbn [inv_basic] in I2.
  pose proof (obs_eq_sym _ _ Os) as Os'.
  destruct (P_trk_flip st start newT newL _ st1 oldT Cfg WD WF Ht HP H) as [_ HP1].
  apply (IH s start oldT (Some o) b' s'); [exact (obs_cfg st1 s Os' Cfg1)|exact WDs|exact (obs_W_forest st1 s Os' Cfg1 WD1 WDs WF1)| | |exact I2].
  - apply (lin_down_obs st1 s start Os' Cfg1). exact (lin_down_after st start newT newL _ st1 Cfg WD WF Hlin H).
  - exact (P_trk_obs st1 s start oldT Os' Cfg1 WD1 WDs HP1).
Qed.

(* ================================================================== *)
(* 3. AddEdge / DeleteEdge, robustly                                    *)
(* ================================================================== *)
Lemma is_node_nodes s s' n : nodes (g s') = nodes (g s) -> (is_node s' n <-> is_node s n).
Proof. intros E. unfold is_node, node_ids. now rewrite E. Qed.

Lemma no_edge_attrs st u v : has_edge st u v = false -> edge_attrs st u v = [].
Proof. unfold has_edge, haskey, edge_attrs, getd. destruct (lookup v (adj st u)); [discriminate|reflexivity]. Qed.

Theorem add_edge_undo_obs st u v a b st1 sx :
  W_dict st -> has_edge st u v = false -> do_add_edge st u v a = Ok b st1 -> W_dict sx -> obs_eq sx st1 ->
  exists b' sx', inv_basic sx b = Ok b' sx' /\ W_dict sx' /\ obs_eq sx' st.
Proof.
  intros WD Hne H WDx Ox.
  destruct (add_edge_char _ _ _ _ _ _ H) as (-> & Nu & Nv & En & Es & Ef & Eb & X & Esu & _).
  destruct (succs_put st st1 u v X Esu) as [P1 P2]. cbn [inv_basic].
  assert (Hex : has_edge sx u v = true) by (rewrite <- (oe_edges _ _ Ox), P1, !Z.eqb_refl; reflexivity).
  destruct (do_del_edge sx u v) as [b' sx'|e sx'] eqn:H2.
  2:{ exfalso. unfold do_del_edge in H2. rewrite Hex in H2. discriminate. }
  exists b', sx'. split; [reflexivity|]. split; [exact (del_edge_W_dict _ _ _ _ _ H2 WDx)|].
  destruct (del_edge_char _ _ _ _ _ H2) as (_ & _ & En2 & Es2 & Ef2 & _ & Esu2).
  destruct (succs_drop sx sx' u v Esu2) as [D1 D2].
  constructor.
  - intros n. rewrite (is_node_nodes sx sx' n En2), <- (oe_nodes _ _ Ox n), (is_node_nodes st st1 n En). reflexivity.
  - intros x y. rewrite D1, <- (oe_edges _ _ Ox), P1. destruct ((x =? u) && (y =? v)) eqn:E; cbn [negb andb orb]; [|reflexivity].
    apply andb_true_iff in E. destruct E as [E1 E2]. apply Z.eqb_eq in E1, E2. now subst.
  - intros n k Hk. rewrite Ef2 in Hk. transitivity (attr_obs sx n k); [rewrite <- (oe_nattr _ _ Ox n k Hk)|];
      unfold attr_obs, attr, node_attrs; now rewrite ?En2, ?En.
  - intros x y k Hk. rewrite Ef2 in Hk. unfold eattr_obs. rewrite D2. destruct ((x =? u) && (y =? v)) eqn:E.
    + apply andb_true_iff in E. destruct E as [E1 E2]. apply Z.eqb_eq in E1, E2. subst. now rewrite (no_edge_attrs st u v Hne).
    + pose proof (oe_eattr _ _ Ox x y k Hk) as Q. unfold eattr_obs in Q. rewrite <- Q, P2, E. reflexivity.
  - now rewrite Es2, <- (oe_seg _ _ Ox), Es.
  - now rewrite Ef2, <- (oe_ft _ _ Ox), Ef.
Qed.

(* the stored IoU only matters when it is a registered edge feature *)
Definition iou_fresh_reg (st : state) (u v : Z) : Prop := In KIou (reg_edge (ft st)) -> iou_fresh_at st u v.

Theorem del_edge_undo_obs st u v b st1 sx :
  cfg_ok st -> W_dict st -> iou_fresh_reg st u v -> do_del_edge st u v = Ok b st1 -> W_dict sx -> obs_eq sx st1 ->
  exists b' sx', inv_basic sx b = Ok b' sx' /\ W_dict sx' /\ obs_eq sx' st.
Proof.
  intros Cfg WD Hio H WDx Ox.
  destruct (del_edge_char _ _ _ _ _ H) as (-> & He & En & Es & Ef & Eb & Esu).
  destruct (succs_drop st st1 u v Esu) as [D1 D2].
  destruct (wd_edge_nodes st WD u v He) as [Nu Nv].
  assert (Cfg1 : cfg_ok st1) by (unfold cfg_ok; now rewrite Ef).
  pose proof (obs_eq_sym _ _ Ox) as Ox'.
  assert (Nn : forall n, is_node st n -> has_node sx n = true).
  { intros n Hn. apply has_node_is_node. apply (oe_nodes _ _ Ox'). unfold is_node, node_ids. now rewrite En. }
  cbn [inv_basic].
  destruct (do_add_edge sx u v (saved_attrs (reg_edge (ft st)) (edge_attrs st u v))) as [b' sx'|e sx'] eqn:H2.
  2:{ exfalso. unfold do_add_edge in H2. rewrite (Nn u Nu), (Nn v Nv) in H2. discriminate. }
  exists b', sx'. split; [reflexivity|]. split; [exact (add_edge_W_dict _ _ _ _ _ _ H2 WDx)|].
  destruct (add_edge_char _ _ _ _ _ _ H2) as (_ & _ & _ & En2 & Es2 & Ef2 & Eb2 & X & Esu2 & HX).
  destruct (succs_put sx sx' u v X Esu2) as [P1 P2].
  assert (Hnex : has_edge sx u v = false) by (rewrite <- (oe_edges _ _ Ox), D1, !Z.eqb_refl; reflexivity).
  constructor.
  - intros n. rewrite (is_node_nodes sx sx' n En2), <- (oe_nodes _ _ Ox n), (is_node_nodes st st1 n En). reflexivity.
  - intros x y. rewrite P1, <- (oe_edges _ _ Ox), D1. destruct ((x =? u) && (y =? v)) eqn:E; cbn [negb andb orb]; [|reflexivity].
    apply andb_true_iff in E. destruct E as [E1 E2]. apply Z.eqb_eq in E1, E2. now subst.
  - intros n k Hk. rewrite Ef2 in Hk. transitivity (attr_obs sx n k); [rewrite <- (oe_nattr _ _ Ox n k Hk)|];
      unfold attr_obs, attr, node_attrs; now rewrite ?En2, ?En.
  - intros x y k Hk. rewrite Ef2 in Hk. unfold eattr_obs. rewrite P2. destruct ((x =? u) && (y =? v)) eqn:E.
    2:{ pose proof (oe_eattr _ _ Ox x y k Hk) as Q. unfold eattr_obs in Q. rewrite <- Q, D2, E. reflexivity. }
    apply andb_true_iff in E. destruct E as [E1 E2]. apply Z.eqb_eq in E1, E2. subst x y.
    rewrite (oe_ft _ _ Ox'), Ef in Hk.
    set (d := edge_attrs st u v) in *. set (sv := saved_attrs (reg_edge (ft st)) d) in *.
    assert (Hup : forall w, lookup k d = Some w -> w <> VNone -> lookup k (update [] sv) = Some w).
    { intros w E Hw. apply update_lookup_in.
      - intros w' Hin. apply saved_attrs_in in Hin. destruct Hin as (_ & E' & _). congruence.
      - left. apply saved_attrs_keys. split; [exact Hk|now exists w]. }
    assert (Hno : (lookup k d = None \/ lookup k d = Some VNone) -> lookup k (update [] sv) = None).
    { intros Hc. rewrite update_lookup_notin; [reflexivity|]. intros Hi. apply saved_attrs_keys in Hi.
      destruct Hi as (_ & w & E & Hw). destruct Hc as [Hc|Hc]; congruence. }
    rewrite (no_edge_attrs sx u v Hnex), (oe_seg _ _ Ox'), (oe_ft _ _ Ox'), Es, Ef in HX.
    symmetry.
    destruct (seg st) as [sg|] eqn:Esg; [destruct (iou_act (ft st)) eqn:Eact|]; subst X; try (apply (obs_saved _ _ _ _ Hk Hup Hno)).
    destruct (Z.eq_dec k KIou) as [->|Hne].
    + rewrite lookup_set_eq. unfold d. rewrite (Hio Hk sg Esg Eact).
      rewrite (obs_iou_of st1 sx Ox' Cfg1 sg u v). f_equal. f_equal. apply iou_of_same_nodes. exact En.
    + rewrite lookup_set_neq by exact Hne. apply (obs_saved _ _ _ _ Hk Hup Hno).
  - now rewrite Es2, <- (oe_seg _ _ Ox), Es.
  - now rewrite Ef2, <- (oe_ft _ _ Ox), Ef.
Qed.


(* ---- any number of times ---- *)
Lemma obsv_some_inv (x : option value) v : obsv x = Some v -> x = Some v.
Proof. destruct x as [[| | | |]|]; cbn; intros H; try discriminate H; exact H. Qed.

Theorem edge_ConsN : forall n,
  (forall st u v b st1, cfg_ok st -> W_dict st -> iou_fresh_reg st u v -> do_del_edge st u v = Ok b st1 -> ConsN W_dict n (ABasic b) st st1) /\
  (forall st u v a b st1, cfg_ok st -> W_dict st -> has_edge st u v = false -> do_add_edge st u v a = Ok b st1 -> ConsN W_dict n (ABasic b) st st1).
Proof.
  induction n as [|k [IHd IHa]]; [split; intros; exact Logic.I|]. split.
  - intros st u v b st1 Cfg WD Hio H. cbn [ConsN]. intros s WDs Os.
    destruct (del_edge_undo_obs st u v b st1 s Cfg WD Hio H WDs Os) as (b' & s' & I2 & WD' & O').
    exists (ABasic b'), s'. rewrite inv_action_basic, I2. cbn [bind]. split; [reflexivity|]. split; [exact WD'|]. split; [exact O'|].
    apply (ConsN_eqv W_dict k (ABasic b') s st1 s' st Os O').
    destruct (del_edge_char _ _ _ _ _ H) as (-> & _ & _ & _ & Ef & _ & Esu). cbn [inv_basic] in I2.
    destruct (succs_drop st st1 u v Esu) as [D1 _].
    assert (Cfg1 : cfg_ok st1) by (unfold cfg_ok; now rewrite Ef).
    eapply (IHa s u v _ b' s'); [exact (obs_cfg st1 s (obs_eq_sym _ _ Os) Cfg1)|exact WDs| |exact I2].
    rewrite <- (oe_edges _ _ Os), D1, !Z.eqb_refl. reflexivity.
  - intros st u v a b st1 Cfg WD Hne H. cbn [ConsN]. intros s WDs Os.
    destruct (add_edge_undo_obs st u v a b st1 s WD Hne H WDs Os) as (b' & s' & I2 & WD' & O').
    exists (ABasic b'), s'. rewrite inv_action_basic, I2. cbn [bind]. split; [reflexivity|]. split; [exact WD'|]. split; [exact O'|].
    apply (ConsN_eqv W_dict k (ABasic b') s st1 s' st Os O').
    pose proof (add_edge_iou_fresh_at _ _ _ _ _ _ H) as Hfr1.
    destruct (add_edge_char _ _ _ _ _ _ H) as (-> & _ & _ & _ & _ & Ef & _). cbn [inv_basic] in I2.
    assert (Cfg1 : cfg_ok st1) by (unfold cfg_ok; now rewrite Ef).
    pose proof (obs_eq_sym _ _ Os) as Os'.
    apply (IHd s u v b' s'); [exact (obs_cfg st1 s Os' Cfg1)|exact WDs| |exact I2].
    intros Hreg sg Hs Ha. rewrite (oe_seg _ _ Os') in Hs. rewrite (oe_ft _ _ Os') in Ha.
    pose proof (oe_eattr _ _ Os u v KIou Hreg) as Q. unfold eattr_obs in Q. rewrite (Hfr1 sg Hs Ha) in Q. cbn [obsv] in Q.
    rewrite (obs_iou_of st1 s Os' Cfg1 sg u v). apply obsv_some_inv. rewrite <- Q. unfold iou_of.
    destruct (mask_of sg (time_of st1 u) u); [reflexivity|]. destruct (mask_of sg (time_of st1 v) v); [reflexivity|].
    destruct (inter_count _ _ =? 0); reflexivity.
Qed.

Definition del_edge_ConsN n := proj1 (edge_ConsN n).
Definition add_edge_ConsN n := proj2 (edge_ConsN n).

(* ================================================================== *)
(* 4. where the track precondition comes from                           *)
(* ================================================================== *)
(* [sw] carries the track ids of a state [s0] that satisfies W_trk and has the successor lists of
   s0 along the chain below [start]; the new id does not occur strictly below [start] *)
Lemma trk_pre_sub s0 sw start newT :
  W_dict s0 -> W_forest s0 -> W_trk s0 -> W_forest sw ->
  (forall m, trk sw m = trk s0 m) -> (forall m, time_of sw m = time_of s0 m) ->
  (forall a, In a (EditTrk.chain sw (length (nodes (g sw))) start) -> successors sw a = successors s0 a) ->
  is_node s0 start ->
  (forall c, EditWalk.reach sw start c -> c <> start -> trk sw c <> Some newT) ->
  trk_pre sw start newT.
Proof.
  intros WD0 WF0 WT0 WFw Htrk Htime Hsucc Ns Hnew. unfold trk_pre. set (K := length (nodes (g sw))) in *. split.
  - apply EditTrk.chain_trk. intros a c Ha Es. rewrite (Hsucc a Ha) in Es. rewrite !Htrk.
    destruct (EditTrk.single_not_divides _ _ _ Es) as [He Hnd]. now apply (wt1 s0 WT0).
  - set (e := EditTrk.chain_end sw K start). intros c Hl Hc.
    pose proof (EditTrk.chain_end_in sw K start) as He. fold e in He.
    pose proof (EditTrk.chain_reach sw K start e He) as Re.
    assert (Hec : edge sw e c) by (now apply edge_successors).
    assert (Hte : time_of sw start <= time_of sw e) by (destruct (EditLin.reach_time sw WFw start e Re) as [<-|]; lia).
    pose proof (wf_time sw WFw e c Hec) as Htc.
    split.
    + rewrite (Hsucc e He) in Hl, Hc. assert (Hec0 : edge s0 e c) by (now apply edge_successors).
      assert (Hhc : head s0 c).
      { split; [apply (wd_edge_nodes s0 WD0 e c Hec0)|]. intros p Hp. now rewrite (wf_in s0 WF0 p e c Hp Hec0). }
      destruct (EditTrk.seg_head s0 WD0 WF0 (wt1 s0 WT0) start Ns) as (h & Hh & Eh & Hth).
      rewrite !Htrk. intros E. assert (c = h) by (apply (wt2 s0 WT0); [exact Hhc|exact Hh|congruence]). subst h.
      rewrite !Htime in *. lia.
    + apply Hnew; [eapply rt_trans; [exact Re|now apply rt_step]|]. intros ->. lia.
Qed.

Lemma del_edge_succ_other st u v b s1 a : do_del_edge st u v = Ok b s1 -> a <> u -> successors s1 a = successors st a.
Proof.
  intros H Ha. destruct (del_edge_char _ _ _ _ _ H) as (_ & _ & _ & _ & _ & _ & Esu).
  unfold successors. rewrite (adj_row st s1 u _ Esu a). destruct (Z.eqb_spec a u); [contradiction|reflexivity].
Qed.

(* ================================================================== *)
(* 5. UserDeleteEdge / UserAddEdge, robustly, any number of times        *)
(* ================================================================== *)
Theorem ude_ConsN n st u v a st' : WF st -> user_delete_edge_core st u v = Ok a st' -> ConsN W_dict n a st st'.
Proof.
  intros [Cfg WD WFo WT WL WB WS WFr] H. unfold user_delete_edge_core in H.
  destruct (has_edge st u v) eqn:He; [|discriminate]. cbn [negb] in H.
  destruct (do_del_edge st u v) as [b1 s1|e1 s1] eqn:H1; [|discriminate]. cbn [bind] in H.
  destruct (EditBasic.do_del_edge_WS st u v b1 s1 WD WFo H1) as (WD1 & WF1 & E1 & N1 & A1 & (_ & Rft & _)).
  assert (Cfg1 : cfg_ok s1) by (unfold cfg_ok; now rewrite Rft).
  pose proof (del_edge_W_book _ _ _ _ _ H1 WB) as WB1.
  assert (Htrk1 : forall m, trk s1 m = trk st m) by (intros m; unfold trk, zattr; now rewrite A1).
  assert (Hlin1 : forall m, lin s1 m = lin st m) by (intros m; unfold lin, zattr; now rewrite A1).
  assert (Htime1 : forall m, time_of s1 m = time_of st m) by (intros m; unfold time_of, zattr; now rewrite A1).
  assert (Hsub1 : forall x y, edge s1 x y -> edge st x y) by (intros x y Hac; now apply E1 in Hac).
  assert (Hld1 : forall x, lin_down s1 x) by (intros x; now apply (lin_down_sub st s1 x WL Hsub1 Hlin1)).
  destruct (wd_edge_nodes st WD u v He) as [Nu Nv].
  assert (Hio : iou_fresh_reg st u v) by (intros _; exact (W_fresh_iou_at st u v WFr He)).
  assert (Hch1 : forall c, edge st u c -> forall a, In a (EditTrk.chain s1 (length (nodes (g s1))) c) -> successors s1 a = successors st a).
  { intros c Huc a0 Ha. apply (del_edge_succ_other _ _ _ _ _ _ H1). intros ->.
    pose proof (wf_time st WFo u c Huc). destruct (EditTrk.chain_time s1 WF1 _ c u Ha) as [E|T]; [subst; lia|rewrite !Htime1 in T; lia]. }
  pose proof (del_edge_ConsN n st u v b1 s1 Cfg WD Hio H1) as K1.
  destruct (out_degree s1 u =? 0) eqn:Eod.
  - destruct (do_upd_track s1 v (next_trk s1) (Some (next_lin s1))) as [b2 s2|e2 s2] eqn:H2; [|discriminate].
    cbn [bind] in H. injection H as <- <-.
    assert (HP : P_trk s1 v (next_trk s1)).
    { right. apply (trk_pre_sub st s1 v _ WD WFo WT WF1 Htrk1 Htime1 (Hch1 v He) Nv).
      intros c R _. apply (next_trk_fresh s1 WB1 c). apply (EditWalk.reach_is_node s1 v c WD1); [unfold is_node; now rewrite N1|exact R]. }
    apply group_ConsN. apply ch_cons with (m := s1); [exact K1|].
    apply ch_cons with (m := s2); [exact (upd_track_ConsN n s1 v _ _ b2 s2 Cfg1 WD1 WF1 (Hld1 v) HP H2)|constructor; apply obs_eq_refl].
  - destruct (out_degree s1 u =? 1) eqn:Eod1; [|discriminate].
    destruct (successors s1 u) as [|sib rest] eqn:Es; [discriminate|]. destruct (zattr s1 u KTrack) as [t|] eqn:Et; [|discriminate].
    destruct (do_upd_track s1 sib t None) as [b2 s2|e2 s2] eqn:H2; [|discriminate]. cbn [bind] in H.
    destruct (zattr s2 v KTrack) as [tv|] eqn:Etv; [|discriminate].
    destruct (do_upd_track s2 v tv (Some (next_lin s2))) as [b3 s3|e3 s3] eqn:H3; [|discriminate].
    cbn [bind] in H. injection H as <- <-.
    assert (Hsib1 : edge s1 u sib) by (apply edge_successors; rewrite Es; now left).
    assert (Hsib : edge st u sib /\ sib <> v).
    { apply E1 in Hsib1. destruct Hsib1 as [A B]. split; [exact A|]. intros ->. apply B. auto. }
    assert (Hdiv : divides st u).
    { unfold divides. apply (two_in_length (successors st u) v sib); [now apply edge_successors|apply edge_successors; apply Hsib|]. intros E. now apply (proj2 Hsib). }
    assert (HP2 : P_trk s1 sib t).
    { right. apply (trk_pre_sub st s1 sib t WD WFo WT WF1 Htrk1 Htime1 (Hch1 sib (proj1 Hsib)) (proj2 (wd_edge_nodes st WD u sib (proj1 Hsib)))).
      intros c R _ Hc. apply (trk_below_division st u sib c WD WFo WT (proj1 Hsib) Hdiv); [now apply (EditLin.reach_sub st s1 Hsub1)|].
      rewrite <- !Htrk1. rewrite Hc. symmetry. exact Et. }
    destruct (upd_track_keeps _ _ _ _ _ _ Cfg1 WD1 WF1 H2) as (Cfg2 & WD2 & WF2 & Ei2 & Es2 & _ & L2).
    assert (Hsub2 : forall x y, edge s2 x y -> edge st x y) by (intros x y Hac; apply Hsub1; unfold edge, has_edge, adj in *; now rewrite <- Es2).
    assert (Hlin2 : forall m, lin s2 m = lin st m) by (intros m; rewrite <- Hlin1; now apply L2).
    assert (HP3 : P_trk s2 v tv) by (left; exact Etv).
    apply group_ConsN. apply ch_cons with (m := s1); [exact K1|].
    apply ch_cons with (m := s2); [exact (upd_track_ConsN n s1 sib t None b2 s2 Cfg1 WD1 WF1 (Hld1 sib) HP2 H2)|].
    apply ch_cons with (m := s3); [|constructor; apply obs_eq_refl].
    exact (upd_track_ConsN n s2 v tv _ b3 s3 Cfg2 WD2 WF2 (lin_down_sub st s2 v WL Hsub2 Hlin2) HP3 H3).
Qed.

Lemma uae_tail_ConsN n pre s u v a sf :
  cfg_ok s -> W_dict s -> W_forest s -> W_trk s -> W_lin s -> EditTrk.trk_bounded s ->
  is_node s u -> is_node s v -> time_of s u < time_of s v -> (forall p, ~ edge s p v) ->
  EditLin.uae_tail pre s u v = Ok a sf ->
  exists tail, a = AGroup (pre ++ tail) /\ Chain (ConsN W_dict n) tail s sf.
Proof.
  intros Cfg WD WF WT WL Hb Nu Nv Ht Hnp H. unfold EditLin.uae_tail in H. cbv zeta in H.
  assert (Hld : forall x, lin_down s x) by (intros x; now apply lin_down_of_W_lin).
  assert (Hsame : forall c newT, is_node s c -> (forall m, EditWalk.reach s c m -> m <> c -> trk s m <> Some newT) -> P_trk s c newT).
  { intros c newT Nc Hn. right. apply (trk_pre_sub s s c newT WD WF WT WF); auto. }
  destruct (out_degree s u =? 0) eqn:Eod.
  - destruct (zattr s u KTrack) as [t|] eqn:Et; [|discriminate].
    destruct (do_upd_track s v t (zattr s u KLin)) as [b s2|e s2] eqn:H2; [|discriminate]. cbn [bind] in H.
    destruct (do_add_edge s2 u v []) as [b' s3|e s3] eqn:H3; [|discriminate]. cbn [bind] in H. injection H as <- <-.
    exists [ABasic b; ABasic b']. split; [now rewrite <- app_assoc|].
    destruct (upd_track_keeps _ _ _ _ _ _ Cfg WD WF H2) as (Cfg2 & WD2 & WF2 & Ei2 & Es2 & _).
    assert (Hne : has_edge s2 u v = false).
    { destruct (has_edge s2 u v) eqn:E; [|reflexivity]. exfalso. apply (Hnp u). unfold edge, has_edge, adj in *. now rewrite <- Es2. }
    assert (HP : P_trk s v t).
    { apply Hsame; [exact Nv|]. intros m R _ Hm. apply (trk_join_pre s u v m WD WF WT Nu Nv Ht Hnp R). rewrite Hm. symmetry. exact Et. }
    apply ch_cons with (m := s2); [exact (upd_track_ConsN n s v t _ b s2 Cfg WD WF (Hld v) HP H2)|].
    apply ch_cons with (m := s3); [exact (add_edge_ConsN n s2 u v [] b' s3 Cfg2 WD2 Hne H3)|constructor; apply obs_eq_refl].
  - destruct (out_degree s u =? 1) eqn:Eod1; [|discriminate].
    destruct (successors s u) as [|c rest] eqn:Es; [discriminate|].
    destruct (do_upd_track s c (next_trk s) None) as [b s2|e s2] eqn:H2; [|discriminate]. cbn [bind] in H.
    destruct (zattr s2 v KTrack) as [tv|] eqn:Etv; [|discriminate].
    destruct (do_upd_track s2 v tv (zattr s2 u KLin)) as [b2 s3|e s3] eqn:H3; [|discriminate]. cbn [bind] in H.
    destruct (do_add_edge s3 u v []) as [b' s4|e s4] eqn:H4; [|discriminate]. cbn [bind] in H. injection H as <- <-.
    exists [ABasic b; ABasic b2; ABasic b']. split; [now rewrite <- app_assoc|].
    destruct (upd_track_keeps _ _ _ _ _ _ Cfg WD WF H2) as (Cfg2 & WD2 & WF2 & Ei2 & Es2 & F2 & L2).
    destruct (upd_track_keeps _ _ _ _ _ _ Cfg2 WD2 WF2 H3) as (Cfg3 & WD3 & WF3 & Ei3 & Es3 & _).
    assert (Hne : has_edge s3 u v = false).
    { destruct (has_edge s3 u v) eqn:E; [|reflexivity]. exfalso. apply (Hnp u). unfold edge, has_edge, adj in *. now rewrite <- Es2, <- Es3. }
    assert (HP3 : P_trk s2 v tv) by (left; exact Etv).
    assert (Hld2 : lin_down s2 v).
    { apply (lin_down_sub s s2 v WL); [|now apply L2]. intros x y Hxy. unfold edge, has_edge, adj in *. now rewrite <- Es2. }
    assert (Nc : is_node s c).
    { apply (wd_edge_nodes s WD u c). apply edge_successors. rewrite Es. now left. }
    assert (HP2 : P_trk s c (next_trk s)).
    { apply Hsame; [exact Nc|]. intros m R _. apply (EditTrk.trk_bounded_fresh s Hb m). now apply (EditWalk.reach_is_node s c m WD Nc). }
    apply ch_cons with (m := s2); [exact (upd_track_ConsN n s c _ None b s2 Cfg WD WF (Hld c) HP2 H2)|].
    apply ch_cons with (m := s3); [exact (upd_track_ConsN n s2 v tv _ b2 s3 Cfg2 WD2 WF2 Hld2 HP3 H3)|].
    apply ch_cons with (m := s4); [exact (add_edge_ConsN n s3 u v [] b' s4 Cfg3 WD3 Hne H4)|constructor; apply obs_eq_refl].
Qed.

Theorem uae_ConsN n st u v force a st' : WF st -> user_add_edge_core st u v force = Ok a st' -> ConsN W_dict n a st st'.
Proof.
  intros W H. pose proof W as [Cfg WD WFo WT WL WB WS WFr]. rewrite EditLin.uae_core_unfold in H.
  destruct (has_node st u) eqn:Hu; [|discriminate]. destruct (has_node st v) eqn:Hv; [|discriminate]. cbn [negb] in H.
  destruct (time_of st u >=? time_of st v) eqn:Et; [discriminate|].
  destruct (out_degree st u - (if has_edge st u v then 1 else 0) >? 1); [discriminate|].
  apply has_node_is_node in Hu. apply has_node_is_node in Hv.
  assert (Ht : time_of st u < time_of st v) by (rewrite Z.geb_leb in Et; apply Z.leb_gt in Et; lia).
  destruct (in_degree st v >? 0) eqn:Ein.
  - destruct force; cbn [negb] in H; [|discriminate].
    destruct (predecessors st v) as [|p r] eqn:Ep.
    { exfalso. unfold in_degree in Ein. rewrite Ep in Ein. discriminate. }
    assert (Hpv : is_node st p /\ edge st p v) by (apply EditGraph.in_predecessors; rewrite Ep; now left).
    destruct Hpv as [Np Epv].
    unfold user_delete_edge in H. rewrite top_wrap_false in H.
    destruct (user_delete_edge_core st p v) as [a0 s|e s] eqn:Hude; [|discriminate]. cbn [bind] in H.
    destruct (EditUserEdge.ude_core_spec st p v WD WFo) as [_ Hy]. destruct (Hy Epv) as (a0' & s0 & H0 & WDs & WFs & Gs & Es & _).
    rewrite Hude in H0. injection H0 as <- <-.
    destruct (EditLin.ude_core_LWF st p v a0 s (EditLin.Build_LWF st Cfg WD WFo WL WB) Hude) as [Cfgs _ _ WLs WBs].
    destruct (EditTrk.ude_trk st p v WD WFo WT (EditTrk.W_book_trk_bounded st WB) (proj1 Cfg) Epv) as (a1 & s1 & H1 & WTs & Hbs & _).
    rewrite Hude in H1. injection H1 as <- <-.
    assert (Nus : is_node s u) by (now apply (EditUserEdge.gstep_is_node _ _ _ Gs)).
    assert (Nvs : is_node s v) by (now apply (EditUserEdge.gstep_is_node _ _ _ Gs)).
    assert (Hts : time_of s u < time_of s v) by (rewrite !(EditUserEdge.gstep_time _ _ _ Gs); exact Ht).
    assert (Hnp : forall q, ~ edge s q v).
    { intros q Hq. apply Es in Hq. destruct Hq as [Hq Hn]. apply Hn. split; [|reflexivity]. apply (wf_in st WFo q p v Hq Epv). }
    destruct (uae_tail_ConsN n [a0] s u v a st' Cfgs WDs WFs WTs WLs Hbs Nus Nvs Hts Hnp H) as (tail & -> & Ctail).
    apply group_ConsN. cbn [app]. apply ch_cons with (m := s); [exact (ude_ConsN n st p v a0 s W Hude)|exact Ctail].
  - assert (Hnp : forall q, ~ edge st q v).
    { intros q Hq. assert (In q (predecessors st v)) as Hin by (apply EditGraph.in_predecessors; split; [apply (wd_edge_nodes st WD q v Hq)|exact Hq]).
      assert (in_degree st v >? 0 = true) by (apply EditUserEdge.in_degree_pos; eauto). congruence. }
    cbn [bind] in H.
    destruct (uae_tail_ConsN n [] st u v a st' Cfg WD WFo WT WL (EditTrk.W_book_trk_bounded st WB) Hu Hv Ht Hnp H) as (tail & -> & Ctail).
    apply group_ConsN. exact Ctail.
Qed.


(* the one-step forms *)
Corollary ude_undo_obs st u v a st' sx :
  WF st -> user_delete_edge_core st u v = Ok a st' -> W_dict sx -> obs_eq sx st' ->
  exists b sx', inv_action sx a = Ok b sx' /\ W_dict sx' /\ obs_eq sx' st.
Proof.
  intros W H WDx Ox. destruct (ude_ConsN 1 st u v a st' W H sx WDx Ox) as (b & s' & I & WD' & O' & _). exists b, s'. auto.
Qed.
Corollary uae_undo_obs st u v force a st' sx :
  WF st -> user_add_edge_core st u v force = Ok a st' -> W_dict sx -> obs_eq sx st' ->
  exists b sx', inv_action sx a = Ok b sx' /\ W_dict sx' /\ obs_eq sx' st.
Proof.
  intros W H WDx Ox. destruct (uae_ConsN 1 st u v force a st' W H sx WDx Ox) as (b & s' & I & WD' & O' & _). exists b, s'. auto.
Qed.

(* ================================================================== *)
(* 6. UserSwapPredecessors                                              *)
(* ================================================================== *)
Lemma opt_cut_chainN k s0 s po n acc r s' : WF s -> Chain (ConsN W_dict k) acc s0 s ->
  EditSwap.opt_cut s po n acc = Ok r s' -> WF s' /\ Chain (ConsN W_dict k) r s0 s'.
Proof.
  intros W C H. unfold EditSwap.opt_cut in H. destruct po as [p|]; [|injection H as <- <-; auto].
  unfold user_delete_edge in H. rewrite top_wrap_false in H.
  destruct (user_delete_edge_core s p n) as [a s1|e s1] eqn:Hc; [|discriminate]. cbn [bind] in H. injection H as <- <-.
  split; [exact (EditWFEdge.ude_core_WF _ _ _ _ _ W Hc)|]. apply Chain_snoc with (m := s); [exact C|]. exact (ude_ConsN k _ _ _ _ _ W Hc).
Qed.
Lemma opt_add_chainN k s0 s po n acc r s' : WF s -> Chain (ConsN W_dict k) acc s0 s ->
  EditSwap.opt_add s po n acc = Ok r s' -> WF s' /\ Chain (ConsN W_dict k) r s0 s'.
Proof.
  intros W C H. unfold EditSwap.opt_add in H. destruct po as [p|]; [|injection H as <- <-; auto].
  unfold user_add_edge in H. rewrite top_wrap_false in H.
  destruct (user_add_edge_core s p n false) as [a s1|e s1] eqn:Hc; [|discriminate]. cbn [bind] in H. injection H as <- <-.
  split; [exact (EditWFEdge.uae_core_WF _ _ _ _ _ _ W Hc)|]. apply Chain_snoc with (m := s); [exact C|]. exact (uae_ConsN k _ _ _ _ _ _ W Hc).
Qed.

Theorem swap_ConsN k st n1 n2 a st' : WF st -> user_swap_core st n1 n2 = Ok a st' -> ConsN W_dict k a st st'.
Proof.
  intros W H. pose proof (EditSwap.swap_core_cases st n1 n2) as C.
  destruct (EditSwap.swap_refused st n1 n2) as [e|]; [congruence|]. destruct C as (Hc & _). rewrite Hc in H. clear Hc.
  unfold EditSwap.swap_steps in H.
  destruct (EditSwap.opt_cut st (EditSwap.pred1 st n1) n1 []) as [a1 s1|e s1] eqn:H1; [|discriminate]. cbn [bind] in H.
  destruct (EditSwap.opt_cut s1 (EditSwap.pred1 st n2) n2 a1) as [a2 s2|e s2] eqn:H2; [|discriminate]. cbn [bind] in H.
  destruct (EditSwap.opt_add s2 (EditSwap.pred1 st n1) n2 a2) as [a3 s3|e s3] eqn:H3; [|discriminate]. cbn [bind] in H.
  destruct (EditSwap.opt_add s3 (EditSwap.pred1 st n2) n1 a3) as [a4 s4|e s4] eqn:H4; [|discriminate]. cbn [bind] in H.
  injection H as <- <-.
  destruct (opt_cut_chainN k st st _ _ _ _ _ W (ch_nil _ st st (obs_eq_refl st)) H1) as [W1 C1].
  destruct (opt_cut_chainN k st s1 _ _ _ _ _ W1 C1 H2) as [W2 C2].
  destruct (opt_add_chainN k st s2 _ _ _ _ _ W2 C2 H3) as [W3 C3].
  destruct (opt_add_chainN k st s3 _ _ _ _ _ W3 C3 H4) as [W4 C4].
  now apply group_ConsN.
Qed.

(* the strongest form: the recorded edge-level user actions are consistent transitions between
   W_dict states, i.e. they satisfy the hypotheses [TrI] of the timeline theorem of Props/C02.v *)

Theorem C01_user_swap_at st n1 n2 a st' sx :
  WF st -> user_swap_core st n1 n2 = Ok a st' -> W_dict sx -> obs_eq sx st' ->
  exists b st2, inv_action sx a = Ok b st2 /\ W_dict st2 /\ obs_eq st2 st.
Proof.
  intros W H WDx Ox. destruct (swap_ConsN 1 st n1 n2 a st' W H sx WDx Ox) as (b & s' & I & WD' & O' & _). exists b, s'. auto.
Qed.

Theorem C01_user_swap st n1 n2 a st' :
  WF st -> user_swap_core st n1 n2 = Ok a st' ->
  exists b st2, inv_action st' a = Ok b st2 /\ obs_eq st2 st.
Proof.
  intros W H. pose proof (EditWFEdge.swap_core_WF st n1 n2 a st' W H) as W'.
  destruct (C01_user_swap_at st n1 n2 a st' st' W H (w_dict st' W') (obs_eq_refl st')) as (b & s2 & I & _ & O). exists b, s2. auto.
Qed.

Theorem C01_user_delete_edge_consistent st u v a st' :
  WF st -> user_delete_edge_core st u v = Ok a st' -> TrI W_dict a st st'.
Proof.
  intros W H. split; [apply W|]. split; [apply (EditWFEdge.ude_core_WF _ _ _ _ _ W H)|]. intros n. exact (ude_ConsN n st u v a st' W H).
Qed.
Theorem C01_user_add_edge_consistent st u v force a st' :
  WF st -> user_add_edge_core st u v force = Ok a st' -> TrI W_dict a st st'.
Proof.
  intros W H. split; [apply W|]. split; [apply (EditWFEdge.uae_core_WF _ _ _ _ _ _ W H)|]. intros n. exact (uae_ConsN n st u v force a st' W H).
Qed.
Theorem C01_user_swap_consistent st n1 n2 a st' :
  WF st -> user_swap_core st n1 n2 = Ok a st' -> TrI W_dict a st st'.
Proof.
  intros W H. split; [apply W|]. split; [apply (EditWFEdge.swap_core_WF _ _ _ _ _ W H)|]. intros n. exact (swap_ConsN n st n1 n2 a st' W H).
Qed.

(* the redo direction spelled out: undo, then redo, from the recorded post-state *)
Corollary C01_user_swap_redo st n1 n2 a st' :
  WF st -> user_swap_core st n1 n2 = Ok a st' ->
  exists b st2, inv_action st' a = Ok b st2 /\ obs_eq st2 st /\
  exists c st3, inv_action st2 b = Ok c st3 /\ obs_eq st3 st'.
Proof.
  intros W H. pose proof (EditWFEdge.swap_core_WF _ _ _ _ _ W H) as W'.
  destruct (swap_ConsN 2 st n1 n2 a st' W H st' (w_dict st' W') (obs_eq_refl st')) as (b & s2 & I1 & WD2 & O2 & K).
  exists b, s2. split; [exact I1|]. split; [exact O2|].
  destruct (K s2 WD2 O2) as (c & s3 & I2 & _ & O3 & _). exists c, s3. split; [exact I2|].
  exact O3.
Qed.


(* ================================================================== *)
(* 7. UserDeleteNode: everything before DeleteNode                       *)
(* ================================================================== *)
From FT Require Proofs.EditUDN Proofs.EditNodeBasic.

Lemma basic_ConsN1 b x y :
  (forall s, W_dict s -> obs_eq s y -> exists b' s', inv_basic s b = Ok b' s' /\ W_dict s' /\ obs_eq s' x) ->
  ConsN W_dict 1 (ABasic b) x y.
Proof.
  intros H. cbn [ConsN]. intros s WDs Os. destruct (H s WDs Os) as (b' & s' & E & WD' & O').
  exists (ABasic b'), s'. rewrite inv_action_basic, E. cbn [bind]. auto.
Qed.

Lemma Chain_end_eqv n l x y y' : Chain (ConsN W_dict n) l x y -> obs_eq y y' -> Chain (ConsN W_dict n) l x y'.
Proof.
  intros C. revert y'. induction C as [x y Hxy|a l x m y Ha C IH]; intros y' Hy; [constructor; eapply obs_eq_trans; eauto|econstructor; eauto].
Qed.

(* what is carried from sub-action to sub-action *)
Record J (s : state) : Prop := { j_cfg : cfg_ok s; j_dict : W_dict s; j_fresh : W_fresh s; j_seg : W_seg s }.

Lemma J_estep s s' : EditWFEdge.estep s s' -> W_dict s' -> J s -> J s'.
Proof.
  intros E WD' [C D F S]. constructor; [|exact WD'|exact (EditWFEdge.estep_W_fresh s s' E D F)|exact (EditWFEdge.estep_W_seg s s' E S)].
  destruct E as (_ & Ef & _). unfold cfg_ok. now rewrite Ef.
Qed.
Lemma J_core s s' : core_eq s s' -> J s -> J s'.
Proof.
  intros Cq [C D F S]. constructor; [now apply (core_cfg_ok s s')|now apply (core_W_dict s s')|now apply (core_W_fresh s s')|now apply (core_W_seg s s')].
Qed.
Lemma WF_J st : WF st -> J st.
Proof. intros W. constructor; apply W. Qed.

Lemma lin_down_of_L1 s x : (forall a c, edge s a c -> lin s a = lin s c) -> lin_down s x.
Proof. intros L1 m Hm. induction Hm as [a c Hac|a|a c z _ IH1 _ IH2]; [symmetry; now apply L1|reflexivity|congruence]. Qed.

(* for succ in successors(node): DeleteEdge(node, succ) *)
Lemma udn_succs_chain k n s0 : forall cs s acc acts s', J s -> (forall c, In c cs -> edge s n c) -> NoDup cs ->
  Chain (ConsN W_dict k) acc s0 s -> udn_succs n cs s acc = Ok acts s' -> Chain (ConsN W_dict k) acts s0 s' /\ J s'.
Proof.
  induction cs as [|c r IH]; intros s acc acts s' Js He Hnd C H; cbn [udn_succs] in H.
  - injection H as <- <-. auto.
  - destruct (do_del_edge s n c) as [b s1|e s1] eqn:H1; [|discriminate]. cbn [bind] in H.
    inversion Hnd as [|? ? Hc Hr]; subst.
    assert (Ec : edge s n c) by (apply He; now left).
    pose proof (EditWFEdge.estep_del_edge s n c) as E. rewrite H1 in E. cbn [rstate] in E.
    pose proof (del_edge_W_dict _ _ _ _ _ H1 (j_dict s Js)) as WD1.
    apply (IH s1 (acc ++ [ABasic b]) acts s'); [exact (J_estep s s1 E WD1 Js)| |exact Hr| |exact H].
    + intros c0 Hc0. destruct (del_edge_char _ _ _ _ _ H1) as (_ & _ & _ & _ & _ & _ & Esu). destruct (succs_drop s s1 n c Esu) as [D1 _].
      unfold edge. rewrite D1. assert (Hne : c0 <> c) by (intros ->; contradiction).
      destruct (Z.eqb_spec c0 c); [contradiction|]. rewrite andb_false_r. cbn [negb andb]. apply He. now right.
    + apply Chain_snoc with (m := s); [exact C|]. exact (del_edge_ConsN k s n c b s1 (j_cfg s Js) (j_dict s Js) (fun _ => W_fresh_iou_at s n c (j_fresh s Js) Ec) H1).
Qed.

(* for orphan in orphans: UpdateTrackIDs(orphan, its own track id, next lineage id) *)
Lemma udn_orphans_chain k s0 : forall os s acc acts s', J s -> W_forest s -> (forall a c, edge s a c -> lin s a = lin s c) ->
  (forall o, In o os -> is_node s o /\ forall q, ~ edge s q o) ->
  Chain (ConsN W_dict k) acc s0 s -> udn_orphans os s acc = Ok acts s' -> Chain (ConsN W_dict k) acts s0 s' /\ J s'.
Proof.
  induction os as [|o r IH]; intros s acc acts s' Js WF L1 Hroot C H; cbn [udn_orphans] in H.
  - injection H as <- <-. auto.
  - destruct (zattr s o KTrack) as [t|] eqn:Et; [|discriminate].
    destruct (do_upd_track s o t (Some (next_lin s))) as [b s1|e s1] eqn:H1; [|discriminate]. cbn [bind] in H.
    pose proof Js as [Cfg WD WFr WS]. destruct (Hroot o (or_introl eq_refl)) as [No Ro].
    destruct (upd_track_keeps _ _ _ _ _ _ Cfg WD WF H1) as (Cfg1 & WD1 & WF1 & Ei1 & Es1 & _).
    assert (E1 : forall x y, edge s1 x y <-> edge s x y) by (intros x y; unfold edge, has_edge, adj; now rewrite Es1).
    pose proof (EditWFEdge.estep_upd_track s o t (Some (next_lin s))) as E. rewrite H1 in E. cbn [rstate] in E.
    destruct (EditLin.do_upd_track_lin s o t (Some (next_lin s)) b s1 WD (proj1 Cfg) (proj1 (proj2 Cfg)) No H1) as [Lin1 Lout1].
    assert (L11 : forall a c, edge s1 a c -> lin s1 a = lin s1 c).
    { intros a c Hac. apply E1 in Hac. destruct (EditLin.reach_dec s WD WF o a) as [Ra|Ra].
      - rewrite (Lin1 a Ra), (Lin1 c); [reflexivity|]. eapply rt_trans; [exact Ra|now apply rt_step].
      - assert (Rc : ~ EditWalk.reach s o c).
        { intros Rc. destruct (EditLin.reach_last s o c Rc) as [->|(p & Rp & Hp)]; [exact (Ro a Hac)|].
          apply Ra. now rewrite (wf_in s WF a p c Hac Hp). }
        rewrite (Lout1 a Ra), (Lout1 c Rc). now apply L1. }
    apply (IH s1 (acc ++ [ABasic b]) acts s'); [exact (J_estep s s1 E WD1 Js)|exact WF1|exact L11| | |exact H].
    + intros o' Ho'. destruct (Hroot o' (or_intror Ho')) as [A B]. split; [unfold is_node; now rewrite Ei1|].
      intros q Hq. apply (B q). now apply E1.
    + apply Chain_snoc with (m := s); [exact C|]. exact (upd_track_ConsN k s o t _ b s1 Cfg WD WF (lin_down_of_L1 s o L1) (or_introl Et) H1).
Qed.

(* for pred in predecessors(node): [relabel the sibling]; DeleteEdge(pred, node) *)
Lemma udn_preds_chain k st n acts s1 : WF st -> is_node st n -> udn_preds n (predecessors st n) st [] = Ok acts s1 ->
  Chain (ConsN W_dict k) acts st s1 /\ J s1.
Proof.
  intros W Nn H. pose proof (WF_J st W) as Js. pose proof W as [Cfg WD WFo WT WL WB WS WFr].
  destruct (EditUDN.preds_cases st n WD WFo) as [[Ep Hno]|(p & Ep & Hp & Hall)]; rewrite Ep in H; cbn [udn_preds] in H.
  - injection H as <- <-. split; [constructor; apply obs_eq_refl|exact Js].
  - cbv zeta in H.
    assert (Hcut : forall s acc b2 s2, J s -> edge s p n -> Chain (ConsN W_dict k) acc st s -> do_del_edge s p n = Ok b2 s2 ->
              Chain (ConsN W_dict k) (acc ++ [ABasic b2]) st s2 /\ J s2).
    { intros s acc b2 s2 Jss Eps C H2.
      pose proof (EditWFEdge.estep_del_edge s p n) as E. rewrite H2 in E. cbn [rstate] in E.
      pose proof (del_edge_W_dict _ _ _ _ _ H2 (j_dict s Jss)) as WD2.
      split; [|exact (J_estep s s2 E WD2 Jss)]. apply Chain_snoc with (m := s); [exact C|]. exact (del_edge_ConsN k s p n b2 s2 (j_cfg s Jss) (j_dict s Jss) (fun _ => W_fresh_iou_at s p n (j_fresh s Jss) Eps) H2). }
    destruct (Nat.eqb_spec (length (successors st p)) 2) as [L2|L2].
    + destruct (EditUDN.remove1_sibling st p n WD Hp L2) as (sib & r & Er & Hps & Hsn & Honly). rewrite Er in H.
      destruct (zattr st p KTrack) as [t|] eqn:Et; [|discriminate].
      destruct (do_upd_track st sib t None) as [b sa|e sa] eqn:Ha; [|discriminate]. cbn [bind] in H.
      destruct (do_del_edge sa p n) as [b2 s2|e s2] eqn:H2; [|discriminate]. cbn [bind udn_preds] in H. injection H as <- <-.
      destruct (upd_track_keeps _ _ _ _ _ _ Cfg WD WFo Ha) as (Cfga & WDa & WFa & Eia & Esa & _).
      pose proof (EditWFEdge.estep_upd_track st sib t None) as E. rewrite Ha in E. cbn [rstate] in E.
      assert (Dp : divides st p) by (unfold divides; lia).
      assert (Ns : is_node st sib) by apply (wd_edge_nodes st WD p sib Hps).
      assert (HP : P_trk st sib t).
      { right. apply (trk_pre_sub st st sib t WD WFo WT WFo); auto.
        intros c R _ Hc. apply (trk_below_division st p sib c WD WFo WT Hps Dp R). rewrite Hc. symmetry. exact Et. }
      apply (Hcut sa ([] ++ [ABasic b]) b2 s2 (J_estep st sa E WDa Js)); [unfold edge, has_edge, adj; rewrite Esa; exact Hp| |exact H2].
      apply Chain_snoc with (m := st); [constructor; apply obs_eq_refl|]. exact (upd_track_ConsN k st sib t None b sa Cfg WD WFo (lin_down_of_W_lin st sib WL) HP Ha).
    + cbn [bind] in H. destruct (do_del_edge st p n) as [b2 s2|e s2] eqn:H2; [|discriminate]. cbn [bind udn_preds] in H. injection H as <- <-.
      apply (Hcut st [] b2 s2 Js Hp); [constructor; apply obs_eq_refl|exact H2].
Qed.

(* the whole run before DeleteNode *)
Lemma udn_prefix_chain k st n acts s4 : WF st -> is_node st n -> EditUDN.udn_prefix st n = Ok acts s4 ->
  Chain (ConsN W_dict k) acts st s4 /\ J s4.
Proof.
  intros W Nn H. pose proof W as [Cfg Hd Hf Ht WL Wb WS WFr]. unfold EditUDN.udn_prefix in H. cbv zeta in H.
  (* phase 1 *)
  destruct (udn_preds n (predecessors st n) st []) as [acts1 s1|e s1] eqn:H1; [|discriminate]. cbn [bind] in H.
  destruct (udn_preds_chain k st n acts1 s1 W Nn H1) as [C1 J1].
  destruct (EditUDN.udn_preds_spec st n Hd Hf Nn) as (acts1' & s1' & H1' & Hd1 & Hf1 & G1 & E1 & S1 & A1 & B1).
  rewrite H1 in H1'. injection H1' as <- <-.
  pose (LBst := EditUDN.Build_LB st Cfg Hd Hf (wl1 st WL) Wb).
  destruct (EditUDN.udn_preds_rich st n acts1 s1 LBst Nn H1) as (_ & _ & Lin1 & _).
  (* phase 2 *)
  assert (Ecs : successors s1 n = successors st n).
  { rewrite S1. apply EditUDN.filter_neq_notin. intros Hi. apply edge_successors in Hi. exact (EditUDN.edge_irrefl st n Hf Hi). }
  rewrite Ecs in H. pose proof (wd_adj_nodup st Hd n) as Hcsnd.
  destruct (udn_succs n (successors st n) s1 acts1) as [acts2 s2|e s2] eqn:H2; [|discriminate]. cbn [bind] in H.
  assert (Hcs1 : forall c, In c (successors st n) -> edge s1 n c).
  { intros c Hc. apply E1. split; [now apply edge_successors|]. intros ->. apply edge_successors in Hc. exact (EditUDN.edge_irrefl st n Hf Hc). }
  destruct (udn_succs_chain k n st (successors st n) s1 acts1 acts2 s2 J1 Hcs1 Hcsnd C1 H2) as [C2 J2].
  destruct (EditUDN.udn_succs_spec n (successors st n) s1 acts1 Hd1 Hf1 Hcsnd Hcs1) as (acts2' & s2' & H2' & Hd2 & Hf2 & Hn2 & Ha2 & Hr2 & E2 & S2).
  rewrite H2 in H2'. injection H2' as <- <-.
  assert (G2 : EditUserEdge.gstep st s2) by (eapply EditUserEdge.gstep_trans; [exact G1|now apply EditUserEdge.rest_eq_gstep]).
  assert (E2' : forall x y, edge s2 x y <-> edge st x y /\ x <> n /\ y <> n).
  { intros x y. rewrite E2, E1, <- edge_successors. split.
    - intros [[A B] X]. split; [exact A|split; [|exact B]]. intros ->. apply X. now split.
    - intros (A & B & X). split; [now split|]. intros [D _]. contradiction. }
  (* phase 3 *)
  destruct (wd_track st Hd n Nn) as [T ET]. assert (En : trk st n = Some T) by (now apply zattr_VZ).
  assert (En2 : zattr s2 n KTrack = Some T) by (apply zattr_VZ; now rewrite Ha2, A1).
  rewrite En2 in H.
  destruct (track_neighbors s2 T (time_of s2 n)) as [s3 [p' c']] eqn:Etn.
  assert (Esnd : snd (track_neighbors st T (time_of st n)) = (p', c')).
  { rewrite <- (EditUserEdge.gstep_time _ _ n G2). rewrite <- (EditUDN.track_neighbors_ext st s2 T (time_of s2 n)); [now rewrite Etn| |intros m; apply (EditUserEdge.gstep_time _ _ m G2)].
    destruct Hr2 as (_ & _ & Eb & _). rewrite Eb. apply B1. now apply EditUDN.udn_T_other. }
  destruct (EditUDN.neighbors_of_node st n T p' c' Hd Hf Ht Wb En Esnd) as [HP HC].
  pose proof (EditUDN.track_neighbors_state s2 T (time_of s2 n)) as F3. rewrite Etn in F3. cbv zeta in F3. cbn [fst] in F3.
  destruct F3 as (Eg3 & Es3 & Ef3 & Eu3 & Er3 & El3 & Ec3 & _).
  assert (Cq3 : core_eq s2 s3) by (unfold core_eq; auto).
  pose proof (J_core s2 s3 Cq3 J2) as J3.
  pose proof (Chain_end_eqv k acts2 st s2 s3 C2 (core_eq_obs s2 s3 Cq3)) as C3.
  assert (Hd3 : W_dict s3) by apply J3.
  assert (Hf3 : W_forest s3) by (now apply (core_W_forest s2 s3)).
  assert (G3 : EditUserEdge.gstep st s3) by (eapply EditUserEdge.gstep_trans; [exact G2|now apply EditUDN.gstep_same_g]).
  assert (E3 : forall x y, edge s3 x y <-> edge st x y /\ x <> n /\ y <> n).
  { intros x y. rewrite (EditLin.edge_same_g s2 s3 x y Eg3). apply E2'. }
  assert (Lin3 : forall m, lin s3 m = lin st m).
  { intros m. rewrite (EditLin.lin_same_g s2 s3 m Eg3), <- Lin1. unfold lin, zattr. now rewrite Ha2. }
  assert (L13 : forall a c, edge s3 a c -> lin s3 a = lin s3 c).
  { intros a c Hac. apply E3 in Hac. rewrite !Lin3. apply (wl1 st WL). tauto. }
  assert (Hroots : forall o, In o (successors st n) -> is_node s3 o /\ forall q, ~ edge s3 q o).
  { intros o Ho. apply edge_successors in Ho. split; [apply (EditUserEdge.gstep_is_node _ _ _ G3); apply (wd_edge_nodes st Hd n o Ho)|].
    intros q Hq. apply E3 in Hq. destruct Hq as (Hq & Hqn & _). apply Hqn. exact (wf_in st Hf q n o Hq Ho). }
  assert (Hnobridge : forall os, (forall o, In o os -> In o (successors st n)) -> udn_orphans os s3 acts2 = Ok acts s4 ->
            Chain (ConsN W_dict k) acts st s4 /\ J s4).
  { intros os Hos H4. apply (udn_orphans_chain k st os s3 acts2 acts s4 J3 Hf3 L13); [|exact C3|exact H4].
    intros o Ho. apply Hroots. now apply Hos. }
  assert (Htl : forall (l : list Z) o, In o (if match predecessors st n with [] => false | _ :: _ => true end then l else tl l) -> In o l).
  { intros l o. destruct (predecessors st n); [destruct l; [tauto|now right]|tauto]. }
  destruct p' as [pp|]; destruct c' as [cc|]; cbn [bind] in H;
    try (apply (Hnobridge _ (fun o Ho => Htl _ o Ho) H)).
  (* both neighbours exist: the bridge, and no orphan to relabel *)
  destruct (proj1 (HP pp) eq_refl) as [Hpn Hnd]. pose proof (proj1 (HC cc) eq_refl) as Hsn.
  assert (Hnc : edge st n cc) by (apply edge_successors; rewrite Hsn; now left).
  assert (Hppn : pp <> n) by (intros ->; exact (EditUDN.edge_irrefl st n Hf Hpn)).
  destruct (do_add_edge s3 pp cc []) as [b s3'|e s3'] eqn:H3; [|discriminate]. cbn [bind] in H.
  rewrite Hsn in H. cbn [filter] in H. rewrite Z.eqb_refl in H. cbn [negb] in H.
  assert (Enil : (if match predecessors st n with [] => false | _ :: _ => true end then @nil Z else tl []) = []) by (destruct (predecessors st n); reflexivity).
  rewrite Enil in H. cbn [udn_orphans] in H. injection H as <- <-.
  pose proof (EditWFEdge.estep_add_edge s3 pp cc []) as E. rewrite H3 in E. cbn [rstate] in E.
  pose proof (add_edge_W_dict _ _ _ _ _ _ H3 Hd3) as Hd3'.
  split; [|exact (J_estep s3 s3' E Hd3' J3)].
  apply Chain_snoc with (m := s3); [exact C3|].
  assert (Hne : has_edge s3 pp cc = false).
  { destruct (has_edge s3 pp cc) eqn:Ee; [|reflexivity]. exfalso. apply E3 in Ee. destruct Ee as (Ee & _). apply Hppn. exact (wf_in st Hf pp n cc Ee Hnc). }
  exact (add_edge_ConsN k s3 pp cc [] b s3' (j_cfg s3 J3) Hd3 Hne H3).
Qed.

(* ================================================================== *)
(* 8. AddNode of a new id in two observably equal states               *)
(* ================================================================== *)
(* W_dict after AddNode, for an attribute list that may repeat a key with the same value
   (what DeleteNode saves when a feature key is registered twice) *)
Theorem add_node_W_dict' st n a px b st' t0 T L :
  ~ is_node st n -> rp_disjoint st -> (forall k v v', id_key k -> lookup k a = Some v -> In (k, v') a -> v' = v) ->
  lookup KTime a = Some (VZ t0) -> lookup KTrack a = Some (VZ T) -> lookup KLin a = Some (VZ L) ->
  do_add_node st n a px = Ok b st' -> W_dict st -> W_dict st'.
Proof.
  intros Hn Hrp Hcons Ha0 Ha1 Ha2 H W. rewrite do_add_node_eq in H.
  destruct (negb (haskey KTime a)); [discriminate|]. destruct (negb (haskey KTrack a)); [discriminate|].
  destruct (match px with None => _ | Some _ => false end); [discriminate|].
  destruct (match px with Some p => set_pixels st p n | None => Ok tt st end) as [u st0|e st0] eqn:Ep; [|discriminate].
  cbn [bind] in H. destruct (opt_set_pixels_ok _ _ _ _ _ Ep) as (Eg & Eb & Ef & _).
  apply add_node_tail_g in H. apply (W_dict_same_g _ _ Eg) in W.
  assert (Hn0 : ~ is_node st0 n) by (unfold is_node, node_ids; now rewrite Eg).
  assert (Hrp0 : rp_disjoint st0) by (unfold rp_disjoint; now rewrite Ef).
  clear Hn Hrp Eg Eb Ef Ep st. apply (W_dict_same_g _ _ H). clear H st'.
  destruct (add_node_graph_spec st0 n a Hn0) as (st1 & [A F] & [_ F2] & En & Es & Eb & Ef).
  destruct (add_node_graph_nodes st0 n a Hn0) as (Eids & _ & _ & Hat). cbv zeta in *.
  remember (add_node_graph st0 n a) as st3 eqn:E3. clear E3.
  assert (Hin : forall m, is_node st3 m <-> is_node st0 m \/ m = n).
  { intros m. unfold is_node. rewrite Eids, in_app_iff. cbn. intuition. }
  assert (Hn1 : is_node st1 n).
  { unfold is_node, node_ids. rewrite En, keys_app, in_app_iff. right. now left. }
  assert (Hsu : forall w, successors st3 w = successors st0 w).
  { intros w. rewrite (attr_upd_successors _ _ w A). unfold successors, adj. rewrite Es.
    destruct (Z.eq_dec w n) as [->|Hw]; [now rewrite getd_set_eq|now rewrite getd_set_neq]. }
  assert (Hnew : forall k v, id_key k -> lookup k a = Some v -> attr st3 n k = Some v).
  { intros k v Hk E. rewrite F2 by (right; now apply Hrp0). rewrite (set_attrs_attr st1 n a Hn1 k).
    apply last_binding_const; [intros v' Hv'; exact (Hcons k v v' Hk E Hv')|eapply lookup_Some_keys; eauto]. }
  assert (Hold : forall m, is_node st3 m -> m <> n -> is_node st0 m).
  { intros m Hm Hne. apply Hin in Hm. destruct Hm; [assumption|contradiction]. }
  constructor.
  - rewrite Eids. apply NoDup_snoc; [apply W|exact Hn0].
  - rewrite (au_succs _ _ A), Es. apply NoDup_keys_set. apply W.
  - intros m. rewrite Hin, haskey_keys, (au_succs _ _ A), Es, in_keys_set, <- haskey_keys, (wd_succ_keys st0 W m). tauto.
  - intros w. rewrite Hsu. apply W.
  - intros x y. rewrite edge_successors, Hsu, <- edge_successors, !Hin. intros He.
    destruct (wd_edge_nodes st0 W x y He). auto.
  - intros m Hm. destruct (Z.eq_dec m n) as [->|Hne].
    + exists t0. apply Hnew; [unfold id_key; auto|exact Ha0].
    + rewrite Hat by exact Hne. apply (wd_time st0 W). now apply Hold.
  - intros m Hm. destruct (Z.eq_dec m n) as [->|Hne].
    + exists T. apply Hnew; [unfold id_key; auto|exact Ha1].
    + rewrite Hat by exact Hne. apply (wd_track st0 W). now apply Hold.
  - intros m Hm. destruct (Z.eq_dec m n) as [->|Hne].
    + exists L. apply Hnew; [unfold id_key; auto|exact Ha2].
    + rewrite Hat by exact Hne. apply (wd_lin st0 W). now apply Hold.
  - intros m. apply (au_nodup _ _ A). unfold node_attrs, getd. rewrite En, lookup_app.
    generalize (wd_attr_nodup st0 W m). unfold node_attrs, getd.
    destruct (lookup m (nodes (g st0))); [auto|]. intros _. cbn. destruct (m =? n); constructor.
Qed.

(* the parts of the effect of AddNode that [add_node_effect] leaves out *)
Lemma add_node_more st n a px b st1 : ~ is_node st n -> do_add_node st n a px = Ok b st1 ->
  (forall m, is_node st1 m <-> is_node st m \/ m = n) /\ (forall m k, m <> n -> attr st1 m k = attr st m k) /\
  seg st1 = EditNodeBasic.seg_after st px n.
Proof.
  intros Hn H. rewrite do_add_node_eq in H.
  destruct (negb (haskey KTime a)); [discriminate|]. destruct (negb (haskey KTrack a)); [discriminate|].
  destruct (match px with None => _ | Some _ => false end); [discriminate|].
  destruct (match px with Some p => set_pixels st p n | None => Ok tt st end) as [uu st0|e st0] eqn:Ep; [|discriminate].
  cbn [bind] in H. destruct (EditNodeBasic.opt_set_pixels_inv _ _ _ _ _ Ep) as (Hpx & Eg & Es & Eb & Hh).
  destruct (EditNodeBasic.add_node_tail_frame _ _ _ _ _ _ H) as (Eg' & Es' & _ & _).
  assert (Hn0 : ~ is_node st0 n) by (unfold is_node, node_ids; now rewrite Eg).
  destruct (add_node_graph_nodes st0 n a Hn0) as (Eids & _ & _ & Hat). cbv zeta in *.
  destruct (EditNodeBasic.rest_eq_add_node_graph st0 n a) as (R1 & _).
  split; [|split].
  - intros m. unfold is_node at 1, node_ids. rewrite Eg'. fold (node_ids (add_node_graph st0 n a)). rewrite Eids, in_app_iff.
    unfold is_node, node_ids. rewrite Eg. cbn. intuition.
  - intros m k Hm. unfold attr at 1, node_attrs. rewrite Eg'. fold (node_attrs (add_node_graph st0 n a) m). fold (attr (add_node_graph st0 n a) m k).
    rewrite Hat by exact Hm. unfold attr, node_attrs. now rewrite Eg.
  - now rewrite Es', R1.
Qed.

Lemma add_node_trk_some st n a px b st1 : cfg_ok st -> ~ is_node st n -> rp_disjoint st -> do_add_node st n a px = Ok b st1 ->
  exists T, last_binding KTrack a None = Some (VZ T).
Proof.
  intros Cfg Hn Hrp H. rewrite do_add_node_eq in H.
  destruct (negb (haskey KTime a)); [discriminate|]. destruct (negb (haskey KTrack a)); [discriminate|].
  destruct (match px with None => _ | Some _ => false end); [discriminate|].
  destruct (match px with Some p => set_pixels st p n | None => Ok tt st end) as [uu st0|e st0] eqn:Ep; [|discriminate].
  cbn [bind] in H. destruct (opt_set_pixels_ok _ _ _ _ _ Ep) as (Eg & Eb & Ef & _).
  assert (Hn0 : ~ is_node st0 n) by (unfold is_node, node_ids; now rewrite Eg).
  destruct (add_node_graph_nodes st0 n a Hn0) as (_ & _ & Ef3 & _). cbv zeta in Ef3.
  unfold add_node_tail in H. rewrite Ef3, Ef, (proj1 Cfg) in H. cbn [negb] in H.
  destruct (zattr (add_node_graph st0 n a) n KTrack) as [T|] eqn:Et; [|discriminate]. exists T.
  apply zattr_inv in Et. rewrite <- Et. symmetry. apply add_node_graph_attr; [exact Hn0|]. left. rewrite Ef. apply Hrp. unfold id_key. auto.
Qed.

Lemma add_node_succeeds st n a px : cfg_ok st -> ~ is_node st n -> rp_disjoint st ->
  haskey KTime a = true -> haskey KTrack a = true -> (px = None -> all_in (pos_keys (ft st)) a = true) -> EditNodeBasic.px_ok st px ->
  (exists T, last_binding KTrack a None = Some (VZ T)) ->
  exists b st', do_add_node st n a px = Ok b st'.
Proof.
  intros Cfg Hn Hrp Ht Hk Hpos Hpx [T HT]. rewrite do_add_node_eq, Ht, Hk. cbn [negb].
  assert (Ev : (match px with None => negb (all_in (pos_keys (ft st)) a) | Some _ => false end) = false).
  { destruct px; [reflexivity|]. now rewrite Hpos. }
  rewrite Ev. destruct (EditNodeBasic.opt_set_pixels_ok st px n Hpx) as [st0 Ep]. rewrite Ep. cbn [bind].
  destruct (opt_set_pixels_ok _ _ _ _ _ Ep) as (Eg & Eb & Ef & _).
  assert (Hn0 : ~ is_node st0 n) by (unfold is_node, node_ids; now rewrite Eg).
  destruct (add_node_graph_nodes st0 n a Hn0) as (_ & _ & Ef3 & _). cbv zeta in Ef3.
  assert (E1 : zattr (add_node_graph st0 n a) n KTrack = Some T).
  { apply zattr_VZ. rewrite <- HT. apply add_node_graph_attr; [exact Hn0|]. left. rewrite Ef. apply Hrp. unfold id_key. auto. }
  unfold add_node_tail. rewrite Ef3, Ef, (proj1 Cfg), E1. cbn [negb].
  destruct (lin_act (ft st)); [destruct (zattr (add_node_graph st0 n a) n KLin)|]; eexists _, _; reflexivity.
Qed.

(* AddNode of a new id in two observably equal states *)
Lemma add_node_cong s sx n a px b s1 :
  cfg_ok s -> W_dict s -> W_dict sx -> rp_disjoint s -> ~ is_node s n -> obs_eq s sx ->
  do_add_node s n a px = Ok b s1 -> exists sx1, do_add_node sx n a px = Ok b sx1 /\ obs_eq s1 sx1.
Proof.
  intros Cfg WD WDx Hrp Hn O H.
  pose proof (obs_cfg s sx O Cfg) as Cfgx. pose proof (obs_rp_disjoint s sx O Hrp) as Hrpx.
  assert (Hnx : ~ is_node sx n) by (now rewrite (oe_nodes _ _ O)).
  destruct (EditNodeBasic.do_add_node_ok_inv _ _ _ _ _ _ H) as (Ht & Hk & Hpos & Hpx).
  destruct (add_node_succeeds sx n a px Cfgx Hnx Hrpx Ht Hk) as (bx & sx1 & Hx).
  { now rewrite (oe_ft _ _ O). }
  { unfold EditNodeBasic.px_ok in *. destruct px; [now rewrite (oe_seg _ _ O)|exact I]. }
  { exact (add_node_trk_some s n a px b s1 Cfg Hn Hrp H). }
  destruct (add_node_effect _ _ _ _ _ _ WD Hn Hrp H) as (-> & Ef & Hn1 & Hsn & Hadj & Hplain & Hrpv).
  destruct (add_node_effect _ _ _ _ _ _ WDx Hnx Hrpx Hx) as (-> & Efx & Hn1x & Hsnx & Hadjx & Hplainx & Hrpvx).
  destruct (add_node_more _ _ _ _ _ _ Hn H) as (N1 & A1 & S1). destruct (add_node_more _ _ _ _ _ _ Hnx Hx) as (N1x & A1x & S1x).
  exists sx1. split; [exact Hx|].
  assert (Eseg : seg sx1 = seg s1) by (rewrite S1, S1x; unfold EditNodeBasic.seg_after; now rewrite (oe_seg _ _ O)).
  assert (Etime : time_of sx1 n = time_of s1 n).
  { apply time_of_same. rewrite Hplain, Hplainx; [reflexivity| |]; left; [rewrite (oe_ft _ _ O)|]; apply Hrp; unfold id_key; auto. }
  constructor.
  - intros m. rewrite N1, N1x, (oe_nodes _ _ O). reflexivity.
  - intros u v. unfold has_edge. rewrite Hadj, Hadjx. apply (oe_edges _ _ O).
  - intros m k Hk'. rewrite Ef in Hk'. unfold attr_obs. destruct (Z.eq_dec m n) as [->|Hm].
    + f_equal. destruct (seg s1) as [sg1|] eqn:Es1.
      * destruct (in_dec Z.eq_dec k (rp_act (ft s))) as [Hi|Hi].
        -- rewrite (Hrpv sg1 k eq_refl Hi), (Hrpvx sg1 k Eseg); [now rewrite Etime|now rewrite (oe_ft _ _ O)].
        -- rewrite Hplain, Hplainx; [reflexivity| |]; left; [now rewrite (oe_ft _ _ O)|exact Hi].
      * rewrite Hplain, Hplainx; [reflexivity| |]; right; [exact Eseg|reflexivity].
    + rewrite A1, A1x by exact Hm. apply (oe_nattr _ _ O m k Hk').
  - intros u v k Hk'. rewrite Ef in Hk'. unfold eattr_obs, edge_attrs. rewrite Hadj, Hadjx. apply (oe_eattr _ _ O u v k Hk').
  - exact Eseg.
  - now rewrite Efx, Ef, (oe_ft _ _ O).
Qed.


(* ================================================================== *)
(* 9. DeleteNode, robustly                                               *)
(* ================================================================== *)

(* the stored managed values of node n, as far as they can be observed: DeleteNode followed by
   AddNode recomputes them from the mask, so what was stored must be the value of the mask *)
Definition seg_fresh_obs (st : state) (n : Z) : Prop :=
  forall sg, seg st = Some sg -> forall k, In k (rp_act (ft st)) -> In k (reg_node (ft st)) ->
    obsv (attr st n k) = obsv (Some (rpval (mask_of sg (time_of st n) n))).

Lemma seg_fresh_at_obs st n : seg_fresh_at st n -> seg_fresh_obs st n.
Proof. intros H sg Hs k Hi _. destruct (H sg Hs) as [Fr _]. now rewrite (Fr k Hi). Qed.

(* [del_node_inverse] of Proofs/EditInverse.v under the observable form of the freshness hypothesis
   (same proof; only the step that uses the hypothesis differs) *)
Theorem del_node_inverse' st n pxo b st1 :
  W_dict st -> cfg_ok st -> rp_disjoint st -> isolated st n -> seg_fresh_obs st n -> del_node_px_ok st n pxo -> pos_ok st n ->
  do_del_node st n pxo = Ok b st1 ->
  exists b' st2, inv_basic st1 b = Ok b' st2 /\ obs_eq st st2.
Proof.
  intros WD (Cta & Cla & Crt & Crk & Crl) Hrp Hiso Hfr Hpx Hpos H.
  pose proof (del_node_W_dict _ _ _ _ _ H WD) as WD1.
  rewrite do_del_node_eq in H. destruct (lookup n (nodes (g st))) as [d|] eqn:Ed; [|discriminate]. cbv zeta in H.
  assert (Hn : is_node st n) by (apply is_node_lookup; now exists d).
  assert (Hd : node_attrs st n = d) by (unfold node_attrs, getd; now rewrite Ed).
  set (saved := saved_attrs (reg_node (ft st)) d) in *.
  set (px := match pxo with Some p => Some p | None => get_pixels st n end) in *.
  destruct (match px with Some p => set_pixels st p 0 | None => Ok tt st end) as [u st0|e st0] eqn:Ep; [|discriminate].
  cbn [bind] in H. destruct (opt_set_pixels_ok _ _ _ _ _ Ep) as (Eg & Eb & Ef & _).
  destruct (del_node_tail_char (del_node_graph st0 n) n saved px) as (s' & H' & CD1). rewrite H in H'. injection H' as -> <-. clear H.
  set (sD := del_node_graph st0 n) in *.
  destruct (wd_time st WD n Hn) as [t Et]. destruct (wd_track st WD n Hn) as [T ET].
  assert (Est : lookup KTime saved = Some (VZ t)).
  { apply saved_attrs_lookup; [exact Crt| |discriminate]. unfold attr in Et. now rewrite Hd in Et. }
  assert (Esk : lookup KTrack saved = Some (VZ T)).
  { apply saved_attrs_lookup; [exact Crk| |discriminate]. unfold attr in ET. now rewrite Hd in ET. }
  assert (Hall : forall k v, In (k, v) saved -> lookup k d = Some v /\ v <> VNone /\ In k (reg_node (ft st))).
  { intros k v Hin. apply saved_attrs_in in Hin. tauto. }
  assert (Hlast : forall k v, lookup k saved = Some v -> last_binding k saved None = Some v).
  { intros k v E. apply last_binding_const; [|eapply lookup_Some_keys; eauto].
    intros v' Hin. apply lookup_In in E. destruct (Hall k v E) as (A & _). destruct (Hall k v' Hin) as (A' & _). congruence. }
  (* the array: what DeleteNode cleared is what AddNode paints *)
  assert (Hseg : match px with
                 | Some p => exists sg, seg st = Some sg /\ frame_ok sg (fst p) = true /\ seg st0 = Some (paint_sg sg p 0) /\
                              paint_sg (paint_sg sg p 0) p n = sg
                 | None => seg st = None /\ seg st0 = None /\ pxo = None
                 end).
  { destruct px as [p|] eqn:Epx.
    - destruct (set_pixels_char _ _ _ _ _ Ep) as (sg & Hs & Hf & ->). exists sg. split; [exact Hs|]. split; [exact Hf|]. split; [reflexivity|].
      apply paint_back; [exact Hf|]. intros i Hi Hin. unfold px in Epx. destruct pxo as [p0|].
      + injection Epx as ->. apply (Hpx sg i Hs Hi Hin).
      + unfold get_pixels in Epx. rewrite Hs in Epx. injection Epx as <-. cbn [fst snd] in *. apply mask_of_In in Hin. apply Hin.
    - unfold px in Epx. destruct pxo as [p0|]; [discriminate|]. unfold get_pixels in Epx. destruct (seg st) eqn:Hs; [discriminate|].
      injection Ep as _ <-. auto. }
  (* enough to invert in sD *)
  assert (Hgoal : exists b' s2, do_add_node sD n saved px = Ok b' s2 /\ obs_eq st s2).
  { rewrite do_add_node_eq. rewrite (lookup_Some_haskey _ _ _ Est), (lookup_Some_haskey _ _ _ Esk). cbn [negb].
    assert (Hposchk : match px with None => negb (all_in (pos_keys (ft sD)) saved) | Some _ => false end = false).
    { destruct px as [p|]; [reflexivity|]. destruct Hseg as (Hs & _ & _). apply negb_false_iff. unfold all_in. apply forallb_forall.
      intros k Hk. change (ft sD) with (ft st0) in Hk. rewrite Ef in Hk. destruct (Hpos Hs k Hk) as (Hr & v & Ev & Hv).
      apply lookup_Some_haskey with (v := v). apply saved_attrs_lookup; [exact Hr| |exact Hv]. unfold attr in Ev. now rewrite Hd in Ev. }
    rewrite Hposchk.
    assert (HnD : forall s, g s = g sD -> ~ is_node s n).
    { intros s Hs Hi. unfold is_node, node_ids in Hi. rewrite Hs in Hi. unfold sD, del_node_graph in Hi. cbn [g nodes upd_g] in Hi.
      apply in_keys_del in Hi. now destruct Hi. }
    assert (WDD : W_dict sD) by (apply (core_W_dict st1 sD); [now apply core_eq_sym|exact WD1]).
    (* the state after re-painting *)
    assert (Hpaint : exists sD0, (match px with Some p => set_pixels sD p n | None => Ok tt sD end) = Ok tt sD0 /\
                       g sD0 = g sD /\ ft sD0 = ft st /\ seg sD0 = seg st).
    { destruct px as [p|].
      - destruct Hseg as (sg & Hs & Hf & Hs0 & Hback).
        assert (HsD : seg sD = Some (paint_sg sg p 0)) by exact Hs0.
        rewrite (set_pixels_run sD _ p n HsD) by (now rewrite paint_frame_ok).
        eexists. split; [reflexivity|]. cbn [g ft seg upd_seg]. rewrite Hback. split; [reflexivity|]. split; [exact Ef|now rewrite Hs].
      - destruct Hseg as (Hs & Hs0 & _). exists sD. split; [reflexivity|]. split; [reflexivity|]. split; [exact Ef|]. now rewrite Hs. }
    destruct Hpaint as (sD0 & Hp0 & Eg0 & Ef0 & Es0). rewrite Hp0. cbn [bind].
    assert (Hn0 : ~ is_node sD0 n) by (now apply HnD).
    assert (WD0 : W_dict sD0) by (now apply (W_dict_same_g sD sD0)).
    set (s3 := add_node_graph sD0 n saved).
    destruct (add_node_graph_shape sD0 n saved WD0 Hn0) as (_ & S3 & F3 & _). fold s3 in S3, F3.
    destruct (add_node_graph_nodes sD0 n saved Hn0) as (Eids & _ & _ & Hat). cbv zeta in Eids, Hat. fold s3 in Eids, Hat.
    destruct (add_node_graph_spec sD0 n saved Hn0) as (sa & [A _] & _ & Ena & Esa & _ & _). fold s3 in A.
    assert (Hrp0 : rp_disjoint sD0) by (unfold rp_disjoint; now rewrite Ef0).
    assert (Hattr_n : forall k, ~ In k (rp_act (ft st)) \/ seg st = None -> attr s3 n k = last_binding k saved None).
    { intros k Hk. unfold s3. apply add_node_graph_attr; [exact Hn0|]. now rewrite Ef0, Es0. }
    assert (Etrk : zattr s3 n KTrack = Some T).
    { apply zattr_VZ. rewrite Hattr_n by (left; apply Hrp; unfold id_key; auto). now apply Hlast. }
    assert (Etime : time_of s3 n = t).
    { unfold time_of. rewrite (zattr_VZ s3 n KTime t); [reflexivity|]. rewrite Hattr_n by (left; apply Hrp; unfold id_key; auto). now apply Hlast. }
    destruct (add_node_tail s3 n saved px) as [b' s2|e s2] eqn:Ht.
    2:{ exfalso. unfold add_node_tail in Ht. rewrite F3, Ef0, Cta, Etrk in Ht. cbn [negb] in Ht.
        destruct (lin_act (ft st)); [destruct (zattr s3 n KLin)|]; discriminate. }
    exists b', s2. split; [reflexivity|]. destruct (add_node_tail_char _ _ _ _ _ _ Ht) as [_ C32].
    eapply obs_eq_trans; [|apply core_eq_obs; exact C32].
    (* adjacency of s3 *)
    assert (Hadj : forall x, adj s3 x = if x =? n then [] else del n (adj st x)).
    { intros x. unfold adj at 1. rewrite (au_succs _ _ A), Esa, Eg0.
      assert (HnD' : getd n (succs (g sD)) [] = []).
      { pose proof (del_node_graph_adj st0 n n) as X. rewrite Z.eqb_refl in X. exact X. }
      rewrite HnD'. destruct (Z.eqb_spec x n) as [->|Hx]; [apply getd_set_eq|]. rewrite getd_set_neq by exact Hx.
      pose proof (del_node_graph_adj st0 n x) as X. unfold adj at 1 in X. fold sD in X. rewrite X.
      destruct (Z.eqb_spec x n); [contradiction|]. unfold adj. now rewrite Eg. }
    assert (HE : forall x y, has_edge s3 x y = has_edge st x y).
    { intros x y. unfold has_edge at 1. rewrite Hadj. destruct (Z.eqb_spec x n) as [->|Hx].
      - symmetry. apply (Hiso y).
      - rewrite haskey_del. destruct (Z.eqb_spec y n) as [->|Hy]; [symmetry; apply (Hiso x)|reflexivity]. }
    assert (HEA : forall x y, edge_attrs s3 x y = edge_attrs st x y).
    { intros x y. unfold edge_attrs at 1. rewrite Hadj. destruct (Z.eqb_spec x n) as [->|Hx].
      - destruct (Hiso y) as [Hy _]. unfold has_edge, haskey in Hy. unfold edge_attrs, getd. destruct (lookup y (adj st n)); [discriminate|reflexivity].
      - destruct (Z.eq_dec y n) as [->|Hy]; [|now rewrite getd_del_neq].
        rewrite getd_del_eq. destruct (Hiso x) as [_ Hy]. unfold has_edge, haskey in Hy. unfold edge_attrs, getd. destruct (lookup n (adj st x)); [discriminate|reflexivity]. }
    assert (HinD : forall m, is_node sD0 m <-> m <> n /\ is_node st m).
    { intros m. unfold is_node, node_ids. rewrite Eg0. unfold sD, del_node_graph. cbn [g nodes upd_g]. rewrite Eg. apply in_keys_del. }
    assert (HatD : forall m k, m <> n -> attr sD0 m k = attr st m k).
    { intros m k Hm. unfold attr, node_attrs. rewrite Eg0. unfold sD, del_node_graph. cbn [g nodes upd_g]. rewrite Eg. unfold getd. now rewrite lookup_del_neq. }
    constructor.
    - intros m. unfold is_node at 1. rewrite Eids, in_app_iff. fold (is_node sD0 m). rewrite HinD. cbn [In].
      split; [intros [[_ X]|[<-|[]]]; assumption|]. intros X. destruct (Z.eq_dec m n) as [->|Hm]; [right; now left|left; now split].
    - exact HE.
    - intros m k Hk. unfold attr_obs. destruct (Z.eq_dec m n) as [->|Hm]; [|now rewrite Hat, HatD].
      assert (Hplain : attr s3 n k = last_binding k saved None -> obsv (attr s3 n k) = obsv (attr st n k)).
      { intros E. rewrite E. unfold attr. rewrite Hd. apply (obs_saved (reg_node (ft st)) d k _ Hk).
        - intros v Ev Hv. apply Hlast. now apply saved_attrs_lookup.
        - intros Hc. apply last_binding_notin. intros Hi. apply saved_attrs_keys in Hi. destruct Hi as (_ & v & Ev & Hv). destruct Hc; congruence. }
      destruct (seg st) as [sg|] eqn:Hs; [|apply Hplain, Hattr_n; now right].
      destruct (in_dec Z.eq_dec k (rp_act (ft st))) as [Hi|Hi]; [|apply Hplain, Hattr_n; now left].
      rewrite (Hfr sg Hs k Hi Hk). f_equal.
      (* the recomputed regionprops value *)
      set (sb := set_attrs (upd_g sD0 {| nodes := nodes (g sD0) ++ [(n, [])]; succs := set n (getd n (succs (g sD0)) []) (succs (g sD0)) |}) n saved).
      assert (E3 : s3 = rp_update sb n).
      { unfold s3, add_node_graph. cbv zeta. pose proof Hn0 as Hn0'. apply has_node_false in Hn0'. unfold has_node in Hn0'. now rewrite Hn0'. }
      assert (Hsb : seg sb = Some sg /\ ft sb = ft st /\ is_node sb n).
      { unfold sb. match goal with |- context [set_attrs ?s0 n saved] => destruct (set_attrs_upd_at s0 n saved) as [A1 _] end.
        rewrite (au_seg _ _ A1), (au_ft _ _ A1). cbn [seg ft upd_g]. split; [now rewrite Es0|]. split; [exact Ef0|].
        apply (attr_upd_is_node _ _ n A1). unfold is_node, node_ids. cbn [g nodes upd_g]. rewrite keys_app, in_app_iff. right. now left. }
      destruct Hsb as (Sb1 & Sb2 & Sb3).
      assert (Etb : time_of sb n = t).
      { rewrite <- Etime, E3. symmetry. apply time_of_same. destruct (rp_update_upd_at sb n) as [_ Fb]. apply Fb. right. rewrite Sb2. apply Hrp. unfold id_key. auto. }
      rewrite E3, (rp_update_spec sb n sg Sb1 Sb3 k) by (now rewrite Sb2). rewrite Etb.
      unfold time_of. now rewrite (zattr_VZ st n KTime t Et).
    - intros x y k _. unfold eattr_obs. now rewrite HEA.
    - now rewrite S3, Es0.
    - now rewrite F3, Ef0. }
  destruct Hgoal as (b' & s2 & H2 & O2).
  destruct (inv_basic_at sD st1 (BDelNode n saved px) b' s2 CD1 H2) as (s2' & H2' & C2').
  exists b', s2'. split; [exact H2'|]. eapply obs_eq_trans; [exact O2|now apply core_eq_obs].
Qed.

Theorem del_node_undo_obs st n pxo b st1 sx :
  W_dict st -> W_forest st -> cfg_ok st -> rp_disjoint st -> isolated st n -> seg_fresh_obs st n -> del_node_px_ok st n pxo -> pos_ok st n ->
  do_del_node st n pxo = Ok b st1 -> W_dict sx -> obs_eq sx st1 ->
  exists b' sx', inv_basic sx b = Ok b' sx' /\ W_dict sx' /\ obs_eq sx' st.
Proof.
  intros WD WF Cfg Hrp Hiso Hfr Hpx Hpos H WDx Ox.
  destruct (del_node_inverse' st n pxo b st1 WD Cfg Hrp Hiso Hfr Hpx Hpos H) as (b2 & st2 & H2 & O2).
  destruct (EditNodeBasic.do_del_node_WS st n pxo b st1 WD WF H) as (WD1 & _ & N1 & _ & _ & _ & _ & Nn & _ & _ & Hh & _ & _ & Eb).
  subst b. cbn [inv_basic] in *.
  set (saved := saved_attrs (reg_node (ft st)) (node_attrs st n)) in *. set (px := EditNodeBasic.del_px st n pxo) in *.
  assert (Ef1 : ft st1 = ft st) by apply Hh.
  assert (Cfg1 : cfg_ok st1) by (unfold cfg_ok; now rewrite Ef1).
  assert (Hrp1 : rp_disjoint st1) by (unfold rp_disjoint; now rewrite Ef1).
  assert (Hn1 : ~ is_node st1 n) by (rewrite N1; tauto).
  pose proof (obs_eq_sym _ _ Ox) as Ox'.
  destruct (add_node_cong st1 sx n saved px b2 st2 Cfg1 WD1 WDx Hrp1 Hn1 Ox' H2) as (sx' & Hx & Ox2).
  exists b2, sx'. split; [exact Hx|]. split.
  - destruct Cfg as (_ & _ & Crt & Crk & Crl).
    destruct (wd_time st WD n Nn) as [t Et]. destruct (wd_track st WD n Nn) as [T ET]. destruct (wd_lin st WD n Nn) as [L EL].
    apply (add_node_W_dict' sx n saved px b2 sx' t T L); [now rewrite (oe_nodes _ _ Ox')|exact (obs_rp_disjoint st1 sx Ox' Hrp1)| | | | |exact Hx|exact WDx].
    + intros k v v' _ E Hin. apply saved_attrs_in in Hin. destruct Hin as (Hk & E' & Hv).
      pose proof (saved_attrs_lookup _ _ _ _ Hk E' Hv) as E2. fold saved in E2. congruence.
    + apply saved_attrs_lookup; [exact Crt|exact Et|discriminate].
    + apply saved_attrs_lookup; [exact Crk|exact ET|discriminate].
    + apply saved_attrs_lookup; [exact Crl|exact EL|discriminate].
  - apply obs_eq_sym. eapply obs_eq_trans; [exact O2|exact Ox2].
Qed.

(* UserDeleteNode.  Besides WF:
   - [rp_disjoint]: time / track id / lineage id are not regionprops keys (as for the basic node laws);
   - [pos_ok]: without a segmentation the node carries registered, non-None positions (AddNode refuses
     to re-create a node without pixels and without a position);
   - [del_node_px_ok]: pixels passed explicitly lie inside the node's own mask (none passed: the
     node's mask is used). *)
(* ================================================================== *)
(* 10. DeleteNode in two observably equal states; AddNode, robustly      *)
(* ================================================================== *)
Lemma del_node_edge_attrs st n pxo b st' x y : do_del_node st n pxo = Ok b st' -> x <> n -> y <> n ->
  edge_attrs st' x y = edge_attrs st x y.
Proof.
  intros H Hx Hy. rewrite do_del_node_eq in H. destruct (lookup n (nodes (g st))) as [d|]; [|discriminate]. cbv zeta in H.
  destruct (match (match pxo with Some p => Some p | None => get_pixels st n end) with Some p => set_pixels st p 0 | None => Ok tt st end)
    as [u st0|e st0] eqn:Ep; [|discriminate].
  cbn [bind] in H. destruct (opt_set_pixels_ok _ _ _ _ _ Ep) as (Eg & _). apply del_node_tail_g in H.
  unfold edge_attrs, adj at 1. rewrite H. fold (adj (del_node_graph st0 n) x). rewrite del_node_graph_adj.
  destruct (Z.eqb_spec x n); [contradiction|]. rewrite getd_del_neq by exact Hy. unfold adj. now rewrite Eg.
Qed.

Lemma del_node_cong s sx n b s1 :
  cfg_ok s -> W_dict s -> W_forest s -> W_dict sx -> obs_eq s sx -> do_del_node s n None = Ok b s1 ->
  exists bx sx1, do_del_node sx n None = Ok bx sx1 /\ obs_eq s1 sx1.
Proof.
  intros Cfg WD WF WDx O H.
  pose proof (obs_W_forest s sx O Cfg WD WDx WF) as WFx.
  destruct (EditNodeBasic.do_del_node_WS s n None b s1 WD WF H) as (WD1 & _ & N1 & E1 & _ & A1 & _ & Nn & Hpx & S1 & Hh & _).
  assert (Epx : EditNodeBasic.del_px sx n None = EditNodeBasic.del_px s n None).
  { unfold EditNodeBasic.del_px, get_pixels. now rewrite (oe_seg _ _ O), (obs_time s sx O Cfg). }
  assert (Nnx : is_node sx n) by (now apply (oe_nodes _ _ O)).
  destruct (EditNodeBasic.do_del_node_ok sx n None Nnx) as (bx & sx1 & Hx).
  { rewrite Epx. unfold EditNodeBasic.px_ok in *. destruct (EditNodeBasic.del_px s n None); [now rewrite (oe_seg _ _ O)|exact I]. }
  exists bx, sx1. split; [exact Hx|].
  destruct (EditNodeBasic.do_del_node_WS sx n None bx sx1 WDx WFx Hx) as (WDx1 & _ & N1x & E1x & _ & A1x & _ & _ & _ & S1x & Hhx & _).
  assert (Hedge : forall u v, has_edge sx1 u v = has_edge s1 u v).
  { intros u v. destruct (has_edge s1 u v) eqn:Es.
    - apply E1 in Es. apply E1x. split; [apply (obs_edge s sx O); tauto|tauto].
    - destruct (has_edge sx1 u v) eqn:Ex; [|reflexivity]. apply E1x in Ex. assert (edge s1 u v) as X; [|unfold edge in X; congruence].
      apply E1. split; [apply (obs_edge s sx O); tauto|tauto]. }
  constructor.
  - intros m. rewrite N1, N1x, (oe_nodes _ _ O). reflexivity.
  - exact Hedge.
  - intros m k Hk. assert (Hk' : In k (reg_node (ft s))) by (destruct Hh as (Ef & _); now rewrite <- Ef).
    unfold attr_obs. destruct (Z.eq_dec m n) as [->|Hm].
    + assert (E : forall t, ~ is_node t n -> attr t n k = None).
      { intros t Ht. unfold attr, node_attrs, getd. apply lookup_None_keys in Ht. unfold node_ids in Ht. now rewrite Ht. }
      rewrite !E; [reflexivity| |]; [rewrite N1|rewrite N1x]; tauto.
    + rewrite A1, A1x by exact Hm. apply (oe_nattr _ _ O m k Hk').
  - intros u v k Hk. assert (Hk' : In k (reg_edge (ft s))) by (destruct Hh as (Ef & _); now rewrite <- Ef).
    unfold eattr_obs. destruct (has_edge s1 u v) eqn:Es.
    + apply E1 in Es. destruct Es as (_ & Hu & Hv).
      rewrite (del_node_edge_attrs _ _ _ _ _ u v H Hu Hv), (del_node_edge_attrs _ _ _ _ _ u v Hx Hu Hv). apply (oe_eattr _ _ O u v k Hk').
    + rewrite (no_edge_attrs s1 u v Es), (no_edge_attrs sx1 u v); [reflexivity|]. now rewrite Hedge.
  - rewrite S1, S1x, Epx. unfold EditNodeBasic.seg_after. now rewrite (oe_seg _ _ O).
  - destruct Hh as (Ef & _). destruct Hhx as (Efx & _). now rewrite Efx, Ef, (oe_ft _ _ O).
Qed.

(* AddNode of a new id painted over background (the documented precondition [add_node_px_ok]) *)
Theorem add_node_undo_obs st n a px b st1 sx :
  cfg_ok st -> W_dict st -> ~ is_node st n -> rp_disjoint st -> add_node_px_ok st n a px ->
  W_dict st1 -> W_forest st1 ->
  do_add_node st n a px = Ok b st1 -> W_dict sx -> obs_eq sx st1 ->
  exists b' sx', inv_basic sx b = Ok b' sx' /\ W_dict sx' /\ obs_eq sx' st.
Proof.
  intros Cfg WD Hn Hrp Hpx WD1 WF1 H WDx Ox.
  destruct (add_node_inverse st n a px b st1 WD Hn Hrp Hpx H) as (b' & st2 & H2 & C2).
  destruct (add_node_effect _ _ _ _ _ _ WD Hn Hrp H) as (-> & Ef & _). cbn [inv_basic] in *.
  assert (Cfg1 : cfg_ok st1) by (unfold cfg_ok; now rewrite Ef).
  destruct (del_node_cong st1 sx n b' st2 Cfg1 WD1 WF1 WDx (obs_eq_sym _ _ Ox) H2) as (bx & sx' & Hx & Ox').
  exists bx, sx'. split; [exact Hx|]. split; [exact (del_node_W_dict _ _ _ _ _ Hx WDx)|].
  apply obs_eq_sym. eapply obs_eq_trans; [apply core_eq_obs; exact C2|exact Ox'].
Qed.


(* ================================================================== *)
(* 11. AddNode / DeleteNode any number of times                          *)
(* ================================================================== *)
Lemma add_node_W_forest st n a px b st1 : W_dict st -> ~ is_node st n -> rp_disjoint st ->
  do_add_node st n a px = Ok b st1 -> W_forest st -> W_forest st1.
Proof.
  intros WD Hn Hrp H [F1 F2 F3].
  destruct (add_node_effect _ _ _ _ _ _ WD Hn Hrp H) as (_ & _ & _ & _ & Hadj & _).
  destruct (add_node_more _ _ _ _ _ _ Hn H) as (_ & A1 & _).
  assert (He : forall u v, edge st1 u v <-> edge st u v) by (intros u v; unfold edge, has_edge; now rewrite Hadj).
  constructor.
  - intros u u' v H1 H2. apply (F1 u u' v); now apply He.
  - intros u. unfold successors. rewrite Hadj. apply F2.
  - intros u v Huv. apply He in Huv. destruct (wd_edge_nodes st WD u v Huv) as [Nu Nv].
    assert (Hu : u <> n) by (intros ->; contradiction). assert (Hv : v <> n) by (intros ->; contradiction).
    unfold time_of, zattr. rewrite !A1 by assumption. now apply F3.
Qed.

(* the array after DeleteNode of exactly the node's pixels accepts the node again *)
Lemma del_node_then_px_ok st n pxo saved px st1 : W_dict st -> del_node_px_exact st n pxo -> (seg st <> None -> n <> 0) ->
  (forall v, In (KTime, v) saved -> attr st n KTime = Some v) ->
  do_del_node st n pxo = Ok (BDelNode n saved px) st1 -> add_node_px_ok st1 n saved px.
Proof.
  intros WD Hex Hn0 Hsv H.
  rewrite do_del_node_eq in H. destruct (lookup n (nodes (g st))) as [d|] eqn:Ed; [|discriminate]. cbv zeta in H.
  assert (Hn : is_node st n) by (apply is_node_lookup; now exists d).
  set (px0 := match pxo with Some p => Some p | None => get_pixels st n end) in *.
  destruct (match px0 with Some p => set_pixels st p 0 | None => Ok tt st end) as [u st0|e st0] eqn:Ep; [|discriminate].
  cbn [bind] in H. destruct (opt_set_pixels_ok _ _ _ _ _ Ep) as (Eg & Eb & Ef & _).
  destruct (del_node_tail_char (del_node_graph st0 n) n (saved_attrs (reg_node (ft st)) d) px0) as (s' & H' & (Cg & Cs & Cf)).
  rewrite H in H'. injection H' as Esv Epx0 <-. subst saved px.
  destruct (wd_time st WD n Hn) as [t Et].
  assert (Ett : time_of st n = t) by (unfold time_of; now rewrite (zattr_VZ st n KTime t Et)).
  intros sg1 Hs1. rewrite Cs in Hs1. cbn [seg del_node_graph upd_g] in Hs1. exists t.
  split.
  { intros v Hin. specialize (Hsv v Hin). congruence. }
  destruct px0 as [[tp idx]|] eqn:Epx.
  2:{ exfalso. injection Ep as _ <-. unfold px0 in Epx. destruct pxo; [discriminate|]. unfold get_pixels in Epx. rewrite Hs1 in Epx. discriminate. }
  destruct (set_pixels_char _ _ _ _ _ Ep) as (sg & Hs & Hf & ->). cbn [seg upd_seg] in Hs1. injection Hs1 as <-. cbn [fst snd] in Hf.
  assert (Hexact : tp = t /\ forall j, (j < length (frame_of sg tp))%nat -> (In (Z.of_nat j) idx <-> label_at sg tp j = n)).
  { unfold px0 in Epx. destruct pxo as [p0|].
    - injection Epx as ->. destruct (Hex sg Hs) as [A B]. cbn [fst snd] in A, B. split; [congruence|exact B].
    - unfold get_pixels in Epx. rewrite Hs in Epx. injection Epx as <- <-. split; [exact Ett|]. intros j Hj. rewrite mask_of_In. tauto. }
  destruct Hexact as [-> Hiff].
  assert (Hlab : forall j, (j < length (frame_of sg t))%nat -> label_at (paint_sg sg (t, idx) 0) t j = if memz (Z.of_nat j) idx then 0 else label_at sg t j)
    by (intros j Hj; now apply label_at_paint_same).
  split; [now rewrite paint_frame_ok|]. split; [|split; [reflexivity|]].
  - intros j Hj. rewrite frame_len_paint in Hj by exact Hf. rewrite (Hlab j Hj). destruct (memz (Z.of_nat j) idx) eqn:Em.
    + intros E0. apply Hn0; [congruence|now symmetry].
    + intros E. apply Hiff in E; [|exact Hj]. apply memz_In in E. congruence.
  - cbn [snd]. intros j Hj Hin. rewrite frame_len_paint in Hj by exact Hf. rewrite (Hlab j Hj). apply memz_In in Hin. now rewrite Hin.
Qed.

Lemma add_node_px_ok_seg s s' n a px : seg s' = seg s -> add_node_px_ok s n a px -> add_node_px_ok s' n a px.
Proof. intros E H sg Hs. rewrite E in Hs. exact (H sg Hs). Qed.

(* the preconditions of the two node laws; each implies the other one's for the inverse action in
   every state that looks like the post-state *)
Record pre_del (st : state) (n : Z) (pxo : option pixels) : Prop := {
  pd_cfg : cfg_ok st; pd_dict : W_dict st; pd_forest : W_forest st; pd_rp : rp_disjoint st;
  pd_iso : isolated st n; pd_fresh : seg_fresh_obs st n; pd_px : del_node_px_exact st n pxo; pd_pos : pos_ok st n;
  pd_n0 : seg st <> None -> n <> 0 }.
Record pre_add (st : state) (n : Z) (a : attrs) (px : option pixels) : Prop := {
  pa_cfg : cfg_ok st; pa_dict : W_dict st; pa_forest : W_forest st; pa_rp : rp_disjoint st; pa_new : ~ is_node st n;
  pa_px : add_node_px_ok st n a px;
  pa_cons : forall k v v', lookup k a = Some v -> In (k, v') a -> v' = v;
  pa_time : exists t, lookup KTime a = Some (VZ t);
  pa_trk : exists T, lookup KTrack a = Some (VZ T);
  pa_lin : exists L, lookup KLin a = Some (VZ L);
  pa_pos : seg st = None -> forall k, In k (pos_keys (ft st)) -> In k (reg_node (ft st)) /\ exists v, lookup k a = Some v /\ v <> VNone;
  pa_n0 : seg st <> None -> n <> 0 }.

Lemma pre_add_W_dict st n a px b st1 : pre_add st n a px -> do_add_node st n a px = Ok b st1 -> W_dict st1.
Proof.
  intros P H. destruct (pa_time _ _ _ _ P) as [t Et]. destruct (pa_trk _ _ _ _ P) as [T ET]. destruct (pa_lin _ _ _ _ P) as [L EL].
  apply (add_node_W_dict' st n a px b st1 t T L (pa_new _ _ _ _ P) (pa_rp _ _ _ _ P)); try assumption; [|apply P].
  intros k v v' _ E Hin. exact (pa_cons _ _ _ _ P k v v' E Hin).
Qed.

Theorem node_ConsN : forall k,
  (forall st n pxo b st1, pre_del st n pxo -> do_del_node st n pxo = Ok b st1 -> ConsN W_dict k (ABasic b) st st1) /\
  (forall st n a px b st1, pre_add st n a px -> do_add_node st n a px = Ok b st1 -> ConsN W_dict k (ABasic b) st st1).
Proof.
  induction k as [|k [IHd IHa]]; [split; intros; exact Logic.I|]. split.
  - (* DeleteNode: the undo is an AddNode *)
    intros st n pxo b st1 [Cfg WD WF Hrp Hiso Hfr Hex Hpos Hn0] H. cbn [ConsN]. intros s WDs Os.
    assert (Hpx : del_node_px_ok st n pxo).
    { unfold del_node_px_ok. destruct pxo as [p|]; [|exact I]. intros sg j Hs Hj Hin. destruct (Hex sg Hs) as [_ X]. now apply X. }
    destruct (del_node_undo_obs st n pxo b st1 s WD WF Cfg Hrp Hiso Hfr Hpx Hpos H WDs Os) as (b' & s' & I2 & WD' & O').
    exists (ABasic b'), s'. rewrite inv_action_basic, I2. cbn [bind]. split; [reflexivity|]. split; [exact WD'|]. split; [exact O'|].
    apply (ConsN_eqv W_dict k (ABasic b') s st1 s' st Os O').
    destruct (EditNodeBasic.do_del_node_WS st n pxo b st1 WD WF H) as (WD1 & WF1 & N1 & _ & _ & _ & _ & Nn & _ & S1 & Hh & _ & _ & Eb).
    subst b. cbn [inv_basic] in I2.
    set (saved := saved_attrs (reg_node (ft st)) (node_attrs st n)) in *. set (px := EditNodeBasic.del_px st n pxo) in *.
    assert (Ef1 : ft st1 = ft st) by apply Hh.
    assert (Cfg1 : cfg_ok st1) by (unfold cfg_ok; now rewrite Ef1).
    pose proof (obs_eq_sym _ _ Os) as Os'.
    assert (Hseg0 : seg st1 = None -> seg st = None).
    { rewrite S1. unfold EditNodeBasic.seg_after. destruct (seg st); [|reflexivity]. destruct (EditNodeBasic.del_px st n pxo); discriminate. }
    assert (Hsin : forall k0 v, In (k0, v) saved -> lookup k0 (node_attrs st n) = Some v /\ v <> VNone /\ In k0 (reg_node (ft st))).
    { intros k0 v Hin. apply saved_attrs_in in Hin. tauto. }
    destruct Cfg as (Cta & Cla & Crt & Crk & Crl).
    destruct (wd_time st WD n Nn) as [t Et]. destruct (wd_track st WD n Nn) as [T ET]. destruct (wd_lin st WD n Nn) as [L EL].
    apply (IHa s n saved px b' s'); [|exact I2]. constructor.
    + exact (obs_cfg st1 s Os' Cfg1).
    + exact WDs.
    + exact (obs_W_forest st1 s Os' Cfg1 WD1 WDs WF1).
    + apply (obs_rp_disjoint st1 s Os'). unfold rp_disjoint. now rewrite Ef1.
    + rewrite (oe_nodes _ _ Os'), N1. tauto.
    + apply (add_node_px_ok_seg st1 s n saved px (oe_seg _ _ Os')).
      apply (del_node_then_px_ok st n pxo saved px st1 WD Hex Hn0); [|exact H].
      intros v Hin. destruct (Hsin KTime v Hin) as (E & _). exact E.
    + intros k0 v v' E Hin. apply lookup_In in E. destruct (Hsin k0 v E) as (A & _). destruct (Hsin k0 v' Hin) as (A' & _). congruence.
    + exists t. apply saved_attrs_lookup; [exact Crt|exact Et|discriminate].
    + exists T. apply saved_attrs_lookup; [exact Crk|exact ET|discriminate].
    + exists L. apply saved_attrs_lookup; [exact Crl|exact EL|discriminate].
    + intros Hs k0 Hk0. rewrite (oe_seg _ _ Os') in Hs. rewrite (oe_ft _ _ Os'), Ef1 in Hk0 |- *.
      destruct (Hpos (Hseg0 Hs) k0 Hk0) as (Hr & v & Ev & Hv). split; [exact Hr|]. exists v. split; [|exact Hv].
      now apply saved_attrs_lookup.
    + intros Hs. apply Hn0. intros Hs0. apply Hs. rewrite (oe_seg _ _ Os'), S1. unfold EditNodeBasic.seg_after. rewrite Hs0. now destruct (EditNodeBasic.del_px st n pxo).
  - (* AddNode: the undo is a DeleteNode *)
    intros st n a px b st1 P H. pose proof P as [Cfg WD WF Hrp Hn Hpx Hcons Htm Htk Hli Hpos Hn0]. cbn [ConsN]. intros s WDs Os.
    pose proof (pre_add_W_dict st n a px b st1 P H) as WD1.
    pose proof (add_node_W_forest st n a px b st1 WD Hn Hrp H WF) as WF1.
    destruct (add_node_undo_obs st n a px b st1 s Cfg WD Hn Hrp Hpx WD1 WF1 H WDs Os) as (b' & s' & I2 & WD' & O').
    exists (ABasic b'), s'. rewrite inv_action_basic, I2. cbn [bind]. split; [reflexivity|]. split; [exact WD'|]. split; [exact O'|].
    apply (ConsN_eqv W_dict k (ABasic b') s st1 s' st Os O').
    destruct (add_node_effect _ _ _ _ _ _ WD Hn Hrp H) as (-> & Ef & Hn1 & Hsn & Hadj & Hplain & Hrpv). cbn [inv_basic] in I2.
    assert (Cfg1 : cfg_ok st1) by (unfold cfg_ok; now rewrite Ef).
    pose proof (obs_eq_sym _ _ Os) as Os'.
    apply (IHd s n None b' s'); [|exact I2]. constructor.
    + exact (obs_cfg st1 s Os' Cfg1).
    + exact WDs.
    + exact (obs_W_forest st1 s Os' Cfg1 WD1 WDs WF1).
    + apply (obs_rp_disjoint st1 s Os'). unfold rp_disjoint. now rewrite Ef.
    + intros m. rewrite <- !(oe_edges _ _ Os). destruct (isolated_non_node st n WD Hn m) as [A B]. unfold has_edge in *. now rewrite !Hadj.
    + intros sg Hs k0 Hi Hk0. rewrite (oe_seg _ _ Os') in Hs. rewrite (oe_ft _ _ Os') in Hi, Hk0.
      pose proof (oe_nattr _ _ Os' n k0 Hk0) as Q. unfold attr_obs in Q. rewrite Q. rewrite Ef in Hi.
      rewrite (Hrpv sg k0 Hs Hi). now rewrite (obs_time st1 s Os' Cfg1).
    + exact I.
    + intros Hs k0 Hk0. rewrite (oe_seg _ _ Os') in Hs. rewrite (oe_ft _ _ Os'), Ef in Hk0 |- *.
      destruct (Hpos (proj1 Hsn Hs) k0 Hk0) as (Hr & v & Ev & Hv). split; [exact Hr|]. exists v. split; [|exact Hv].
      assert (E1 : attr st1 n k0 = Some v).
      { rewrite Hplain by (now right). apply last_binding_const; [intros v' Hv'; exact (Hcons k0 v v' Ev Hv')|eapply lookup_Some_keys; eauto]. }
      assert (Hk1 : In k0 (reg_node (ft st1))) by (now rewrite Ef).
      pose proof (oe_nattr _ _ Os' n k0 Hk1) as Q. unfold attr_obs in Q. symmetry in Q. exact (obsv_Some _ _ v Q E1 Hv).
    + intros Hs. apply Hn0. intros Hs0. apply Hs. rewrite (oe_seg _ _ Os'). now apply Hsn.
Qed.

Definition del_node_ConsN k := proj1 (node_ConsN k).
Definition add_node_ConsN k := proj2 (node_ConsN k).

(* ================================================================== *)
(* 12. UserDeleteNode                                                    *)
(* ================================================================== *)
Lemma pos_ok_gstep st s n : EditUserEdge.gstep st s -> W_dict s -> is_node s n -> pos_ok st n -> pos_ok s n.
Proof.
  intros G WD Nn Hpos Hs k Hk. rewrite (EditUserEdge.gs_seg _ _ G) in Hs. rewrite (EditUserEdge.gs_ft _ _ G) in Hk |- *.
  destruct (Hpos Hs k Hk) as (Hr & v & Ev & Hv). split; [exact Hr|].
  destruct (Z.eq_dec k KTrack) as [->|Hk1]; [|destruct (Z.eq_dec k KLin) as [->|Hk2]].
  - destruct (wd_track s WD n Nn) as [z Ez]. exists (VZ z). split; [exact Ez|discriminate].
  - destruct (wd_lin s WD n Nn) as [z Ez]. exists (VZ z). split; [exact Ez|discriminate].
  - exists v. split; [|exact Hv]. now rewrite (EditUserEdge.gs_attr _ _ G n k Hk1 Hk2).
Qed.

(* the run of UserDeleteNode: everything before DeleteNode is invertible (any number of times), and
   the whole action is as soon as its DeleteNode is *)
Lemma udn_ConsN_step k st n pxo a st' : WF st -> user_delete_node_core st n pxo = Ok a st' ->
  exists s4 b, J s4 /\ W_forest s4 /\ EditUserEdge.gstep st s4 /\ is_node s4 n /\ isolated s4 n /\
    do_del_node s4 n pxo = Ok b st' /\ (ConsN W_dict k (ABasic b) s4 st' -> ConsN W_dict k a st st').
Proof.
  intros W H. pose proof W as [Cfg Hd Hf Ht WL Wb WS WFr].
  rewrite EditUDN.udn_core_unfold in H. destruct (px_check st pxo); [discriminate|].
  destruct (has_node st n) eqn:Nn; [|discriminate]. cbn [negb] in H. apply has_node_is_node in Nn.
  destruct (EditUDN.udn_prefix st n) as [acts s4|e s4] eqn:H4; [|discriminate]. cbn [bind] in H.
  destruct (do_del_node s4 n pxo) as [b s5|e s5] eqn:H5; [|discriminate]. cbn [bind] in H. injection H as <- <-.
  destruct (udn_prefix_chain k st n acts s4 W Nn H4) as [C4 J4].
  destruct (EditUDN.udn_prefix_spec st n Hd Hf Ht Wb Nn) as (acts' & s4' & H4' & Hd4 & Hf4 & G4 & E4).
  rewrite H4 in H4'. injection H4' as <- <-.
  assert (Nn4 : is_node s4 n) by (now apply (EditUserEdge.gstep_is_node _ _ _ G4)).
  exists s4, b. split; [exact J4|]. split; [exact Hf4|]. split; [exact G4|]. split; [exact Nn4|]. split; [|split; [exact H5|]].
  - assert (Hno : forall x y, edge s4 x y -> x <> n /\ y <> n).
    { intros x y Hxy. apply E4 in Hxy. destruct Hxy as [(_ & A & B)|B]; [now split|]. destruct (EditUDN.bridge_ends st n x y Hf B) as (A & B' & _). now split. }
    intros m. split.
    + destruct (has_edge s4 n m) eqn:E; [|reflexivity]. exfalso. destruct (Hno n m E) as [A _]. now apply A.
    + destruct (has_edge s4 m n) eqn:E; [|reflexivity]. exfalso. destruct (Hno m n E) as [_ A]. now apply A.
  - intros K. apply group_ConsN. apply Chain_snoc with (m := s4); [exact C4|exact K].
Qed.

(* UserDeleteNode, one undo.  Besides WF:
   - [rp_disjoint]: time / track id / lineage id are not regionprops keys (as for the basic node laws);
   - [pos_ok]: without a segmentation the node carries registered, non-None positions (AddNode refuses
     to re-create a node without pixels and without a position);
   - [del_node_px_ok]: pixels passed explicitly lie inside the node's own mask (none passed: the
     node's mask is used). *)
Theorem udn_ConsN1 st n pxo a st' :
  WF st -> rp_disjoint st -> pos_ok st n -> del_node_px_ok st n pxo ->
  user_delete_node_core st n pxo = Ok a st' -> ConsN W_dict 1 a st st'.
Proof.
  intros W Hrp Hpos Hpx H.
  destruct (udn_ConsN_step 1 st n pxo a st' W H) as (s4 & b & J4 & Hf4 & G4 & Nn4 & Hiso & H5 & K).
  apply K. apply basic_ConsN1. intros sx WDx Ox.
  apply (del_node_undo_obs s4 n pxo b st' sx (j_dict s4 J4) Hf4 (j_cfg s4 J4)); [|exact Hiso| | | |exact H5|exact WDx|exact Ox].
  - unfold rp_disjoint. rewrite (EditUserEdge.gs_ft _ _ G4). exact Hrp.
  - apply seg_fresh_at_obs. exact (W_fresh_seg_fresh_at s4 n (j_fresh s4 J4) (j_seg s4 J4) Nn4).
  - unfold del_node_px_ok in *. destruct pxo as [p|]; [|exact I]. rewrite (EditUserEdge.gs_seg _ _ G4). exact Hpx.
  - exact (pos_ok_gstep st s4 n G4 (j_dict s4 J4) Nn4 Hpos).
Qed.

(* UserDeleteNode, any number of undos / redos: pixels passed explicitly must be exactly the node's mask *)
Theorem udn_ConsN k st n pxo a st' :
  WF st -> rp_disjoint st -> pos_ok st n -> del_node_px_exact st n pxo ->
  user_delete_node_core st n pxo = Ok a st' -> ConsN W_dict k a st st'.
Proof.
  intros W Hrp Hpos Hpx H.
  destruct (udn_ConsN_step k st n pxo a st' W H) as (s4 & b & J4 & Hf4 & G4 & Nn4 & Hiso & H5 & K).
  apply K. apply (del_node_ConsN k s4 n pxo b st'); [|exact H5]. constructor.
  - apply J4.
  - apply J4.
  - exact Hf4.
  - unfold rp_disjoint. rewrite (EditUserEdge.gs_ft _ _ G4). exact Hrp.
  - exact Hiso.
  - apply seg_fresh_at_obs. exact (W_fresh_seg_fresh_at s4 n (j_fresh s4 J4) (j_seg s4 J4) Nn4).
  - unfold del_node_px_exact in *. destruct pxo as [p|]; [|exact I]. rewrite (EditUserEdge.gs_seg _ _ G4), (EditUserEdge.gstep_time _ _ n G4). exact Hpx.
  - exact (pos_ok_gstep st s4 n G4 (j_dict s4 J4) Nn4 Hpos).
  - intros Hs. pose proof (j_seg s4 J4) as WS4. unfold W_seg in WS4. destruct (seg s4) as [sg|]; [|congruence]. destruct WS4 as (_ & _ & W3). now apply W3.
Qed.

Theorem C01_user_delete_node_at st n pxo a st' sx :
  WF st -> rp_disjoint st -> pos_ok st n -> del_node_px_ok st n pxo ->
  user_delete_node_core st n pxo = Ok a st' -> W_dict sx -> obs_eq sx st' ->
  exists b st2, inv_action sx a = Ok b st2 /\ W_dict st2 /\ obs_eq st2 st.
Proof.
  intros W Hrp Hpos Hpx H WDx Ox. destruct (udn_ConsN1 st n pxo a st' W Hrp Hpos Hpx H sx WDx Ox) as (b & s' & I & WD' & O' & _).
  exists b, s'. auto.
Qed.

(* no pixels passed: the node's own mask is cleared *)
Theorem C01_user_delete_node st n a st' :
  WF st -> rp_disjoint st -> pos_ok st n -> user_delete_node_core st n None = Ok a st' ->
  exists b st2, inv_action st' a = Ok b st2 /\ obs_eq st2 st.
Proof.
  intros W Hrp Hpos H. pose proof W as [Cfg Hd Hf Ht WL Wb WS WFr].
  destruct (EditUDN.udn_core_ok_inv st n None a st' Hd Hf Ht Wb H) as (_ & _ & Hd' & _).
  destruct (C01_user_delete_node_at st n None a st' st' W Hrp Hpos I H Hd' (obs_eq_refl st')) as (b & s2 & E & _ & O).
  exists b, s2. auto.
Qed.

(* pixels passed explicitly, inside the node's mask (UserUpdateSegmentation passes the painted-over pixels) *)
Theorem C01_user_delete_node_px st n p a st' :
  WF st -> rp_disjoint st -> pos_ok st n ->
  (forall sg j, seg st = Some sg -> (j < length (frame_of sg (fst p)))%nat -> In (Z.of_nat j) (snd p) -> label_at sg (fst p) j = n) ->
  user_delete_node_core st n (Some p) = Ok a st' ->
  exists b st2, inv_action st' a = Ok b st2 /\ obs_eq st2 st.
Proof.
  intros W Hrp Hpos Hpx H. pose proof W as [Cfg Hd Hf Ht WL Wb WS WFr].
  destruct (EditUDN.udn_core_ok_inv st n (Some p) a st' Hd Hf Ht Wb H) as (_ & _ & Hd' & _).
  destruct (C01_user_delete_node_at st n (Some p) a st' st' W Hrp Hpos Hpx H Hd' (obs_eq_refl st')) as (b & s2 & E & _ & O).
  exists b, s2. auto.
Qed.

Theorem C01_user_delete_node_consistent st n pxo a st' :
  WF st -> rp_disjoint st -> pos_ok st n -> del_node_px_exact st n pxo ->
  user_delete_node_core st n pxo = Ok a st' -> TrI W_dict a st st'.
Proof.
  intros W Hrp Hpos Hpx H. pose proof W as [Cfg Hd Hf Ht WL Wb WS WFr].
  destruct (EditUDN.udn_core_ok_inv st n pxo a st' Hd Hf Ht Wb H) as (_ & _ & Hd' & _).
  split; [exact Hd|]. split; [exact Hd'|]. intros k. exact (udn_ConsN k st n pxo a st' W Hrp Hpos Hpx H).
Qed.

(* ================================================================== *)
(* 13. UserAddNode                                                       *)
(* ================================================================== *)
From FT Require Proofs.EditUAN.

(* for conflicting_edge in conflicting_edges: UserDeleteEdge *)
Lemma uan_cut_chain k s0 : forall es s acc r s', WF s -> Chain (ConsN W_dict k) acc s0 s ->
  uan_cut es s acc = Ok r s' -> WF s' /\ Chain (ConsN W_dict k) r s0 s'.
Proof.
  induction es as [|e rr IH]; intros s acc r s' W C H; cbn [uan_cut] in H.
  - injection H as <- <-. auto.
  - unfold user_delete_edge in H. rewrite top_wrap_false in H.
    destruct (user_delete_edge_core s (fst e) (snd e)) as [x s1|er s1] eqn:Hc; [|discriminate]. cbn [bind] in H.
    apply (IH s1 (acc ++ [x]) r s'); [exact (EditWFEdge.ude_core_WF _ _ _ _ _ W Hc)| |exact H].
    apply Chain_snoc with (m := s); [exact C|exact (ude_ConsN k _ _ _ _ _ W Hc)].
Qed.

Lemma uan_skip_chain k s0 s pred succ acts r s' : J s -> (forall p c, pred = Some p -> succ = Some c -> edge s p c) ->
  Chain (ConsN W_dict k) acts s0 s -> EditUAN.uan_skip s pred succ acts = Ok r s' -> Chain (ConsN W_dict k) r s0 s' /\ J s'.
Proof.
  intros Js He C H. unfold EditUAN.uan_skip in H. destruct pred as [p|]; [destruct succ as [c|]|]; try (injection H as <- <-; auto).
  destruct (do_del_edge s p c) as [b s1|e s1] eqn:H1; [|discriminate]. cbn [bind] in H. injection H as <- <-.
  pose proof (EditWFEdge.estep_del_edge s p c) as E. rewrite H1 in E. cbn [rstate] in E.
  pose proof (del_edge_W_dict _ _ _ _ _ H1 (j_dict s Js)) as WD1.
  split; [|exact (J_estep s s1 E WD1 Js)]. apply Chain_snoc with (m := s); [exact C|]. exact (del_edge_ConsN k s p c b s1 (j_cfg s Js) (j_dict s Js) (fun _ => W_fresh_iou_at s p c (j_fresh s Js) (He p c eq_refl eq_refl)) H1).
Qed.

Lemma add_edge_has_edge s u v a b s1 x y : do_add_edge s u v a = Ok b s1 -> has_edge s1 x y = ((x =? u) && (y =? v)) || has_edge s x y.
Proof.
  intros H. destruct (add_edge_char _ _ _ _ _ _ H) as (_ & _ & _ & _ & _ & _ & _ & X & Esu & _).
  destruct (succs_put s s1 u v X Esu) as [P1 _]. apply P1.
Qed.


Lemma uan_link_pred_chain k s0 s n pred b acts r s' : cfg_ok s -> W_dict s -> (forall p, pred = Some p -> has_edge s p n = false) ->
  Chain (ConsN W_dict k) (acts ++ [ABasic b]) s0 s -> EditUAN.uan_link_pred s n pred b acts = Ok r s' ->
  Chain (ConsN W_dict k) r s0 s' /\ cfg_ok s' /\ W_dict s' /\
  (forall x y, has_edge s' x y = true -> has_edge s x y = true \/ (pred = Some x /\ y = n)).
Proof.
  intros Cfg WD Hne C H. unfold EditUAN.uan_link_pred in H. destruct pred as [p|]; [|injection H as <- <-; auto].
  destruct (do_add_edge s p n []) as [b' s1|e s1] eqn:H1; [|discriminate]. cbn [bind] in H. injection H as <- <-.
  split; [|split; [|split; [exact (add_edge_W_dict _ _ _ _ _ _ H1 WD)|]]].
  - change (acts ++ [ABasic b; ABasic b']) with (acts ++ ([ABasic b] ++ [ABasic b'])). rewrite app_assoc.
    apply Chain_snoc with (m := s); [exact C|]. exact (add_edge_ConsN k s p n [] b' s1 Cfg WD (Hne p eq_refl) H1).
  - destruct (add_edge_char _ _ _ _ _ _ H1) as (_ & _ & _ & _ & _ & Ef & _). unfold cfg_ok. now rewrite Ef.
  - intros x y Hxy. rewrite (add_edge_has_edge _ _ _ _ _ _ x y H1) in Hxy. apply orb_true_iff in Hxy. destruct Hxy as [Hxy|Hxy]; [right|now left].
    apply andb_true_iff in Hxy. destruct Hxy as [A B]. apply Z.eqb_eq in A, B. now subst.
Qed.

Lemma uan_link_succ_chain k s0 s n succ acts r s' : cfg_ok s -> W_dict s -> (forall c, succ = Some c -> has_edge s n c = false) ->
  Chain (ConsN W_dict k) acts s0 s -> EditUAN.uan_link_succ s n succ acts = Ok r s' ->
  Chain (ConsN W_dict k) r s0 s' /\ W_dict s'.
Proof.
  intros Cfg WD Hne C H. unfold EditUAN.uan_link_succ in H. destruct succ as [c|]; [|injection H as <- <-; auto].
  destruct (do_add_edge s n c []) as [b' s1|e s1] eqn:H1; [|discriminate]. cbn [bind] in H. injection H as <- <-.
  split; [|exact (add_edge_W_dict _ _ _ _ _ _ H1 WD)].
  apply Chain_snoc with (m := s); [exact C|]. exact (add_edge_ConsN k s n c [] b' s1 Cfg WD (Hne c eq_refl) H1).
Qed.

(* the run of UserAddNode: the cuts, the skip edge and the two links are invertible (any number of
   times); the whole action is as soon as its AddNode is *)
Lemma uan_ConsN_step k st n a px force act st' :
  WF st -> rp_disjoint st -> EditUAN.attrs_ok a -> user_add_node_core st n a px force = Ok act st' ->
  exists s3 a2 b s4, J s3 /\ W_forest s3 /\ ~ is_node s3 n /\ seg s3 = seg st /\ ft s3 = ft st /\
    NoDup (keys a2) /\ (exists t, lookup KTime a2 = Some (VZ t)) /\ (exists T, lookup KTrack a2 = Some (VZ T)) /\
    (exists L, lookup KLin a2 = Some (VZ L)) /\ (forall k0, k0 <> KTrack -> k0 <> KLin -> lookup k0 a2 = lookup k0 a) /\
    W_dict s4 /\ W_forest s4 /\ do_add_node s3 n a2 px = Ok b s4 /\
    (ConsN W_dict k (ABasic b) s3 s4 -> ConsN W_dict k act st st').
Proof.
  intros W Hrp Ao H. pose proof W as [Cfg Hd Hf Ht WL Wb WS WFr].
  pose proof (EditUAN.uan_core_cases st n a px force) as C.
  destruct (EditUAN.uan_refused st n a px force) as [e|] eqn:R; [rewrite C in H; discriminate|]. clear C.
  destruct (EditUAN.uan_after_cuts st n a px force Hd Hf Ht Wb R)
    as (acts & s2 & Hcut & Hc & Hd2 & Hf2 & G & Hn2 & Ed & HP & HS & Hboth & Hpy & Hcq & Hkt & Hkk & Hpos & _ & Hpx). cbv zeta in *.
  rewrite Hc in H. clear Hc.
  (* the cuts *)
  assert (W1 : WF (EditUAN.uan_sorted st a)) by (unfold EditUAN.uan_sorted; now apply EditWFEdge.track_neighbors_WF).
  destruct (EditUAN.uan_sorted_frame st a) as (Eg1 & Es1 & Ef1).
  assert (C1 : Chain (ConsN W_dict k) [] st (EditUAN.uan_sorted st a)) by (constructor; apply core_eq_obs; unfold core_eq; auto).
  destruct (uan_cut_chain k st _ _ [] acts s2 W1 C1 Hcut) as [W2 C2].
  pose proof (WF_J s2 W2) as J2.
  (* the attributes of the new node *)
  destruct (EditUAN.uan_attrs_facts st a Ao Hkt Hkk) as (A0 & A1 & And & Alin & Aoth & Aall).
  destruct (EditUAN.uan_lin_attrs_facts s2 (EditUAN.uan_attrs st a) (EditUAN.uan_pred st a) (EditUAN.uan_succ st a) Hd2 And) as (L & L1 & Lnd & Loth & Lall & Llin).
  { rewrite Alin. apply (EditUAN.ao_lin _ Ao). }
  { intros p Hp. apply (HP p Hp). }
  { intros c Hs. apply (HS c Hs). }
  cbv zeta in *. destruct EditUAN.K_distinct as (D1 & D2 & D3).
  remember (EditUAN.uan_pred st a) as pred eqn:EP. remember (EditUAN.uan_succ st a) as succ eqn:ES.
  remember (EditUAN.uan_lin_attrs s2 (EditUAN.uan_attrs st a) pred succ) as a2 eqn:Ea2.
  assert (B0 : lookup KTime a2 = Some (VZ (EditUAN.uan_time a))) by (rewrite Loth by exact D2; exact A0).
  assert (B1 : lookup KTrack a2 = Some (VZ (EditUAN.uan_tid st a))) by (rewrite Loth by exact D3; exact A1).
  unfold EditUAN.uan_splice in H.
  (* 1. the skip edge *)
  destruct (EditUAN.uan_skip s2 pred succ acts) as [r1 s3|e s3] eqn:H1; [|discriminate]. cbn [bind] in H.
  destruct (EditUAN.uan_skip_step s2 pred succ acts Hd2 Hf2 Hboth) as (r1' & s3' & H1' & Hd3 & Hf3 & E3 & Ed3 & _).
  rewrite H1 in H1'. injection H1' as <- <-.
  destruct (uan_skip_chain k st s2 pred succ acts r1 s3 J2 Hboth C2 H1) as [C3 J3].
  assert (Hn3 : ~ is_node s3 n) by (rewrite (EditUAN.estep_is_node _ _ _ E3); exact Hn2).
  assert (Ef3 : ft s3 = ft st) by (rewrite (EditUAN.estep_ft _ _ E3); apply (EditUserEdge.gs_ft _ _ G)).
  assert (Es3 : seg s3 = seg st) by (rewrite (EditUAN.estep_seg _ _ E3); apply (EditUserEdge.gs_seg _ _ G)).
  assert (Hrp3 : rp_disjoint s3) by (unfold rp_disjoint; now rewrite Ef3).
  (* 2. the node *)
  destruct (do_add_node s3 n a2 px) as [b s4|e s4] eqn:H2; [|discriminate]. cbn [bind] in H.
  destruct (EditNodeBasic.do_add_node_WS s3 n a2 px b s4 _ _ L Hd3 Hf3 Hn3 Hrp3 Lnd B0 B1 L1 H2)
    as (Hd4 & Hf4 & Nd4 & _ & _ & Ed4 & Sn4 & Nin4 & _).
  destruct (add_node_effect _ _ _ _ _ _ Hd3 Hn3 Hrp3 H2) as (_ & Ef4 & _).
  assert (Cfg4 : cfg_ok s4) by (unfold cfg_ok; rewrite Ef4; apply J3).
  (* 3. pred -> n, 4. n -> succ *)
  destruct (EditUAN.uan_link_pred s4 n pred b r1) as [r3 s5|e s5] eqn:H3; [|discriminate]. cbn [bind] in H.
  destruct (EditUAN.uan_link_succ s5 n succ r3) as [r4 s6|e s6] eqn:H4; [|discriminate]. cbn [bind] in H. injection H as <- <-.
  exists s3, a2, b, s4. split; [exact J3|]. split; [exact Hf3|]. split; [exact Hn3|]. split; [exact Es3|]. split; [exact Ef3|].
  split; [exact Lnd|]. split; [eauto|]. split; [eauto|]. split; [eauto|].
  split; [intros k0 K1 K2; rewrite (Loth k0 K2); exact (Aoth k0 K1)|].
  split; [exact Hd4|]. split; [exact Hf4|]. split; [exact H2|]. intros K.
  assert (C4 : Chain (ConsN W_dict k) (r1 ++ [ABasic b]) st s4) by (apply Chain_snoc with (m := s3); [exact C3|exact K]).
  destruct (uan_link_pred_chain k st s4 n pred b r1 r3 s5 Cfg4 Hd4) as (C5 & Cfg5 & Hd5 & Ed5); [|exact C4|exact H3|].
  { intros p _. destruct (has_edge s4 p n) eqn:E; [|reflexivity]. exfalso. exact (Nin4 p E). }
  destruct (uan_link_succ_chain k st s5 n succ r3 r4 s6 Cfg5 Hd5) as (C6 & _); [|exact C5|exact H4|].
  { intros c _. destruct (has_edge s5 n c) eqn:E; [|reflexivity]. exfalso. destruct (Ed5 n c E) as [E4|[Hp _]].
    - apply edge_successors in E4. rewrite Sn4 in E4. destruct E4.
    - destruct (HP n Hp) as [Nn _]. contradiction. }
  now apply group_ConsN.
Qed.

(* UserAddNode, one undo.  Besides WF:
   - [rp_disjoint]: time / track id / lineage id are not regionprops keys;
   - [attrs_ok]: the caller's attribute dictionary has distinct keys, and its time / track id /
     lineage id entries (if any) are integers;
   - [add_node_px_ok] (the documented precondition of AddNode, on the attributes as given): with a
     segmentation the time is inside the array, no pixel of that frame carries the new id, and the
     pixels passed are in that frame and are background. *)
Theorem uan_ConsN1 st n a px force act st' :
  WF st -> rp_disjoint st -> EditUAN.attrs_ok a -> add_node_px_ok st n a px ->
  user_add_node_core st n a px force = Ok act st' -> ConsN W_dict 1 act st st'.
Proof.
  intros W Hrp Ao Hpxok H.
  destruct (uan_ConsN_step 1 st n a px force act st' W Hrp Ao H)
    as (s3 & a2 & b & s4 & J3 & Hf3 & Hn3 & Es3 & Ef3 & Lnd & _ & _ & _ & Loth & Hd4 & Hf4 & H2 & K).
  apply K. apply basic_ConsN1. intros sx WDx Ox.
  assert (Hrp3 : rp_disjoint s3) by (unfold rp_disjoint; now rewrite Ef3).
  assert (Hpx3 : add_node_px_ok s3 n a2 px).
  { intros sg Hs. rewrite Es3 in Hs. destruct (Hpxok sg Hs) as (t & Htm & Hfr & Hno & Hp). exists t. split; [|auto].
    destruct EditUAN.K_distinct as (D1 & D2 & D3).
    intros v Hin. apply Htm. apply lookup_In. rewrite <- (Loth KTime D1 D2). now apply In_lookup. }
  exact (add_node_undo_obs s3 n a2 px b s4 sx (j_cfg s3 J3) (j_dict s3 J3) Hn3 Hrp3 Hpx3 Hd4 Hf4 H2 WDx Ox).
Qed.

(* UserAddNode, any number of undos / redos.  Two more hypotheses: a non-zero id when there is a
   segmentation, and, without a segmentation, registered non-None positions among the attributes
   (DeleteNode saves the registered attributes only, and AddNode then needs a position). *)
Theorem uan_ConsN k st n a px force act st' :
  WF st -> rp_disjoint st -> EditUAN.attrs_ok a -> add_node_px_ok st n a px -> (seg st <> None -> n <> 0) ->
  (seg st = None -> forall k0, In k0 (pos_keys (ft st)) -> In k0 (reg_node (ft st)) /\ exists v, lookup k0 a = Some v /\ v <> VNone) ->
  user_add_node_core st n a px force = Ok act st' -> ConsN W_dict k act st st'.
Proof.
  intros W Hrp Ao Hpxok Hn0 Hpos H.
  destruct (uan_ConsN_step k st n a px force act st' W Hrp Ao H)
    as (s3 & a2 & b & s4 & J3 & Hf3 & Hn3 & Es3 & Ef3 & Lnd & Htm & Htk & Hli & Loth & Hd4 & Hf4 & H2 & K).
  apply K. apply (add_node_ConsN k s3 n a2 px b s4); [|exact H2].
  destruct EditUAN.K_distinct as (D1 & D2 & D3). constructor; try assumption.
  - apply J3.
  - apply J3.
  - unfold rp_disjoint. now rewrite Ef3.
  - intros sg Hs. rewrite Es3 in Hs. destruct (Hpxok sg Hs) as (t & Htm' & Hfr & Hno & Hp). exists t. split; [|auto].
    intros v Hin. apply Htm'. apply lookup_In. rewrite <- (Loth KTime D1 D2). now apply In_lookup.
  - intros k0 v v' E Hin. apply (In_lookup k0 a2 v' Lnd) in Hin. congruence.
  - intros Hs k0 Hk0. rewrite Es3 in Hs. rewrite Ef3 in Hk0 |- *. destruct (Hpos Hs k0 Hk0) as (Hr & v & Ev & Hv). split; [exact Hr|].
    destruct (Z.eq_dec k0 KTrack) as [->|K1]; [destruct Htk as [T ET]; exists (VZ T); split; [exact ET|discriminate]|].
    destruct (Z.eq_dec k0 KLin) as [->|K2]; [destruct Hli as [L EL]; exists (VZ L); split; [exact EL|discriminate]|].
    exists v. split; [now rewrite (Loth k0 K1 K2)|exact Hv].
  - now rewrite Es3.
Qed.

Theorem C01_user_add_node_at st n a px force act st' sx :
  WF st -> rp_disjoint st -> EditUAN.attrs_ok a -> add_node_px_ok st n a px ->
  user_add_node_core st n a px force = Ok act st' -> W_dict sx -> obs_eq sx st' ->
  exists b st2, inv_action sx act = Ok b st2 /\ W_dict st2 /\ obs_eq st2 st.
Proof.
  intros W Hrp Ao Hpx H WDx Ox. destruct (uan_ConsN1 st n a px force act st' W Hrp Ao Hpx H sx WDx Ox) as (b & s' & I & WD' & O' & _).
  exists b, s'. auto.
Qed.

Theorem C01_user_add_node st n a px force act st' :
  WF st -> rp_disjoint st -> EditUAN.attrs_ok a -> add_node_px_ok st n a px ->
  user_add_node_core st n a px force = Ok act st' ->
  exists b st2, inv_action st' act = Ok b st2 /\ obs_eq st2 st.
Proof.
  intros W Hrp Ao Hpx H. pose proof W as [Cfg Hd Hf Ht WL Wb WS WFr].
  pose proof (EditUAN.uan_keeps_dict st n a px force act st' Hd Hf Ht Wb Hrp Ao H) as Hd'.
  destruct (C01_user_add_node_at st n a px force act st' st' W Hrp Ao Hpx H Hd' (obs_eq_refl st')) as (b & s2 & E & _ & O).
  exists b, s2. auto.
Qed.

Theorem C01_user_add_node_consistent st n a px force act st' :
  WF st -> rp_disjoint st -> EditUAN.attrs_ok a -> add_node_px_ok st n a px -> (seg st <> None -> n <> 0) ->
  (seg st = None -> forall k0, In k0 (pos_keys (ft st)) -> In k0 (reg_node (ft st)) /\ exists v, lookup k0 a = Some v /\ v <> VNone) ->
  user_add_node_core st n a px force = Ok act st' -> TrI W_dict act st st'.
Proof.
  intros W Hrp Ao Hpx Hn0 Hpos H. pose proof W as [Cfg Hd Hf Ht WL Wb WS WFr].
  split; [exact Hd|]. split; [exact (EditUAN.uan_keeps_dict st n a px force act st' Hd Hf Ht Wb Hrp Ao H)|].
  intros k. exact (uan_ConsN k st n a px force act st' W Hrp Ao Hpx Hn0 Hpos H).
Qed.

(* the pixel precondition from plain facts: on a state with W_seg, for a new non-zero id, an integer
   time inside the array and pixels of that frame that are background *)
Lemma add_node_px_ok_intro st n a px :
  W_seg st -> ~ is_node st n -> NoDup (keys a) -> (seg st <> None -> n <> 0) ->
  (forall sg, seg st = Some sg -> exists t, lookup KTime a = Some (VZ t) /\ frame_ok sg t = true /\
     match px with
     | None => True
     | Some p => fst p = t /\ forall j, (j < length (frame_of sg t))%nat -> In (Z.of_nat j) (snd p) -> label_at sg t j = 0
     end) ->
  add_node_px_ok st n a px.
Proof.
  intros WS Hn Hnd Hn0 Hp sg Hs. destruct (Hp sg Hs) as (t & Et & Hf & Hpx). exists t.
  split; [intros v Hin; apply (In_lookup KTime a v Hnd) in Hin; congruence|]. split; [exact Hf|]. split; [|exact Hpx].
  intros j _ E. unfold W_seg in WS. rewrite Hs in WS. destruct WS as (_ & W2 & _).
  assert (Hne : label_at sg t j <> 0) by (rewrite E; apply Hn0; congruence).
  destruct (W2 t j Hf Hne) as [Nn _]. rewrite E in Nn. contradiction.
Qed.


Print Assumptions C01_user_swap.
Print Assumptions C01_user_swap_at.
Print Assumptions C01_user_swap_consistent.
Print Assumptions C01_user_swap_redo.
Print Assumptions C01_user_delete_edge_consistent.
Print Assumptions C01_user_add_edge_consistent.
Print Assumptions C01_user_delete_node.
Print Assumptions C01_user_delete_node_px.
Print Assumptions C01_user_delete_node_at.
Print Assumptions C01_user_delete_node_consistent.
Print Assumptions C01_user_add_node.
Print Assumptions C01_user_add_node_at.
Print Assumptions C01_user_add_node_consistent.
Print Assumptions add_node_px_ok_intro.

(* ================================================================== *)
(* 14. non-vacuity: the hypotheses hold of the example state of           *)
(*     Proofs/EditWFEdge.v (1 divides into 2 and 3, 2 -> 4; 3 frames)      *)
(* ================================================================== *)
Lemma exs_rp_disjoint : rp_disjoint EditWFEdge.exs.
Proof. intros k [->|[->| ->]]; cbn; unfold KTime, KTrack, KLin, KPos, KArea; intros [H|[H|[]]]; discriminate. Qed.

Lemma exs_pos_ok n : pos_ok EditWFEdge.exs n.
Proof. intros Hs. discriminate Hs. Qed.

(* deleting node 2 (its parent divides, it has a child): sibling relabelled, two edges cut, the
   orphan gets a new lineage, the node goes - and all of it can be undone and redone for ever *)
Example C01_delete_node_nonvacuous :
  exists a st', user_delete_node_core EditWFEdge.exs 2 None = Ok a st' /\ TrI W_dict a EditWFEdge.exs st' /\
    exists b st2, inv_action st' a = Ok b st2 /\ obs_eq st2 EditWFEdge.exs.
Proof.
  destruct (user_delete_node_core EditWFEdge.exs 2 None) as [a st'|e st'] eqn:E; [|vm_compute in E; discriminate E].
  exists a, st'. split; [reflexivity|]. split.
  - exact (C01_user_delete_node_consistent _ 2 None a st' EditWFEdge.exs_WF exs_rp_disjoint (exs_pos_ok 2) I E).
  - exact (C01_user_delete_node _ 2 a st' EditWFEdge.exs_WF exs_rp_disjoint (exs_pos_ok 2) E).
Qed.

(* adding node 5 at time 2 on track 3, painted on the background pixel 0 of frame 2: spliced in after node 3 *)
Example C01_add_node_nonvacuous :
  let a := [(KTime, VZ 2); (KTrack, VZ 3)] in let px := Some (2, [0]) in
  exists act st', user_add_node_core EditWFEdge.exs 5 a px false = Ok act st' /\ has_edge st' 3 5 = true /\
    TrI W_dict act EditWFEdge.exs st'.
Proof.
  cbv zeta. set (a := [(KTime, VZ 2); (KTrack, VZ 3)]). set (px := Some (2, [0])).
  assert (Ao : EditUAN.attrs_ok a).
  { constructor.
    - unfold a, KTime, KTrack. cbn. repeat constructor; cbn; intuition discriminate.
    - intros v Hv. vm_compute in Hv. injection Hv as <-. eauto.
    - intros v Hv. vm_compute in Hv. injection Hv as <-. eauto.
    - intros v Hv. vm_compute in Hv. discriminate Hv. }
  assert (Hn : ~ is_node EditWFEdge.exs 5) by (intros H; apply EditWFEdge.exs_nodes in H; lia).
  assert (Hpx : add_node_px_ok EditWFEdge.exs 5 a px).
  { apply add_node_px_ok_intro; [apply EditWFEdge.exs_WF|exact Hn|apply Ao|intros _; lia|].
    intros sg Hs. injection Hs as <-. exists 2. split; [reflexivity|]. split; [reflexivity|]. split; [reflexivity|].
    intros j Hj Hin. cbn in Hin. destruct Hin as [E|[]]. assert (j = 0%nat) by lia. subst j. reflexivity. }
  destruct (user_add_node_core EditWFEdge.exs 5 a px false) as [act st'|e st'] eqn:E; [|vm_compute in E; discriminate E].
  exists act, st'. split; [reflexivity|]. split.
  - assert (X : match user_add_node_core EditWFEdge.exs 5 a px false with Ok _ s => has_edge s 3 5 | Err _ _ => false end = true) by (vm_compute; reflexivity).
    now rewrite E in X.
  - apply (C01_user_add_node_consistent _ 5 a px false act st' EditWFEdge.exs_WF exs_rp_disjoint Ao Hpx); [intros _; lia| |exact E].
    intros Hs. discriminate Hs.
Qed.

Print Assumptions C01_delete_node_nonvacuous.
Print Assumptions C01_add_node_nonvacuous.
