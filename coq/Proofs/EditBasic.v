(* Specifications of the basic actions at the level of graph structure, and preservation of
   W_dict / W_forest under the preconditions the user actions establish. *)
From Coq Require Import ZArith List Bool Lia.
From FT Require Import Base.Dict Model.Edit Proofs.DictLemmas Proofs.EditInv Proofs.EditGraph Proofs.EditWalk.
Import ListNotations.
Open Scope Z_scope.

Definition rest_eq (s s' : state) : Prop :=
  seg s' = seg s /\ ft s' = ft s /\ bk s' = bk s /\ undo_stack s' = undo_stack s /\
  redo_stack s' = redo_stack s /\ rlog s' = rlog s /\ nctr s' = nctr s.

(* ------------------------------------------------------------------ DeleteEdge *)
Lemma do_del_edge_spec st u v : edge st u v ->
  exists b st', do_del_edge st u v = Ok b st' /\
    nodes (g st') = nodes (g st) /\ keys (succs (g st')) = keys (succs (g st)) /\
    (forall a, successors st' a = if a =? u then filter (fun x => negb (v =? x)) (successors st u) else successors st a) /\
    rest_eq st st'.
Proof.
  intros E. unfold do_del_edge. unfold edge in E. rewrite E. cbn [negb].
  eexists _, _. split; [reflexivity|]. cbn [g nodes succs upd_g]. split; [reflexivity|]. split.
  - apply keys_set_in. unfold has_edge, adj, haskey, getd in E.
    destruct (lookup u (succs (g st))) eqn:L; [eapply lookup_Some_keys; eauto|discriminate].
  - split; [|unfold rest_eq; repeat split; reflexivity].
    intros a. unfold successors at 1, adj at 1. cbn [g succs upd_g]. rewrite adj_set_succs.
    destruct (Z.eqb_spec a u) as [->|Hn]; [|reflexivity]. apply keys_del.
Qed.

Lemma filter_length_le {A} (f : A -> bool) l : (length (filter f l) <= length l)%nat.
Proof. induction l as [|x r IH]; cbn; [lia|]. destruct (f x); cbn; lia. Qed.

Lemma do_del_edge_WS st u v b st' : W_dict st -> W_forest st -> do_del_edge st u v = Ok b st' ->
  W_dict st' /\ W_forest st' /\
  (forall a c, edge st' a c <-> edge st a c /\ ~ (a = u /\ c = v)) /\
  node_ids st' = node_ids st /\ (forall n k, attr st' n k = attr st n k) /\ rest_eq st st'.
Proof.
  intros Hd Hf H.
  assert (edge st u v) as E.
  { unfold do_del_edge in H. unfold edge. destruct (has_edge st u v); [reflexivity|discriminate]. }
  destruct (do_del_edge_spec st u v E) as (b0 & s0 & H0 & Hn & Hk & Hs & Hr). rewrite H in H0. injection H0 as <- <-.
  assert (forall a c, edge st' a c <-> edge st a c /\ ~ (a = u /\ c = v)) as He.
  { intros a c. rewrite !edge_successors, Hs. destruct (Z.eqb_spec a u) as [->|Ha].
    - rewrite filter_In. split.
      + intros [H1 H2]. split; [exact H1|]. intros [_ ->]. now rewrite Z.eqb_refl in H2.
      + intros [H1 H2]. split; [exact H1|]. destruct (Z.eqb_spec v c) as [->|]; [exfalso; apply H2; auto|reflexivity].
    - split; [intros H1; split; [exact H1|intros [? _]; contradiction]|tauto]. }
  assert (forall n, is_node st' n <-> is_node st n) as Hnode by (intros n; unfold is_node, node_ids; now rewrite Hn).
  assert (forall n k, attr st' n k = attr st n k) as Ha by (intros n k; unfold attr, node_attrs; now rewrite Hn).
  split; [|split; [|split; [exact He|split; [unfold node_ids; now rewrite Hn|split; [exact Ha|exact Hr]]]]].
  - constructor.
    + unfold node_ids. rewrite Hn. apply (wd_nodup _ Hd).
    + rewrite Hk. apply (wd_succ_nodup _ Hd).
    + intros n. rewrite Hnode, <- (wd_succ_keys _ Hd n), !haskey_keys, Hk. tauto.
    + intros a. rewrite Hs. destruct (a =? u); [apply NoDup_filter|]; apply (wd_adj_nodup _ Hd).
    + intros a c Hac. apply He in Hac. rewrite !Hnode. apply (wd_edge_nodes _ Hd). tauto.
    + intros n Hin. rewrite Ha. apply (wd_time _ Hd). now apply Hnode.
    + intros n Hin. rewrite Ha. apply (wd_track _ Hd). now apply Hnode.
    + intros n Hin. rewrite Ha. apply (wd_lin _ Hd). now apply Hnode.
    + intros n. unfold node_attrs. rewrite Hn. apply (wd_attr_nodup _ Hd).
  - constructor.
    + intros a a' c E1 E2. apply He in E1. apply He in E2. apply (wf_in _ Hf a a' c); tauto.
    + intros a. rewrite Hs. destruct (a =? u).
      * etransitivity; [apply filter_length_le|apply (wf_out _ Hf)].
      * apply (wf_out _ Hf).
    + intros a c Hac. apply He in Hac. unfold time_of, zattr. rewrite !Ha. apply (wf_time _ Hf). tauto.
Qed.

(* ------------------------------------------------------------------ AddEdge *)
Lemma do_add_edge_spec st u v a : is_node st u -> is_node st v ->
  exists b st', do_add_edge st u v a = Ok b st' /\
    nodes (g st') = nodes (g st) /\
    (forall x, In x (keys (succs (g st'))) <-> x = u \/ In x (keys (succs (g st)))) /\
    (NoDup (keys (succs (g st))) -> NoDup (keys (succs (g st')))) /\
    (forall x, successors st' x = if x =? u then (if has_edge st u v then successors st u else successors st u ++ [v]) else successors st x) /\
    rest_eq st st'.
Proof.
  intros Hu Hv. unfold do_add_edge.
  apply has_node_is_node in Hu. apply has_node_is_node in Hv. rewrite Hu, Hv. cbn [negb].
  set (s1 := upd_g st _).
  pose proof (iou_update_edges_same s1 [(u, v)]) as Hsg.
  eexists _, _. split; [reflexivity|].
  destruct Hsg as (G1&G2&G3&G4&G5&G6&G7&G8&G9&G10).
  split; [rewrite G1; reflexivity|]. split; [|split; [|split]].
  - intros x. rewrite G2. unfold s1. cbn [g succs upd_g]. apply in_keys_set.
  - intros Hnd. rewrite G2. unfold s1. cbn [g succs upd_g]. now apply NoDup_keys_set.
  - intros x. rewrite G3. unfold successors at 1, adj at 1, s1. cbn [g succs upd_g]. rewrite adj_set_succs.
    destruct (Z.eqb_spec x u) as [->|Hn]; [|reflexivity].
    destruct (has_edge st u v) eqn:E.
    + apply keys_set_in. apply haskey_keys. exact E.
    + apply keys_set_notin. intros H. apply haskey_keys in H. unfold has_edge in E. congruence.
  - unfold rest_eq. unfold s1 in *. cbn in *. repeat split; assumption.
Qed.

Lemma do_add_edge_WS st u v a b st' : W_dict st -> W_forest st -> do_add_edge st u v a = Ok b st' ->
  time_of st u < time_of st v ->
  (forall p, edge st p v -> p = u) ->
  (edge st u v \/ (length (successors st u) <= 1)%nat) ->
  W_dict st' /\ W_forest st' /\
  (forall x y, edge st' x y <-> edge st x y \/ (x = u /\ y = v)) /\
  node_ids st' = node_ids st /\ (forall n k, attr st' n k = attr st n k) /\ rest_eq st st'.
Proof.
  intros Hd Hf H Ht Hin Hout.
  assert (is_node st u /\ is_node st v) as [Nu Nv].
  { unfold do_add_edge in H. destruct (has_node st u) eqn:E1; [|discriminate]. destruct (has_node st v) eqn:E2; [|discriminate].
    split; now apply has_node_is_node. }
  destruct (do_add_edge_spec st u v a Nu Nv) as (b0 & s0 & H0 & Hn & Hk & Hknd & Hs & Hr). rewrite H in H0. injection H0 as <- <-.
  assert (forall x y, edge st' x y <-> edge st x y \/ (x = u /\ y = v)) as He.
  { intros x y. rewrite !edge_successors, Hs. destruct (Z.eqb_spec x u) as [->|Hx].
    - destruct (has_edge st u v) eqn:E.
      + split; [tauto|]. intros [H1|[_ ->]]; [exact H1|]. apply edge_successors. exact E.
      + rewrite in_app_iff. cbn. split; [intros [H1|[->|[]]]; auto|intros [H1|[_ ->]]; auto].
    - split; [tauto|intros [H1|[? _]]; [exact H1|contradiction]]. }
  assert (forall n, is_node st' n <-> is_node st n) as Hnode by (intros n; unfold is_node, node_ids; now rewrite Hn).
  assert (forall n k, attr st' n k = attr st n k) as Ha by (intros n k; unfold attr, node_attrs; now rewrite Hn).
  assert (forall n, time_of st' n = time_of st n) as Htime by (intros n; unfold time_of, zattr; now rewrite Ha).
  split; [|split; [|split; [exact He|split; [unfold node_ids; now rewrite Hn|split; [exact Ha|exact Hr]]]]].
  - constructor.
    + unfold node_ids. rewrite Hn. apply (wd_nodup _ Hd).
    + apply Hknd. apply (wd_succ_nodup _ Hd).
    + intros n. rewrite Hnode, haskey_keys, Hk.
      pose proof (wd_succ_keys _ Hd n) as W. rewrite haskey_keys in W.
      split; [intros [->|H1]; [exact Nu|now apply W]|intros H1; right; now apply W].
    + intros x. rewrite Hs. destruct (x =? u); [|apply (wd_adj_nodup _ Hd)].
      destruct (has_edge st u v) eqn:E; [apply (wd_adj_nodup _ Hd)|].
      apply NoDup_snoc; [apply (wd_adj_nodup _ Hd)|]. intros H1. apply edge_successors in H1. unfold edge in H1. congruence.
    + intros x y Hxy. apply He in Hxy. rewrite !Hnode. destruct Hxy as [H1|[-> ->]]; [now apply (wd_edge_nodes _ Hd)|tauto].
    + intros n Hin'. rewrite Ha. apply (wd_time _ Hd). now apply Hnode.
    + intros n Hin'. rewrite Ha. apply (wd_track _ Hd). now apply Hnode.
    + intros n Hin'. rewrite Ha. apply (wd_lin _ Hd). now apply Hnode.
    + intros n. unfold node_attrs. rewrite Hn. apply (wd_attr_nodup _ Hd).
  - constructor.
    + intros x x' y E1 E2. apply He in E1. apply He in E2.
      destruct E1 as [E1|[Ex Ey]]; destruct E2 as [E2|[Ex' Ey']]; subst; try reflexivity.
      * apply (wf_in _ Hf x x' y); assumption.
      * now apply Hin.
      * symmetry. now apply Hin.
    + intros x. rewrite Hs. destruct (x =? u); [|apply (wf_out _ Hf)].
      destruct (has_edge st u v) eqn:E; [apply (wf_out _ Hf)|].
      rewrite app_length. cbn. destruct Hout as [H1|H1]; [unfold edge in H1; congruence|lia].
    + intros x y Hxy. rewrite !Htime. apply He in Hxy. destruct Hxy as [H1|[-> ->]]; [now apply (wf_time _ Hf)|exact Ht].
Qed.
