(* C08 / C09: the stored regionprops values and edge IoUs are those of the current masks
   (W_fresh of Proofs/EditInv.v), basic action by basic action; and what iou_of computes. *)
From Coq Require Import ZArith List Bool Lia Sorted.
From FT Require Import Base.Dict Model.Edit Proofs.DictLemmas Proofs.EditInv Proofs.EditSeg.
Import ListNotations.
Open Scope Z_scope.

(* ---- the two halves of W_fresh ---- *)
Definition rp_fresh (st : state) : Prop :=
  match seg st with
  | None => True
  | Some sg => forall n k, is_node st n -> In k (rp_act (ft st)) -> attr st n k = Some (VRp (mask_of sg (time_of st n) n))
  end.
Definition iou_fresh (st : state) : Prop :=
  match seg st with
  | None => True
  | Some sg => iou_act (ft st) = true -> forall u v, edge st u v -> lookup KIou (edge_attrs st u v) = Some (iou_of st sg u v)
  end.
Lemma W_fresh_split st : W_fresh st <-> rp_fresh st /\ iou_fresh st.
Proof. unfold W_fresh, rp_fresh, iou_fresh. destruct (seg st); tauto. Qed.

(* the part of W_seg / W_dict these proofs lean on *)
Definition nodes_sane (st : state) (sg : list (list Z)) : Prop :=
  forall m, is_node st m -> m <> 0 /\ frame_ok sg (time_of st m) = true.
Definition edges_sane (st : state) : Prop := forall u v, edge st u v -> is_node st u /\ is_node st v.
(* the write to (t, idx) overwrites only background and label n *)
Definition only_touches (sg : list (list Z)) (t : Z) (idx : list Z) (n : Z) : Prop :=
  forall i, (i < length (frame_of sg t))%nat -> In (Z.of_nat i) idx -> label_at sg t i = 0 \/ label_at sg t i = n.

Lemma W_seg_nodes_sane st sg : seg st = Some sg -> W_seg st -> nodes_sane st sg.
Proof. intros Hs HW. apply (W_seg_iff _ _ Hs) in HW. destruct HW as (I1 & _ & I3). intros m Hm. split; [now apply I3|now apply I1]. Qed.
Lemma W_dict_edges_sane st : W_dict st -> edges_sane st.
Proof. intros H u v. apply (wd_edge_nodes st H). Qed.

(* masks of the labels a write does not touch are unchanged *)
Lemma mask_of_paint_other sg t idx v n tm m : frame_ok sg t = true -> 0 <= tm ->
  only_touches sg t idx n -> m <> 0 -> m <> n -> m <> v ->
  mask_of (paint_arr sg t idx v) tm m = mask_of sg tm m.
Proof.
  intros Hf Htm Ht Hm0 Hmn Hmv. assert (Ht0 : 0 <= t) by (apply frame_ok_range in Hf; lia).
  destruct (paint_same_shape sg t idx v) as [_ Sh]. apply mask_of_ext; [apply Sh|].
  intros i Hi. rewrite label_at_paint by assumption.
  destruct ((tm =? t) && memz (Z.of_nat i) idx && (i <? length (frame_of sg t))%nat) eqn:Ec; [|tauto].
  apply andb_true_iff in Ec. destruct Ec as [Ec E3]. apply andb_true_iff in Ec. destruct Ec as [E1 E2].
  apply Z.eqb_eq in E1. subst tm. apply memz_In in E2. apply Nat.ltb_lt in E3.
  destruct (Ht i E3 E2) as [E|E]; rewrite E; split; intros; congruence.
Qed.

Lemma iou_of_ext st st' sg sg' u v :
  time_of st' u = time_of st u -> time_of st' v = time_of st v ->
  mask_of sg' (time_of st u) u = mask_of sg (time_of st u) u ->
  mask_of sg' (time_of st v) v = mask_of sg (time_of st v) v ->
  iou_of st' sg' u v = iou_of st sg u v.
Proof. intros E1 E2 E3 E4. unfold iou_of. now rewrite E1, E2, E3, E4. Qed.

Lemma iou_of_nodes st st' sg u v : nodes (g st') = nodes (g st) -> iou_of st' sg u v = iou_of st sg u v.
Proof. intros E. unfold iou_of, time_of, zattr, attr, node_attrs. now rewrite E. Qed.

(* ---- adjacency dictionaries ---- *)
Lemma haskey_set {V} k k' (x : V) d : haskey k (set k' x d) = (k =? k') || haskey k d.
Proof.
  unfold haskey. destruct (Z.eqb_spec k k') as [->|Hne]; [now rewrite lookup_set_eq|]. now rewrite lookup_set_neq.
Qed.
Lemma haskey_del {V} k k' (d : dict V) : haskey k (del k' d) = negb (k =? k') && haskey k d.
Proof.
  unfold haskey. destruct (Z.eqb_spec k k') as [->|Hne]; [now rewrite lookup_del_eq|]. now rewrite lookup_del_neq.
Qed.
Lemma getd_del_neq {V} k k' (d : dict V) dflt : k <> k' -> getd k (del k' d) dflt = getd k d dflt.
Proof. intros H. unfold getd. now rewrite lookup_del_neq. Qed.

Section AdjSet.
  Variable st st' : state.
  Variable u : Z.
  Variable row : dict attrs.
  Hypothesis Hsuccs : succs (g st') = set u row (succs (g st)).

  Lemma adj_set_row u' : adj st' u' = if u' =? u then row else adj st u'.
  Proof. unfold adj. rewrite Hsuccs. destruct (Z.eqb_spec u' u) as [->|Hne]; [apply getd_set_eq|now apply getd_set_neq]. Qed.
End AdjSet.

(* G.edges[u, v] = x  (insert or overwrite) *)
Lemma edge_put st st' u v x : succs (g st') = set u (set v x (adj st u)) (succs (g st)) ->
  (forall a b, has_edge st' a b = ((a =? u) && (b =? v)) || has_edge st a b) /\
  (forall a b, edge_attrs st' a b = if (a =? u) && (b =? v) then x else edge_attrs st a b).
Proof.
  intros Hs. split; intros a b; unfold has_edge, edge_attrs; rewrite (adj_set_row st st' u _ Hs a).
  - destruct (Z.eqb_spec a u) as [->|Hne]; cbn [andb orb]; [|reflexivity]. apply haskey_set.
  - destruct (Z.eqb_spec a u) as [->|Hne]; cbn [andb]; [|reflexivity].
    destruct (Z.eqb_spec b v) as [->|Hne]; [apply getd_set_eq|now apply getd_set_neq].
Qed.

(* G.remove_edge(u, v) *)
Lemma edge_drop st st' u v : succs (g st') = set u (del v (adj st u)) (succs (g st)) ->
  (forall a b, has_edge st' a b = negb ((a =? u) && (b =? v)) && has_edge st a b) /\
  (forall a b, ~ (a = u /\ b = v) -> edge_attrs st' a b = edge_attrs st a b).
Proof.
  intros Hs. split; [intros a b|intros a b Hab]; unfold has_edge, edge_attrs; rewrite (adj_set_row st st' u _ Hs a).
  - destruct (Z.eqb_spec a u) as [->|Hne]; cbn [andb negb]; [|reflexivity]. apply haskey_del.
  - destruct (Z.eqb_spec a u) as [->|Hne]; [|reflexivity]. apply getd_del_neq. intros ->. tauto.
Qed.

Lemma sea_spec st u v k x : has_edge st u v = true ->
  let st' := set_edge_attr st u v k x in
  (forall a b, has_edge st' a b = has_edge st a b) /\
  (forall a b, edge_attrs st' a b = if (a =? u) && (b =? v) then set k x (edge_attrs st u v) else edge_attrs st a b).
Proof.
  intros He. cbv zeta. assert (Hs : succs (g (set_edge_attr st u v k x)) = set u (set v (set k x (edge_attrs st u v)) (adj st u)) (succs (g st))).
  { unfold set_edge_attr. now rewrite He. }
  destruct (edge_put _ _ _ _ _ Hs) as [H1 H2]. split; [|exact H2].
  intros a b. rewrite H1. destruct (Z.eqb_spec a u) as [->|]; [|reflexivity]. destruct (Z.eqb_spec b v) as [->|]; [|reflexivity].
  now rewrite He.
Qed.

Lemma sea_noedge st u v k x : has_edge st u v = false -> set_edge_attr st u v k x = st.
Proof. intros He. unfold set_edge_attr. now rewrite He. Qed.

(* EdgeAnnotator.update over a list of edges *)
Lemma iou_update_spec st sg es : seg st = Some sg -> iou_act (ft st) = true ->
  let st' := iou_update_edges st es in
  (forall a b, has_edge st' a b = has_edge st a b) /\
  (forall a b, In (a, b) es -> has_edge st a b = true -> lookup KIou (edge_attrs st' a b) = Some (iou_of st sg a b)) /\
  (forall a b, ~ In (a, b) es -> edge_attrs st' a b = edge_attrs st a b).
Proof.
  intros Hs Ha. unfold iou_update_edges. rewrite Hs, Ha. cbv zeta.
  assert (Hgen : forall es s, nodes (g s) = nodes (g st) ->
     let s' := fold_left (fun s e => set_edge_attr s (fst e) (snd e) KIou (iou_of s sg (fst e) (snd e))) es s in
     nodes (g s') = nodes (g st) /\
     (forall a b, has_edge s' a b = has_edge s a b) /\
     (forall a b, In (a, b) es -> has_edge s a b = true -> lookup KIou (edge_attrs s' a b) = Some (iou_of st sg a b)) /\
     (forall a b, ~ In (a, b) es -> edge_attrs s' a b = edge_attrs s a b)).
  { clear es. induction es as [|[eu ev] r IH]; intros s Hn; cbn [fold_left fst snd].
    - split; [exact Hn|]. split; [reflexivity|]. split; [intros a b []|reflexivity].
    - set (s1 := set_edge_attr s eu ev KIou (iou_of s sg eu ev)).
      assert (Hn1 : nodes (g s1) = nodes (g st)) by (unfold s1; now rewrite sea_nodes).
      destruct (IH s1 Hn1) as (I0 & I1 & I2 & I3). cbv zeta in *.
      destruct (has_edge s eu ev) eqn:He.
      + destruct (sea_spec s eu ev KIou (iou_of s sg eu ev) He) as [S1 S2]. fold s1 in S1, S2.
        split; [exact I0|]. split; [intros a b; now rewrite I1, S1|]. split.
        * intros a b Hin Hab. destruct (in_dec (fun x y : Z * Z => ltac:(decide equality; apply Z.eq_dec)) (a, b) r) as [Hr|Hr].
          -- apply I2; [exact Hr|]. now rewrite S1.
          -- destruct Hin as [E|Hin]; [|contradiction]. injection E as <- <-.
             rewrite I3 by exact Hr. rewrite S2, !Z.eqb_refl. cbn [andb]. rewrite lookup_set_eq. f_equal. now apply iou_of_nodes.
        * intros a b Hnin. rewrite I3 by (intros H; apply Hnin; now right). rewrite S2.
          destruct (Z.eqb_spec a eu) as [->|]; [|reflexivity]. destruct (Z.eqb_spec b ev) as [->|]; [|reflexivity].
          exfalso. apply Hnin. now left.
      + assert (E1 : s1 = s) by (unfold s1; now apply sea_noedge). rewrite E1 in *.
        split; [exact I0|]. split; [exact I1|]. split.
        * intros a b [E|Hin] Hab; [injection E as <- <-; congruence|now apply I2].
        * intros a b Hnin. apply I3. intros H; apply Hnin; now right. }
  destruct (Hgen es st eq_refl) as (_ & H1 & H2 & H3). auto.
Qed.

Lemma iou_update_inactive st es : (seg st = None \/ iou_act (ft st) = false) -> iou_update_edges st es = st.
Proof. unfold iou_update_edges. intros [H|H]; [now rewrite H|]. destruct (seg st); [now rewrite H|reflexivity]. Qed.
