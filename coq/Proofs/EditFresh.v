(* C08 / C09: the stored regionprops values and edge IoUs are those of the current masks
   (W_fresh of Proofs/EditInv.v), basic action by basic action; and what iou_of computes. *)
From Coq Require Import ZArith List Bool Lia Sorted.
From FT Require Import Base.Dict Model.Edit Proofs.DictLemmas Proofs.EditInv Proofs.EditSeg.
Import ListNotations.
Open Scope Z_scope.

(* ---- the two halves of W_fresh ---- *)
Definition rp_fresh (st : state) : Prop :=
  match seg st with
  | None => True
  | Some sg => forall n k, is_node st n -> In k (rp_act (ft st)) -> attr st n k = Some (VRp (mask_of sg (time_of st n) n))
  end.
Definition iou_fresh (st : state) : Prop :=
  match seg st with
  | None => True
  | Some sg => iou_act (ft st) = true -> forall u v, edge st u v -> lookup KIou (edge_attrs st u v) = Some (iou_of st sg u v)
  end.
Lemma W_fresh_split st : W_fresh st <-> rp_fresh st /\ iou_fresh st.
Proof. unfold W_fresh, rp_fresh, iou_fresh. destruct (seg st); tauto. Qed.

(* the part of W_seg / W_dict these proofs lean on *)
Definition nodes_sane (st : state) (sg : list (list Z)) : Prop :=
  forall m, is_node st m -> m <> 0 /\ frame_ok sg (time_of st m) = true.
Definition edges_sane (st : state) : Prop := forall u v, edge st u v -> is_node st u /\ is_node st v.
(* the write to (t, idx) overwrites only background and label n *)
Definition only_touches (sg : list (list Z)) (t : Z) (idx : list Z) (n : Z) : Prop :=
  forall i, (i < length (frame_of sg t))%nat -> In (Z.of_nat i) idx -> label_at sg t i = 0 \/ label_at sg t i = n.

Lemma W_seg_nodes_sane st sg : seg st = Some sg -> W_seg st -> nodes_sane st sg.
Proof. intros Hs HW. apply (W_seg_iff _ _ Hs) in HW. destruct HW as (I1 & _ & I3). intros m Hm. split; [now apply I3|now apply I1]. Qed.
Lemma W_dict_edges_sane st : W_dict st -> edges_sane st.
Proof. intros H u v. apply (wd_edge_nodes st H). Qed.

(* masks of the labels a write does not touch are unchanged *)
Lemma mask_of_paint_other sg t idx v n tm m : frame_ok sg t = true -> 0 <= tm ->
  only_touches sg t idx n -> m <> 0 -> m <> n -> m <> v ->
  mask_of (paint_arr sg t idx v) tm m = mask_of sg tm m.
Proof.
  intros Hf Htm Ht Hm0 Hmn Hmv. assert (Ht0 : 0 <= t) by (apply frame_ok_range in Hf; lia).
  destruct (paint_same_shape sg t idx v) as [_ Sh]. apply mask_of_ext; [apply Sh|].
  intros i Hi. rewrite label_at_paint by assumption.
  destruct ((tm =? t) && memz (Z.of_nat i) idx && (i <? length (frame_of sg t))%nat) eqn:Ec; [|tauto].
  apply andb_true_iff in Ec. destruct Ec as [Ec E3]. apply andb_true_iff in Ec. destruct Ec as [E1 E2].
  apply Z.eqb_eq in E1. subst tm. apply memz_In in E2. apply Nat.ltb_lt in E3.
  destruct (Ht i E3 E2) as [E|E]; rewrite E; split; intros; congruence.
Qed.

Lemma iou_of_ext st st' sg sg' u v :
  time_of st' u = time_of st u -> time_of st' v = time_of st v ->
  mask_of sg' (time_of st u) u = mask_of sg (time_of st u) u ->
  mask_of sg' (time_of st v) v = mask_of sg (time_of st v) v ->
  iou_of st' sg' u v = iou_of st sg u v.
Proof. intros E1 E2 E3 E4. unfold iou_of. now rewrite E1, E2, E3, E4. Qed.

Lemma iou_of_nodes st st' sg u v : nodes (g st') = nodes (g st) -> iou_of st' sg u v = iou_of st sg u v.
Proof. intros E. unfold iou_of, time_of, zattr, attr, node_attrs. now rewrite E. Qed.

(* ---- adjacency dictionaries ---- *)
Lemma haskey_set {V} k k' (x : V) d : haskey k (set k' x d) = (k =? k') || haskey k d.
Proof.
  unfold haskey. destruct (Z.eqb_spec k k') as [->|Hne]; [now rewrite lookup_set_eq|]. now rewrite lookup_set_neq.
Qed.
Lemma haskey_del {V} k k' (d : dict V) : haskey k (del k' d) = negb (k =? k') && haskey k d.
Proof.
  unfold haskey. destruct (Z.eqb_spec k k') as [->|Hne]; [now rewrite lookup_del_eq|]. now rewrite lookup_del_neq.
Qed.
Lemma getd_del_neq {V} k k' (d : dict V) dflt : k <> k' -> getd k (del k' d) dflt = getd k d dflt.
Proof. intros H. unfold getd. now rewrite lookup_del_neq. Qed.

Section AdjSet.
  Variable st st' : state.
  Variable u : Z.
  Variable row : dict attrs.
  Hypothesis Hsuccs : succs (g st') = set u row (succs (g st)).

  Lemma adj_set_row u' : adj st' u' = if u' =? u then row else adj st u'.
  Proof. unfold adj. rewrite Hsuccs. destruct (Z.eqb_spec u' u) as [->|Hne]; [apply getd_set_eq|now apply getd_set_neq]. Qed.
End AdjSet.

(* G.edges[u, v] = x  (insert or overwrite) *)
Lemma edge_put st st' u v x : succs (g st') = set u (set v x (adj st u)) (succs (g st)) ->
  (forall a b, has_edge st' a b = ((a =? u) && (b =? v)) || has_edge st a b) /\
  (forall a b, edge_attrs st' a b = if (a =? u) && (b =? v) then x else edge_attrs st a b).
Proof.
  intros Hs. split; intros a b; unfold has_edge, edge_attrs; rewrite (adj_set_row st st' u _ Hs a).
  - destruct (Z.eqb_spec a u) as [->|Hne]; cbn [andb orb]; [|reflexivity]. apply haskey_set.
  - destruct (Z.eqb_spec a u) as [->|Hne]; cbn [andb]; [|reflexivity].
    destruct (Z.eqb_spec b v) as [->|Hne]; [apply getd_set_eq|now apply getd_set_neq].
Qed.

(* G.remove_edge(u, v) *)
Lemma edge_drop st st' u v : succs (g st') = set u (del v (adj st u)) (succs (g st)) ->
  (forall a b, has_edge st' a b = negb ((a =? u) && (b =? v)) && has_edge st a b) /\
  (forall a b, ~ (a = u /\ b = v) -> edge_attrs st' a b = edge_attrs st a b).
Proof.
  intros Hs. split; [intros a b|intros a b Hab]; unfold has_edge, edge_attrs; rewrite (adj_set_row st st' u _ Hs a).
  - destruct (Z.eqb_spec a u) as [->|Hne]; cbn [andb negb]; [|reflexivity]. apply haskey_del.
  - destruct (Z.eqb_spec a u) as [->|Hne]; [|reflexivity]. apply getd_del_neq. intros ->. tauto.
Qed.

Lemma sea_spec st u v k x : has_edge st u v = true ->
  let st' := set_edge_attr st u v k x in
  (forall a b, has_edge st' a b = has_edge st a b) /\
  (forall a b, edge_attrs st' a b = if (a =? u) && (b =? v) then set k x (edge_attrs st u v) else edge_attrs st a b).
Proof.
  intros He. cbv zeta. assert (Hs : succs (g (set_edge_attr st u v k x)) = set u (set v (set k x (edge_attrs st u v)) (adj st u)) (succs (g st))).
  { unfold set_edge_attr. now rewrite He. }
  destruct (edge_put _ _ _ _ _ Hs) as [H1 H2]. split; [|exact H2].
  intros a b. rewrite H1. destruct (Z.eqb_spec a u) as [->|]; [|reflexivity]. destruct (Z.eqb_spec b v) as [->|]; [|reflexivity].
  now rewrite He.
Qed.

Lemma sea_noedge st u v k x : has_edge st u v = false -> set_edge_attr st u v k x = st.
Proof. intros He. unfold set_edge_attr. now rewrite He. Qed.

(* EdgeAnnotator.update over a list of edges *)
Lemma iou_update_spec st sg es : seg st = Some sg -> iou_act (ft st) = true ->
  let st' := iou_update_edges st es in
  (forall a b, has_edge st' a b = has_edge st a b) /\
  (forall a b, In (a, b) es -> has_edge st a b = true -> lookup KIou (edge_attrs st' a b) = Some (iou_of st sg a b)) /\
  (forall a b, ~ In (a, b) es -> edge_attrs st' a b = edge_attrs st a b).
Proof.
  intros Hs Ha. unfold iou_update_edges. rewrite Hs, Ha. cbv zeta.
  assert (Hgen : forall es s, nodes (g s) = nodes (g st) ->
     let s' := fold_left (fun s e => set_edge_attr s (fst e) (snd e) KIou (iou_of s sg (fst e) (snd e))) es s in
     nodes (g s') = nodes (g st) /\
     (forall a b, has_edge s' a b = has_edge s a b) /\
     (forall a b, In (a, b) es -> has_edge s a b = true -> lookup KIou (edge_attrs s' a b) = Some (iou_of st sg a b)) /\
     (forall a b, ~ In (a, b) es -> edge_attrs s' a b = edge_attrs s a b)).
  { clear es. induction es as [|[eu ev] r IH]; intros s Hn; cbn [fold_left fst snd].
    - split; [exact Hn|]. split; [reflexivity|]. split; [intros a b []|reflexivity].
    - set (s1 := set_edge_attr s eu ev KIou (iou_of s sg eu ev)).
      assert (Hn1 : nodes (g s1) = nodes (g st)) by (unfold s1; now rewrite sea_nodes).
      destruct (IH s1 Hn1) as (I0 & I1 & I2 & I3). cbv zeta in *.
      destruct (has_edge s eu ev) eqn:He.
      + destruct (sea_spec s eu ev KIou (iou_of s sg eu ev) He) as [S1 S2]. fold s1 in S1, S2.
        split; [exact I0|]. split; [intros a b; now rewrite I1, S1|]. split.
        * intros a b Hin Hab. destruct (in_dec (fun x y : Z * Z => ltac:(decide equality; apply Z.eq_dec)) (a, b) r) as [Hr|Hr].
          -- apply I2; [exact Hr|]. now rewrite S1.
          -- destruct Hin as [E|Hin]; [|contradiction]. injection E as <- <-.
             rewrite I3 by exact Hr. rewrite S2, !Z.eqb_refl. cbn [andb]. rewrite lookup_set_eq. f_equal. now apply iou_of_nodes.
        * intros a b Hnin. rewrite I3 by (intros H; apply Hnin; now right). rewrite S2.
          destruct (Z.eqb_spec a eu) as [->|]; [|reflexivity]. destruct (Z.eqb_spec b ev) as [->|]; [|reflexivity].
          exfalso. apply Hnin. now left.
      + assert (E1 : s1 = s) by (unfold s1; now apply sea_noedge). rewrite E1 in *.
        split; [exact I0|]. split; [exact I1|]. split.
        * intros a b [E|Hin] Hab; [injection E as <- <-; congruence|now apply I2].
        * intros a b Hnin. apply I3. intros H; apply Hnin; now right. }
  destruct (Hgen es st eq_refl) as (_ & H1 & H2 & H3). auto.
Qed.

Lemma iou_update_inactive st es : (seg st = None \/ iou_act (ft st) = false) -> iou_update_edges st es = st.
Proof. unfold iou_update_edges. intros [H|H]; [now rewrite H|]. destruct (seg st); [now rewrite H|reflexivity]. Qed.

(* ================================================================== *)
(* AddNode with pixels                                                  *)
(* ================================================================== *)
Lemma sane_mask_other st sg t idx v n m : frame_ok sg t = true -> nodes_sane st sg -> only_touches sg t idx n ->
  is_node st m -> m <> n -> m <> v ->
  mask_of (paint_arr sg t idx v) (time_of st m) m = mask_of sg (time_of st m) m.
Proof.
  intros Hf Hsane Ht Hm Hmn Hmv. destruct (Hsane m Hm) as [Hm0 Hfm].
  eapply mask_of_paint_other; eauto. apply frame_ok_range in Hfm. lia.
Qed.

Lemma fresh_add_node st n a t idx b st' sg :
  do_add_node st n a (Some (t, idx)) = Ok b st' -> seg st = Some sg ->
  ~ is_node st n -> n <> 0 -> NoDup (keys a) -> lookup KTime a = Some (VZ t) -> ~ In KTime (rp_act (ft st)) ->
  hits sg t idx -> nodes_sane st sg -> only_touches sg t idx n ->
  (rp_fresh st -> rp_fresh st') /\ (edges_sane st -> iou_fresh st -> iou_fresh st').
Proof.
  intros Hdo Hs Hn Hn0 Hnd Hl Hkt Hhit Hsane Htouch.
  apply do_add_node_ok in Hdo. destruct Hdo as (st1 & Hsp & Hg & Hsg' & Hft').
  apply set_pixels_ok in Hsp. destruct Hsp as (sg0 & Hs0 & Hfok & ->). rewrite Hs in Hs0. injection Hs0 as <-. cbn [fst snd] in *.
  set (sg' := paint_arr sg t idx n) in *. set (s1 := upd_seg st (Some sg')) in *.
  assert (Hn1 : ~ is_node s1 n) by exact Hn.
  destruct (add_node_core_spec s1 n a Hn1) as (C1 & C2 & C3 & C4 & C5 & C6 & C7).
  assert (Hseg : seg st' = Some sg') by (rewrite Hsg', C1; reflexivity).
  assert (Hft : ft st' = ft st) by (rewrite Hft', C2; reflexivity).
  assert (HN : forall m, is_node st' m <-> m = n \/ is_node st m) by (intros m; rewrite (is_node_g _ _ m Hg); apply C3).
  assert (HA : forall m k, m <> n -> attr st' m k = attr st m k) by (intros m k Hm; rewrite (attr_g _ _ m k Hg); now apply C4).
  assert (HT : forall m, m <> n -> time_of st' m = time_of st m) by (intros m Hm; apply time_of_attr; now apply HA).
  assert (HTn : time_of st' n = t).
  { rewrite (time_of_g _ _ n Hg). unfold time_of, zattr. rewrite (C5 KTime (VZ t)); auto. }
  assert (HM : forall m, is_node st m -> mask_of sg' (time_of st m) m = mask_of sg (time_of st m) m).
  { intros m Hm. assert (m <> n) by (intros ->; contradiction). eapply sane_mask_other; eauto. }
  split.
  - intros Hrp. unfold rp_fresh in *. rewrite Hseg. rewrite Hs in Hrp. rewrite Hft. intros m k Hm Hk.
    apply HN in Hm. destruct Hm as [->|Hm].
    + rewrite (attr_g _ _ n k Hg), HTn. rewrite (C6 sg' t eq_refl Hnd Hl Hkt k Hk).
      assert (Hne : mask_of sg' t n <> []).
      { apply mask_nonempty. destruct Hhit as (i & Hi & Hin). exists i.
        destruct (paint_same_shape sg t idx n) as [_ Sh]. split; [unfold sg'; now rewrite Sh|].
        unfold sg'. rewrite label_at_paint; try (apply frame_ok_range in Hfok; lia).
        apply memz_In in Hin. apply Nat.ltb_lt in Hi. now rewrite Z.eqb_refl, Hin, Hi. }
      destruct (mask_of sg' t n); [congruence|reflexivity].
    + assert (m <> n) by (intros ->; contradiction). rewrite HA, HT, HM by assumption. now apply Hrp.
  - intros Hes Hio. unfold iou_fresh in *. rewrite Hseg. rewrite Hs in Hio. rewrite Hft. intros Hact u v He.
    assert (Hadj : forall x, adj st' x = adj st x) by (intros x; rewrite (adj_g _ _ x Hg); apply C7).
    assert (He0 : edge st u v) by (unfold edge, has_edge in *; now rewrite <- Hadj).
    destruct (Hes u v He0) as [Hu Hv].
    assert (u <> n) by (intros ->; contradiction). assert (v <> n) by (intros ->; contradiction).
    unfold edge_attrs. rewrite Hadj. fold (edge_attrs st u v). rewrite (Hio Hact u v He0). f_equal.
    symmetry. apply iou_of_ext; auto.
Qed.

(* ================================================================== *)
(* UpdateNodeSeg                                                        *)
(* ================================================================== *)
Lemma has_edge_succs a b u v : succs (g a) = succs (g b) -> has_edge a u v = has_edge b u v.
Proof. intros E. unfold has_edge, adj. now rewrite E. Qed.
Lemma edge_attrs_succs a b u v : succs (g a) = succs (g b) -> edge_attrs a u v = edge_attrs b u v.
Proof. intros E. unfold edge_attrs, adj. now rewrite E. Qed.

Lemma fresh_upd_seg st n t idx added b st' sg :
  do_upd_seg st n (t, idx) added = Ok b st' -> seg st = Some sg ->
  is_node st n -> ~ In KTime (rp_act (ft st)) -> nodes_sane st sg ->
  (forall i, (i < length (frame_of sg t))%nat -> In (Z.of_nat i) idx ->
     label_at sg t i = n \/ (added = true /\ label_at sg t i = 0)) ->
  mask_of (paint_arr sg t idx (if added then n else 0)) (time_of st n) n <> [] ->
  (rp_fresh st -> rp_fresh st') /\ (edges_sane st -> iou_fresh st -> iou_fresh st').
Proof.
  intros Hdo Hs Hn Hkt Hsane Hidx Hne.
  destruct (upd_seg_effect _ _ _ _ _ _ _ _ Hdo Hs) as (Hfok & Hseg & Hft & Hkeep).
  apply do_upd_seg_ok in Hdo. destruct Hdo as (st1 & Hsp & Hst').
  apply set_pixels_ok in Hsp. destruct Hsp as (sg0 & Hs0 & _ & ->). rewrite Hs in Hs0. injection Hs0 as <-. cbn [fst snd] in *.
  set (v := if added then n else 0) in *. set (sg' := paint_arr sg t idx v) in *. set (s1 := upd_seg st (Some sg')) in *.
  assert (Hs1 : seg s1 = Some sg') by reflexivity.
  set (s2 := rp_update s1 n) in *.
  assert (Htouch : only_touches sg t idx n).
  { intros i Hi Hin. destruct (Hidx i Hi Hin) as [E|[_ E]]; auto. }
  assert (HT : forall m, time_of st' m = time_of st m) by (intros m; now apply (nodes_keep_time _ _ _ m Hkt Hkeep)).
  assert (HN : forall m, is_node st' m <-> is_node st m) by (intros m; apply (nodes_keep_is_node _ _ _ m Hkeep)).
  assert (Hn0 : n <> 0) by (now destruct (Hsane n Hn)).
  assert (HM : forall m, is_node st m -> m <> n -> mask_of sg' (time_of st m) m = mask_of sg (time_of st m) m).
  { intros m Hm Hmn. eapply sane_mask_other; eauto. unfold v. destruct added; [exact Hmn|now destruct (Hsane m Hm)]. }
  assert (Hg2 : nodes (g st') = nodes (g s2)) by (rewrite Hst'; apply iou_update_nodes).
  destruct (rp_update_graph_only s1 n) as (_ & G2 & G3). fold s2 in G2, G3.
  split.
  - intros Hrp. unfold rp_fresh in *. rewrite Hseg. rewrite Hs in Hrp. rewrite Hft. intros m k Hm Hk. apply HN in Hm.
    assert (Ea : attr st' m k = attr s2 m k) by (unfold attr, node_attrs; now rewrite Hg2).
    rewrite Ea. unfold s2. rewrite (rp_update_unfold _ _ _ Hs1), set_keys_attr. rewrite HT.
    destruct (Z.eqb_spec m n) as [->|Hmn]; cbn [andb].
    + assert (Hk' : memz k (rp_act (ft s1)) = true) by (apply memz_In; exact Hk). rewrite Hk'.
      assert (Hh : has_node s1 n = true) by (apply is_node_haskey; exact Hn). rewrite Hh. cbn [andb].
      change (time_of s1 n) with (time_of st n). destruct (mask_of sg' (time_of st n) n); [congruence|reflexivity].
    + change (attr s1 m k) with (attr st m k). rewrite HM by assumption. now apply Hrp.
  - intros Hes Hio. unfold iou_fresh in *. rewrite Hseg. rewrite Hs in Hio. rewrite Hft. intros Hact u w He.
    assert (Hs2 : seg s2 = Some sg') by (unfold s2; destruct (rp_update_graph_only s1 n) as (E & _); now rewrite E).
    assert (Ha2 : iou_act (ft s2) = true) by (rewrite G2; exact Hact).
    destruct (iou_update_spec s2 sg' (upd_seg_edges s2 n) Hs2 Ha2) as (U1 & U2 & U3). rewrite <- Hst' in U1, U2, U3.
    assert (He2 : has_edge s2 u w = true) by (rewrite <- U1; exact He).
    assert (He0 : edge st u w) by (unfold edge; rewrite <- He2; apply has_edge_succs; symmetry; exact G3).
    destruct (Hes u w He0) as [Hu Hw].
    destruct (in_dec (fun x y : Z * Z => ltac:(decide equality; apply Z.eq_dec)) (u, w) (upd_seg_edges s2 n)) as [Hin|Hnin].
    + rewrite (U2 u w Hin He2). f_equal. apply iou_of_nodes. now symmetry.
    + assert (Hun : u <> n).
      { intros ->. apply Hnin. unfold upd_seg_edges. apply in_app_iff. right. apply in_map_iff. exists w. split; [reflexivity|].
        unfold successors. apply haskey_keys. exact He2. }
      assert (Hwn : w <> n).
      { intros ->. apply Hnin. unfold upd_seg_edges. apply in_app_iff. left. apply in_map_iff. exists u. split; [reflexivity|].
        unfold predecessors. apply filter_In. split; [|exact He2].
        destruct (rp_update_keep s1 n) as [Hid _]. fold s2 in Hid. unfold node_ids in Hid. rewrite Hid. exact Hu. }
      rewrite (U3 u w Hnin). rewrite (edge_attrs_succs s2 st u w G3). rewrite (Hio Hact u w He0). f_equal.
      symmetry. apply iou_of_ext; auto.
Qed.

(* ================================================================== *)
(* AddEdge / DeleteEdge                                                  *)
(* ================================================================== *)
Lemma rp_fresh_same st st' : seg st' = seg st -> ft st' = ft st -> nodes (g st') = nodes (g st) -> rp_fresh st -> rp_fresh st'.
Proof.
  intros E1 E2 E3. unfold rp_fresh, is_node, node_ids, time_of, zattr, attr, node_attrs. rewrite E1, E2, E3. auto.
Qed.

Lemma fresh_add_edge st u v a b st' : do_add_edge st u v a = Ok b st' ->
  (rp_fresh st -> rp_fresh st') /\ (iou_fresh st -> iou_fresh st').
Proof.
  intros Hdo. destruct (add_edge_effect st u v a) as (E1 & E2 & E3). rewrite Hdo in E1, E2, E3. cbn [rstate] in *.
  split; [now apply rp_fresh_same|].
  unfold do_add_edge in Hdo. destruct (negb (has_node st u)); [discriminate|]. destruct (negb (has_node st v)); [discriminate|].
  injection Hdo as _ Hst'.
  set (s1 := upd_g st {| nodes := nodes (g st); succs := set u (set v (update (edge_attrs st u v) a) (adj st u)) (succs (g st)) |}) in *.
  destruct (edge_put st s1 u v (update (edge_attrs st u v) a) eq_refl) as [P1 P2].
  intros Hio. unfold iou_fresh in *. rewrite E1. destruct (seg st) as [sg|] eqn:Hs; [|exact I]. rewrite E2. intros Hact x y He.
  assert (Hs1 : seg s1 = Some sg) by exact Hs. assert (Ha1 : iou_act (ft s1) = true) by exact Hact.
  destruct (iou_update_spec s1 sg [(u, v)] Hs1 Ha1) as (U1 & U2 & U3). rewrite Hst' in U1, U2, U3.
  assert (Hnodes : iou_of st' sg x y = iou_of st sg x y) by (now apply iou_of_nodes).
  unfold edge in He. rewrite U1, P1 in He.
  destruct (Z.eq_dec x u) as [Exu|Hxu]; [destruct (Z.eq_dec y v) as [Eyv|Hyv]|].
  - subst x y. rewrite (U2 u v); [|now left|rewrite P1, !Z.eqb_refl; reflexivity]. f_equal. rewrite Hnodes. now apply iou_of_nodes.
  - assert (Eb : (y =? v) = false) by (now apply Z.eqb_neq). rewrite Eb, andb_false_r in He. cbn [orb] in He.
    rewrite U3 by (intros [E|[]]; injection E as _ E; congruence). rewrite P2, Eb, andb_false_r. rewrite Hnodes. now apply Hio.
  - assert (Eb : (x =? u) = false) by (now apply Z.eqb_neq). rewrite Eb in He. cbn [andb orb] in He.
    rewrite U3 by (intros [E|[]]; injection E as E _; congruence). rewrite P2, Eb. cbn [andb]. rewrite Hnodes. now apply Hio.
Qed.

Lemma fresh_del_edge st u v b st' : do_del_edge st u v = Ok b st' ->
  (rp_fresh st -> rp_fresh st') /\ (iou_fresh st -> iou_fresh st').
Proof.
  intros Hdo. destruct (del_edge_effect st u v) as (E1 & E2 & E3). rewrite Hdo in E1, E2, E3. cbn [rstate] in *.
  split; [now apply rp_fresh_same|].
  unfold do_del_edge in Hdo. destruct (negb (has_edge st u v)); [discriminate|]. injection Hdo as _ Hst'.
  destruct (edge_drop st st' u v) as [P1 P2]; [now rewrite <- Hst'|].
  intros Hio. unfold iou_fresh in *. rewrite E1. destruct (seg st) as [sg|] eqn:Hs; [|exact I]. rewrite E2. intros Hact x y He.
  unfold edge in He. rewrite P1 in He. apply andb_true_iff in He. destruct He as [Hne He].
  rewrite P2.
  - rewrite (iou_of_nodes st st' sg x y E3). now apply Hio.
  - intros [-> ->]. rewrite !Z.eqb_refl in Hne. discriminate.
Qed.

(* ================================================================== *)
(* UpdateNodeAttrs / UpdateTrackIDs                                      *)
(* ================================================================== *)
(* a transformer that keeps array, features, adjacency, node list, times and the managed node keys *)
Lemma fresh_keep (K : Z -> Prop) st st' : graph_only st st' -> nodes_keep K st st' -> ~ K KTime ->
  (forall k, In k (rp_act (ft st)) -> ~ K k) ->
  (rp_fresh st -> rp_fresh st') /\ (iou_fresh st -> iou_fresh st').
Proof.
  intros (G1 & G2 & G3) Hk Hkt Hrpk.
  assert (HT : forall m, time_of st' m = time_of st m) by (intros m; now apply (nodes_keep_time _ _ _ m Hkt Hk)).
  split.
  - intros Hrp. unfold rp_fresh in *. rewrite G1, G2. destruct (seg st) as [sg|]; [|exact I]. intros m k Hm Hkk.
    apply (nodes_keep_is_node _ _ _ m Hk) in Hm. destruct Hk as [_ Hk]. rewrite Hk by (now apply Hrpk). rewrite HT. now apply Hrp.
  - intros Hio. unfold iou_fresh in *. rewrite G1, G2. destruct (seg st) as [sg|]; [|exact I]. intros Hact u v He.
    unfold edge in He. rewrite (has_edge_succs st' st u v G3) in He. rewrite (edge_attrs_succs st' st u v G3).
    rewrite (Hio Hact u v He). f_equal. symmetry. apply iou_of_ext; auto.
Qed.

Lemma fresh_upd_attrs st n new b st' : do_upd_attrs st n new = Ok b st' ->
  incl (rp_act (ft st)) (rp_all (ft st)) ->
  (rp_fresh st -> rp_fresh st') /\ (iou_fresh st -> iou_fresh st').
Proof.
  intros Hdo Hincl. destruct (upd_attrs_effect st n new) as (E1 & E2). rewrite Hdo in E1, E2. cbn [rstate] in *.
  eapply fresh_keep; [exact E1|exact E2| |].
  - intros [_ Hp]. rewrite KTime_protected in Hp. discriminate.
  - intros k Hk [_ Hp]. apply memz_false in Hp. apply Hp. unfold protected_keys. apply in_app_iff. left. now apply Hincl.
Qed.

Lemma fresh_upd_track st start newT newL b st' : do_upd_track st start newT newL = Ok b st' ->
  ~ In KTrack (rp_act (ft st)) -> ~ In KLin (rp_act (ft st)) ->
  (rp_fresh st -> rp_fresh st') /\ (iou_fresh st -> iou_fresh st').
Proof.
  intros Hdo H1 H2. destruct (upd_track_effect st start newT newL) as (E1 & E2). rewrite Hdo in E1, E2. cbn [rstate] in *.
  eapply fresh_keep; [exact E1|exact E2|exact KTime_not_trk|]. intros k Hk [->| ->]; contradiction.
Qed.

(* ================================================================== *)
(* DeleteNode                                                            *)
(* ================================================================== *)
Lemma lookup_map_snd {V W} (f : V -> W) k (d : dict V) :
  lookup k (map (fun kv => (fst kv, f (snd kv))) d) = option_map f (lookup k d).
Proof. induction d as [|[k' x] r IH]; cbn; [reflexivity|]. destruct (k =? k'); [reflexivity|exact IH]. Qed.

Lemma fresh_del_node st n pxo b st' : do_del_node st n pxo = Ok b st' ->
  (forall sg p, seg st = Some sg -> eff_pixels st n pxo = Some p -> nodes_sane st sg /\ only_touches sg (fst p) (snd p) n) ->
  (rp_fresh st -> rp_fresh st') /\ (edges_sane st -> iou_fresh st -> iou_fresh st').
Proof.
  intros Hdo Hpx. destruct (del_node_effect _ _ _ _ _ Hdo) as (Hn & Hft & HN & HA & Heff).
  apply do_del_node_ok in Hdo. destruct Hdo as (d & st1 & _ & Hsp & Hg & _ & _). fold (eff_pixels st n pxo) in Hsp.
  assert (Hg1 : g st1 = g st).
  { destruct (eff_pixels st n pxo) as [p|]; [|now injection Hsp as <-]. apply set_pixels_ok in Hsp. destruct Hsp as (sg & _ & _ & ->). reflexivity. }
  rewrite Hg1 in Hg. clear Hsp Hg1 st1.
  assert (HT : forall m, m <> n -> time_of st' m = time_of st m) by (intros m Hm; apply time_of_attr; now apply HA).
  (* edges of the result: those of st that avoid n, with their attributes *)
  assert (Hadj : forall x, adj st' x = if x =? n then [] else del n (adj st x)).
  { intros x. unfold adj, getd. rewrite Hg. cbn [succs]. rewrite (lookup_map_snd (del n)).
    destruct (Z.eqb_spec x n) as [->|Hx]; [now rewrite lookup_del_eq|]. rewrite lookup_del_neq by exact Hx.
    destruct (lookup x (succs (g st))); reflexivity. }
  assert (HE : forall x y, has_edge st' x y = negb (x =? n) && negb (y =? n) && has_edge st x y).
  { intros x y. unfold has_edge. rewrite Hadj. destruct (Z.eqb_spec x n); cbn [negb andb]; [reflexivity|]. apply haskey_del. }
  assert (HEA : forall x y, x <> n -> y <> n -> edge_attrs st' x y = edge_attrs st x y).
  { intros x y Hx Hy. unfold edge_attrs. rewrite Hadj. destruct (Z.eqb_spec x n); [contradiction|]. now apply getd_del_neq. }
  (* masks of the surviving nodes *)
  assert (HM : forall sg sg', seg st = Some sg -> seg st' = Some sg' -> forall m, is_node st m -> m <> n ->
                 mask_of sg' (time_of st m) m = mask_of sg (time_of st m) m).
  { intros sg sg' Hs Hs' m Hm Hmn. destruct (eff_pixels st n pxo) as [p|] eqn:Ep.
    - destruct Heff as (sg0 & Hs0 & Hfok & Hs1). rewrite Hs in Hs0. injection Hs0 as <-. rewrite Hs' in Hs1. injection Hs1 as ->.
      destruct (Hpx sg p Hs eq_refl) as [Hsane Htouch]. eapply sane_mask_other; eauto. now destruct (Hsane m Hm).
    - rewrite Heff, Hs in Hs'. now injection Hs' as ->. }
  split.
  - intros Hrp. unfold rp_fresh in *. destruct (seg st') as [sg'|] eqn:Hs'; [|exact I].
    destruct (seg st) as [sg|] eqn:Hs.
    2:{ destruct (eff_pixels st n pxo); [destruct Heff as (? & ? & _); discriminate|congruence]. }
    rewrite Hft. intros m k Hm Hk. apply HN in Hm. destruct Hm as [Hmn Hm].
    rewrite HA, HT by exact Hmn. rewrite (HM sg sg' eq_refl eq_refl m Hm Hmn). now apply Hrp.
  - intros Hes Hio. unfold iou_fresh in *. destruct (seg st') as [sg'|] eqn:Hs'; [|exact I].
    destruct (seg st) as [sg|] eqn:Hs.
    2:{ destruct (eff_pixels st n pxo); [destruct Heff as (? & ? & _); discriminate|congruence]. }
    rewrite Hft. intros Hact x y He. unfold edge in He. rewrite HE in He.
    apply andb_true_iff in He. destruct He as [He He0]. apply andb_true_iff in He. destruct He as [Hx Hy].
    assert (x <> n) by (intros ->; now rewrite Z.eqb_refl in Hx). assert (y <> n) by (intros ->; now rewrite Z.eqb_refl in Hy).
    destruct (Hes x y He0) as [Hxn Hyn].
    rewrite HEA by assumption. rewrite (Hio Hact x y He0). f_equal. symmetry.
    apply iou_of_ext; auto; apply (HM sg sg' eq_refl eq_refl); assumption.
Qed.

(* DeleteNode without pixels: the node's own mask is cleared, nothing else is touched *)
Lemma fresh_del_node_own st n b st' : do_del_node st n None = Ok b st' -> W_seg st ->
  (rp_fresh st -> rp_fresh st') /\ (edges_sane st -> iou_fresh st -> iou_fresh st').
Proof.
  intros Hdo HW. apply (fresh_del_node _ _ _ _ _ Hdo). intros sg p Hs Ep. split; [now apply W_seg_nodes_sane|].
  cbn [eff_pixels] in Ep. rewrite (get_pixels_spec _ _ _ Hs) in Ep. injection Ep as <-. cbn [fst snd].
  intros i Hi Hin. right. apply mask_of_In_nat in Hin. tauto.
Qed.

(* ================================================================== *)
(* What iou_of computes: |A n B| / |A u B| of the two masks, each in its own frame *)
(* ================================================================== *)
Lemma filter_partition_length {A} (f : A -> bool) (l : list A) :
  (length (filter f l) + length (filter (fun x => negb (f x)) l) = length l)%nat.
Proof. induction l as [|x r IH]; cbn; [reflexivity|]. destruct (f x); cbn; lia. Qed.

Lemma NoDup_same_length (l l' : list Z) : NoDup l -> NoDup l' -> (forall x, In x l <-> In x l') -> length l = length l'.
Proof.
  intros H1 H2 He. apply Nat.le_antisymm; apply NoDup_incl_length; try assumption; intros x Hx; now apply He.
Qed.

Lemma NoDup_app_disj (l l' : list Z) : NoDup l -> NoDup l' -> (forall x, In x l -> In x l' -> False) -> NoDup (l ++ l').
Proof.
  induction l as [|y r IH]; cbn; intros H1 H2 Hd; [exact H2|]. inversion H1 as [|? ? Hy Hr]; subst. constructor.
  - rewrite in_app_iff. intros [H|H]; [contradiction|]. apply (Hd y); [now left|exact H].
  - apply IH; [exact Hr|exact H2|]. intros x Hx. apply Hd. now right.
Qed.

Lemma filter_memz_nil (a : list Z) : filter (fun x => memz x []) a = [].
Proof. induction a as [|x r IH]; cbn; [reflexivity|exact IH]. Qed.

Theorem iou_of_spec st sg u v :
  let A := mask_of sg (time_of st u) u in
  let B := mask_of sg (time_of st v) v in
  exists I U : list Z,
    NoDup I /\ NoDup U /\
    (forall p, In p I <-> In p A /\ In p B) /\
    (forall p, In p U <-> In p A \/ In p B) /\
    (length U + length I = length A + length B)%nat /\
    iou_of st sg u v = if (length I =? 0)%nat then VIou 0 1 else VIou (Z.of_nat (length I)) (Z.of_nat (length U)).
Proof.
  intros A B. assert (HA : NoDup A) by apply mask_of_NoDup. assert (HB : NoDup B) by apply mask_of_NoDup.
  set (I := filter (fun x => memz x B) A). set (U := A ++ filter (fun x => negb (memz x A)) B).
  assert (HI : forall p, In p I <-> In p A /\ In p B).
  { intros p. unfold I. rewrite filter_In, memz_In. tauto. }
  assert (HU : forall p, In p U <-> In p A \/ In p B).
  { intros p. unfold U. rewrite in_app_iff, filter_In. split.
    - intros [H|[H _]]; auto.
    - intros [H|H]; [now left|]. destruct (in_dec Z.eq_dec p A) as [Hi|Hn]; [now left|right]. split; [exact H|].
      apply memz_false in Hn. now rewrite Hn. }
  assert (HndI : NoDup I) by (apply NoDup_filter; exact HA).
  assert (HndU : NoDup U).
  { unfold U. apply NoDup_app_disj; [exact HA|now apply NoDup_filter|].
    intros x Hx Hf. apply filter_In in Hf. destruct Hf as [_ Hf]. apply memz_In in Hx. rewrite Hx in Hf. discriminate. }
  assert (Hcard : (length U + length I = length A + length B)%nat).
  { assert (H1 : length I = length (filter (fun x => memz x A) B)).
    { apply NoDup_same_length; [exact HndI|now apply NoDup_filter|]. intros x. rewrite HI, filter_In, memz_In. tauto. }
    assert (H2 := filter_partition_length (fun x => memz x A) B). unfold U. rewrite app_length. lia. }
  exists I, U. repeat (split; [assumption|]).
  unfold iou_of. fold A B. unfold inter_count. fold I.
  destruct A as [|a0 A'] eqn:EA; [reflexivity|]. destruct B as [|b0 B'] eqn:EB.
  - assert (EI : I = []) by (unfold I; apply filter_memz_nil). rewrite EI. reflexivity.
  - rewrite <- EA, <- EB in *. destruct (length I) as [|k] eqn:El; [reflexivity|].
    assert (E0 : (Z.of_nat (S k) =? 0) = false) by (apply Z.eqb_neq; lia). rewrite E0. cbn [Nat.eqb]. f_equal. lia.
Qed.

(* ================================================================== *)
(* the two halves, separately (for Props/C08.v and Props/C09.v)          *)
(* ================================================================== *)
Lemma rp_fresh_add_node st n a t idx b st' sg :
  do_add_node st n a (Some (t, idx)) = Ok b st' -> seg st = Some sg ->
  ~ is_node st n -> n <> 0 -> NoDup (keys a) -> lookup KTime a = Some (VZ t) -> ~ In KTime (rp_act (ft st)) ->
  hits sg t idx -> nodes_sane st sg -> only_touches sg t idx n ->
  rp_fresh st -> rp_fresh st'.
Proof. intros. eapply (proj1 (fresh_add_node st n a t idx b st' sg ltac:(eassumption) ltac:(eassumption) ltac:(assumption) ltac:(assumption) ltac:(assumption) ltac:(assumption) ltac:(assumption) ltac:(assumption) ltac:(assumption) ltac:(assumption))). assumption. Qed.

Lemma iou_fresh_add_node st n a t idx b st' sg :
  do_add_node st n a (Some (t, idx)) = Ok b st' -> seg st = Some sg ->
  ~ is_node st n -> n <> 0 -> NoDup (keys a) -> lookup KTime a = Some (VZ t) -> ~ In KTime (rp_act (ft st)) ->
  hits sg t idx -> nodes_sane st sg -> only_touches sg t idx n -> edges_sane st ->
  iou_fresh st -> iou_fresh st'.
Proof. intros. eapply (proj2 (fresh_add_node st n a t idx b st' sg ltac:(eassumption) ltac:(eassumption) ltac:(assumption) ltac:(assumption) ltac:(assumption) ltac:(assumption) ltac:(assumption) ltac:(assumption) ltac:(assumption) ltac:(assumption))); assumption. Qed.

Lemma rp_fresh_upd_seg st n t idx added b st' sg :
  do_upd_seg st n (t, idx) added = Ok b st' -> seg st = Some sg ->
  is_node st n -> ~ In KTime (rp_act (ft st)) -> nodes_sane st sg ->
  (forall i, (i < length (frame_of sg t))%nat -> In (Z.of_nat i) idx ->
     label_at sg t i = n \/ (added = true /\ label_at sg t i = 0)) ->
  mask_of (paint_arr sg t idx (if added then n else 0)) (time_of st n) n <> [] ->
  rp_fresh st -> rp_fresh st'.
Proof. intros H1 H2 H3 H4 H5 H6 H7. exact (proj1 (fresh_upd_seg st n t idx added b st' sg H1 H2 H3 H4 H5 H6 H7)). Qed.

Lemma iou_fresh_upd_seg st n t idx added b st' sg :
  do_upd_seg st n (t, idx) added = Ok b st' -> seg st = Some sg ->
  is_node st n -> ~ In KTime (rp_act (ft st)) -> nodes_sane st sg ->
  (forall i, (i < length (frame_of sg t))%nat -> In (Z.of_nat i) idx ->
     label_at sg t i = n \/ (added = true /\ label_at sg t i = 0)) ->
  mask_of (paint_arr sg t idx (if added then n else 0)) (time_of st n) n <> [] ->
  edges_sane st -> iou_fresh st -> iou_fresh st'.
Proof. intros H1 H2 H3 H4 H5 H6 H7. exact (proj2 (fresh_upd_seg st n t idx added b st' sg H1 H2 H3 H4 H5 H6 H7)). Qed.

(* the IoU stored for the edges incident to the repainted node is recomputed from the new masks;
   stated directly: after UpdateNodeSeg every edge carries iou_of of the new array *)

Lemma rp_fresh_other st :
  (forall u v a b st', do_add_edge st u v a = Ok b st' -> rp_fresh st -> rp_fresh st') /\
  (forall u v b st', do_del_edge st u v = Ok b st' -> rp_fresh st -> rp_fresh st') /\
  (forall n new b st', do_upd_attrs st n new = Ok b st' -> incl (rp_act (ft st)) (rp_all (ft st)) -> rp_fresh st -> rp_fresh st') /\
  (forall s T L b st', do_upd_track st s T L = Ok b st' -> ~ In KTrack (rp_act (ft st)) -> ~ In KLin (rp_act (ft st)) ->
     rp_fresh st -> rp_fresh st') /\
  (forall n b st', do_del_node st n None = Ok b st' -> W_seg st -> rp_fresh st -> rp_fresh st') /\
  (forall n t idx b st' sg, do_del_node st n (Some (t, idx)) = Ok b st' -> seg st = Some sg ->
     nodes_sane st sg -> only_touches sg t idx n -> rp_fresh st -> rp_fresh st').
Proof.
  split; [|split; [|split; [|split; [|split]]]].
  - intros u v a b st' H. exact (proj1 (fresh_add_edge _ _ _ _ _ _ H)).
  - intros u v b st' H. exact (proj1 (fresh_del_edge _ _ _ _ _ H)).
  - intros n new b st' H Hi. exact (proj1 (fresh_upd_attrs _ _ _ _ _ H Hi)).
  - intros s T L b st' H H1 H2. exact (proj1 (fresh_upd_track _ _ _ _ _ _ H H1 H2)).
  - intros n b st' H HW. exact (proj1 (fresh_del_node_own _ _ _ _ H HW)).
  - intros n t idx b st' sg H Hs Hsane Ht. refine (proj1 (fresh_del_node _ _ _ _ _ H _)).
    intros sg1 p Hs1 Ep. rewrite Hs in Hs1. injection Hs1 as <-. cbn in Ep. injection Ep as <-. auto.
Qed.

Lemma iou_fresh_add_edge st u v a b st' : do_add_edge st u v a = Ok b st' -> iou_fresh st -> iou_fresh st'.
Proof. intros H. exact (proj2 (fresh_add_edge _ _ _ _ _ _ H)). Qed.

(* in particular the new edge carries the IoU of its endpoint masks (whatever the caller passed) *)
Lemma add_edge_iou st u v a b st' sg : do_add_edge st u v a = Ok b st' -> seg st = Some sg -> iou_act (ft st) = true ->
  edge st' u v /\ lookup KIou (edge_attrs st' u v) = Some (iou_of st' sg u v) /\ seg st' = Some sg.
Proof.
  intros Hdo Hs Hact. destruct (add_edge_effect st u v a) as (E1 & E2 & E3). rewrite Hdo in E1, E2, E3. cbn [rstate] in *.
  unfold do_add_edge in Hdo. destruct (negb (has_node st u)); [discriminate|]. destruct (negb (has_node st v)); [discriminate|].
  injection Hdo as _ Hst'.
  set (s1 := upd_g st {| nodes := nodes (g st); succs := set u (set v (update (edge_attrs st u v) a) (adj st u)) (succs (g st)) |}) in *.
  destruct (edge_put st s1 u v (update (edge_attrs st u v) a) eq_refl) as [P1 P2].
  assert (Hs1 : seg s1 = Some sg) by exact Hs. assert (Ha1 : iou_act (ft s1) = true) by exact Hact.
  destruct (iou_update_spec s1 sg [(u, v)] Hs1 Ha1) as (U1 & U2 & U3). rewrite Hst' in U1, U2, U3.
  assert (He1 : has_edge s1 u v = true) by (rewrite P1, !Z.eqb_refl; reflexivity).
  split; [unfold edge; now rewrite U1|]. split; [|now rewrite E1].
  rewrite (U2 u v (or_introl eq_refl) He1). f_equal. symmetry. now apply iou_of_nodes.
Qed.

Lemma iou_fresh_other st :
  (forall u v b st', do_del_edge st u v = Ok b st' -> iou_fresh st -> iou_fresh st') /\
  (forall n new b st', do_upd_attrs st n new = Ok b st' -> incl (rp_act (ft st)) (rp_all (ft st)) -> iou_fresh st -> iou_fresh st') /\
  (forall s T L b st', do_upd_track st s T L = Ok b st' -> ~ In KTrack (rp_act (ft st)) -> ~ In KLin (rp_act (ft st)) ->
     iou_fresh st -> iou_fresh st') /\
  (forall n b st', do_del_node st n None = Ok b st' -> W_seg st -> edges_sane st -> iou_fresh st -> iou_fresh st') /\
  (forall n t idx b st' sg, do_del_node st n (Some (t, idx)) = Ok b st' -> seg st = Some sg ->
     nodes_sane st sg -> only_touches sg t idx n -> edges_sane st -> iou_fresh st -> iou_fresh st').
Proof.
  split; [|split; [|split; [|split]]].
  - intros u v b st' H. exact (proj2 (fresh_del_edge _ _ _ _ _ H)).
  - intros n new b st' H Hi. exact (proj2 (fresh_upd_attrs _ _ _ _ _ H Hi)).
  - intros s T L b st' H H1 H2. exact (proj2 (fresh_upd_track _ _ _ _ _ _ H H1 H2)).
  - intros n b st' H HW. exact (proj2 (fresh_del_node_own _ _ _ _ H HW)).
  - intros n t idx b st' sg H Hs Hsane Ht. refine (proj2 (fresh_del_node _ _ _ _ _ H _)).
    intros sg1 p Hs1 Ep. rewrite Hs in Hs1. injection Hs1 as <-. cbn in Ep. injection Ep as <-. auto.
Qed.
