(* Feature switching never touches the label array, whatever the outcome; hence over every mixed
   session (edits of the whole interface, undo / redo, enable / disable with and without
   recomputation) tracks without a label array never acquire one. *)
From Coq Require Import ZArith List Bool Lia.
From FT Require Import Base.Dict Model.Edit Model.EditExec Model.Toggle Model.ToggleExec
  Proofs.EditInv Proofs.EditInit Proofs.EditSegNone Proofs.EditSessionsToggle.
Import ListNotations.
Open Scope Z_scope.

Lemma enable_seg st ks rc ctrk clin : seg (rstate (enable_features st ks rc ctrk clin)) = seg st.
Proof.
  unfold enable_features. destruct (negb _); [reflexivity|]. destruct rc; [|reflexivity]. cbn [rstate].
  set (s0 := upd_ft st _).
  rewrite (ch_seg _ _ _ (chg_trk_compute (iou_compute (rp_compute s0 ks) ks) ks ctrk clin)).
  rewrite (ch_seg _ _ _ (chg_iou_compute (fun _ => False) (rp_compute s0 ks) ks)).
  rewrite (ch_seg _ _ _ (chg_rp_compute s0 ks)). reflexivity.
Qed.

Lemma disable_seg st ks : seg (rstate (disable_features st ks)) = seg st.
Proof. unfold disable_features. destruct (negb _); reflexivity. Qed.

Theorem step2_seg_none st o : seg st = None -> seg (fst (step2 st o)) = None.
Proof.
  intros E. destruct o as [e|ks rc ctrk clin|ks]; cbn [step2].
  - now apply step_seg_none.
  - rewrite fst_fin, enable_seg. exact E.
  - rewrite fst_fin, disable_seg. exact E.
Qed.

Theorem run2_seg_none : forall ops st, seg st = None -> seg (run2 st ops) = None.
Proof.
  induction ops as [|o r IH]; intros st E; [exact E|].
  change (run2 st (o :: r)) with (run2 (fst (step2 st o)) r). apply IH. now apply step2_seg_none.
Qed.

Print Assumptions run2_seg_none.

(* the same for the shape of an array that is there *)
From FT Require Import Proofs.EditSeg Proofs.EditSegShape.
Theorem step2_shape st o : shp st (fst (step2 st o)).
Proof.
  destruct o as [e|ks rc ctrk clin|ks]; cbn [step2].
  - apply step_shape.
  - rewrite fst_fin. apply shp_of_eq. unfold seg_eq. apply enable_seg.
  - rewrite fst_fin. apply shp_of_eq. unfold seg_eq. apply disable_seg.
Qed.
Theorem run2_shape : forall ops st, shp st (run2 st ops).
Proof.
  induction ops as [|o r IH]; intros st; [apply shp_refl|].
  change (run2 st (o :: r)) with (run2 (fst (step2 st o)) r). eapply shp_trans; [apply step2_shape|apply IH].
Qed.
Corollary run2_keeps_array_shape ops st sg : seg st = Some sg ->
  exists sg', seg (run2 st ops) = Some sg' /\ same_shape sg' sg.
Proof. intros E. pose proof (run2_shape ops st) as H. apply shp_spec in H. rewrite E in H. exact H. Qed.
Print Assumptions run2_keeps_array_shape.
