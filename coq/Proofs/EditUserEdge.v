(* UserDeleteEdge and UserAddEdge on well-formed states: they succeed exactly when their
   checks pass, a refusal returns the untouched state, and the result is again a
   forward-in-time binary forest whose edge set is the expected one (C03, C11). *)
From Coq Require Import ZArith List Bool Lia.
From FT Require Import Base.Dict Model.Edit Proofs.DictLemmas Proofs.EditInv Proofs.EditGraph Proofs.EditWalk Proofs.EditBasic.
Import ListNotations.
Open Scope Z_scope.

(* what a composite edit may change besides the edge relation: track / lineage ids and lookups *)
Record gstep (st st' : state) : Prop := {
  gs_nodes : node_ids st' = node_ids st;
  gs_attr : forall n j, j <> KTrack -> j <> KLin -> attr st' n j = attr st n j;
  gs_seg : seg st' = seg st; gs_ft : ft st' = ft st;
  gs_undo : undo_stack st' = undo_stack st; gs_redo : redo_stack st' = redo_stack st;
  gs_rlog : rlog st' = rlog st; gs_nctr : nctr st' = nctr st
}.

Lemma gstep_refl st : gstep st st.
Proof. constructor; auto. Qed.
Lemma gstep_trans a b c : gstep a b -> gstep b c -> gstep a c.
Proof.
  intros [A1 A2 A3 A4 A5 A6 A7 A8] [B1 B2 B3 B4 B5 B6 B7 B8]. constructor; try congruence.
  intros n j H1 H2. rewrite B2, A2; auto.
Qed.
Lemma gstep_time a b n : gstep a b -> time_of b n = time_of a n.
Proof. intros H. unfold time_of, zattr. rewrite (gs_attr _ _ H); [reflexivity|discriminate|discriminate]. Qed.
Lemma gstep_is_node a b n : gstep a b -> (is_node b n <-> is_node a n).
Proof. intros H. unfold is_node. now rewrite (gs_nodes _ _ H). Qed.

Lemma same_struct_gstep s s' : same_struct s s' -> gstep s s'.
Proof. intros (H1&H2&H3&H4&H5&H6&H7&H8&H9&H10). constructor; auto. Qed.

Lemma rest_eq_gstep s s' : node_ids s' = node_ids s -> (forall n k, attr s' n k = attr s n k) -> rest_eq s s' -> gstep s s'.
Proof. intros H1 H2 (R1&R2&R3&R4&R5&R6&R7). constructor; auto. Qed.

(* UpdateTrackIDs as a step on well-formed states *)
Lemma upd_track_step st start newT newL : W_dict st -> W_forest st -> is_node st start ->
  exists b st', do_upd_track st start newT newL = Ok b st' /\ W_dict st' /\ W_forest st' /\ gstep st st' /\
                (forall a c, edge st' a c <-> edge st a c) /\ (forall a, successors st' a = successors st a).
Proof.
  intros Hd Hf Hn. destruct (do_upd_track_ok st start newT newL Hd Hf Hn) as (b & st' & H).
  exists b, st'. split; [exact H|].
  pose proof (do_upd_track_struct st start newT newL _ eq_refl) as Hs. rewrite H in Hs. cbn in Hs.
  pose proof (do_upd_track_vz st start newT newL) as Hv. rewrite H in Hv. cbn in Hv.
  split; [now apply (same_struct_W_dict st st')|]. split; [now apply (same_struct_W_forest st st')|].
  split; [now apply same_struct_gstep|]. split; [intros a c; now apply same_struct_edge|intros a; now apply same_struct_successors].
Qed.

Lemma filter_remove_length (l : list Z) v : NoDup l -> In v l ->
  length (filter (fun x => negb (v =? x)) l) = (length l - 1)%nat.
Proof.
  induction l as [|y r IH]; intros Hnd Hin; [destruct Hin|]. inversion Hnd as [|? ? Hy Hr]; subst. cbn [filter].
  destruct (Z.eqb_spec v y) as [->|Hn]; cbn [negb length].
  - assert (filter (fun x => negb (y =? x)) r = r) as ->.
    { clear IH Hnd Hr Hin. induction r as [|z r' IH']; cbn; [reflexivity|].
      destruct (Z.eqb_spec y z) as [->|]; [exfalso; apply Hy; now left|]. cbn. f_equal. apply IH'. intros H. apply Hy. now right. }
    lia.
  - destruct Hin as [->|Hin]; [contradiction|]. rewrite (IH Hr Hin). destruct r; [destruct Hin|cbn; lia].
Qed.

(* ------------------------------------------------------------------ UserDeleteEdge *)
Theorem ude_core_spec st u v : W_dict st -> W_forest st ->
  (~ edge st u v -> user_delete_edge_core st u v = Err (EInvalid false) st) /\
  (edge st u v -> exists a st', user_delete_edge_core st u v = Ok a st' /\
      W_dict st' /\ W_forest st' /\ gstep st st' /\
      (forall x y, edge st' x y <-> edge st x y /\ ~ (x = u /\ y = v)) /\
      (forall x, x <> u -> successors st' x = successors st x) /\
      successors st' u = filter (fun x => negb (v =? x)) (successors st u)).
Proof.
  intros Hd Hf. split.
  - intros Hne. unfold user_delete_edge_core. unfold edge in Hne. destruct (has_edge st u v); [congruence|reflexivity].
  - intros He. unfold user_delete_edge_core. pose proof He as He'. unfold edge in He'. rewrite He'. cbn [negb].
    destruct (do_del_edge_spec st u v He) as (b1 & s1 & H1 & _ & _ & Hs1 & _). rewrite H1. cbn [bind].
    destruct (do_del_edge_WS st u v b1 s1 Hd Hf H1) as (Hd1 & Hf1 & He1 & Hn1 & Ha1 & Hr1).
    assert (gstep st s1) as G1 by (now apply rest_eq_gstep).
    assert (Nu : is_node s1 u) by (apply (gstep_is_node _ _ _ G1); apply (wd_edge_nodes _ Hd u v He)).
    assert (Nv : is_node s1 v) by (apply (gstep_is_node _ _ _ G1); apply (wd_edge_nodes _ Hd u v He)).
    assert (Hlen : length (successors s1 u) = (length (successors st u) - 1)%nat).
    { rewrite Hs1, Z.eqb_refl. apply filter_remove_length; [apply (wd_adj_nodup _ Hd)|now apply edge_successors]. }
    pose proof (wf_out _ Hf u) as Hout.
    assert (Hs1u : successors s1 u = filter (fun x => negb (v =? x)) (successors st u)) by (now rewrite Hs1, Z.eqb_refl).
    assert (Hs1x : forall x, x <> u -> successors s1 x = successors st x).
    { intros x Hx. rewrite Hs1. destruct (Z.eqb_spec x u); [contradiction|reflexivity]. }
    unfold out_degree. destruct (successors s1 u) as [|sib rest] eqn:Es.
    + (* plain edge: the orphaned tail gets a fresh track and lineage *)
      cbn [length Z.of_nat Z.eqb].
      destruct (upd_track_step s1 v (next_trk s1) (Some (next_lin s1)) Hd1 Hf1 Nv) as (b2 & s2 & H2 & Hd2 & Hf2 & G2 & E2 & S2).
      rewrite H2. cbn [bind]. eexists _, s2. split; [reflexivity|].
      split; [exact Hd2|]. split; [exact Hf2|]. split; [eapply gstep_trans; eauto|]. split; [|split].
      * intros x y. rewrite E2. apply He1.
      * intros x Hx. rewrite S2. now apply Hs1x.
      * rewrite S2, Es. exact Hs1u.
    + destruct rest as [|z rest'].
      * (* division edge: the sibling joins the parent's track, the cut subtree a new lineage *)
        cbn [length]. change (Z.of_nat 1 =? 0) with false. change (Z.of_nat 1 =? 1) with true. cbv iota.
        destruct (wd_track _ Hd1 u Nu) as [t Ht]. apply zattr_attr in Ht. rewrite Ht.
        assert (Nsib : is_node s1 sib).
        { apply (wd_edge_nodes _ Hd1 u sib). apply edge_successors. rewrite Es. now left. }
        destruct (upd_track_step s1 sib t None Hd1 Hf1 Nsib) as (b2 & s2 & H2 & Hd2 & Hf2 & G2 & E2 & S2).
        rewrite H2. cbn [bind].
        assert (Nv2 : is_node s2 v) by (now apply (gstep_is_node _ _ _ G2)).
        destruct (wd_track _ Hd2 v Nv2) as [tv Htv]. apply zattr_attr in Htv. rewrite Htv.
        destruct (upd_track_step s2 v tv (Some (next_lin s2)) Hd2 Hf2 Nv2) as (b3 & s3 & H3 & Hd3 & Hf3 & G3 & E3 & S3).
        rewrite H3. cbn [bind]. eexists _, s3. split; [reflexivity|].
        split; [exact Hd3|]. split; [exact Hf3|]. split; [eapply gstep_trans; [exact G1|eapply gstep_trans; eauto]|]. split; [|split].
        -- intros x y. rewrite E3, E2. apply He1.
        -- intros x Hx. rewrite S3, S2. now apply Hs1x.
        -- rewrite S3, S2, Es. exact Hs1u.
      * exfalso. cbn [length] in Hlen. lia.
Qed.

Corollary ude_core_refusal_unchanged st u v e st' : W_dict st -> W_forest st ->
  user_delete_edge_core st u v = Err e st' -> st' = st /\ e = EInvalid false /\ ~ edge st u v.
Proof.
  intros Hd Hf H. destruct (ude_core_spec st u v Hd Hf) as [Hn Hy].
  destruct (has_edge st u v) eqn:E.
  - destruct (Hy E) as (a & s & H' & _). congruence.
  - assert (~ edge st u v) as Hne by (unfold edge; congruence).
    rewrite (Hn Hne) in H. injection H as <- <-. auto.
Qed.

(* ------------------------------------------------------------------ UserAddEdge *)
Lemma in_degree_pos st v : in_degree st v >? 0 = true <-> exists p, In p (predecessors st v).
Proof.
  unfold in_degree. destruct (predecessors st v) as [|p r]; cbn [length].
  - split; [discriminate|intros [p []]].
  - split; [intros _; exists p; now left|intros _; apply Z.gtb_lt; lia].
Qed.

(* the checks of UserAddEdge that refuse before anything is touched *)
Definition uae_refused st u v (force : bool) : option err :=
  if negb (has_node st u) then Some (EInvalid false) else
  if negb (has_node st v) then Some (EInvalid false) else
  if time_of st u >=? time_of st v then Some (EInvalid false) else
  if (out_degree st u - (if has_edge st u v then 1 else 0)) >? 1 then Some (EInvalid false) else
  if (in_degree st v >? 0) && negb force then Some (EInvalid true) else None.

Theorem uae_core_spec st u v force : W_dict st -> W_forest st ->
  match uae_refused st u v force with
  | Some e => user_add_edge_core st u v force = Err e st
  | None => exists a st', user_add_edge_core st u v force = Ok a st' /\
      W_dict st' /\ W_forest st' /\ gstep st st' /\
      (forall x y, edge st' x y <-> (edge st x y /\ y <> v) \/ (x = u /\ y = v))
  end.
Proof.
  intros Hd Hf. unfold uae_refused, user_add_edge_core.
  destruct (has_node st u) eqn:Eu; cbn [negb]; [|reflexivity].
  destruct (has_node st v) eqn:Ev; cbn [negb]; [|reflexivity].
  destruct (time_of st u >=? time_of st v) eqn:Et; [reflexivity|].
  destruct (out_degree st u - (if has_edge st u v then 1 else 0) >? 1) eqn:Eo; [reflexivity|].
  apply has_node_is_node in Eu. apply has_node_is_node in Ev.
  assert (Ht : time_of st u < time_of st v) by (rewrite Z.geb_leb in Et; apply Z.leb_gt in Et; lia).
  assert (Ho : out_degree st u - (if has_edge st u v then 1 else 0) <= 1) by (rewrite Z.gtb_ltb in Eo; apply Z.ltb_ge in Eo; lia).
  (* the forced removal of the merge edge, if any *)
  assert (Hpre : match (if in_degree st v >? 0 then if negb force then None else Some true else Some false) with
                 | None => True
                 | Some _ => exists pre s, (if in_degree st v >? 0 then
                                if negb force then Err (EInvalid true) st
                                else match predecessors st v with
                                     | p :: _ => do a, s <- user_delete_edge st p v false; Ok [a] s
                                     | [] => Ok [] st end
                              else Ok [] st) = Ok pre s /\
                     W_dict s /\ W_forest s /\ gstep st s /\
                     (forall x y, edge s x y <-> edge st x y /\ y <> v) /\
                     out_degree s u <= 1 /\ has_edge s u v = false
                 end).
  { destruct (in_degree st v >? 0) eqn:Ei.
    - destruct force; cbn [negb]; [|exact I].
      apply in_degree_pos in Ei. destruct Ei as [p0 Hp0].
      destruct (predecessors st v) as [|p r] eqn:Ep; [destruct Hp0|].
      assert (Hpv : is_node st p /\ edge st p v) by (apply in_predecessors; rewrite Ep; now left).
      destruct Hpv as [Np Epv].
      destruct (ude_core_spec st p v Hd Hf) as [_ Hy]. destruct (Hy Epv) as (a & s & H & Hds & Hfs & Gs & Es & Sx & Sp).
      unfold user_delete_edge, top_wrap. rewrite H. cbn [bind].
      exists [a], s. split; [reflexivity|]. split; [exact Hds|]. split; [exact Hfs|]. split; [exact Gs|].
      assert (Eonly : forall x y, edge s x y <-> edge st x y /\ y <> v).
      { intros x y. rewrite Es. split.
        - intros [H1 H2]. split; [exact H1|]. intros ->. apply H2. split; [|reflexivity]. apply (wf_in _ Hf x p v H1 Epv).
        - intros [H1 H2]. split; [exact H1|]. intros [_ ->]. contradiction. }
      split; [exact Eonly|]. split.
      + unfold out_degree in *. destruct (Z.eq_dec u p) as [->|Hup].
        * rewrite Sp. rewrite filter_remove_length; [|apply (wd_adj_nodup _ Hd)|now apply edge_successors].
          unfold edge in Epv. rewrite Epv in Ho. lia.
        * rewrite (Sx u Hup). destruct (has_edge st u v) eqn:Euv; [|lia].
          exfalso. apply Hup. apply (wf_in _ Hf u p v); [exact Euv|exact Epv].
      + destruct (has_edge s u v) eqn:E; [|reflexivity]. apply Eonly in E. destruct E as [_ E]. congruence.
    - exists [], st. split; [reflexivity|]. split; [exact Hd|]. split; [exact Hf|]. split; [apply gstep_refl|].
      assert (Hnop : forall p, ~ edge st p v).
      { intros p Hp. assert (In p (predecessors st v)) as Hin by (apply in_predecessors; split; [apply (wd_edge_nodes _ Hd p v Hp)|exact Hp]).
        assert (in_degree st v >? 0 = true) by (apply in_degree_pos; eauto). congruence. }
      split; [|split].
      + intros x y. split; [intros H; split; [exact H|intros ->; now apply (Hnop x)]|tauto].
      + destruct (has_edge st u v) eqn:E; [exfalso; now apply (Hnop u)|lia].
      + destruct (has_edge st u v) eqn:E; [exfalso; now apply (Hnop u)|reflexivity]. }
  destruct (in_degree st v >? 0) eqn:Ei; [destruct force; cbn [negb andb] in *|cbn [andb]].
  2: { reflexivity. }
  all: destruct Hpre as (pre & s & Hp & Hds & Hfs & Gs & Es & Hod & Hne); rewrite Hp; cbn [bind].
  all: assert (Nu : is_node s u) by (now apply (gstep_is_node _ _ _ Gs)).
  all: assert (Nv : is_node s v) by (now apply (gstep_is_node _ _ _ Gs)).
  all: assert (Hts : time_of s u < time_of s v) by (rewrite !(gstep_time _ _ _ Gs); exact Ht).
  all: assert (Hod' : (length (successors s u) <= 1)%nat) by (unfold out_degree in Hod; lia).
  all: unfold out_degree; destruct (successors s u) as [|c rest] eqn:Esu.
  all: try (destruct rest as [|c2 rest']; [|exfalso; cbn [length] in Hod'; lia]).
  (* the four cases: (forced / no parent) x (join / division) *)
  all: cbn [length]; try change (Z.of_nat 0 =? 0) with true; try change (Z.of_nat 1 =? 0) with false; try change (Z.of_nat 1 =? 1) with true; cbv iota.
  all: destruct (wd_track _ Hds u Nu) as [t Htk]; apply zattr_attr in Htk.
  - (* forced, join *)
    rewrite Htk.
    destruct (upd_track_step s v t (zattr s u KLin) Hds Hfs Nv) as (b & s2 & H2 & Hd2 & Hf2 & G2 & E2 & S2).
    rewrite H2. cbn [bind].
    assert (Nu2 : is_node s2 u) by (now apply (gstep_is_node _ _ _ G2)).
    assert (Nv2 : is_node s2 v) by (now apply (gstep_is_node _ _ _ G2)).
    destruct (do_add_edge_spec s2 u v [] Nu2 Nv2) as (b' & s3 & H3 & _). rewrite H3. cbn [bind].
    destruct (do_add_edge_WS s2 u v [] b' s3 Hd2 Hf2 H3) as (Hd3 & Hf3 & E3 & N3 & A3 & R3).
    { rewrite !(gstep_time _ _ _ G2). exact Hts. }
    { intros q Hq. apply E2, Es in Hq. destruct Hq as [_ Hq]. congruence. }
    { right. rewrite S2, Esu. cbn. lia. }
    eexists _, s3. split; [reflexivity|]. split; [exact Hd3|]. split; [exact Hf3|].
    split; [eapply gstep_trans; [exact Gs|eapply gstep_trans; [exact G2|now apply rest_eq_gstep]]|].
    intros x y. rewrite E3, E2, Es. tauto.
  - (* forced, division *)
    destruct (upd_track_step s c (next_trk s) None Hds Hfs) as (b & s2 & H2 & Hd2 & Hf2 & G2 & E2 & S2).
    { apply (wd_edge_nodes _ Hds u c). apply edge_successors. rewrite Esu. now left. }
    rewrite H2. cbn [bind].
    assert (Nu2 : is_node s2 u) by (now apply (gstep_is_node _ _ _ G2)).
    assert (Nv2 : is_node s2 v) by (now apply (gstep_is_node _ _ _ G2)).
    destruct (wd_track _ Hd2 v Nv2) as [tv Htv]. apply zattr_attr in Htv. rewrite Htv.
    destruct (upd_track_step s2 v tv (zattr s2 u KLin) Hd2 Hf2 Nv2) as (b2 & s3 & H3 & Hd3 & Hf3 & G3 & E3 & S3).
    rewrite H3. cbn [bind].
    assert (Nu3 : is_node s3 u) by (now apply (gstep_is_node _ _ _ G3)).
    assert (Nv3 : is_node s3 v) by (now apply (gstep_is_node _ _ _ G3)).
    destruct (do_add_edge_spec s3 u v [] Nu3 Nv3) as (b' & s4 & H4 & _). rewrite H4. cbn [bind].
    destruct (do_add_edge_WS s3 u v [] b' s4 Hd3 Hf3 H4) as (Hd4 & Hf4 & E4 & N4 & A4 & R4).
    { rewrite !(gstep_time _ _ _ G3), !(gstep_time _ _ _ G2). exact Hts. }
    { intros q Hq. apply E3, E2, Es in Hq. destruct Hq as [_ Hq]. congruence. }
    { right. rewrite S3, S2, Esu. cbn. lia. }
    eexists _, s4. split; [reflexivity|]. split; [exact Hd4|]. split; [exact Hf4|].
    split; [eapply gstep_trans; [exact Gs|eapply gstep_trans; [exact G2|eapply gstep_trans; [exact G3|now apply rest_eq_gstep]]]|].
    intros x y. rewrite E4, E3, E2, Es. tauto.
  - (* no parent, join *)
    rewrite Htk.
    destruct (upd_track_step s v t (zattr s u KLin) Hds Hfs Nv) as (b & s2 & H2 & Hd2 & Hf2 & G2 & E2 & S2).
    rewrite H2. cbn [bind].
    assert (Nu2 : is_node s2 u) by (now apply (gstep_is_node _ _ _ G2)).
    assert (Nv2 : is_node s2 v) by (now apply (gstep_is_node _ _ _ G2)).
    destruct (do_add_edge_spec s2 u v [] Nu2 Nv2) as (b' & s3 & H3 & _). rewrite H3. cbn [bind].
    destruct (do_add_edge_WS s2 u v [] b' s3 Hd2 Hf2 H3) as (Hd3 & Hf3 & E3 & N3 & A3 & R3).
    { rewrite !(gstep_time _ _ _ G2). exact Hts. }
    { intros q Hq. apply E2, Es in Hq. destruct Hq as [_ Hq]. congruence. }
    { right. rewrite S2, Esu. cbn. lia. }
    eexists _, s3. split; [reflexivity|]. split; [exact Hd3|]. split; [exact Hf3|].
    split; [eapply gstep_trans; [exact Gs|eapply gstep_trans; [exact G2|now apply rest_eq_gstep]]|].
    intros x y. rewrite E3, E2, Es. tauto.
  - (* no parent, division *)
    destruct (upd_track_step s c (next_trk s) None Hds Hfs) as (b & s2 & H2 & Hd2 & Hf2 & G2 & E2 & S2).
    { apply (wd_edge_nodes _ Hds u c). apply edge_successors. rewrite Esu. now left. }
    rewrite H2. cbn [bind].
    assert (Nu2 : is_node s2 u) by (now apply (gstep_is_node _ _ _ G2)).
    assert (Nv2 : is_node s2 v) by (now apply (gstep_is_node _ _ _ G2)).
    destruct (wd_track _ Hd2 v Nv2) as [tv Htv]. apply zattr_attr in Htv. rewrite Htv.
    destruct (upd_track_step s2 v tv (zattr s2 u KLin) Hd2 Hf2 Nv2) as (b2 & s3 & H3 & Hd3 & Hf3 & G3 & E3 & S3).
    rewrite H3. cbn [bind].
    assert (Nu3 : is_node s3 u) by (now apply (gstep_is_node _ _ _ G3)).
    assert (Nv3 : is_node s3 v) by (now apply (gstep_is_node _ _ _ G3)).
    destruct (do_add_edge_spec s3 u v [] Nu3 Nv3) as (b' & s4 & H4 & _). rewrite H4. cbn [bind].
    destruct (do_add_edge_WS s3 u v [] b' s4 Hd3 Hf3 H4) as (Hd4 & Hf4 & E4 & N4 & A4 & R4).
    { rewrite !(gstep_time _ _ _ G3), !(gstep_time _ _ _ G2). exact Hts. }
    { intros q Hq. apply E3, E2, Es in Hq. destruct Hq as [_ Hq]. congruence. }
    { right. rewrite S3, S2, Esu. cbn. lia. }
    eexists _, s4. split; [reflexivity|]. split; [exact Hd4|]. split; [exact Hf4|].
    split; [eapply gstep_trans; [exact Gs|eapply gstep_trans; [exact G2|eapply gstep_trans; [exact G3|now apply rest_eq_gstep]]]|].
    intros x y. rewrite E4, E3, E2, Es. tauto.
Qed.
