(* Proofs about Model/LabelUtils.v (property C19). *)
From Coq Require Import ZArith List Bool Lia Arith.
From FT Require Import Model.LabelUtils.
Import ListNotations.
Open Scope Z_scope.

Definition label_at (fs : list (list Z)) (i p : nat) : Z := nth p (nth i fs []) 0.
Definition nonneg (fs : list (list Z)) : Prop := Forall (Forall (fun x => 0 <= x)) fs.

(* ------------------------------------------------------------------ *)
(* ensure_unique_labels                                                *)
(* ------------------------------------------------------------------ *)

Lemma shift_label_zero m x : 0 <= m -> 0 <= x -> (shift_label m x = 0 <-> x = 0).
Proof.
  intros Hm Hx. unfold shift_label. destruct (Z.eqb_spec x 0) as [->|Hne]; split; intros; try reflexivity; try lia.
Qed.

Lemma shift_label_inj m x y : 0 <= m -> 0 <= x -> 0 <= y ->
  (shift_label m x = shift_label m y <-> x = y).
Proof.
  intros Hm Hx Hy. unfold shift_label.
  destruct (Z.eqb_spec x 0) as [->|Hx0]; destruct (Z.eqb_spec y 0) as [->|Hy0]; split; intros; try reflexivity; try lia.
Qed.

Lemma fmax_ge f x : In x f -> x <= fmax f.
Proof.
  induction f as [|y f IH]; cbn [fmax fold_right In]; [tauto|].
  intros [->|H]; [lia|]. specialize (IH H). unfold fmax in IH. lia.
Qed.

Lemma fmax_nonneg f : 0 <= fmax f.
Proof. induction f as [|y f IH]; cbn [fmax fold_right]; [lia|]. unfold fmax in IH. lia. Qed.

Lemma eul_length m fs : length (eul m fs) = length fs.
Proof. revert m; induction fs as [|f r IH]; intros m; cbn [eul length]; [reflexivity|]. now rewrite IH. Qed.

(* every output frame is the input frame shifted by some offset k >= m *)
Lemma eul_nth : forall fs m i, 0 <= m ->
  exists k, m <= k /\ nth i (eul m fs) [] = shift_frame k (nth i fs []).
Proof.
  induction fs as [|f r IH]; intros m i Hm.
  - exists m. split; [lia|]. destruct i; reflexivity.
  - cbn [eul]. destruct i as [|i]; cbn [nth].
    + exists m. split; [lia|reflexivity].
    + destruct (IH (Z.max m (fmax (shift_frame m f))) i ltac:(lia)) as (k & Hk & E).
      exists k. split; [lia|exact E].
Qed.

(* every non-zero output label is strictly above the offset the loop started with *)
Lemma eul_above : forall fs m, 0 <= m -> nonneg fs ->
  forall i x, In x (nth i (eul m fs) []) -> x <> 0 -> m < x.
Proof.
  intros fs m Hm Hnn i x Hin Hx.
  destruct (eul_nth fs m i Hm) as (k & Hk & E). rewrite E in Hin.
  unfold shift_frame in Hin. apply in_map_iff in Hin. destruct Hin as (y & <- & Hy).
  assert (0 <= y) as Hy0.
  { destruct (Nat.lt_ge_cases i (length fs)) as [Hlt|Hge].
    - unfold nonneg in Hnn. rewrite Forall_forall in Hnn.
      specialize (Hnn (nth i fs []) (nth_In _ _ Hlt)). rewrite Forall_forall in Hnn. auto.
    - rewrite nth_overflow in Hy by lia. destruct Hy. }
  unfold shift_label in *. destruct (Z.eqb_spec y 0); [congruence|lia].
Qed.

(* labels of an earlier output frame are strictly below the non-zero labels of a later one *)
Lemma eul_later : forall fs m, 0 <= m -> nonneg fs ->
  forall i j x y, (i < j)%nat -> In x (nth i (eul m fs) []) -> In y (nth j (eul m fs) []) -> y <> 0 -> x < y.
Proof.
  induction fs as [|f r IH]; intros m Hm Hnn i j x y Hij Hx Hy Hy0.
  - destruct i; destruct Hx.
  - inversion Hnn as [|? ? Hf Hr]; subst. cbn [eul] in *.
    destruct j as [|j]; [lia|]. cbn [nth] in Hy.
    destruct i as [|i]; cbn [nth] in Hx.
    + pose proof (fmax_ge _ _ Hx) as Hle.
      pose proof (eul_above r (Z.max m (fmax (shift_frame m f))) ltac:(lia) Hr j y Hy Hy0). lia.
    + apply (IH (Z.max m (fmax (shift_frame m f))) ltac:(lia) Hr i j x y ltac:(lia) Hx Hy Hy0).
Qed.

Lemma label_at_in_or_zero fs i p : In (label_at fs i p) (nth i fs []) \/ label_at fs i p = 0.
Proof.
  unfold label_at. destruct (nth_in_or_default p (nth i fs []) 0) as [H|H]; [left|right]; assumption.
Qed.

Lemma label_at_nonneg fs i p : nonneg fs -> 0 <= label_at fs i p.
Proof.
  intros Hnn. destruct (label_at_in_or_zero fs i p) as [H|H]; [|lia].
  destruct (Nat.lt_ge_cases i (length fs)) as [Hlt|Hge].
  - unfold nonneg in Hnn. rewrite Forall_forall in Hnn.
    specialize (Hnn _ (nth_In _ [] Hlt)). rewrite Forall_forall in Hnn. auto.
  - rewrite nth_overflow in H by lia. destruct H.
Qed.

Lemma label_at_shift k fs out i p :
  nth i out [] = shift_frame k (nth i fs []) ->
  label_at out i p = shift_label k (label_at fs i p).
Proof.
  intros E. unfold label_at. rewrite E. unfold shift_frame.
  destruct (Nat.lt_ge_cases p (length (nth i fs []))) as [Hlt|Hge].
  - rewrite (nth_indep _ 0 (shift_label k 0)) by (rewrite map_length; exact Hlt). apply map_nth.
  - rewrite !nth_overflow; [reflexivity| lia | rewrite map_length; lia].
Qed.

(* C19, first half: shape and per-frame partition unchanged *)
Theorem unique_labels_partition : forall fs, nonneg fs ->
  let out := ensure_unique_labels fs in
  length out = length fs /\
  (forall i, length (nth i out []) = length (nth i fs [])) /\
  (forall i p, label_at out i p = 0 <-> label_at fs i p = 0) /\
  (forall i p q, label_at out i p = label_at out i q <-> label_at fs i p = label_at fs i q).
Proof.
  intros fs Hnn out. unfold out, ensure_unique_labels. split; [apply eul_length|]. split; [|split].
  - intros i. destruct (eul_nth fs 0 i ltac:(lia)) as (k & _ & E). rewrite E. apply map_length.
  - intros i p. destruct (eul_nth fs 0 i ltac:(lia)) as (k & Hk & E).
    rewrite (label_at_shift k fs _ i p E). apply shift_label_zero; [lia|apply label_at_nonneg; exact Hnn].
  - intros i p q. destruct (eul_nth fs 0 i ltac:(lia)) as (k & Hk & E).
    rewrite !(label_at_shift k fs _ i _ E).
    apply shift_label_inj; [lia|apply label_at_nonneg; exact Hnn|apply label_at_nonneg; exact Hnn].
Qed.

(* C19, second half: no non-zero label occurs in two different frames *)
Theorem unique_labels_global : forall fs, nonneg fs ->
  let out := ensure_unique_labels fs in
  forall i j p q, label_at out i p = label_at out j q -> label_at out i p <> 0 -> i = j.
Proof.
  intros fs Hnn out i j p q E Hx. unfold out, ensure_unique_labels in *.
  destruct (label_at_in_or_zero (eul 0 fs) i p) as [Hi|Hi]; [|contradiction].
  destruct (label_at_in_or_zero (eul 0 fs) j q) as [Hj|Hj]; [|congruence].
  destruct (Nat.lt_trichotomy i j) as [Hlt|[Heq|Hgt]]; [|exact Heq|].
  - pose proof (eul_later fs 0 ltac:(lia) Hnn i j _ _ Hlt Hi Hj ltac:(congruence)). lia.
  - pose proof (eul_later fs 0 ltac:(lia) Hnn j i _ _ Hgt Hj Hi Hx). lia.
Qed.

(* multi-hypothesis variant: the reshape to (H*T, ...) and back is the identity on
   the flattened frame list, so both theorems above apply to (h, t) pairs *)
Lemma regroup_concat {A} : forall (hs : list (list A)) (l : list A),
  length l = length (concat hs) ->
  concat (regroup (map (@length _) hs) l) = l /\
  map (@length _) (regroup (map (@length _) hs) l) = map (@length _) hs.
Proof.
  induction hs as [|h r IH]; intros l Hl; cbn [map regroup concat] in *.
  - destruct l; [split; reflexivity|discriminate].
  - rewrite app_length in Hl.
    destruct (IH (skipn (length h) l)) as [E1 E2].
    { rewrite skipn_length. lia. }
    split.
    + rewrite E1. apply firstn_skipn.
    + cbn [map]. rewrite E2. f_equal. rewrite firstn_length. lia.
Qed.

Theorem unique_labels_multiseg : forall hs,
  let out := ensure_unique_labels_multiseg hs in
  concat out = ensure_unique_labels (concat hs) /\ map (@length _) out = map (@length _) hs.
Proof.
  intros hs out. unfold out, ensure_unique_labels_multiseg.
  apply regroup_concat. unfold ensure_unique_labels. apply eul_length.
Qed.

(* ------------------------------------------------------------------ *)
(* relabel_segmentation_with_track_id                                  *)
(* ------------------------------------------------------------------ *)

Definition same_shape (a b : list (list Z)) : Prop := map (@length _) a = map (@length _) b.

Lemma same_shape_nth a b i : same_shape a b -> length (nth i a []) = length (nth i b []).
Proof.
  unfold same_shape. intros H.
  assert (nth i (map (@length _) a) 0%nat = nth i (map (@length _) b) 0%nat) as E by now rewrite H.
  change 0%nat with (@length Z []) in E. now rewrite !map_nth in E.
Qed.

Lemma same_shape_length a b : same_shape a b -> length a = length b.
Proof. unfold same_shape. intros H. apply (f_equal (@length _)) in H. now rewrite !map_length in H. Qed.

Lemma upd_nth_length {A} (g : A -> A) : forall l i, length (upd_nth i g l) = length l.
Proof. induction l as [|x r IH]; intros [|i]; cbn; auto. Qed.

Lemma nth_upd_nth {A} (g : A -> A) (d : A) : forall l i j, (i < length l)%nat ->
  nth j (upd_nth i g l) d = if Nat.eqb j i then g (nth i l d) else nth j l d.
Proof.
  induction l as [|x r IH]; intros i j Hi; [cbn in Hi; lia|].
  destruct i as [|i]; destruct j as [|j]; cbn [upd_nth nth Nat.eqb]; try reflexivity.
  apply IH. cbn in Hi. lia.
Qed.

Lemma nth_upd_nth_overflow {A} (g : A -> A) (d : A) : forall l i j, (length l <= i)%nat ->
  nth j (upd_nth i g l) d = nth j l d.
Proof.
  induction l as [|x r IH]; intros i j Hi; [destruct i; reflexivity|].
  destruct i as [|i]; [cbn in Hi; lia|]. destruct j as [|j]; cbn [upd_nth nth]; [reflexivity|].
  apply IH. cbn in Hi. lia.
Qed.

Lemma paint_frame_length oldf s c newf : length oldf = length newf -> length (paint_frame oldf s c newf) = length newf.
Proof. intros H. unfold paint_frame. rewrite map_length, combine_length. lia. Qed.

Lemma paint_frame_nth oldf s c newf p : length oldf = length newf -> (p < length oldf)%nat ->
  nth p (paint_frame oldf s c newf) 0 = if nth p oldf 0 =? s then c else nth p newf 0.
Proof.
  intros Hl Hp. unfold paint_frame.
  set (g := fun ab : Z * Z => if fst ab =? s then c else snd ab).
  rewrite (nth_indep _ 0 (g (0, 0))) by (rewrite map_length, combine_length; lia).
  rewrite map_nth, combine_nth by exact Hl. reflexivity.
Qed.

Lemma map_length_upd_nth : forall (l : list (list Z)) i (g : list Z -> list Z),
  ((i < length l)%nat -> length (g (nth i l [])) = length (nth i l [])) ->
  map (@length _) (upd_nth i g l) = map (@length _) l.
Proof.
  induction l as [|x r IH]; intros [|i] g Hg; cbn [upd_nth map nth length] in *; try reflexivity.
  - rewrite Hg by lia. reflexivity.
  - rewrite IH; [reflexivity|]. intros H. apply Hg. lia.
Qed.

Lemma paint_node_shape old c acc n : same_shape acc old -> same_shape (paint_node old c acc n) old.
Proof.
  intros Hs. unfold same_shape. rewrite <- Hs. unfold paint_node. apply map_length_upd_nth. intros Hi.
  apply paint_frame_length. symmetry. apply same_shape_nth. exact Hs.
Qed.

Lemma paint_node_at old c acc n t p :
  same_shape acc old -> (t < length old)%nat -> (p < length (nth t old []))%nat ->
  label_at (paint_node old c acc n) t p =
    if Nat.eqb t (n_time n) && (label_at old t p =? n_seg n) then c else label_at acc t p.
Proof.
  intros Hs Ht Hp. unfold label_at, paint_node.
  destruct (Nat.lt_ge_cases (n_time n) (length acc)) as [Hlt|Hge].
  - rewrite nth_upd_nth by exact Hlt.
    destruct (Nat.eqb_spec t (n_time n)) as [->|Hne]; cbn [andb]; [|reflexivity].
    rewrite paint_frame_nth; [reflexivity | symmetry; apply same_shape_nth; exact Hs | exact Hp].
  - rewrite nth_upd_nth_overflow by exact Hge.
    destruct (Nat.eqb_spec t (n_time n)) as [->|Hne]; cbn [andb]; [|reflexivity].
    rewrite (same_shape_length _ _ Hs) in Hge. lia.
Qed.

(* the double loop as one fold over (node, label) assignments *)
Definition paint_asg (old acc : list (list Z)) (a : tnode * Z) : list (list Z) :=
  paint_node old (snd a) acc (fst a).
Fixpoint tag (c : Z) (comps : list (list tnode)) : list (tnode * Z) :=
  match comps with [] => [] | ns :: r => map (fun n => (n, c)) ns ++ tag (c + 1) r end.

Lemma paint_comps_tag old : forall comps c acc,
  paint_comps old c comps acc = fold_left (paint_asg old) (tag c comps) acc.
Proof.
  induction comps as [|ns r IH]; intros c acc; cbn [paint_comps tag]; [reflexivity|].
  rewrite fold_left_app, IH. f_equal.
  revert acc. induction ns as [|n ns IHn]; intros acc; cbn [fold_left map]; [reflexivity|]. apply IHn.
Qed.

Definition hits (old : list (list Z)) (t p : nat) (a : tnode * Z) : bool :=
  Nat.eqb t (n_time (fst a)) && (label_at old t p =? n_seg (fst a)).

Lemma find_app {A} (f : A -> bool) l1 l2 :
  find f (l1 ++ l2) = match find f l1 with Some x => Some x | None => find f l2 end.
Proof. induction l1 as [|x r IH]; cbn; [reflexivity|]. destruct (f x); [reflexivity|exact IH]. Qed.

Lemma fold_paint_at old t p : (t < length old)%nat -> (p < length (nth t old []))%nat ->
  forall l acc, same_shape acc old ->
  same_shape (fold_left (paint_asg old) l acc) old /\
  label_at (fold_left (paint_asg old) l acc) t p =
    match find (hits old t p) (rev l) with Some a => snd a | None => label_at acc t p end.
Proof.
  intros Ht Hp. induction l as [|a r IH]; intros acc Hs; cbn [fold_left rev find]; [split; [exact Hs|reflexivity]|].
  assert (same_shape (paint_asg old acc a) old) as Hs' by (apply paint_node_shape; exact Hs).
  destruct (IH _ Hs') as [S E]. split; [exact S|]. rewrite E, find_app. cbn [find].
  destruct (find (hits old t p) (rev r)); [reflexivity|].
  unfold paint_asg at 1. rewrite paint_node_at by assumption. unfold hits. destruct (_ && _); reflexivity.
Qed.

Lemma zeros_like_shape old : same_shape (zeros_like old) old.
Proof. unfold same_shape, zeros_like. rewrite map_map. apply map_ext. intros f. apply map_length. Qed.

Lemma nth_map_zero : forall (l : list Z) p, nth p (map (fun _ : Z => 0) l) 0 = 0.
Proof. induction l as [|x r IH]; intros [|p]; cbn; auto. Qed.

Lemma zeros_like_at old t p : label_at (zeros_like old) t p = 0.
Proof.
  unfold label_at, zeros_like.
  change (@nil Z) with (map (fun _ : Z => 0) []) at 1. rewrite map_nth. apply nth_map_zero.
Qed.

Lemma tag_fst : forall comps c, map fst (tag c comps) = concat comps.
Proof.
  induction comps as [|ns r IH]; intros c; cbn [tag concat map]; [reflexivity|].
  rewrite map_app, IH, map_map. cbn [fst]. now rewrite map_id.
Qed.

Lemma tag_In : forall comps c k ns n, nth_error comps k = Some ns -> In n ns -> In (n, c + Z.of_nat k) (tag c comps).
Proof.
  induction comps as [|ms r IH]; intros c k ns n Hk Hn; [destruct k; discriminate|].
  cbn [tag]. apply in_or_app. destruct k as [|k]; cbn [nth_error] in Hk.
  - left. injection Hk as ->. rewrite Z.add_0_r. apply in_map_iff. exists n. split; [reflexivity|exact Hn].
  - right. replace (c + Z.of_nat (S k)) with (c + 1 + Z.of_nat k) by lia. eapply IH; eauto.
Qed.

Lemma NoDup_map_inj {A B} (f : A -> B) : forall l x y, NoDup (map f l) -> In x l -> In y l -> f x = f y -> x = y.
Proof.
  induction l as [|z r IH]; intros x y Hnd Hx Hy E; [destruct Hx|].
  cbn [map] in Hnd. inversion Hnd as [|? ? Hnot Hnd']; subst.
  destruct Hx as [->|Hx]; destruct Hy as [->|Hy]; try reflexivity.
  - exfalso. apply Hnot. rewrite E. apply in_map. exact Hy.
  - exfalso. apply Hnot. rewrite <- E. apply in_map. exact Hx.
  - eapply IH; eauto.
Qed.

Definition key (n : tnode) : nat * Z := (n_time n, n_seg n).

(* C19, relabel by track: pointwise characterisation of the returned array.
   [comps] is whatever the component oracle returned; the only assumption is that
   no two nodes of the solution claim the same (time, seg id) detection. *)
Theorem relabel_by_track_spec comps old t p :
  (t < length old)%nat -> (p < length (nth t old []))%nat ->
  NoDup (map key (concat comps)) ->
  let new := relabel_with_track_id comps old in
  same_shape new old /\
  (forall k ns n, nth_error comps k = Some ns -> In n ns ->
      n_time n = t -> n_seg n = label_at old t p -> label_at new t p = 1 + Z.of_nat k) /\
  ((forall n, In n (concat comps) -> ~ (n_time n = t /\ n_seg n = label_at old t p)) -> label_at new t p = 0).
Proof.
  intros Ht Hp Hnd new. unfold new, relabel_with_track_id. rewrite paint_comps_tag.
  destruct (fold_paint_at old t p Ht Hp (tag 1 comps) (zeros_like old) (zeros_like_shape old)) as [S E].
  split; [exact S|]. rewrite E, zeros_like_at. split.
  - intros k ns n Hk Hn Htime Hseg.
    pose proof (tag_In comps 1 k ns n Hk Hn) as Hin.
    assert (hits old t p (n, 1 + Z.of_nat k) = true) as Hh.
    { unfold hits. cbn [fst]. rewrite Htime, Nat.eqb_refl, Hseg, Z.eqb_refl. reflexivity. }
    destruct (find (hits old t p) (rev (tag 1 comps))) as [a|] eqn:F.
    + apply find_some in F. destruct F as [Ha Hha]. apply in_rev in Ha.
      destruct a as [m c]. cbn [snd].
      assert (m = n) as ->.
      { apply (NoDup_map_inj key (concat comps)); [exact Hnd| | |].
        - rewrite <- (tag_fst comps 1). change m with (fst (m, c)). apply in_map. exact Ha.
        - rewrite <- (tag_fst comps 1). change n with (fst (n, 1 + Z.of_nat k)). apply in_map. exact Hin.
        - unfold hits in Hha. cbn [fst] in Hha. apply andb_prop in Hha. destruct Hha as [H1 H2].
          apply Nat.eqb_eq in H1. apply Z.eqb_eq in H2. unfold key. congruence. }
      (* one label per node: the nodes of [tag] are pairwise distinct *)
      assert (NoDup (map fst (tag 1 comps))) as Hnd2.
      { rewrite tag_fst. eapply NoDup_map_inv. exact Hnd. }
      change c with (snd (n, c)). change (1 + Z.of_nat k) with (snd (n, 1 + Z.of_nat k)).
      f_equal. apply (NoDup_map_inj fst (tag 1 comps)); auto.
    + exfalso. pose proof (find_none _ _ F (n, 1 + Z.of_nat k)) as Hn'. rewrite <- in_rev in Hn'.
      rewrite (Hn' Hin) in Hh. discriminate.
  - intros Hno. destruct (find (hits old t p) (rev (tag 1 comps))) as [a|] eqn:F; [|reflexivity].
    exfalso. apply find_some in F. destruct F as [Ha Hha]. apply in_rev in Ha.
    apply (Hno (fst a)).
    + rewrite <- (tag_fst comps 1). apply in_map. exact Ha.
    + unfold hits in Hha. apply andb_prop in Hha. destruct Hha as [H1 H2].
      apply Nat.eqb_eq in H1. apply Z.eqb_eq in H2. split; congruence.
Qed.

(* Hence: two detections of the solution get the same label iff the oracle put their
   nodes in the same component; with the oracle's contract (components = unbranched
   segments, [Hseg]) that is "same label iff same segment". *)
Corollary relabel_by_track_same_label comps old (same_segment : tnode -> tnode -> Prop)
  (Hseg : forall k k' ns ns' n n', nth_error comps k = Some ns -> nth_error comps k' = Some ns' ->
            In n ns -> In n' ns' -> (k = k' <-> same_segment n n')) :
  NoDup (map key (concat comps)) ->
  forall k k' ns ns' n n' p p',
    nth_error comps k = Some ns -> nth_error comps k' = Some ns' -> In n ns -> In n' ns' ->
    (n_time n < length old)%nat -> (p < length (nth (n_time n) old []))%nat ->
    (n_time n' < length old)%nat -> (p' < length (nth (n_time n') old []))%nat ->
    label_at old (n_time n) p = n_seg n -> label_at old (n_time n') p' = n_seg n' ->
    let new := relabel_with_track_id comps old in
    (label_at new (n_time n) p = label_at new (n_time n') p' <-> same_segment n n') /\
    label_at new (n_time n) p <> 0.
Proof.
  intros Hnd k k' ns ns' n n' p p' Hk Hk' Hn Hn' Ht Hp Ht' Hp' Hl Hl' new.
  destruct (relabel_by_track_spec comps old _ _ Ht Hp Hnd) as (_ & A & _).
  destruct (relabel_by_track_spec comps old _ _ Ht' Hp' Hnd) as (_ & A' & _).
  unfold new. rewrite (A k ns n Hk Hn eq_refl (eq_sym Hl)), (A' k' ns' n' Hk' Hn' eq_refl (eq_sym Hl')).
  split; [|lia]. rewrite <- (Hseg k k' ns ns' n n' Hk Hk' Hn Hn'). lia.
Qed.
