(* UserDeleteNode on well-formed states.
   The action runs five phases (Model/Edit.v, user_delete_node_core):
     1. for the parent p of n: relabel the sibling when p divides, then DeleteEdge(p, n);
     2. for every child c of n: DeleteEdge(n, c);
     3. get_track_neighbors(track of n, time of n): when both neighbours exist, AddEdge(pred, succ);
     4. every detached child but the bridged one (and but the first one when n was a root)
        starts a new lineage;
     5. DeleteNode(n).
   Proved here: on a state with W_dict, W_forest, W_trk, W_book the only step that can fail is the
   last one (the frame of the pixels to clear does not exist); otherwise the result is a
   forward-in-time binary forest on the nodes of st but n, whose edges are the edges of st that do
   not touch n, plus the bridge (p, c) when p is the non-dividing parent of n and c its only child.
   No axioms are used. *)
From Coq Require Import ZArith List Bool Lia Relations Permutation.
From FT Require Import Base.Dict Model.Edit Proofs.DictLemmas Proofs.EditInv Proofs.EditGraph Proofs.EditWalk
                       Proofs.EditBasic Proofs.EditUserEdge Proofs.EditGlobal Proofs.EditTrk Proofs.BookLemmas
                       Proofs.EditNodeBasic.
From FT Require Proofs.EditBook Proofs.EditLin.
Import ListNotations.
Open Scope Z_scope.

(* ================================================================== *)
(* 0. small facts                                                       *)
(* ================================================================== *)
(* on a forest a node has at most one predecessor *)
Lemma preds_cases st n : W_dict st -> W_forest st ->
  (predecessors st n = [] /\ forall q, ~ edge st q n) \/
  (exists p, predecessors st n = [p] /\ edge st p n /\ forall q, edge st q n -> q = p).
Proof.
  intros Hd Hf.
  assert (Hnd : NoDup (predecessors st n)) by (unfold predecessors; apply NoDup_filter; apply (wd_nodup _ Hd)).
  destruct (predecessors st n) as [|p r] eqn:Ep.
  - left. split; [reflexivity|]. intros q Hq.
    assert (In q (predecessors st n)) as Hin by (apply in_predecessors; split; [apply (wd_edge_nodes _ Hd q n Hq)|exact Hq]).
    rewrite Ep in Hin. destruct Hin.
  - right. exists p.
    assert (Hp : edge st p n) by (apply (in_predecessors st p n); rewrite Ep; now left).
    assert (Hall : forall q, edge st q n -> q = p) by (intros q Hq; exact (wf_in _ Hf q p n Hq Hp)).
    split; [|split; [exact Hp|exact Hall]]. f_equal. destruct r as [|q r']; [reflexivity|]. exfalso.
    assert (q = p) as -> by (apply Hall; apply (in_predecessors st q n); rewrite Ep; right; now left).
    inversion Hnd as [|? ? Hx _]; subst. apply Hx. now left.
Qed.

Lemma filter_neq_notin (l : list Z) v : ~ In v l -> filter (fun x => negb (v =? x)) l = l.
Proof.
  induction l as [|y r IH]; intros Hn; cbn [filter]; [reflexivity|].
  destruct (Z.eqb_spec v y) as [->|Hne]; [exfalso; apply Hn; now left|]. cbn [negb]. f_equal. apply IH.
  intros H. apply Hn. now right.
Qed.

(* the lookups of the other track ids are not touched by UpdateTrackIDs *)
Lemma book_remove_lookup_other (b : dict (list Z)) ns id T : T <> id -> lookup T (book_remove b ns id) = lookup T b.
Proof.
  intros H. unfold book_remove. destruct (lookup id b) as [l|]; [|reflexivity].
  destruct (fold_left _ ns l); [now apply lookup_del_neq|now apply lookup_set_neq].
Qed.
Lemma book_add_extend_lookup_other (b : dict (list Z)) ns id T : T <> id -> lookup T (book_add_extend b ns id) = lookup T b.
Proof. intros H. unfold book_add_extend. now apply lookup_set_neq. Qed.

Lemma upd_track_book_frame st start newT newL b st' oldT :
  do_upd_track st start newT newL = Ok b st' -> trk st start = Some oldT ->
  forall T, T <> oldT -> T <> newT -> lookup T (trk_book (bk st')) = lookup T (trk_book (bk st)).
Proof.
  intros H Et T H1 H2. unfold do_upd_track in H. destruct (negb (has_node st start)); [discriminate|].
  unfold trk in Et. rewrite Et in H. destruct (negb (trk_act (ft st))); [inversion H; reflexivity|].
  destruct (walk (S (length (nodes (g st)))) oldT newT (if lin_act (ft st) then newL else None) st [start] true [] [])
    as [[[st1 tn] ln]|] eqn:Ew; [|discriminate].
  apply walk_bk in Ew.
  destruct (if lin_act (ft st) then newL else None); inversion H; subst; cbn [bk upd_bk trk_book];
    rewrite book_add_extend_lookup_other, book_remove_lookup_other, Ew by assumption; reflexivity.
Qed.

(* ================================================================== *)
(* 1. get_track_neighbors reads one lookup list and the times          *)
(* ================================================================== *)
Lemma insert_by_time_ext s s' : (forall m, time_of s' m = time_of s m) ->
  forall x l, insert_by_time s' x l = insert_by_time s x l.
Proof. intros Ht x l. induction l as [|y r IH]; cbn [insert_by_time]; [reflexivity|]. rewrite !Ht, IH. reflexivity. Qed.
Lemma sort_by_time_ext s s' : (forall m, time_of s' m = time_of s m) -> forall l, sort_by_time s' l = sort_by_time s l.
Proof.
  intros Ht l. unfold sort_by_time. generalize (@nil Z) as acc. induction l as [|x r IH]; intros acc; cbn [fold_left]; [reflexivity|].
  rewrite (insert_by_time_ext s s' Ht). apply IH.
Qed.
Lemma scan_neighbors_ext s s' : (forall m, time_of s' m = time_of s m) ->
  forall t l pred, scan_neighbors s' t l pred = scan_neighbors s t l pred.
Proof.
  intros Ht t l. induction l as [|c r IH]; intros pred; cbn [scan_neighbors]; [reflexivity|].
  rewrite !Ht, !IH. reflexivity.
Qed.
Lemma track_neighbors_ext s s' T t :
  lookup T (trk_book (bk s')) = lookup T (trk_book (bk s)) -> (forall m, time_of s' m = time_of s m) ->
  snd (track_neighbors s' T t) = snd (track_neighbors s T t).
Proof.
  intros El Ht. unfold track_neighbors. rewrite El. destruct (lookup T (trk_book (bk s))) as [[|x l]|]; [reflexivity| |reflexivity].
  cbn [snd]. rewrite (sort_by_time_ext s s' Ht). apply scan_neighbors_ext. exact Ht.
Qed.
(* the in-place sort touches the lookup only *)
Lemma track_neighbors_state s T t :
  let s' := fst (track_neighbors s T t) in
  g s' = g s /\ seg s' = seg s /\ ft s' = ft s /\ undo_stack s' = undo_stack s /\ redo_stack s' = redo_stack s /\
  rlog s' = rlog s /\ nctr s' = nctr s /\ lin_book (bk s') = lin_book (bk s) /\
  max_trk (bk s') = max_trk (bk s) /\ max_lin (bk s') = max_lin (bk s).
Proof.
  cbv zeta. unfold track_neighbors. destruct (lookup T (trk_book (bk s))) as [[|x l]|]; cbn; repeat split; reflexivity.
Qed.

(* the pair the query returns for a node of a well-formed state: its non-dividing parent, its only child *)
Lemma neighbors_of_node st n T p' c' :
  W_dict st -> W_forest st -> W_trk st -> W_book st -> trk st n = Some T ->
  snd (track_neighbors st T (time_of st n)) = (p', c') ->
  (forall q, p' = Some q <-> (edge st q n /\ ~ divides st q)) /\
  (forall c, c' = Some c <-> successors st n = [c]).
Proof.
  intros Hd Hf Ht Wb En H.
  destruct (track_neighbors st T (time_of st n)) as [s3 [p0 c0]] eqn:E. cbn [snd] in H. injection H as -> ->.
  destruct (udn_neighbors_edges st st n T s3 p' c' Hd Hf Ht Wb En eq_refl (fun _ _ => eq_refl) eq_refl E) as (_ & _ & A & B).
  split; assumption.
Qed.

(* ================================================================== *)
(* 2. the loops                                                         *)
(* ================================================================== *)
(* for succ in successors(node): DeleteEdge(node, succ) *)
Lemma udn_succs_spec n : forall cs s acc, W_dict s -> W_forest s -> NoDup cs -> (forall c, In c cs -> edge s n c) ->
  exists acts s', udn_succs n cs s acc = Ok acts s' /\ W_dict s' /\ W_forest s' /\
    node_ids s' = node_ids s /\ (forall m k, attr s' m k = attr s m k) /\ rest_eq s s' /\
    (forall x y, edge s' x y <-> edge s x y /\ ~ (x = n /\ In y cs)) /\
    (forall x, x <> n -> successors s' x = successors s x).
Proof.
  induction cs as [|c r IH]; intros s acc Hd Hf Hnd Hin; cbn [udn_succs].
  - exists acc, s. split; [reflexivity|]. split; [exact Hd|]. split; [exact Hf|]. split; [reflexivity|].
    split; [reflexivity|]. split; [apply rest_eq_refl|]. split; [|reflexivity].
    intros x y. split; [intros H; split; [exact H|intros [_ []]]|tauto].
  - inversion Hnd as [|? ? Hc Hr]; subst.
    assert (Ec : edge s n c) by (apply Hin; now left).
    destruct (do_del_edge_spec s n c Ec) as (b & s1 & H1 & _ & _ & Hs1 & _). rewrite H1. cbn [bind].
    destruct (do_del_edge_WS s n c b s1 Hd Hf H1) as (Hd1 & Hf1 & He1 & Hn1 & Ha1 & Hr1).
    destruct (IH s1 (acc ++ [ABasic b]) Hd1 Hf1 Hr) as (acts & s' & H & Hd' & Hf' & Hn' & Ha' & Hr' & He' & Hs').
    { intros c0 Hc0. apply He1. split; [apply Hin; now right|]. intros [_ ->]. contradiction. }
    exists acts, s'. split; [exact H|]. split; [exact Hd'|]. split; [exact Hf'|]. split; [congruence|].
    split; [intros m k; now rewrite Ha', Ha1|]. split; [eapply rest_eq_trans; eauto|]. split.
    + intros x y. rewrite He', He1. cbn [In]. split.
      * intros [[A B] C]. split; [exact A|]. intros [Hx [Hy|Hy]]; [apply B; split; congruence|apply C; now split].
      * intros [A B]. split; [split; [exact A|]|]; intros [Hx Hy]; apply B; (split; [exact Hx|]); [left; congruence|now right].
    + intros x Hx. rewrite (Hs' x Hx), Hs1. destruct (Z.eqb_spec x n); [contradiction|reflexivity].
Qed.

(* for orphan in orphans: UpdateTrackIDs(orphan, its track id, next lineage id) *)
Lemma udn_orphans_spec : forall os s acc, W_dict s -> W_forest s -> (forall o, In o os -> is_node s o) ->
  exists acts s', udn_orphans os s acc = Ok acts s' /\ W_dict s' /\ W_forest s' /\ gstep s s' /\
    (forall x y, edge s' x y <-> edge s x y) /\ (forall x, successors s' x = successors s x).
Proof.
  induction os as [|o r IH]; intros s acc Hd Hf Hn; cbn [udn_orphans].
  - exists acc, s. split; [reflexivity|]. split; [exact Hd|]. split; [exact Hf|]. split; [apply gstep_refl|]. split; reflexivity.
  - assert (No : is_node s o) by (apply Hn; now left).
    destruct (wd_track _ Hd o No) as [t Ht]. apply zattr_attr in Ht. rewrite Ht.
    destruct (upd_track_step s o t (Some (next_lin s)) Hd Hf No) as (b & s1 & H1 & Hd1 & Hf1 & G1 & E1 & S1).
    rewrite H1. cbn [bind].
    destruct (IH s1 (acc ++ [ABasic b]) Hd1 Hf1) as (acts & s' & H & Hd' & Hf' & G' & E' & S').
    { intros o' Ho'. apply (gstep_is_node _ _ _ G1). apply Hn. now right. }
    exists acts, s'. split; [exact H|]. split; [exact Hd'|]. split; [exact Hf'|]. split; [eapply gstep_trans; eauto|].
    split; [intros x y; now rewrite E', E1|intros x; now rewrite S', S1].
Qed.

(* ---- reachability facts ---- *)
Lemma reach_conv st a b : EditBook.reach st a b -> reach st a b.
Proof. intros H. induction H as [u|u v w _ IH Hvw]; [apply rt_refl|eapply rt_trans; [exact IH|now apply rt_step]]. Qed.

(* a sibling does not reach its sibling *)
Lemma sibling_not_reach st p n sib : W_forest st -> edge st p n -> edge st p sib -> sib <> n -> ~ reach st sib n.
Proof.
  intros Hf Hpn Hps Hne R. destruct (EditLin.reach_last st sib n R) as [E|(q & Rq & Hq)]; [contradiction|].
  assert (q = p) as -> by (exact (wf_in _ Hf q p n Hq Hpn)).
  pose proof (wf_time _ Hf p sib Hps) as Ht.
  destruct (EditLin.reach_time st Hf sib p Rq) as [E|L]; [subst; lia|lia].
Qed.

(* UpdateTrackIDs leaves the track id of every node it cannot reach *)
Lemma upd_track_trk_frame st start newT newL b st' : W_dict st -> W_forest st ->
  do_upd_track st start newT newL = Ok b st' ->
  forall m, ~ reach st start m -> attr st' m KTrack = attr st m KTrack.
Proof.
  intros Hd Hf H m Hm. destruct (trk_act (ft st)) eqn:Ca.
  - destruct (EditTrk.do_upd_track_inv st start newT newL b st' Ca H) as (oldT & newL' & st1 & tn & ln & Hs & Ht & Hw & Eg & _).
    destruct (EditBook.upd_track_walk _ _ _ _ _ _ _ _ Hd Hs Ht Hw) as (vis & Eb & _ & _ & _ & _ & _ & _ & _ & Hincl & _ & _ & _ & T2).
    destruct (EditBook.bfs_forest st Hd (wf_in _ Hf) (wf_time _ Hf) _ [start] vis
                ltac:(constructor; [intros []|constructor]) ltac:(intros x y [<-|[]] [<-|[]] _; reflexivity) Eb) as [_ Hr].
    rewrite (same_g_attr st1 st' Eg). apply T2. intros Hi. apply Hincl in Hi. destruct (Hr m Hi) as (c & [<-|[]] & Rc).
    apply Hm. now apply reach_conv.
  - unfold do_upd_track in H. destruct (negb (has_node st start)); [discriminate|].
    destruct (zattr st start KTrack); [|discriminate]. rewrite Ca in H. cbn [negb] in H. inversion H; reflexivity.
Qed.

(* ---- phase 1: for pred in predecessors(node): [relabel the sibling]; DeleteEdge(pred, node) ---- *)
Lemma udn_preds_spec st n : W_dict st -> W_forest st -> is_node st n ->
  exists acts s1, udn_preds n (predecessors st n) st [] = Ok acts s1 /\
    W_dict s1 /\ W_forest s1 /\ gstep st s1 /\
    (forall x y, edge s1 x y <-> edge st x y /\ y <> n) /\
    (forall x, successors s1 x = filter (fun y => negb (n =? y)) (successors st x)) /\
    attr s1 n KTrack = attr st n KTrack /\
    (forall T, (forall p, edge st p n -> divides st p ->
                  trk st p <> Some T /\ forall sib, edge st p sib -> sib <> n -> trk st sib <> Some T) ->
               lookup T (trk_book (bk s1)) = lookup T (trk_book (bk st))).
Proof.
  intros Hd Hf Nn.
  assert (Hfilt : forall s x, (forall a, successors s a = successors st a) -> ~ edge st x n ->
            successors s x = filter (fun y => negb (n =? y)) (successors st x)).
  { intros s x Hs Hx. rewrite Hs, filter_neq_notin; [reflexivity|]. intros Hi. apply Hx. now apply edge_successors. }
  destruct (preds_cases st n Hd Hf) as [[Ep Hno]|(p & Ep & Hp & Hall)]; rewrite Ep; cbn [udn_preds].
  - exists [], st. split; [reflexivity|]. split; [exact Hd|]. split; [exact Hf|]. split; [apply gstep_refl|].
    split; [intros x y; split; [intros H; split; [exact H|intros ->; now apply (Hno x)]|tauto]|].
    split; [intros x; apply Hfilt; [reflexivity|apply Hno]|]. split; reflexivity.
  - cbv zeta.
    pose proof (wd_adj_nodup _ Hd p) as Hnd. pose proof (wf_out _ Hf p) as Hout.
    assert (Hin : In n (successors st p)) by (now apply edge_successors).
    (* the step that cuts (p, n) in a state with the edges and successor lists of st *)
    assert (Hcut : forall s, W_dict s -> W_forest s -> gstep st s -> (forall a c, edge s a c <-> edge st a c) ->
              (forall a, successors s a = successors st a) ->
              exists b s1, do_del_edge s p n = Ok b s1 /\ W_dict s1 /\ W_forest s1 /\ gstep st s1 /\
                (forall x y, edge s1 x y <-> edge st x y /\ y <> n) /\
                (forall x, successors s1 x = filter (fun y => negb (n =? y)) (successors st x)) /\
                (forall m k, attr s1 m k = attr s m k) /\ bk s1 = bk s).
    { intros s Hds Hfs Gs Es Ss. assert (Eps : edge s p n) by (now apply Es).
      destruct (do_del_edge_spec s p n Eps) as (b & s1 & H1 & _ & _ & Hs1 & _).
      destruct (do_del_edge_WS s p n b s1 Hds Hfs H1) as (Hd1 & Hf1 & He1 & Hn1 & Ha1 & Hr1).
      exists b, s1. split; [exact H1|]. split; [exact Hd1|]. split; [exact Hf1|].
      split; [eapply gstep_trans; [exact Gs|now apply rest_eq_gstep]|]. split; [|split; [|split; [exact Ha1|apply Hr1]]].
      - intros x y. rewrite He1, Es. split.
        + intros [A B]. split; [exact A|]. intros ->. apply B. split; [now apply Hall|reflexivity].
        + intros [A B]. split; [exact A|]. intros [_ C]. contradiction.
      - intros x. rewrite Hs1. destruct (Z.eqb_spec x p) as [->|Hx]; [now rewrite Ss|].
        apply Hfilt; [exact Ss|]. intros C. apply Hx. now apply Hall. }
    destruct (Nat.eqb_spec (length (successors st p)) 2) as [L2|L2].
    + (* p divides: the sibling takes the track id of p *)
      assert (Hsib : exists sib r, remove1 n (successors st p) = sib :: r /\ edge st p sib /\ sib <> n).
      { destruct (successors st p) as [|a [|b [|c r]]] eqn:Es; try (cbn in L2; lia).
        cbn [remove1]. destruct (Z.eqb_spec n a) as [->|Hna].
        - exists b, []. split; [reflexivity|]. split; [apply edge_successors; rewrite Es; right; now left|].
          inversion Hnd as [|? ? Hx _]; subst. intros ->. apply Hx. now left.
        - exists a, (if n =? b then [] else [b]). split; [reflexivity|]. split; [apply edge_successors; rewrite Es; now left|]. congruence. }
      destruct Hsib as (sib & r & Er & Hps & Hsn). rewrite Er.
      assert (Np : is_node st p) by apply (wd_edge_nodes _ Hd p n Hp).
      assert (Ns : is_node st sib) by apply (wd_edge_nodes _ Hd p sib Hps).
      destruct (wd_track _ Hd p Np) as [t Ht]. apply zattr_attr in Ht. rewrite Ht.
      destruct (upd_track_step st sib t None Hd Hf Ns) as (b & sa & Ha & Hda & Hfa & Ga & Ea & Sa).
      rewrite Ha. cbn [bind].
      destruct (Hcut sa Hda Hfa Ga Ea Sa) as (b2 & s1 & H1 & Hd1 & Hf1 & G1 & E1 & S1 & A1 & B1).
      rewrite H1. cbn [bind udn_preds].
      eexists _, s1. split; [reflexivity|]. split; [exact Hd1|]. split; [exact Hf1|]. split; [exact G1|].
      split; [exact E1|]. split; [exact S1|]. split.
      * rewrite A1. apply (upd_track_trk_frame st sib t None b sa Hd Hf Ha). now apply (sibling_not_reach st p n sib).
      * intros T HT. rewrite B1.
        assert (Dp : divides st p) by (unfold divides; lia).
        destruct (HT p Hp Dp) as [Tp Ts]. specialize (Ts sib Hps Hsn).
        destruct (wd_track _ Hd sib Ns) as [ts Hts]. apply zattr_attr in Hts.
        apply (upd_track_book_frame st sib t None b sa ts Ha Hts); intros ->; [now apply Ts|now apply Tp].
    + destruct (Hcut st Hd Hf (gstep_refl st)) as (b2 & s1 & H1 & Hd1 & Hf1 & G1 & E1 & S1 & A1 & B1); [reflexivity|reflexivity|].
      cbn [bind]. rewrite H1. cbn [bind udn_preds].
      eexists _, s1. split; [reflexivity|]. split; [exact Hd1|]. split; [exact Hf1|]. split; [exact G1|].
      split; [exact E1|]. split; [exact S1|]. split; [apply A1|]. intros T _. now rewrite B1.
Qed.
