(* UserDeleteNode on well-formed states.
   The action (Model/Edit.v, user_delete_node_core) validates the given pixels, then the node, and
   then runs five phases:
     1. for the parent p of n: relabel the sibling when p divides, then DeleteEdge(p, n);
     2. for every child c of n: DeleteEdge(n, c);
     3. get_track_neighbors(track of n, time of n): when both neighbours exist, AddEdge(pred, succ);
     4. every detached child but the bridged one (and but the first one when n was a root)
        starts a new lineage;
     5. DeleteNode(n).
   Proved here: on a state with W_dict, W_forest, W_trk, W_book the only step after the validation
   that can fail is the last one, and only when no pixels were given and the frame of the node's
   own time is missing from the array (excluded by W_seg); otherwise the result is a
   forward-in-time binary forest on the nodes of st but n, whose edges are the edges of st that do
   not touch n, plus the bridge (p, c) when p is the non-dividing parent of n and c its only child.
   Main statements:
     udn_core_px_refused, udn_core_unknown, udn_core_spec, udn_core_ok_inv   what the core returns (sections 3, 4);
     udn_core_errors, udn_refused_unchanged(_wseg), udn_late_error_mutates   the refusals: bad pixels,
        then an unknown node, leave the state alone; the only error behind a mutated state is the
        IndexError of DeleteNode computing the pixels of a node whose frame is missing;
     udn_keeps_forest, udn_keeps_dict, udn_top_refused_unchanged(_wseg), udn_top_errors, udn_accepted_iff,
        udn_top_history   the public entry point (section 5);
     udn_core_ids, udn_core_keeps_book / _trk / _lin, udn_core_GWF, udn_GWF, udn_WF_accepted,
        udn_core_id_frame, udn_id_frame   W_trk, W_lin, W_book are kept, in the configuration cfg_ok (section 6).
   W_trk and W_book are needed for the forest statement: Proofs/EditUDNExample.v has a state with a
   stale lookup on which the action fails half-way, and one with a wrong track id on which it
   returns a node with two parents.
   No axioms are used. *)
From Coq Require Import ZArith List Bool Lia Relations Permutation.
From FT Require Import Base.Dict Model.Edit Proofs.DictLemmas Proofs.EditInv Proofs.EditGraph Proofs.EditWalk
                       Proofs.EditBasic Proofs.EditUserEdge Proofs.EditGlobal Proofs.EditTrk Proofs.BookLemmas
                       Proofs.EditNodeBasic.
From FT Require Proofs.EditBook Proofs.EditLin.
Import ListNotations.
Open Scope Z_scope.

(* ================================================================== *)
(* 0. small facts                                                       *)
(* ================================================================== *)
(* on a forest a node has at most one predecessor *)
Lemma preds_cases st n : W_dict st -> W_forest st ->
  (predecessors st n = [] /\ forall q, ~ edge st q n) \/
  (exists p, predecessors st n = [p] /\ edge st p n /\ forall q, edge st q n -> q = p).
Proof.
  intros Hd Hf.
  assert (Hnd : NoDup (predecessors st n)) by (unfold predecessors; apply NoDup_filter; apply (wd_nodup _ Hd)).
  destruct (predecessors st n) as [|p r] eqn:Ep.
  - left. split; [reflexivity|]. intros q Hq.
    assert (In q (predecessors st n)) as Hin by (apply in_predecessors; split; [apply (wd_edge_nodes _ Hd q n Hq)|exact Hq]).
    rewrite Ep in Hin. destruct Hin.
  - right. exists p.
    assert (Hp : edge st p n) by (apply (in_predecessors st p n); rewrite Ep; now left).
    assert (Hall : forall q, edge st q n -> q = p) by (intros q Hq; exact (wf_in _ Hf q p n Hq Hp)).
    split; [|split; [exact Hp|exact Hall]]. f_equal. destruct r as [|q r']; [reflexivity|]. exfalso.
    assert (q = p) as -> by (apply Hall; apply (in_predecessors st q n); rewrite Ep; right; now left).
    inversion Hnd as [|? ? Hx _]; subst. apply Hx. now left.
Qed.

Lemma filter_neq_notin (l : list Z) v : ~ In v l -> filter (fun x => negb (v =? x)) l = l.
Proof.
  induction l as [|y r IH]; intros Hn; cbn [filter]; [reflexivity|].
  destruct (Z.eqb_spec v y) as [->|Hne]; [exfalso; apply Hn; now left|]. cbn [negb]. f_equal. apply IH.
  intros H. apply Hn. now right.
Qed.

(* the lookups of the other track ids are not touched by UpdateTrackIDs *)
Lemma book_remove_lookup_other (b : dict (list Z)) ns id T : T <> id -> lookup T (book_remove b ns id) = lookup T b.
Proof.
  intros H. unfold book_remove. destruct (lookup id b) as [l|]; [|reflexivity].
  destruct (fold_left _ ns l); [now apply lookup_del_neq|now apply lookup_set_neq].
Qed.
Lemma book_add_extend_lookup_other (b : dict (list Z)) ns id T : T <> id -> lookup T (book_add_extend b ns id) = lookup T b.
Proof. intros H. unfold book_add_extend. now apply lookup_set_neq. Qed.

Lemma upd_track_book_frame st start newT newL b st' oldT :
  do_upd_track st start newT newL = Ok b st' -> trk st start = Some oldT ->
  forall T, T <> oldT -> T <> newT -> lookup T (trk_book (bk st')) = lookup T (trk_book (bk st)).
Proof.
  intros H Et T H1 H2. unfold do_upd_track in H. destruct (negb (has_node st start)); [discriminate|].
  unfold trk in Et. rewrite Et in H. destruct (negb (trk_act (ft st))); [inversion H; reflexivity|].
  destruct (walk (S (length (nodes (g st)))) oldT newT (if lin_act (ft st) then newL else None) st [start] true [] [])
    as [[[st1 tn] ln]|] eqn:Ew; [|discriminate].
  apply walk_bk in Ew.
  destruct (if lin_act (ft st) then newL else None); inversion H; subst; cbn [bk upd_bk trk_book];
    rewrite book_add_extend_lookup_other, book_remove_lookup_other, Ew by assumption; reflexivity.
Qed.

(* ================================================================== *)
(* 1. get_track_neighbors reads one lookup list and the times          *)
(* ================================================================== *)
Lemma insert_by_time_ext s s' : (forall m, time_of s' m = time_of s m) ->
  forall x l, insert_by_time s' x l = insert_by_time s x l.
Proof. intros Ht x l. induction l as [|y r IH]; cbn [insert_by_time]; [reflexivity|]. rewrite !Ht, IH. reflexivity. Qed.
Lemma sort_by_time_ext s s' : (forall m, time_of s' m = time_of s m) -> forall l, sort_by_time s' l = sort_by_time s l.
Proof.
  intros Ht l. unfold sort_by_time. generalize (@nil Z) as acc. induction l as [|x r IH]; intros acc; cbn [fold_left]; [reflexivity|].
  rewrite (insert_by_time_ext s s' Ht). apply IH.
Qed.
Lemma scan_neighbors_ext s s' : (forall m, time_of s' m = time_of s m) ->
  forall t l pred, scan_neighbors s' t l pred = scan_neighbors s t l pred.
Proof.
  intros Ht t l. induction l as [|c r IH]; intros pred; cbn [scan_neighbors]; [reflexivity|].
  rewrite !Ht, !IH. reflexivity.
Qed.
Lemma track_neighbors_ext s s' T t :
  lookup T (trk_book (bk s')) = lookup T (trk_book (bk s)) -> (forall m, time_of s' m = time_of s m) ->
  snd (track_neighbors s' T t) = snd (track_neighbors s T t).
Proof.
  intros El Ht. unfold track_neighbors. rewrite El. destruct (lookup T (trk_book (bk s))) as [[|x l]|]; [reflexivity| |reflexivity].
  cbn [snd]. rewrite (sort_by_time_ext s s' Ht). apply scan_neighbors_ext. exact Ht.
Qed.
(* the in-place sort touches the lookup only *)
Lemma track_neighbors_state s T t :
  let s' := fst (track_neighbors s T t) in
  g s' = g s /\ seg s' = seg s /\ ft s' = ft s /\ undo_stack s' = undo_stack s /\ redo_stack s' = redo_stack s /\
  rlog s' = rlog s /\ nctr s' = nctr s /\ lin_book (bk s') = lin_book (bk s) /\
  max_trk (bk s') = max_trk (bk s) /\ max_lin (bk s') = max_lin (bk s).
Proof.
  cbv zeta. unfold track_neighbors. destruct (lookup T (trk_book (bk s))) as [[|x l]|]; cbn; repeat split; reflexivity.
Qed.

(* the pair the query returns for a node of a well-formed state: its non-dividing parent, its only child *)
Lemma neighbors_of_node st n T p' c' :
  W_dict st -> W_forest st -> W_trk st -> W_book st -> trk st n = Some T ->
  snd (track_neighbors st T (time_of st n)) = (p', c') ->
  (forall q, p' = Some q <-> (edge st q n /\ ~ divides st q)) /\
  (forall c, c' = Some c <-> successors st n = [c]).
Proof.
  intros Hd Hf Ht Wb En H.
  destruct (track_neighbors st T (time_of st n)) as [s3 [p0 c0]] eqn:E. cbn [snd] in H. injection H as -> ->.
  destruct (udn_neighbors_edges st st n T s3 p' c' Hd Hf Ht Wb En eq_refl (fun _ _ => eq_refl) eq_refl E) as (_ & _ & A & B).
  split; assumption.
Qed.

(* ================================================================== *)
(* 2. the loops                                                         *)
(* ================================================================== *)
(* for succ in successors(node): DeleteEdge(node, succ) *)
Lemma udn_succs_spec n : forall cs s acc, W_dict s -> W_forest s -> NoDup cs -> (forall c, In c cs -> edge s n c) ->
  exists acts s', udn_succs n cs s acc = Ok acts s' /\ W_dict s' /\ W_forest s' /\
    node_ids s' = node_ids s /\ (forall m k, attr s' m k = attr s m k) /\ rest_eq s s' /\
    (forall x y, edge s' x y <-> edge s x y /\ ~ (x = n /\ In y cs)) /\
    (forall x, x <> n -> successors s' x = successors s x).
Proof.
  induction cs as [|c r IH]; intros s acc Hd Hf Hnd Hin; cbn [udn_succs].
  - exists acc, s. split; [reflexivity|]. split; [exact Hd|]. split; [exact Hf|]. split; [reflexivity|].
    split; [reflexivity|]. split; [apply rest_eq_refl|]. split; [|reflexivity].
    intros x y. split; [intros H; split; [exact H|intros [_ []]]|tauto].
  - inversion Hnd as [|? ? Hc Hr]; subst.
    assert (Ec : edge s n c) by (apply Hin; now left).
    destruct (do_del_edge_spec s n c Ec) as (b & s1 & H1 & _ & _ & Hs1 & _). rewrite H1. cbn [bind].
    destruct (do_del_edge_WS s n c b s1 Hd Hf H1) as (Hd1 & Hf1 & He1 & Hn1 & Ha1 & Hr1).
    destruct (IH s1 (acc ++ [ABasic b]) Hd1 Hf1 Hr) as (acts & s' & H & Hd' & Hf' & Hn' & Ha' & Hr' & He' & Hs').
    { intros c0 Hc0. apply He1. split; [apply Hin; now right|]. intros [_ ->]. contradiction. }
    exists acts, s'. split; [exact H|]. split; [exact Hd'|]. split; [exact Hf'|]. split; [congruence|].
    split; [intros m k; now rewrite Ha', Ha1|]. split; [eapply rest_eq_trans; eauto|]. split.
    + intros x y. rewrite He', He1. cbn [In]. split.
      * intros [[A B] C]. split; [exact A|]. intros [Hx [Hy|Hy]]; [apply B; split; congruence|apply C; now split].
      * intros [A B]. split; [split; [exact A|]|]; intros [Hx Hy]; apply B; (split; [exact Hx|]); [left; congruence|now right].
    + intros x Hx. rewrite (Hs' x Hx), Hs1. destruct (Z.eqb_spec x n); [contradiction|reflexivity].
Qed.

(* for orphan in orphans: UpdateTrackIDs(orphan, its track id, next lineage id) *)
Lemma udn_orphans_spec : forall os s acc, W_dict s -> W_forest s -> (forall o, In o os -> is_node s o) ->
  exists acts s', udn_orphans os s acc = Ok acts s' /\ W_dict s' /\ W_forest s' /\ gstep s s' /\
    (forall x y, edge s' x y <-> edge s x y) /\ (forall x, successors s' x = successors s x).
Proof.
  induction os as [|o r IH]; intros s acc Hd Hf Hn; cbn [udn_orphans].
  - exists acc, s. split; [reflexivity|]. split; [exact Hd|]. split; [exact Hf|]. split; [apply gstep_refl|]. split; reflexivity.
  - assert (No : is_node s o) by (apply Hn; now left).
    destruct (wd_track _ Hd o No) as [t Ht]. apply zattr_attr in Ht. rewrite Ht.
    destruct (upd_track_step s o t (Some (next_lin s)) Hd Hf No) as (b & s1 & H1 & Hd1 & Hf1 & G1 & E1 & S1).
    rewrite H1. cbn [bind].
    destruct (IH s1 (acc ++ [ABasic b]) Hd1 Hf1) as (acts & s' & H & Hd' & Hf' & G' & E' & S').
    { intros o' Ho'. apply (gstep_is_node _ _ _ G1). apply Hn. now right. }
    exists acts, s'. split; [exact H|]. split; [exact Hd'|]. split; [exact Hf'|]. split; [eapply gstep_trans; eauto|].
    split; [intros x y; now rewrite E', E1|intros x; now rewrite S', S1].
Qed.

(* ---- reachability facts ---- *)
Lemma reach_conv st a b : EditBook.reach st a b -> reach st a b.
Proof. intros H. induction H as [u|u v w _ IH Hvw]; [apply rt_refl|eapply rt_trans; [exact IH|now apply rt_step]]. Qed.

(* a sibling does not reach its sibling *)
Lemma sibling_not_reach st p n sib : W_forest st -> edge st p n -> edge st p sib -> sib <> n -> ~ reach st sib n.
Proof.
  intros Hf Hpn Hps Hne R. destruct (EditLin.reach_last st sib n R) as [E|(q & Rq & Hq)]; [contradiction|].
  assert (q = p) as -> by (exact (wf_in _ Hf q p n Hq Hpn)).
  pose proof (wf_time _ Hf p sib Hps) as Ht.
  destruct (EditLin.reach_time st Hf sib p Rq) as [E|L]; [subst; lia|lia].
Qed.

(* UpdateTrackIDs leaves the track id of every node it cannot reach *)
Lemma upd_track_trk_frame st start newT newL b st' : W_dict st -> W_forest st ->
  do_upd_track st start newT newL = Ok b st' ->
  forall m, ~ reach st start m -> attr st' m KTrack = attr st m KTrack.
Proof.
  intros Hd Hf H m Hm. destruct (trk_act (ft st)) eqn:Ca.
  - destruct (EditTrk.do_upd_track_inv st start newT newL b st' Ca H) as (oldT & newL' & st1 & tn & ln & Hs & Ht & Hw & Eg & _).
    destruct (EditBook.upd_track_walk _ _ _ _ _ _ _ _ Hd Hs Ht Hw) as (vis & Eb & _ & _ & _ & _ & _ & _ & _ & Hincl & _ & _ & _ & T2).
    destruct (EditBook.bfs_forest st Hd (wf_in _ Hf) (wf_time _ Hf) _ [start] vis
                ltac:(constructor; [intros []|constructor]) ltac:(intros x y [<-|[]] [<-|[]] _; reflexivity) Eb) as [_ Hr].
    rewrite (same_g_attr st1 st' Eg). apply T2. intros Hi. apply Hincl in Hi. destruct (Hr m Hi) as (c & [<-|[]] & Rc).
    apply Hm. now apply reach_conv.
  - unfold do_upd_track in H. destruct (negb (has_node st start)); [discriminate|].
    destruct (zattr st start KTrack); [|discriminate]. rewrite Ca in H. cbn [negb] in H. inversion H; reflexivity.
Qed.

(* ---- phase 1: for pred in predecessors(node): [relabel the sibling]; DeleteEdge(pred, node) ---- *)
Lemma udn_preds_spec st n : W_dict st -> W_forest st -> is_node st n ->
  exists acts s1, udn_preds n (predecessors st n) st [] = Ok acts s1 /\
    W_dict s1 /\ W_forest s1 /\ gstep st s1 /\
    (forall x y, edge s1 x y <-> edge st x y /\ y <> n) /\
    (forall x, successors s1 x = filter (fun y => negb (n =? y)) (successors st x)) /\
    attr s1 n KTrack = attr st n KTrack /\
    (forall T, (forall p, edge st p n -> divides st p ->
                  trk st p <> Some T /\ forall sib, edge st p sib -> sib <> n -> trk st sib <> Some T) ->
               lookup T (trk_book (bk s1)) = lookup T (trk_book (bk st))).
Proof.
  intros Hd Hf Nn.
  assert (Hfilt : forall s x, (forall a, successors s a = successors st a) -> ~ edge st x n ->
            successors s x = filter (fun y => negb (n =? y)) (successors st x)).
  { intros s x Hs Hx. rewrite Hs, filter_neq_notin; [reflexivity|]. intros Hi. apply Hx. now apply edge_successors. }
  destruct (preds_cases st n Hd Hf) as [[Ep Hno]|(p & Ep & Hp & Hall)]; rewrite Ep; cbn [udn_preds].
  - exists [], st. split; [reflexivity|]. split; [exact Hd|]. split; [exact Hf|]. split; [apply gstep_refl|].
    split; [intros x y; split; [intros H; split; [exact H|intros ->; now apply (Hno x)]|tauto]|].
    split; [intros x; apply Hfilt; [reflexivity|apply Hno]|]. split; reflexivity.
  - cbv zeta.
    pose proof (wd_adj_nodup _ Hd p) as Hnd. pose proof (wf_out _ Hf p) as Hout.
    assert (Hin : In n (successors st p)) by (now apply edge_successors).
    (* the step that cuts (p, n) in a state with the edges and successor lists of st *)
    assert (Hcut : forall s, W_dict s -> W_forest s -> gstep st s -> (forall a c, edge s a c <-> edge st a c) ->
              (forall a, successors s a = successors st a) ->
              exists b s1, do_del_edge s p n = Ok b s1 /\ W_dict s1 /\ W_forest s1 /\ gstep st s1 /\
                (forall x y, edge s1 x y <-> edge st x y /\ y <> n) /\
                (forall x, successors s1 x = filter (fun y => negb (n =? y)) (successors st x)) /\
                (forall m k, attr s1 m k = attr s m k) /\ bk s1 = bk s).
    { intros s Hds Hfs Gs Es Ss. assert (Eps : edge s p n) by (now apply Es).
      destruct (do_del_edge_spec s p n Eps) as (b & s1 & H1 & _ & _ & Hs1 & _).
      destruct (do_del_edge_WS s p n b s1 Hds Hfs H1) as (Hd1 & Hf1 & He1 & Hn1 & Ha1 & Hr1).
      exists b, s1. split; [exact H1|]. split; [exact Hd1|]. split; [exact Hf1|].
      split; [eapply gstep_trans; [exact Gs|now apply rest_eq_gstep]|]. split; [|split; [|split; [exact Ha1|apply Hr1]]].
      - intros x y. rewrite He1, Es. split.
        + intros [A B]. split; [exact A|]. intros ->. apply B. split; [now apply Hall|reflexivity].
        + intros [A B]. split; [exact A|]. intros [_ C]. contradiction.
      - intros x. rewrite Hs1. destruct (Z.eqb_spec x p) as [->|Hx]; [now rewrite Ss|].
        apply Hfilt; [exact Ss|]. intros C. apply Hx. now apply Hall. }
    destruct (Nat.eqb_spec (length (successors st p)) 2) as [L2|L2].
    + (* p divides: the sibling takes the track id of p *)
      assert (Hsib : exists sib r, remove1 n (successors st p) = sib :: r /\ edge st p sib /\ sib <> n).
      { destruct (successors st p) as [|a [|b [|c r]]] eqn:Es; try (cbn in L2; lia).
        cbn [remove1]. destruct (Z.eqb_spec n a) as [->|Hna].
        - exists b, []. split; [reflexivity|]. split; [apply edge_successors; rewrite Es; right; now left|].
          inversion Hnd as [|? ? Hx _]; subst. intros ->. apply Hx. now left.
        - exists a, (if n =? b then [] else [b]). split; [reflexivity|]. split; [apply edge_successors; rewrite Es; now left|]. congruence. }
      destruct Hsib as (sib & r & Er & Hps & Hsn). rewrite Er.
      assert (Np : is_node st p) by apply (wd_edge_nodes _ Hd p n Hp).
      assert (Ns : is_node st sib) by apply (wd_edge_nodes _ Hd p sib Hps).
      destruct (wd_track _ Hd p Np) as [t Ht]. apply zattr_attr in Ht. rewrite Ht.
      destruct (upd_track_step st sib t None Hd Hf Ns) as (b & sa & Ha & Hda & Hfa & Ga & Ea & Sa).
      rewrite Ha. cbn [bind].
      destruct (Hcut sa Hda Hfa Ga Ea Sa) as (b2 & s1 & H1 & Hd1 & Hf1 & G1 & E1 & S1 & A1 & B1).
      rewrite H1. cbn [bind udn_preds].
      eexists _, s1. split; [reflexivity|]. split; [exact Hd1|]. split; [exact Hf1|]. split; [exact G1|].
      split; [exact E1|]. split; [exact S1|]. split.
      * rewrite A1. apply (upd_track_trk_frame st sib t None b sa Hd Hf Ha). now apply (sibling_not_reach st p n sib).
      * intros T HT. rewrite B1.
        assert (Dp : divides st p) by (unfold divides; lia).
        destruct (HT p Hp Dp) as [Tp Ts]. specialize (Ts sib Hps Hsn).
        destruct (wd_track _ Hd sib Ns) as [ts Hts]. apply zattr_attr in Hts.
        apply (upd_track_book_frame st sib t None b sa ts Ha Hts); intros ->; [now apply Ts|now apply Tp].
    + destruct (Hcut st Hd Hf (gstep_refl st)) as (b2 & s1 & H1 & Hd1 & Hf1 & G1 & E1 & S1 & A1 & B1); [reflexivity|reflexivity|].
      cbn [bind]. rewrite H1. cbn [bind udn_preds].
      eexists _, s1. split; [reflexivity|]. split; [exact Hd1|]. split; [exact Hf1|]. split; [exact G1|].
      split; [exact E1|]. split; [exact S1|]. split; [apply A1|]. intros T _. now rewrite B1.
Qed.

(* ================================================================== *)
(* 3. the action: everything before DeleteNode, then DeleteNode         *)
(* ================================================================== *)
Definition udn_prefix st n : res (list action) :=
  let preds := predecessors st n in
  let had_pred := match preds with [] => false | _ => true end in
  do acts1, s <- udn_preds n preds st [];
  let orphans := successors s n in
  do acts2, s <- udn_succs n orphans s acts1;
  do ao, s <- (match zattr s n KTrack with
      | None => Err EKey s
      | Some T => let '(s, (p, c)) := track_neighbors s T (time_of s n) in
                  match p, c with
                  | Some p, Some c => do b, s <- do_add_edge s p c []; Ok (acts2 ++ [ABasic b], filter (fun o => negb (o =? c)) orphans) s
                  | _, _ => Ok (acts2, orphans) s end
      end);
  let '(acts3, orphans) := ao in
  let orphans := if had_pred then orphans else tl orphans in
  udn_orphans orphans s acts3.

Lemma udn_core_unfold st n pxo : user_delete_node_core st n pxo =
  match px_check st pxo with
  | Some e => Err e st
  | None =>
    if negb (has_node st n) then Err ENetworkX st else
    do acts4, s <- udn_prefix st n; do b, s <- do_del_node s n pxo; Ok (AGroup (acts4 ++ [ABasic b])) s
  end.
Proof.
  unfold user_delete_node_core, udn_prefix. destruct (px_check st pxo); [reflexivity|].
  destruct (negb (has_node st n)); [reflexivity|]. cbv zeta.
  destruct (udn_preds n (predecessors st n) st []) as [a1 s1|e1 s1]; cbn [bind]; [|reflexivity].
  destruct (udn_succs n (successors s1 n) s1 a1) as [a2 s2|e2 s2]; cbn [bind]; [|reflexivity].
  destruct (zattr s2 n KTrack) as [T|]; cbn [bind]; [|reflexivity].
  destruct (track_neighbors s2 T (time_of s2 n)) as [s3 [[p|] [c|]]]; cbn [bind]; try reflexivity.
  destruct (do_add_edge s3 p c []) as [b s3'|e s3']; cbn [bind]; reflexivity.
Qed.

(* the bridge: p is the non-dividing parent of n and c its only child *)
Definition udn_bridge st n p c : Prop := edge st p n /\ ~ divides st p /\ successors st n = [c].

Lemma edge_irrefl st u : W_forest st -> ~ edge st u u.
Proof. intros Hf H. pose proof (wf_time _ Hf u u H). lia. Qed.

Lemma gstep_same_g s s' : g s' = g s -> seg s' = seg s -> ft s' = ft s -> undo_stack s' = undo_stack s ->
  redo_stack s' = redo_stack s -> rlog s' = rlog s -> nctr s' = nctr s -> gstep s s'.
Proof.
  intros Eg Es Ef Eu Er El En. constructor; try assumption.
  - unfold node_ids. now rewrite Eg.
  - intros m j _ _. unfold attr, node_attrs. now rewrite Eg.
Qed.

(* the track id of n is not the one of a dividing parent, nor the one of the sibling *)
Lemma udn_T_other st n T : W_dict st -> W_forest st -> W_trk st -> trk st n = Some T ->
  forall p, edge st p n -> divides st p ->
    trk st p <> Some T /\ forall sib, edge st p sib -> sib <> n -> trk st sib <> Some T.
Proof.
  intros Hd Hf Ht En p Hp Dp.
  assert (Nn : is_node st n) by apply (wd_edge_nodes _ Hd p n Hp).
  assert (Hn : head st n).
  { split; [exact Nn|]. intros q Hq. now rewrite (wf_in _ Hf q p n Hq Hp). }
  split.
  - intros Ep. destruct (seg_head st Hd Hf (wt1 _ Ht) p (proj1 (wd_edge_nodes _ Hd p n Hp))) as (h & Hh & Eh & Lh).
    assert (h = n) as -> by (apply (wt2 _ Ht h n Hh Hn); congruence).
    pose proof (wf_time _ Hf p n Hp). lia.
  - intros sib Hs Hne Es. apply Hne. apply (wt2 _ Ht sib n); [|exact Hn|congruence].
    split; [apply (wd_edge_nodes _ Hd p sib Hs)|]. intros q Hq. now rewrite (wf_in _ Hf q p sib Hq Hs).
Qed.

Theorem udn_prefix_spec st n : W_dict st -> W_forest st -> W_trk st -> W_book st -> is_node st n ->
  exists acts s4, udn_prefix st n = Ok acts s4 /\ W_dict s4 /\ W_forest s4 /\ gstep st s4 /\
    (forall x y, edge s4 x y <-> (edge st x y /\ x <> n /\ y <> n) \/ udn_bridge st n x y).
Proof.
  intros Hd Hf Ht Wb Nn. unfold udn_prefix. cbv zeta.
  (* phase 1 *)
  destruct (udn_preds_spec st n Hd Hf Nn) as (acts1 & s1 & H1 & Hd1 & Hf1 & G1 & E1 & S1 & A1 & B1).
  rewrite H1. cbn [bind].
  (* phase 2 *)
  assert (Ecs : successors s1 n = successors st n).
  { rewrite S1. apply filter_neq_notin. intros Hi. apply edge_successors in Hi. exact (edge_irrefl st n Hf Hi). }
  rewrite Ecs.
  destruct (udn_succs_spec n (successors st n) s1 acts1 Hd1 Hf1 (wd_adj_nodup _ Hd n)) as (acts2 & s2 & H2 & Hd2 & Hf2 & Hn2 & Ha2 & Hr2 & E2 & S2).
  { intros c Hc. apply E1. split; [now apply edge_successors|]. intros ->. apply edge_successors in Hc. exact (edge_irrefl st n Hf Hc). }
  rewrite H2. cbn [bind].
  assert (G2 : gstep st s2) by (eapply gstep_trans; [exact G1|now apply rest_eq_gstep]).
  assert (E2' : forall x y, edge s2 x y <-> edge st x y /\ x <> n /\ y <> n).
  { intros x y. rewrite E2, E1, <- edge_successors. split.
    - intros [[A B] C]. split; [exact A|split; [|exact B]]. intros ->. apply C. now split.
    - intros (A & B & C). split; [now split|]. intros [D _]. contradiction. }
  (* phase 3 *)
  destruct (wd_track _ Hd n Nn) as [T ET]. assert (En : trk st n = Some T) by (now apply zattr_attr).
  assert (En2 : zattr s2 n KTrack = Some T) by (apply zattr_attr; now rewrite Ha2, A1).
  rewrite En2.
  destruct (track_neighbors s2 T (time_of s2 n)) as [s3 [p' c']] eqn:Etn.
  assert (Esnd : snd (track_neighbors st T (time_of st n)) = (p', c')).
  { rewrite <- (gstep_time _ _ n G2). rewrite <- (track_neighbors_ext st s2 T (time_of s2 n)); [now rewrite Etn| |intros m; apply (gstep_time _ _ m G2)].
    destruct Hr2 as (_ & _ & Eb & _). rewrite Eb. apply B1. now apply udn_T_other. }
  destruct (neighbors_of_node st n T p' c' Hd Hf Ht Wb En Esnd) as [HP HC].
  pose proof (track_neighbors_state s2 T (time_of s2 n)) as F3. rewrite Etn in F3. cbv zeta in F3. cbn [fst] in F3.
  destruct F3 as (Eg3 & Es3 & Ef3 & Eu3 & Er3 & El3 & Ec3 & _).
  assert (Hd3 : W_dict s3) by (now apply (EditBook.W_dict_same_g s2)).
  assert (Hf3 : W_forest s3) by (now apply (W_forest_same_g s2)).
  assert (G3 : gstep st s3) by (eapply gstep_trans; [exact G2|now apply gstep_same_g]).
  assert (E3 : forall x y, edge s3 x y <-> edge st x y /\ x <> n /\ y <> n).
  { intros x y. rewrite (EditLin.edge_same_g s2 s3 x y Eg3). apply E2'. }
  assert (S3 : forall x, x <> n -> successors s3 x = filter (fun y => negb (n =? y)) (successors st x)).
  { intros x Hx. rewrite (EditLin.successors_same_g s2 s3 x Eg3), (S2 x Hx). apply S1. }
  assert (Hcs : forall o, In o (successors st n) -> is_node s3 o).
  { intros o Ho. apply (gstep_is_node _ _ _ G3). apply (wd_edge_nodes _ Hd n o). now apply edge_successors. }
  assert (Hnobridge : (forall pp cc, ~ (p' = Some pp /\ c' = Some cc)) ->
            forall os, (forall o, In o os -> In o (successors st n)) ->
            exists acts s4, udn_orphans os s3 acts2 = Ok acts s4 /\ W_dict s4 /\ W_forest s4 /\ gstep st s4 /\
              (forall x y, edge s4 x y <-> (edge st x y /\ x <> n /\ y <> n) \/ udn_bridge st n x y)).
  { intros Hno os Hos.
    destruct (udn_orphans_spec os s3 acts2 Hd3 Hf3) as (acts & s4 & H4 & Hd4 & Hf4 & G4 & E4 & _).
    { intros o Ho. apply Hcs. now apply Hos. }
    exists acts, s4. split; [exact H4|]. split; [exact Hd4|]. split; [exact Hf4|]. split; [eapply gstep_trans; eauto|].
    intros x y. rewrite E4, E3. split; [now left|]. intros [A|(B1' & B2' & B3')]; [exact A|].
    exfalso. apply (Hno x y). split; [apply HP; now split|now apply HC]. }
  assert (Htl : forall (l : list Z) o, In o (if match predecessors st n with [] => false | _ :: _ => true end then l else tl l) -> In o l).
  { intros l o. destruct (predecessors st n); [destruct l; [tauto|now right]|tauto]. }
  destruct p' as [pp|]; destruct c' as [cc|];
    try (cbn [bind]; apply Hnobridge; [intros pp0 cc0 [X Y]; discriminate|intros o Ho; now apply Htl in Ho]).
  (* both neighbours exist: the bridge *)
  destruct (proj1 (HP pp) eq_refl) as [Hpn Hnd]. pose proof (proj1 (HC cc) eq_refl) as Hsn.
  assert (Hnc : edge st n cc) by (apply edge_successors; rewrite Hsn; now left).
  assert (Hppn : pp <> n) by (intros ->; exact (edge_irrefl st n Hf Hpn)).
  assert (Hccn : cc <> n) by (intros ->; exact (edge_irrefl st n Hf Hnc)).
  assert (Npp : is_node s3 pp) by (apply (gstep_is_node _ _ _ G3); apply (wd_edge_nodes _ Hd pp n Hpn)).
  assert (Ncc : is_node s3 cc) by (apply (gstep_is_node _ _ _ G3); apply (wd_edge_nodes _ Hd n cc Hnc)).
  destruct (do_add_edge_spec s3 pp cc [] Npp Ncc) as (b & s3' & H3 & _). rewrite H3. cbn [bind].
  destruct (do_add_edge_WS s3 pp cc [] b s3' Hd3 Hf3 H3) as (Hd3' & Hf3' & E3' & N3' & A3' & R3').
  { rewrite !(gstep_time _ _ _ G3). pose proof (wf_time _ Hf _ _ Hpn). pose proof (wf_time _ Hf _ _ Hnc). lia. }
  { intros q Hq. apply E3 in Hq. destruct Hq as (Hq & Hqn & _). exfalso. apply Hqn. exact (wf_in _ Hf q n cc Hq Hnc). }
  { right. rewrite (S3 pp Hppn), (not_divides_single st pp n Hpn Hnd). cbn. rewrite Z.eqb_refl. cbn. lia. }
  rewrite Hsn. cbn [filter]. rewrite Z.eqb_refl. cbn [negb].
  assert (Enil : (if match predecessors st n with [] => false | _ :: _ => true end then @nil Z else tl []) = []) by (destruct (predecessors st n); reflexivity).
  rewrite Enil. cbn [udn_orphans].
  eexists _, s3'. split; [reflexivity|]. split; [exact Hd3'|]. split; [exact Hf3'|].
  split; [eapply gstep_trans; [exact G3|now apply rest_eq_gstep]|].
  intros x y. rewrite E3', E3. unfold udn_bridge. split.
  - intros [A|[-> ->]]; [now left|right]. split; [exact Hpn|split; [exact Hnd|exact Hsn]].
  - intros [A|(B1' & B2' & B3')]; [now left|right]. split; [|congruence]. exact (wf_in _ Hf x pp n B1' Hpn).
Qed.

(* ---- the pixels DeleteNode clears are those of the original state ---- *)
Lemma del_px_gstep st s n pxo : gstep st s -> del_px s n pxo = del_px st n pxo.
Proof.
  intros G. unfold del_px, get_pixels. destruct pxo; [reflexivity|]. now rewrite (gs_seg _ _ G), (gstep_time _ _ n G).
Qed.
Lemma px_ok_seg st s px : seg s = seg st -> (px_ok s px <-> px_ok st px).
Proof. intros E. unfold px_ok. destruct px; [now rewrite E|tauto]. Qed.
Lemma seg_after_seg st s px v : seg s = seg st -> seg_after s px v = seg_after st px v.
Proof. intros E. unfold seg_after. now rewrite E. Qed.
Lemma gstep_hist st s : gstep st s -> hist_eq st s.
Proof. intros G. unfold hist_eq. repeat split; apply G. Qed.

Lemma bridge_ends st n x y : W_forest st -> udn_bridge st n x y -> x <> n /\ y <> n /\ x <> y.
Proof.
  intros Hf (A & _ & C). assert (Hny : edge st n y) by (apply edge_successors; rewrite C; now left).
  pose proof (wf_time _ Hf _ _ A). pose proof (wf_time _ Hf _ _ Hny).
  split; [intros ->; lia|split; [intros ->; lia|intros ->; lia]].
Qed.

(* ================================================================== *)
(* 4. the specification of the core                                     *)
(* ================================================================== *)
(* ---- the validation of the pixels, which the action runs first ---- *)
Lemma px_check_ok st px : px_check st px = None <-> px_ok st px.
Proof.
  unfold px_check, px_ok. destruct px as [p|]; [|tauto]. destruct (seg st) as [sg|].
  - destruct (frame_ok sg (fst p)) eqn:Ef; split; try discriminate; try reflexivity.
    + intros _. now exists sg.
    + intros (sg' & E & F). injection E as <-. congruence.
  - split; [discriminate|intros (sg' & E & _); discriminate].
Qed.
Lemma px_check_err st px e : px_check st px = Some e ->
  exists p, px = Some p /\ ((e = EValue /\ seg st = None) \/
                           (e = EIndex /\ exists sg, seg st = Some sg /\ frame_ok sg (fst p) = false)).
Proof.
  unfold px_check. destruct px as [p|]; [|discriminate]. intros H. exists p. split; [reflexivity|].
  destruct (seg st) as [sg|]; [|injection H as <-; now left].
  destruct (frame_ok sg (fst p)) eqn:Ef; [discriminate|]. injection H as <-. right. split; [reflexivity|now exists sg].
Qed.
(* the pixels DeleteNode will clear are acceptable: the given ones pass the validation, and when
   none are given the node's own frame exists *)
Lemma px_ok_del_px st n pxo : px_ok st (del_px st n pxo) <-> px_check st pxo = None /\ (pxo = None -> px_ok st (get_pixels st n)).
Proof.
  rewrite px_check_ok. unfold del_px. destruct pxo as [p|].
  - split; [intros H; split; [exact H|discriminate]|tauto].
  - split; [intros H; split; [exact I|now intros _]|intros [_ H]; now apply H].
Qed.

(* unacceptable pixels are refused before anything is touched (no invariant needed) *)
Theorem udn_core_px_refused st n pxo e : px_check st pxo = Some e -> user_delete_node_core st n pxo = Err e st.
Proof. intros H. unfold user_delete_node_core. now rewrite H. Qed.
(* then an unknown node is refused, again with the untouched state (no invariant needed) *)
Theorem udn_core_unknown st n pxo : px_check st pxo = None -> ~ is_node st n ->
  user_delete_node_core st n pxo = Err ENetworkX st.
Proof. intros Hc Hn. unfold user_delete_node_core. apply has_node_false in Hn. now rewrite Hc, Hn. Qed.

(* an accepted call has passed both checks and is the prefix followed by DeleteNode *)
Lemma udn_core_ok_unfold st n pxo a st' : user_delete_node_core st n pxo = Ok a st' ->
  px_check st pxo = None /\ is_node st n /\
  exists acts s4 b, udn_prefix st n = Ok acts s4 /\ do_del_node s4 n pxo = Ok b st'.
Proof.
  rewrite udn_core_unfold. destruct (px_check st pxo); [discriminate|]. destruct (has_node st n) eqn:En; [|discriminate].
  cbn [negb]. destruct (udn_prefix st n) as [acts s4|e s4] eqn:E4; cbn [bind]; [|discriminate].
  destruct (do_del_node s4 n pxo) as [b s5|e s5] eqn:E5; cbn [bind]; [|discriminate]. intros H. injection H as _ <-.
  split; [reflexivity|]. split; [now apply has_node_is_node|]. exists acts, s4, b. split; [reflexivity|exact E5].
Qed.

(* what the core returns on a node of a well-formed state once the pixels passed the validation:
   [do_del_node] applied to the state s4 in which n is isolated and its track neighbours bridged *)
Lemma udn_core_run st n pxo : W_dict st -> W_forest st -> W_trk st -> W_book st -> px_check st pxo = None -> is_node st n ->
  exists acts s4, W_dict s4 /\ W_forest s4 /\ gstep st s4 /\
    (forall x y, edge s4 x y <-> (edge st x y /\ x <> n /\ y <> n) \/ udn_bridge st n x y) /\
    user_delete_node_core st n pxo = (do b, s <- do_del_node s4 n pxo; Ok (AGroup (acts ++ [ABasic b])) s).
Proof.
  intros Hd Hf Ht Wb Hc Nn. destruct (udn_prefix_spec st n Hd Hf Ht Wb Nn) as (acts & s4 & H & Hd4 & Hf4 & G4 & E4).
  exists acts, s4. split; [exact Hd4|]. split; [exact Hf4|]. split; [exact G4|]. split; [exact E4|].
  rewrite udn_core_unfold. apply has_node_is_node in Nn. rewrite Hc, Nn, H. reflexivity.
Qed.

Theorem udn_core_spec st n pxo : W_dict st -> W_forest st -> W_trk st -> W_book st ->
  (forall e, px_check st pxo = Some e -> user_delete_node_core st n pxo = Err e st) /\
  (px_check st pxo = None -> ~ is_node st n -> user_delete_node_core st n pxo = Err ENetworkX st) /\
  (is_node st n -> px_ok st (del_px st n pxo) ->
     exists a st', user_delete_node_core st n pxo = Ok a st' /\ W_dict st' /\ W_forest st' /\
       (forall x, is_node st' x <-> is_node st x /\ x <> n) /\
       (forall x y, edge st' x y <-> (edge st x y /\ x <> n /\ y <> n) \/ udn_bridge st n x y) /\
       (forall m k, m <> n -> k <> KTrack -> k <> KLin -> attr st' m k = attr st m k) /\
       (forall m, m <> n -> time_of st' m = time_of st m) /\
       seg st' = seg_after st (del_px st n pxo) 0 /\ hist_eq st st').
Proof.
  intros Hd Hf Ht Wb. split; [intros e; apply udn_core_px_refused|]. split; [apply udn_core_unknown|]. intros Nn Hpx.
  assert (Hc : px_check st pxo = None) by (now apply (px_ok_del_px st n pxo)).
  destruct (udn_core_run st n pxo Hd Hf Ht Wb Hc Nn) as (acts & s4 & Hd4 & Hf4 & G4 & E4 & Hrun).
  assert (Nn4 : is_node s4 n) by (now apply (gstep_is_node _ _ _ G4)).
  assert (Hpx4 : px_ok s4 (del_px s4 n pxo)).
  { rewrite (del_px_gstep st s4 n pxo G4). apply (px_ok_seg st s4 _ (gs_seg _ _ G4)). exact Hpx. }
  destruct (do_del_node_ok s4 n pxo Nn4 Hpx4) as (b & st' & H5).
  destruct (do_del_node_WS s4 n pxo b st' Hd4 Hf4 H5) as (Hd' & Hf' & N' & E' & _ & A' & T' & _ & _ & S' & Hh' & _).
  rewrite Hrun, H5. cbn [bind]. eexists _, st'. split; [reflexivity|]. split; [exact Hd'|]. split; [exact Hf'|].
  split; [intros x; now rewrite N', (gstep_is_node _ _ x G4)|]. split; [|split; [|split; [|split]]].
  - intros x y. rewrite E', E4. split.
    + intros [[A|A] _]; [now left|now right].
    + intros [A|A]; [split; [now left|tauto]|]. destruct (bridge_ends st n x y Hf A) as (X & Y & _). split; [now right|now split].
  - intros m k Hm H1 H2. now rewrite (A' m k Hm), (gs_attr _ _ G4).
  - intros m Hm. now rewrite (T' m Hm), (gstep_time _ _ m G4).
  - rewrite S', (del_px_gstep st s4 n pxo G4). apply seg_after_seg. apply (gs_seg _ _ G4).
  - eapply hist_eq_trans; [apply gstep_hist; exact G4|exact Hh'].
Qed.

(* ---- refusals ---- *)
(* every way the core can fail on a well-formed state:
   (1) the given pixels fail the validation: refused first, nothing touched;
   (2) the node is unknown: refused next, nothing touched;
   (3) no pixels were given and the frame of the node's own time does not exist in the array (a state
       that violates W_seg): IndexError in the last sub-action, after the edges of n were cut; the
       state behind the error is the one with n isolated *)
Theorem udn_core_errors st n pxo e st' : W_dict st -> W_forest st -> W_trk st -> W_book st ->
  user_delete_node_core st n pxo = Err e st' ->
  (px_check st pxo = Some e /\ st' = st) \/
  (px_check st pxo = None /\ ~ is_node st n /\ e = ENetworkX /\ st' = st) \/
  (is_node st n /\ pxo = None /\ ~ px_ok st (get_pixels st n) /\ e = EIndex /\
   W_dict st' /\ W_forest st' /\ gstep st st' /\
   (forall x y, edge st' x y <-> (edge st x y /\ x <> n /\ y <> n) \/ udn_bridge st n x y)).
Proof.
  intros Hd Hf Ht Wb H. destruct (px_check st pxo) as [e0|] eqn:Hc.
  { left. rewrite (udn_core_px_refused st n pxo e0 Hc) in H. injection H as <- <-. auto. }
  right. destruct (has_node st n) eqn:En.
  - right. apply has_node_is_node in En.
    destruct (udn_core_run st n pxo Hd Hf Ht Wb Hc En) as (acts & s4 & Hd4 & Hf4 & G4 & E4 & Hrun).
    rewrite Hrun in H. destruct (do_del_node s4 n pxo) as [b s5|e5 s5] eqn:H5; cbn [bind] in H; [discriminate|].
    injection H as <- <-.
    assert (Nn4 : is_node s4 n) by (now apply (gstep_is_node _ _ _ G4)).
    destruct (do_del_node_err s4 n pxo e5 s5 Nn4 H5) as (-> & Hpx & He).
    assert (Hpx0 : ~ px_ok st (del_px st n pxo)).
    { intros C. apply Hpx. rewrite (del_px_gstep st s4 n pxo G4). now apply (px_ok_seg st s4 _ (gs_seg _ _ G4)). }
    assert (Hnone : pxo = None).
    { destruct pxo as [p|]; [|reflexivity]. exfalso. apply Hpx0. cbn [del_px]. now apply px_check_ok. }
    subst pxo. split; [exact En|]. split; [reflexivity|]. split; [exact Hpx0|].
    split; [destruct He as [He|(_ & _ & C)]; [exact He|now contradiction C]|]. auto.
  - left. apply has_node_false in En. rewrite (udn_core_unknown st n pxo Hc En) in H. injection H as <- <-. auto.
Qed.

(* C11 for the core: when the node's own frame exists (W_seg gives it), EVERY error leaves the state alone *)
Theorem udn_refused_unchanged st n pxo e st' : W_dict st -> W_forest st -> W_trk st -> W_book st ->
  (is_node st n -> px_ok st (get_pixels st n)) ->
  user_delete_node_core st n pxo = Err e st' ->
  st' = st /\ (px_check st pxo = Some e \/ (px_check st pxo = None /\ e = ENetworkX /\ ~ is_node st n)).
Proof.
  intros Hd Hf Ht Wb Hpx H. destruct (udn_core_errors st n pxo e st' Hd Hf Ht Wb H) as [(A & B)|[(A & B & C & D)|(A & _ & B & _)]].
  - auto.
  - split; [exact D|]. right. auto.
  - exfalso. apply B. now apply Hpx.
Qed.

Lemma W_seg_own_frame st n : W_seg st -> is_node st n -> px_ok st (get_pixels st n).
Proof.
  intros Ws Nn. unfold get_pixels, W_seg in *. destruct (seg st) as [sg|] eqn:Es; [|exact I].
  cbn. exists sg. split; [exact Es|]. destruct Ws as (A & _). now apply A.
Qed.

Corollary udn_refused_unchanged_wseg st n pxo e st' : W_dict st -> W_forest st -> W_trk st -> W_book st -> W_seg st ->
  user_delete_node_core st n pxo = Err e st' ->
  st' = st /\ (px_check st pxo = Some e \/ (px_check st pxo = None /\ e = ENetworkX /\ ~ is_node st n)).
Proof. intros Hd Hf Ht Wb Ws. apply udn_refused_unchanged; auto. now apply W_seg_own_frame. Qed.

(* the two early refusals need no invariant *)
Theorem udn_unknown_unchanged st n pxo e st' : ~ is_node st n ->
  user_delete_node_core st n pxo = Err e st' -> st' = st /\ (px_check st pxo = Some e \/ e = ENetworkX).
Proof.
  intros Hn H. destruct (px_check st pxo) as [e0|] eqn:Hc.
  - rewrite (udn_core_px_refused st n pxo e0 Hc) in H. injection H as <- <-. auto.
  - rewrite (udn_core_unknown st n pxo Hc Hn) in H. injection H as <- <-. auto.
Qed.

(* the one late failure left (no pixels given, the node's own frame missing) is not a refusal:
   a node with a neighbour has lost it behind the error *)
Theorem udn_late_error_mutates st n pxo e st' : W_dict st -> W_forest st -> W_trk st -> W_book st ->
  is_node st n -> px_check st pxo = None -> user_delete_node_core st n pxo = Err e st' ->
  pxo = None /\ ~ px_ok st (get_pixels st n) /\ e = EIndex /\
  (forall q, edge st q n -> ~ edge st' q n) /\ (forall c, edge st n c -> ~ edge st' n c).
Proof.
  intros Hd Hf Ht Wb Nn Hc H.
  destruct (udn_core_errors st n pxo e st' Hd Hf Ht Wb H) as [(A & _)|[(_ & A & _)|(_ & P & Q & R & _ & _ & _ & E)]]; [congruence|contradiction|].
  split; [exact P|]. split; [exact Q|]. split; [exact R|].
  split; intros x Hx C; apply E in C; destruct C as [(_ & A & B)|B]; try congruence;
    destruct (bridge_ends st n _ _ Hf B) as (X & Y & _); congruence.
Qed.

(* ---- success, read backwards ---- *)
Theorem udn_core_ok_inv st n pxo a st' : W_dict st -> W_forest st -> W_trk st -> W_book st ->
  user_delete_node_core st n pxo = Ok a st' ->
  is_node st n /\ px_ok st (del_px st n pxo) /\ W_dict st' /\ W_forest st' /\
  (forall x, is_node st' x <-> is_node st x /\ x <> n) /\
  (forall x y, edge st' x y <-> (edge st x y /\ x <> n /\ y <> n) \/ udn_bridge st n x y) /\
  (forall m k, m <> n -> k <> KTrack -> k <> KLin -> attr st' m k = attr st m k) /\
  (forall m, m <> n -> time_of st' m = time_of st m) /\
  seg st' = seg_after st (del_px st n pxo) 0 /\ hist_eq st st'.
Proof.
  intros Hd Hf Ht Wb H. destruct (udn_core_ok_unfold st n pxo a st' H) as (Hc & Nn & _).
  assert (Hpx : px_ok st (del_px st n pxo)).
  { destruct (udn_core_run st n pxo Hd Hf Ht Wb Hc Nn) as (acts & s4 & Hd4 & Hf4 & G4 & E4 & Hrun).
    rewrite Hrun in H. destruct (do_del_node s4 n pxo) as [b s5|e5 s5] eqn:H5; cbn [bind] in H; [|discriminate].
    assert (X : exists b st', do_del_node s4 n pxo = Ok b st') by eauto. apply do_del_node_ok_iff in X. destruct X as [_ X].
    rewrite (del_px_gstep st s4 n pxo G4) in X. now apply (px_ok_seg st s4 _ (gs_seg _ _ G4)). }
  destruct (proj2 (proj2 (udn_core_spec st n pxo Hd Hf Ht Wb)) Nn Hpx) as (a0 & s0 & H0 & R). rewrite H in H0. injection H0 as <- <-.
  split; [exact Nn|]. split; [exact Hpx|exact R].
Qed.

Corollary udn_core_keeps_dict st n pxo a st' : W_dict st -> W_forest st -> W_trk st -> W_book st ->
  user_delete_node_core st n pxo = Ok a st' -> W_dict st'.
Proof. intros Hd Hf Ht Wb H. apply (udn_core_ok_inv st n pxo a st' Hd Hf Ht Wb H). Qed.
Corollary udn_core_keeps_forest st n pxo a st' : W_dict st -> W_forest st -> W_trk st -> W_book st ->
  user_delete_node_core st n pxo = Ok a st' -> W_dict st' /\ W_forest st'.
Proof. intros Hd Hf Ht Wb H. destruct (udn_core_ok_inv st n pxo a st' Hd Hf Ht Wb H) as (_ & _ & A & B & _). now split. Qed.

(* ================================================================== *)
(* 5. the public entry point (history and refresh signal on top)        *)
(* ================================================================== *)
Lemma finish_top_fields s a p : g (finish_top s a p) = g s /\ seg (finish_top s a p) = seg s /\
  ft (finish_top s a p) = ft s /\ bk (finish_top s a p) = bk s /\ nctr (finish_top s a p) = nctr s.
Proof. unfold finish_top, emit, hist_add. destruct (redo_stack s); cbn; repeat split; reflexivity. Qed.

Lemma udn_top_inv st n pxo top a st' : user_delete_node st n pxo top = Ok a st' ->
  exists s, user_delete_node_core st n pxo = Ok a s /\ st' = (if top then finish_top s a None else s).
Proof.
  unfold user_delete_node, top_wrap. destruct (user_delete_node_core st n pxo) as [a0 s0|e0 s0]; [|discriminate].
  intros H. injection H as <- <-. now exists s0.
Qed.
Lemma udn_top_err st n pxo top e st' : user_delete_node st n pxo top = Err e st' <-> user_delete_node_core st n pxo = Err e st'.
Proof.
  unfold user_delete_node, top_wrap. destruct (user_delete_node_core st n pxo) as [a0 s0|e0 s0]; [split; discriminate|tauto].
Qed.

(* C03 for UserDeleteNode: an accepted deletion keeps the forest; the node set and the edge set are the expected ones *)
Theorem udn_keeps_forest st n pxo top a st' : W_dict st -> W_forest st -> W_trk st -> W_book st ->
  user_delete_node st n pxo top = Ok a st' ->
  W_dict st' /\ W_forest st' /\
  (forall x, is_node st' x <-> is_node st x /\ x <> n) /\
  (forall x y, edge st' x y <-> (edge st x y /\ x <> n /\ y <> n) \/ udn_bridge st n x y) /\
  (forall m k, m <> n -> k <> KTrack -> k <> KLin -> attr st' m k = attr st m k) /\
  (forall m, m <> n -> time_of st' m = time_of st m) /\
  seg st' = seg_after st (del_px st n pxo) 0 /\ ft st' = ft st /\ nctr st' = nctr st.
Proof.
  intros Hd Hf Ht Wb H. destruct (udn_top_inv st n pxo top a st' H) as (s & Hc & ->).
  destruct (udn_core_ok_inv st n pxo a s Hd Hf Ht Wb Hc) as (_ & _ & Hd' & Hf' & N' & E' & A' & T' & S' & Hh).
  assert (Eg : g (if top then finish_top s a None else s) = g s /\ seg (if top then finish_top s a None else s) = seg s /\
               ft (if top then finish_top s a None else s) = ft s /\ nctr (if top then finish_top s a None else s) = nctr s).
  { destruct top; [|auto]. destruct (finish_top_fields s a None) as (X1 & X2 & X3 & _ & X5). auto. }
  destruct Eg as (Eg & Es & Ef & Ec). remember (if top then finish_top s a None else s) as st' eqn:Est'. clear Est'.
  split; [now apply (EditBook.W_dict_same_g s)|]. split; [now apply (W_forest_same_g s)|].
  split; [intros x; now rewrite (EditLin.is_node_same_g s st' x Eg)|].
  split; [intros x y; now rewrite (EditLin.edge_same_g s st' x y Eg)|].
  split; [intros m k Hm H1 H2; rewrite (same_g_attr s st' Eg); now apply A'|].
  split; [intros m Hm; rewrite (EditLin.time_same_g s st' m Eg); now apply T'|].
  split; [now rewrite Es|]. destruct Hh as (F1 & _ & _ & _ & F5). split; congruence.
Qed.

Corollary udn_keeps_dict st n pxo top a st' : W_dict st -> W_forest st -> W_trk st -> W_book st ->
  user_delete_node st n pxo top = Ok a st' -> W_dict st'.
Proof. intros Hd Hf Ht Wb H. apply (udn_keeps_forest st n pxo top a st' Hd Hf Ht Wb H). Qed.

(* C11 for UserDeleteNode: when the node's own frame exists (W_seg gives it), a refused deletion returns the
   state it was given, whatever the error *)
Theorem udn_top_refused_unchanged st n pxo top e st' : W_dict st -> W_forest st -> W_trk st -> W_book st ->
  (is_node st n -> px_ok st (get_pixels st n)) ->
  user_delete_node st n pxo top = Err e st' ->
  st' = st /\ (px_check st pxo = Some e \/ (px_check st pxo = None /\ e = ENetworkX /\ ~ is_node st n)).
Proof. intros Hd Hf Ht Wb Hpx H. apply udn_top_err in H. now apply (udn_refused_unchanged st n pxo e st'). Qed.

Corollary udn_top_refused_unchanged_wseg st n pxo top e st' : W_dict st -> W_forest st -> W_trk st -> W_book st -> W_seg st ->
  user_delete_node st n pxo top = Err e st' -> st' = st.
Proof. intros Hd Hf Ht Wb Ws H. apply udn_top_err in H. now apply (udn_refused_unchanged_wseg st n pxo e st'). Qed.

Theorem udn_top_errors st n pxo top e st' : W_dict st -> W_forest st -> W_trk st -> W_book st ->
  user_delete_node st n pxo top = Err e st' ->
  (px_check st pxo = Some e /\ st' = st) \/
  (px_check st pxo = None /\ ~ is_node st n /\ e = ENetworkX /\ st' = st) \/
  (is_node st n /\ pxo = None /\ ~ px_ok st (get_pixels st n) /\ e = EIndex /\
   W_dict st' /\ W_forest st' /\ gstep st st' /\
   (forall x y, edge st' x y <-> (edge st x y /\ x <> n /\ y <> n) \/ udn_bridge st n x y)).
Proof. intros Hd Hf Ht Wb H. apply udn_top_err in H. now apply udn_core_errors. Qed.

(* accepted exactly on the nodes of the state whose pixels can be cleared *)
Theorem udn_accepted_iff st n pxo top : W_dict st -> W_forest st -> W_trk st -> W_book st ->
  ((exists a st', user_delete_node st n pxo top = Ok a st') <-> is_node st n /\ px_ok st (del_px st n pxo)).
Proof.
  intros Hd Hf Ht Wb. split.
  - intros (a & st' & H). destruct (udn_top_inv st n pxo top a st' H) as (s & Hc & _).
    destruct (udn_core_ok_inv st n pxo a s Hd Hf Ht Wb Hc) as (A & B & _). now split.
  - intros [Nn Hpx]. destruct (proj2 (proj2 (udn_core_spec st n pxo Hd Hf Ht Wb)) Nn Hpx) as (a & s & H & _).
    unfold user_delete_node, top_wrap. rewrite H. eauto.
Qed.

(* with a segmentation in which every node has its frame (W_seg), or without segmentation,
   deleting a node without giving pixels is always accepted *)
Corollary udn_accepted_wseg st n top : W_dict st -> W_forest st -> W_trk st -> W_book st -> W_seg st ->
  is_node st n -> exists a st', user_delete_node st n None top = Ok a st'.
Proof.
  intros Hd Hf Ht Wb Ws Nn. apply (udn_accepted_iff st n None top Hd Hf Ht Wb). split; [exact Nn|].
  cbn [del_px]. now apply W_seg_own_frame.
Qed.

(* ================================================================== *)
(* 6. stretch: the ids and the lookups (C04, C05, C06)                  *)
(* ================================================================== *)
(* what the lineage / lookup argument carries from sub-action to sub-action: W_lin without the
   distinct-roots half, which the cuts break until the orphans are relabelled *)
Record LB (s : state) : Prop := {
  lb_cfg : cfg_ok s; lb_dict : W_dict s; lb_forest : W_forest s;
  lb_l1 : forall a c, edge s a c -> lin s a = lin s c; lb_book : W_book s
}.

Lemma reach_to_root st o x : (forall q, ~ edge st q o) -> reach st x o -> x = o.
Proof.
  intros Hr R. destruct (EditLin.reach_last st x o R) as [E|(p & _ & Hp)]; [exact E|]. exfalso. exact (Hr p Hp).
Qed.

(* the ancestors of a node are linearly ordered *)
Lemma reach_up_linear st a b m : W_forest st -> reach st a m -> reach st b m -> reach st a b \/ reach st b a.
Proof.
  intros Hf Ha Hb. apply clos_rt_rtn1 in Hb. revert a Ha. induction Hb as [|y m Hym Hby IH]; intros a Ha.
  - now left.
  - destruct (EditLin.reach_last st a m Ha) as [->|(p & Rp & Hp)].
    + right. eapply rt_trans; [apply clos_rtn1_rt; exact Hby|now apply rt_step].
    + assert (p = y) as -> by (exact (wf_in _ Hf p y m Hp Hym)). now apply IH.
Qed.

Lemma roots_disjoint st o o' m : W_forest st -> (forall q, ~ edge st q o) -> (forall q, ~ edge st q o') ->
  reach st o m -> reach st o' m -> o = o'.
Proof.
  intros Hf R R' H H'. destruct (reach_up_linear st o o' m Hf H H') as [X|X].
  - now apply (reach_to_root st o' o R').
  - symmetry. now apply (reach_to_root st o o' R).
Qed.

(* phase 4 with the ids: the subtree of every listed root gets its own fresh lineage id *)
Lemma udn_orphans_rich : forall os s acc, LB s -> NoDup os ->
  (forall o, In o os -> is_node s o /\ forall q, ~ edge s q o) ->
  exists acts s', udn_orphans os s acc = Ok acts s' /\ LB s' /\ gstep s s' /\
    (forall x y, edge s' x y <-> edge s x y) /\
    (forall m, trk s' m = trk s m) /\
    max_lin (bk s) <= max_lin (bk s') /\
    (forall m, (forall o, In o os -> ~ reach s o m) -> lin s' m = lin s m) /\
    (forall o m, In o os -> reach s o m -> exists l, lin s' m = Some l /\ max_lin (bk s) < l) /\
    (forall o o' m m', In o os -> In o' os -> reach s o m -> reach s o' m' -> lin s' m = lin s' m' -> o = o').
Proof.
  induction os as [|o r IH]; intros s acc L Hnd Hroot; cbn [udn_orphans].
  - exists acc, s. split; [reflexivity|]. split; [exact L|]. split; [apply gstep_refl|]. split; [reflexivity|].
    split; [reflexivity|]. split; [lia|]. split; [reflexivity|]. split; [intros o m []|intros o o' m m' []].
  - destruct L as [C Hd Hf L1 Wb]. inversion Hnd as [|? ? Ho Hr]; subst.
    destruct (Hroot o (or_introl eq_refl)) as [No Ro].
    destruct (wd_track _ Hd o No) as [t Et]. apply zattr_attr in Et. rewrite Et.
    destruct (EditLin.upd_track_step_lin s o t (Some (next_lin s)) C Hd Hf L1 Wb No)
      as (b & s1 & H1 & Hd1 & Hf1 & G1 & E1 & S1 & C1 & Wb1 & M1 & Lin1 & Lout1).
    rewrite H1. cbn [bind].
    assert (Tr1 : forall m, trk s1 m = trk s m) by (apply (do_upd_track_same_id s o t _ b s1 Hd (proj1 C) H1 Et)).
    assert (Mx : max_lin (bk s1) = max_lin (bk s) + 1) by (rewrite M1; unfold next_lin; lia).
    assert (R1 : forall a b0, reach s1 a b0 <-> reach s a b0) by (apply EditLin.reach_ext; exact E1).
    assert (L11 : forall a c, edge s1 a c -> lin s1 a = lin s1 c).
    { intros a c Hac. apply E1 in Hac. destruct (EditLin.reach_dec s Hd Hf o a) as [Ra|Ra].
      - rewrite (Lin1 a Ra), (Lin1 c); [reflexivity|]. eapply rt_trans; [exact Ra|now apply rt_step].
      - assert (Rc : ~ reach s o c).
        { intros Rc. destruct (EditLin.reach_last s o c Rc) as [->|(p & Rp & Hp)]; [exact (Ro a Hac)|].
          apply Ra. now rewrite (wf_in _ Hf a p c Hac Hp). }
        rewrite (Lout1 a Ra), (Lout1 c Rc). now apply L1. }
    destruct (IH s1 (acc ++ [ABasic b]) (Build_LB s1 C1 Hd1 Hf1 L11 Wb1) Hr)
      as (acts & s' & H & L' & G' & E' & Tr' & M' & Lf' & Ln' & Ld').
    { intros o' Ho'. destruct (Hroot o' (or_intror Ho')) as [A B]. split; [now apply (gstep_is_node _ _ _ G1)|].
      intros q Hq. apply (B q). now apply E1. }
    (* the subtree of o is not touched by the later relabellings *)
    assert (Hkeep : forall m, reach s o m -> lin s' m = Some (next_lin s)).
    { intros m Rm. rewrite Lf'; [now apply Lin1|]. intros o' Ho' Rm'. apply R1 in Rm'.
      assert (o = o') by (apply (roots_disjoint s o o' m Hf Ro); [apply (Hroot o' (or_intror Ho'))|exact Rm|exact Rm']).
      subst o'. contradiction. }
    exists acts, s'. split; [exact H|]. split; [exact L'|]. split; [eapply gstep_trans; eauto|].
    split; [intros x y; now rewrite E', E1|]. split; [intros m; now rewrite Tr', Tr1|]. split; [lia|].
    split; [|split].
    + intros m Hm. rewrite Lf'; [apply Lout1; apply Hm; now left|]. intros o' Ho' Rm'. apply R1 in Rm'. apply (Hm o'); [now right|exact Rm'].
    + intros o0 m [<-|Ho0] Rm.
      * exists (next_lin s). split; [now apply Hkeep|unfold next_lin; lia].
      * apply R1 in Rm. destruct (Ln' o0 m Ho0 Rm) as (l & El & Hl). exists l. split; [exact El|lia].
    + intros o1 o2 m m' [<-|H1'] [<-|H2'] Rm Rm' Eq; [reflexivity| | |].
      * exfalso. apply R1 in Rm'. destruct (Ln' o2 m' H2' Rm') as (l & El & Hl). rewrite (Hkeep m Rm), El in Eq.
        injection Eq as Eq. unfold next_lin in Eq. lia.
      * exfalso. apply R1 in Rm. destruct (Ln' o1 m H1' Rm) as (l & El & Hl). rewrite (Hkeep m' Rm'), El in Eq.
        injection Eq as Eq. unfold next_lin in Eq. lia.
      * apply R1 in Rm. apply R1 in Rm'. exact (Ld' o1 o2 m m' H1' H2' Rm Rm' Eq).
Qed.

(* the sibling the first loop picks *)
Lemma remove1_sibling st p n : W_dict st -> edge st p n -> length (successors st p) = 2%nat ->
  exists sib r, remove1 n (successors st p) = sib :: r /\ edge st p sib /\ sib <> n /\
                forall x, edge st p x -> x = n \/ x = sib.
Proof.
  intros Hd Hp L2. pose proof (wd_adj_nodup _ Hd p) as Hnd.
  assert (Hin : In n (successors st p)) by (now apply edge_successors).
  assert (Hall : forall sib, In sib (successors st p) -> sib <> n -> forall x, edge st p x -> x = n \/ x = sib).
  { intros sib Hs Hne x Hx. apply edge_successors in Hx.
    destruct (successors st p) as [|a [|b [|c r]]] eqn:Es; try (cbn in L2; lia).
    cbn [In] in *. intuition congruence. }
  destruct (successors st p) as [|a [|b [|c r]]] eqn:Es; try (cbn in L2; lia).
  cbn [remove1]. destruct (Z.eqb_spec n a) as [->|Hna].
  - assert (Hb : b <> a) by (inversion Hnd as [|? ? Hx _]; subst; intros ->; apply Hx; now left).
    exists b, []. split; [reflexivity|]. split; [apply edge_successors; rewrite Es; right; now left|]. split; [exact Hb|].
    apply Hall; [right; now left|exact Hb].
  - exists a, (if n =? b then [] else [b]). split; [reflexivity|]. split; [apply edge_successors; rewrite Es; now left|].
    split; [congruence|]. apply Hall; [now left|congruence].
Qed.

Lemma LB_frame s s' : (forall m, is_node s' m <-> is_node s m) -> (forall m k, attr s' m k = attr s m k) ->
  bk s' = bk s -> ft s' = ft s -> cfg_ok s -> W_book s -> cfg_ok s' /\ W_book s' /\
  (forall m, lin s' m = lin s m) /\ (forall m, trk s' m = trk s m) /\ max_lin (bk s') = max_lin (bk s).
Proof.
  intros Hn Ha Eb Ef C Wb.
  assert (Hl : forall m, lin s' m = lin s m) by (intros m; unfold lin, zattr; now rewrite Ha).
  assert (Ht : forall m, trk s' m = trk s m) by (intros m; unfold trk, zattr; now rewrite Ha).
  split; [now apply (EditLin.cfg_ok_ft s s')|]. split; [apply (EditBook.W_book_ext s s'); auto|]. split; [exact Hl|].
  split; [exact Ht|now rewrite Eb].
Qed.

(* phase 1 with the ids *)
Lemma udn_preds_rich st n acts s1 : LB st -> is_node st n ->
  udn_preds n (predecessors st n) st [] = Ok acts s1 ->
  cfg_ok s1 /\ W_book s1 /\ (forall m, lin s1 m = lin st m) /\ max_lin (bk s1) = max_lin (bk st) /\
  ((forall q, edge st q n -> ~ divides st q) -> forall m, trk s1 m = trk st m) /\
  (W_trk st -> forall q, edge st q n -> divides st q -> W_trk s1).
Proof.
  intros [C Hd Hf L1 Wb] Nn H.
  (* the structure of s1, from the basic specification *)
  destruct (udn_preds_spec st n Hd Hf Nn) as (acts0 & s0 & H0 & Hd1 & Hf1 & G1 & E1 & S1 & _).
  rewrite H in H0. injection H0 as <- <-.
  destruct (preds_cases st n Hd Hf) as [[Ep Hno]|(p & Ep & Hp & Hall)]; rewrite Ep in H; cbn [udn_preds] in H.
  - injection H as <- <-. split; [exact C|]. split; [exact Wb|]. split; [reflexivity|]. split; [reflexivity|].
    split; [reflexivity|]. intros _ q Hq. exfalso. exact (Hno q Hq).
  - cbv zeta in H. pose proof (wf_out _ Hf p) as Hout.
    destruct (Nat.eqb_spec (length (successors st p)) 2) as [L2|L2].
    + destruct (remove1_sibling st p n Hd Hp L2) as (sib & r & Er & Hps & Hsn & Honly). rewrite Er in H.
      assert (Np : is_node st p) by apply (wd_edge_nodes _ Hd p n Hp).
      assert (Ns : is_node st sib) by apply (wd_edge_nodes _ Hd p sib Hps).
      destruct (wd_track _ Hd p Np) as [t Ht]. apply zattr_attr in Ht. rewrite Ht in H.
      destruct (EditLin.upd_track_step_lin st sib t None C Hd Hf L1 Wb Ns)
        as (b & sa & Ha & Hda & Hfa & Ga & Ea & Sa & Ca & Wba & Ma & Lina).
      rewrite Ha in H. cbn [bind] in H.
      destruct (do_del_edge sa p n) as [b2 s1'|e2 s1'] eqn:H2; cbn [bind udn_preds] in H; [|discriminate]. injection H as _ ->.
      destruct (do_del_edge_WS sa p n b2 s1 Hda Hfa H2) as (_ & _ & _ & Hn2 & Ha2 & (_ & Ef2 & Eb2 & _)).
      destruct (LB_frame sa s1) as (C1 & Wb1 & Lin1 & Trk1 & M1); auto.
      { intros m. unfold is_node. now rewrite Hn2. }
      split; [exact C1|]. split; [exact Wb1|]. split; [intros m; now rewrite Lin1, Lina|]. split; [now rewrite M1, Ma|].
      assert (Dp : divides st p) by (unfold divides; lia).
      split; [intros Hnd; exfalso; exact (Hnd p Hp Dp)|].
      intros Wt q Hq _. clear q Hq.
      set (K := length (nodes (g st))).
      assert (Hps_t : time_of st p < time_of st sib) by (now apply (wf_time _ Hf)).
      destruct (relabel_walk st st p sib t None b sa Hd Hf Wt Hd Hf eq_refl (fun _ _ => eq_refl) (fun _ _ => eq_refl) Ns Hps_t (proj1 C) Ha) as [Tr _].
      fold K in Tr.
      assert (Hp_out : ~ In p (chain st K sib)).
      { intros Hi. destruct (chain_time st Hf K sib p Hi) as [E|L]; [subst; lia|lia]. }
      assert (Tr1 : forall m, trk s1 m = if memz m (chain st K sib) then Some t else trk st m) by (intros m; now rewrite Trk1, Tr).
      assert (Ss : forall a, a <> p -> successors s1 a = successors st a).
      { intros a Ha'. rewrite S1. apply filter_neq_notin. intros Hi. apply Ha'. apply Hall. now apply edge_successors. }
      assert (Sp : length (successors s1 p) = 1%nat).
      { rewrite S1, filter_remove_length; [lia|apply (wd_adj_nodup _ Hd)|now apply edge_successors]. }
      apply (W_trk_relabel st st s1 p sib t K Wt Hf).
      * intros m. apply (gstep_is_node _ _ _ G1).
      * reflexivity.
      * exact Ss.
      * apply (chain_complete st sib Hd Hf Ns).
      * exact Hp_out.
      * intros a Ha'. exact (wf_in _ Hf a p sib Ha' Hps).
      * exact Tr1.
      * intros c Hc _. apply E1 in Hc. destruct Hc as [Hc Hcn]. destruct (Honly c Hc) as [->| ->]; [contradiction|].
        rewrite !Tr1. apply memz_false in Hp_out. rewrite Hp_out.
        pose proof (chain_self st K sib) as Hself. apply memz_In in Hself. rewrite Hself. exact Ht.
      * right. intros [_ P]. assert (Es : edge s1 p sib) by (apply E1; now split). specialize (P p Es). unfold divides in P. lia.
      * intros q a Hqa Hna [_ P]. destruct (Z.eq_dec q p) as [->|Hqp]; [exact Dp|].
        assert (Han : a <> n) by (intros ->; apply Hqp; now apply Hall).
        assert (Es : edge s1 q a) by (apply E1; now split). specialize (P q Es). unfold divides in *. now rewrite (Ss q Hqp) in P.
    + cbn [bind] in H.
      destruct (do_del_edge st p n) as [b2 s1'|e2 s1'] eqn:H2; cbn [bind udn_preds] in H; [|discriminate]. injection H as _ ->.
      destruct (do_del_edge_WS st p n b2 s1 Hd Hf H2) as (_ & _ & _ & Hn2 & Ha2 & (_ & Ef2 & Eb2 & _)).
      destruct (LB_frame st s1) as (C1 & Wb1 & Lin1 & Trk1 & M1); auto.
      { intros m. unfold is_node. now rewrite Hn2. }
      split; [exact C1|]. split; [exact Wb1|]. split; [exact Lin1|]. split; [exact M1|]. split; [intros _; exact Trk1|].
      intros _ q Hq Dq. exfalso. rewrite (Hall q Hq) in Dq. unfold divides in Dq. lia.
Qed.

(* ---- W_trk across the deletion of a node whose parent (if any) does not divide ---- *)
Lemma divides_edges st u : W_dict st -> (divides st u <-> exists a b, a <> b /\ edge st u a /\ edge st u b).
Proof.
  intros Hd. unfold divides. pose proof (wd_adj_nodup _ Hd u) as Hnd. split.
  - intros L. destruct (successors st u) as [|a [|b r]] eqn:Es; try (cbn in L; lia).
    exists a, b. split; [inversion Hnd as [|? ? Hx _]; subst; intros ->; apply Hx; now left|].
    split; apply edge_successors; rewrite Es; [now left|right; now left].
  - intros (a & b & Hab & Ha & Hb). apply edge_successors in Ha, Hb.
    destruct (successors st u) as [|x [|y r]]; cbn; try lia.
    + destruct Ha.
    + destruct Ha as [<-|[]]; destruct Hb as [<-|[]]; contradiction.
Qed.

Lemma W_trk_del_node st st' n :
  W_dict st -> W_forest st -> W_trk st -> W_dict st' ->
  (forall x, is_node st' x <-> is_node st x /\ x <> n) ->
  (forall x y, edge st' x y <-> (edge st x y /\ x <> n /\ y <> n) \/ udn_bridge st n x y) ->
  (forall m, m <> n -> trk st' m = trk st m) ->
  (forall q, edge st q n -> ~ divides st q) ->
  W_trk st'.
Proof.
  intros Hd Hf Ht Hd' N' E' T' Hpar.
  assert (D1 : forall u, divides st' u -> divides st u).
  { intros u Du. apply (divides_edges st' u Hd') in Du. destruct Du as (a & b & Hab & Ha & Hb).
    apply E' in Ha. apply E' in Hb. apply (divides_edges st u Hd).
    destruct Ha as [(Ha & _ & Han)|(A1 & A2 & A3)]; destruct Hb as [(Hb & _ & Hbn)|(B1 & B2 & B3)].
    - exists a, b. auto.
    - exfalso. pose proof (not_divides_single st u n B1 B2) as Es. apply edge_successors in Ha. rewrite Es in Ha.
      destruct Ha as [<-|[]]. contradiction.
    - exfalso. pose proof (not_divides_single st u n A1 A2) as Es. apply edge_successors in Hb. rewrite Es in Hb.
      destruct Hb as [<-|[]]. contradiction.
    - exfalso. congruence. }
  assert (D2 : forall u, u <> n -> divides st u -> divides st' u).
  { intros u Hun Du. pose proof Du as Du0. apply (divides_edges st u Hd) in Du. destruct Du as (a & b & Hab & Ha & Hb).
    apply (divides_edges st' u Hd'). exists a, b. split; [exact Hab|].
    assert (Han : a <> n) by (intros ->; exact (Hpar u Ha Du0)).
    assert (Hbn : b <> n) by (intros ->; exact (Hpar u Hb Du0)).
    split; apply E'; left; auto. }
  constructor.
  - intros u v Huv Hnd'. apply E' in Huv. destruct Huv as [(Ho & Hun & Hvn)|B].
    + rewrite (T' u Hun), (T' v Hvn). apply (wt1 _ Ht u v Ho). intros Du. apply Hnd'. now apply D2.
    + destruct (bridge_ends st n u v Hf B) as (Hun & Hvn & _). destruct B as (A & Bn & Cs).
      rewrite (T' u Hun), (T' v Hvn), (wt1 _ Ht u n A Bn).
      destruct (single_not_divides st n v Cs) as [Hnv Hndn]. exact (wt1 _ Ht n v Hnv Hndn).
  - assert (K : forall a, head st' a -> head st a \/ (successors st n = [a] /\ head st n)).
    { intros a [Na Pa]. apply N' in Na. destruct Na as [Na Han].
      destruct (parent_dec st a Hd) as [[q Hq]|Hnone].
      - destruct (le_lt_dec 2 (length (successors st q))) as [D|D].
        + left. split; [exact Na|]. intros p Hp. now rewrite (wf_in _ Hf p q a Hp Hq).
        + assert (Dq : ~ divides st q) by (unfold divides; lia).
          pose proof (not_divides_single st q a Hq Dq) as Es.
          destruct (Z.eq_dec q n) as [->|Hqn].
          * right. split; [exact Es|]. split; [apply (wd_edge_nodes _ Hd n a Hq)|]. intros p Hp. exfalso.
            pose proof (Hpar p Hp) as Dp. apply Dp. apply D1. apply Pa. apply E'. right. split; [exact Hp|split; [exact Dp|exact Es]].
          * exfalso. apply Dq. apply D1. apply Pa. apply E'. left. auto.
      - left. split; [exact Na|]. intros p Hp. exfalso. exact (Hnone p Hp). }
    intros a b Ha Hb Eab.
    assert (Han : a <> n) by (apply (N' a), Ha). assert (Hbn : b <> n) by (apply (N' b), Hb).
    rewrite (T' a Han), (T' b Hbn) in Eab.
    assert (Hchild : forall c, successors st n = [c] -> trk st n = trk st c).
    { intros c Es. destruct (single_not_divides st n c Es) as [Hnc Hndn]. exact (wt1 _ Ht n c Hnc Hndn). }
    destruct (K a Ha) as [Ha0|[Ea Hn]]; destruct (K b Hb) as [Hb0|[Eb Hn']].
    + now apply (wt2 _ Ht).
    + exfalso. apply Han. apply (wt2 _ Ht a n Ha0 Hn'). rewrite (Hchild b Eb). exact Eab.
    + exfalso. apply Hbn. apply (wt2 _ Ht b n Hb0 Hn). rewrite (Hchild a Ea). now symmetry.
    + congruence.
Qed.

(* ---- the run before DeleteNode, with the ids ---- *)
Lemma NoDup_tl (l : list Z) : NoDup l -> NoDup (tl l).
Proof. intros H. destruct l; [exact H|]. now inversion H. Qed.

Lemma udn_prefix_rich st n : LB st -> W_trk st -> is_node st n ->
  exists acts s4 os, udn_prefix st n = Ok acts s4 /\ LB s4 /\ gstep st s4 /\
    (forall x y, edge s4 x y <-> (edge st x y /\ x <> n /\ y <> n) \/ udn_bridge st n x y) /\
    (* track ids *)
    ((forall q, edge st q n -> ~ divides st q) -> forall m, trk s4 m = trk st m) /\
    (forall q, edge st q n -> divides st q -> exists s1, W_dict s1 /\ W_forest s1 /\ W_trk s1 /\
        (forall m, is_node s1 m <-> is_node st m) /\ (forall x y, edge s1 x y <-> edge st x y /\ y <> n) /\
        forall m, trk s4 m = trk s1 m) /\
    (* lineage ids *)
    max_lin (bk st) <= max_lin (bk s4) /\
    (forall o, In o os -> edge st n o) /\
    (forall a, edge st n a -> (forall p, ~ udn_bridge st n p a) ->
        In a os \/ ((forall q, ~ edge st q n) /\ exists r, successors st n = a :: r)) /\
    (forall m, (forall o, In o os -> ~ reach s4 o m) -> lin s4 m = lin st m) /\
    (forall o m, In o os -> reach s4 o m -> exists l, lin s4 m = Some l /\ max_lin (bk st) < l) /\
    (forall o o' m m', In o os -> In o' os -> reach s4 o m -> reach s4 o' m' -> lin s4 m = lin s4 m' -> o = o').
Proof.
  intros L Ht Nn. pose proof L as [C Hd Hf L1 Wb]. unfold udn_prefix. cbv zeta.
  (* phase 1 *)
  destruct (udn_preds_spec st n Hd Hf Nn) as (acts1 & s1 & H1 & Hd1 & Hf1 & G1 & E1 & S1 & A1 & B1).
  destruct (udn_preds_rich st n acts1 s1 L Nn H1) as (C1 & Wb1 & Lin1 & M1 & Trk1a & Trk1b).
  rewrite H1. cbn [bind].
  (* phase 2 *)
  assert (Ecs : successors s1 n = successors st n).
  { rewrite S1. apply filter_neq_notin. intros Hi. apply edge_successors in Hi. exact (edge_irrefl st n Hf Hi). }
  rewrite Ecs. pose proof (wd_adj_nodup _ Hd n) as Hcsnd.
  destruct (udn_succs_spec n (successors st n) s1 acts1 Hd1 Hf1 Hcsnd) as (acts2 & s2 & H2 & Hd2 & Hf2 & Hn2 & Ha2 & Hr2 & E2 & S2).
  { intros c Hc. apply E1. split; [now apply edge_successors|]. intros ->. apply edge_successors in Hc. exact (edge_irrefl st n Hf Hc). }
  rewrite H2. cbn [bind].
  assert (G2 : gstep st s2) by (eapply gstep_trans; [exact G1|now apply rest_eq_gstep]).
  assert (E2' : forall x y, edge s2 x y <-> edge st x y /\ x <> n /\ y <> n).
  { intros x y. rewrite E2, E1, <- edge_successors. split.
    - intros [[A B] X]. split; [exact A|split; [|exact B]]. intros ->. apply X. now split.
    - intros (A & B & X). split; [now split|]. intros [D _]. contradiction. }
  destruct (LB_frame s1 s2) as (C2 & Wb2 & Lin2 & Trk2 & M2); [intros m; unfold is_node; now rewrite Hn2|exact Ha2|apply Hr2|apply Hr2|exact C1|exact Wb1|].
  (* phase 3 *)
  destruct (wd_track _ Hd n Nn) as [T ET]. assert (En : trk st n = Some T) by (now apply zattr_attr).
  assert (En2 : zattr s2 n KTrack = Some T) by (apply zattr_attr; now rewrite Ha2, A1).
  rewrite En2.
  destruct (track_neighbors s2 T (time_of s2 n)) as [s3 [p' c']] eqn:Etn.
  assert (Esnd : snd (track_neighbors st T (time_of st n)) = (p', c')).
  { rewrite <- (gstep_time _ _ n G2). rewrite <- (track_neighbors_ext st s2 T (time_of s2 n)); [now rewrite Etn| |intros m; apply (gstep_time _ _ m G2)].
    destruct Hr2 as (_ & _ & Eb & _). rewrite Eb. apply B1. now apply udn_T_other. }
  destruct (neighbors_of_node st n T p' c' Hd Hf Ht Wb En Esnd) as [HP HC].
  destruct (EditBook.track_neighbors_spec s2 T _ s3 p' c' Wb2 Etn) as (_ & Wb3 & _ & _).
  pose proof (track_neighbors_state s2 T (time_of s2 n)) as F3. rewrite Etn in F3. cbv zeta in F3. cbn [fst] in F3.
  destruct F3 as (Eg3 & Es3 & Ef3 & Eu3 & Er3 & El3 & Ec3 & _ & _ & M3).
  assert (Hd3 : W_dict s3) by (now apply (EditBook.W_dict_same_g s2)).
  assert (Hf3 : W_forest s3) by (now apply (W_forest_same_g s2)).
  assert (G3 : gstep st s3) by (eapply gstep_trans; [exact G2|now apply gstep_same_g]).
  assert (E3 : forall x y, edge s3 x y <-> edge st x y /\ x <> n /\ y <> n).
  { intros x y. rewrite (EditLin.edge_same_g s2 s3 x y Eg3). apply E2'. }
  assert (S3 : forall x, x <> n -> successors s3 x = filter (fun y => negb (n =? y)) (successors st x)).
  { intros x Hx. rewrite (EditLin.successors_same_g s2 s3 x Eg3), (S2 x Hx). apply S1. }
  assert (C3 : cfg_ok s3) by (now apply (EditLin.cfg_ok_ft s2 s3)).
  assert (Lin3 : forall m, lin s3 m = lin st m) by (intros m; now rewrite (EditLin.lin_same_g s2 s3 m Eg3), Lin2, Lin1).
  assert (Trk3 : forall m, trk s3 m = trk s1 m) by (intros m; now rewrite (same_g_trk s2 s3 Eg3), Trk2).
  assert (Mx3 : max_lin (bk s3) = max_lin (bk st)) by (now rewrite M3, M2, M1).
  assert (L13 : forall a c, edge s3 a c -> lin s3 a = lin s3 c).
  { intros a c Hac. apply E3 in Hac. rewrite !Lin3. apply L1. tauto. }
  pose (LB3 := Build_LB s3 C3 Hd3 Hf3 L13 Wb3).
  (* the track ids, once the rest of the run is known not to change them *)
  assert (Htrk : forall s4, (forall m, trk s4 m = trk s3 m) ->
            ((forall q, edge st q n -> ~ divides st q) -> forall m, trk s4 m = trk st m) /\
            (forall q, edge st q n -> divides st q -> exists s1, W_dict s1 /\ W_forest s1 /\ W_trk s1 /\
               (forall m, is_node s1 m <-> is_node st m) /\ (forall x y, edge s1 x y <-> edge st x y /\ y <> n) /\
               forall m, trk s4 m = trk s1 m)).
  { intros s4 T4. split.
    - intros Hnd m. now rewrite T4, Trk3, (Trk1a Hnd).
    - intros q Hq Dq. exists s1. split; [exact Hd1|]. split; [exact Hf1|]. split; [exact (Trk1b Ht q Hq Dq)|].
      split; [intros m; apply (gstep_is_node _ _ _ G1)|]. split; [exact E1|]. intros m. now rewrite T4, Trk3. }
  assert (Hroots : forall o, In o (successors st n) -> is_node s3 o /\ forall q, ~ edge s3 q o).
  { intros o Ho. apply edge_successors in Ho. split; [apply (gstep_is_node _ _ _ G3); apply (wd_edge_nodes _ Hd n o Ho)|].
    intros q Hq. apply E3 in Hq. destruct Hq as (Hq & Hqn & _). apply Hqn. exact (wf_in _ Hf q n o Hq Ho). }
  (* no bridge: the listed orphans are relabelled in s3 *)
  assert (Hnobridge : (forall pp cc, ~ (p' = Some pp /\ c' = Some cc)) ->
     let os := (if match predecessors st n with [] => false | _ :: _ => true end then successors st n else tl (successors st n)) in
     exists acts s4 os0, udn_orphans os s3 acts2 = Ok acts s4 /\ LB s4 /\ gstep st s4 /\
    (forall x y, edge s4 x y <-> (edge st x y /\ x <> n /\ y <> n) \/ udn_bridge st n x y) /\
    ((forall q, edge st q n -> ~ divides st q) -> forall m, trk s4 m = trk st m) /\
    (forall q, edge st q n -> divides st q -> exists s1, W_dict s1 /\ W_forest s1 /\ W_trk s1 /\
        (forall m, is_node s1 m <-> is_node st m) /\ (forall x y, edge s1 x y <-> edge st x y /\ y <> n) /\
        forall m, trk s4 m = trk s1 m) /\
    max_lin (bk st) <= max_lin (bk s4) /\
    (forall o, In o os0 -> edge st n o) /\
    (forall a, edge st n a -> (forall p, ~ udn_bridge st n p a) ->
        In a os0 \/ ((forall q, ~ edge st q n) /\ exists r, successors st n = a :: r)) /\
    (forall m, (forall o, In o os0 -> ~ reach s4 o m) -> lin s4 m = lin st m) /\
    (forall o m, In o os0 -> reach s4 o m -> exists l, lin s4 m = Some l /\ max_lin (bk st) < l) /\
    (forall o o' m m', In o os0 -> In o' os0 -> reach s4 o m -> reach s4 o' m' -> lin s4 m = lin s4 m' -> o = o')).
  { intros Hno os.
    assert (Hos : forall o, In o os -> In o (successors st n)).
    { intros o. unfold os. destruct (predecessors st n); [destruct (successors st n); [tauto|now right]|tauto]. }
    assert (Hosnd : NoDup os) by (unfold os; destruct (predecessors st n); [now apply NoDup_tl|exact Hcsnd]).
    destruct (udn_orphans_rich os s3 acts2 LB3 Hosnd) as (acts & s4 & H4 & L4 & G4 & E4 & T4 & M4 & Lf4 & Ln4 & Ld4).
    { intros o Ho. apply Hroots. now apply Hos. }
    assert (R4 : forall a b, reach s4 a b <-> reach s3 a b) by (apply EditLin.reach_ext; exact E4).
    exists acts, s4, os. split; [exact H4|]. split; [exact L4|]. split; [eapply gstep_trans; eauto|].
    split.
    { intros x y. rewrite E4, E3. split; [now left|]. intros [A|(X1 & X2 & X3)]; [exact A|].
      exfalso. apply (Hno x y). split; [apply HP; now split|now apply HC]. }
    destruct (Htrk s4 T4) as [Ta Tb]. split; [exact Ta|]. split; [exact Tb|]. split; [lia|].
    split; [intros o Ho; apply edge_successors; now apply Hos|]. split.
    { intros a Ha _. apply edge_successors in Ha. unfold os. destruct (preds_cases st n Hd Hf) as [[Ep Hnop]|(p & Ep & _)]; rewrite Ep.
      - destruct (successors st n) as [|a0 r]; [destruct Ha|]. destruct Ha as [<-|Ha]; [right; split; [exact Hnop|now exists r]|now left].
      - now left. }
    split; [intros m Hm; rewrite Lf4; [apply Lin3|]; intros o Ho Ro; apply (Hm o Ho); now apply R4|].
    split.
    { intros o m Ho Ro. apply R4 in Ro. destruct (Ln4 o m Ho Ro) as (l & El & Hl). exists l. split; [exact El|lia]. }
    intros o o' m m' Ho Ho' Ro Ro'. apply R4 in Ro. apply R4 in Ro'. now apply Ld4. }
  destruct p' as [pp|]; destruct c' as [cc|];
    try (cbn [bind]; apply Hnobridge; intros pp0 cc0 [X Y]; discriminate).
  (* both neighbours exist: the bridge, and no orphan to relabel *)
  clear Hnobridge.
  destruct (proj1 (HP pp) eq_refl) as [Hpn Hnd]. pose proof (proj1 (HC cc) eq_refl) as Hsn.
  assert (Hnc : edge st n cc) by (apply edge_successors; rewrite Hsn; now left).
  assert (Hppn : pp <> n) by (intros ->; exact (edge_irrefl st n Hf Hpn)).
  assert (Hccn : cc <> n) by (intros ->; exact (edge_irrefl st n Hf Hnc)).
  assert (Npp : is_node s3 pp) by (apply (gstep_is_node _ _ _ G3); apply (wd_edge_nodes _ Hd pp n Hpn)).
  assert (Ncc : is_node s3 cc) by (apply (gstep_is_node _ _ _ G3); apply (wd_edge_nodes _ Hd n cc Hnc)).
  destruct (do_add_edge_spec s3 pp cc [] Npp Ncc) as (b & s3' & H3 & _). rewrite H3. cbn [bind].
  destruct (do_add_edge_WS s3 pp cc [] b s3' Hd3 Hf3 H3) as (Hd3' & Hf3' & E3' & N3' & A3' & R3').
  { rewrite !(gstep_time _ _ _ G3). pose proof (wf_time _ Hf _ _ Hpn). pose proof (wf_time _ Hf _ _ Hnc). lia. }
  { intros q Hq. apply E3 in Hq. destruct Hq as (Hq & Hqn & _). exfalso. apply Hqn. exact (wf_in _ Hf q n cc Hq Hnc). }
  { right. rewrite (S3 pp Hppn), (not_divides_single st pp n Hpn Hnd). cbn. rewrite Z.eqb_refl. cbn. lia. }
  rewrite Hsn. cbn [filter]. rewrite Z.eqb_refl. cbn [negb].
  assert (Enil : (if match predecessors st n with [] => false | _ :: _ => true end then @nil Z else tl []) = []) by (destruct (predecessors st n); reflexivity).
  rewrite Enil. cbn [udn_orphans].
  destruct (LB_frame s3 s3') as (C3' & Wb3' & Lin3' & Trk3' & M3'); [intros m; unfold is_node; now rewrite N3'|exact A3'|apply R3'|apply R3'|exact C3|exact Wb3|].
  assert (E4 : forall x y, edge s3' x y <-> (edge st x y /\ x <> n /\ y <> n) \/ udn_bridge st n x y).
  { intros x y. rewrite E3', E3. unfold udn_bridge. split.
    - intros [A|[-> ->]]; [now left|right]. split; [exact Hpn|split; [exact Hnd|exact Hsn]].
    - intros [A|(X1 & X2 & X3)]; [now left|right]. split; [|congruence]. exact (wf_in _ Hf x pp n X1 Hpn). }
  assert (L13' : forall a c, edge s3' a c -> lin s3' a = lin s3' c).
  { intros a c Hac. apply E4 in Hac. rewrite !Lin3', !Lin3. destruct Hac as [(A & _)|(X1 & _ & X3)]; [now apply L1|].
    rewrite (L1 a n X1). apply L1. apply edge_successors. rewrite X3. now left. }
  eexists _, s3', []. split; [reflexivity|]. split; [exact (Build_LB s3' C3' Hd3' Hf3' L13' Wb3')|].
  split; [eapply gstep_trans; [exact G3|now apply rest_eq_gstep]|]. split; [exact E4|].
  destruct (Htrk s3' Trk3') as [Ta Tb]. split; [exact Ta|]. split; [exact Tb|]. split; [lia|].
  split; [intros o []|]. split.
  { intros a Ha Hnb. exfalso. apply (Hnb pp). apply edge_successors in Ha. rewrite Hsn in Ha. destruct Ha as [<-|[]].
    split; [exact Hpn|split; [exact Hnd|exact Hsn]]. }
  split; [intros m _; now rewrite Lin3', Lin3|]. split; [intros o m []|intros o o' m m' []].
Qed.

Lemma lin_bounded st : W_book st -> forall m l, is_node st m -> lin st m = Some l -> l <= max_lin (bk st).
Proof. intros [_ (_ & _ & H)] m l Nm El. now destruct (H m l Nm El). Qed.

(* ---- the ids and the lookups after the whole action ---- *)
Theorem udn_core_ids st n pxo a st' : LB st -> W_trk st ->
  user_delete_node_core st n pxo = Ok a st' ->
  LB st' /\ W_trk st' /\ (W_lin st -> W_lin st').
Proof.
  intros L Ht H. pose proof L as [C Hd Hf L1 Wb].
  destruct (udn_core_ok_inv st n pxo a st' Hd Hf Ht Wb H) as (Nn & Hpx & Hd' & Hf' & N' & E' & _).
  destruct (udn_prefix_rich st n L Ht Nn) as (acts & s4 & os & H4 & L4 & G4 & E4 & Ta & Tb & Mx & Hos1 & Hos2 & Lf & Ln & Ld).
  pose proof L4 as [C4 Hd4 Hf4 L14 Wb4].
  destruct (udn_core_ok_unfold st n pxo a st' H) as (_ & _ & acts' & s4' & b & H4' & H5). rewrite H4 in H4'. injection H4' as <- <-.
  destruct (do_del_node_WS s4 n pxo b st' Hd4 Hf4 H5) as (_ & _ & N5 & E5 & _ & A5 & _ & _ & _ & _ & Hh5 & _).
  assert (Lin5 : forall m, m <> n -> lin st' m = lin s4 m) by (intros m Hm; unfold lin, zattr; now rewrite A5).
  assert (Trk5 : forall m, m <> n -> trk st' m = trk s4 m) by (intros m Hm; unfold trk, zattr; now rewrite A5).
  assert (C' : cfg_ok st') by (apply (EditLin.cfg_ok_ft s4 st'); [apply Hh5|exact C4]).
  assert (Wb' : W_book st') by (exact (EditBook.del_node_W_book s4 n pxo b st' C4 Hd4 H5 Wb4)).
  assert (L1' : forall x y, edge st' x y -> lin st' x = lin st' y).
  { intros x y Hxy. apply E5 in Hxy. destruct Hxy as (Hxy & Hx & Hy). rewrite (Lin5 x Hx), (Lin5 y Hy). now apply L14. }
  split; [exact (Build_LB st' C' Hd' Hf' L1' Wb')|]. split.
  - (* W_trk *)
    assert (Hcase : (forall q, edge st q n -> ~ divides st q) \/ (exists q, edge st q n /\ divides st q)).
    { destruct (preds_cases st n Hd Hf) as [[_ Hno]|(p & _ & Hp & Hall)].
      - left. intros q Hq. exfalso. exact (Hno q Hq).
      - destruct (le_lt_dec 2 (length (successors st p))) as [D|D].
        + right. exists p. now split.
        + left. intros q Hq. rewrite (Hall q Hq). unfold divides. lia. }
    destruct Hcase as [Hpar|(q & Hq & Dq)].
    + apply (W_trk_del_node st st' n Hd Hf Ht Hd' N' E'); [|exact Hpar]. intros m Hm. now rewrite (Trk5 m Hm), (Ta Hpar).
    + destruct (Tb q Hq Dq) as (s1 & Hd1 & Hf1 & Wt1 & N1 & E1 & T1).
      apply (W_trk_del_node s1 st' n Hd1 Hf1 Wt1 Hd').
      * intros x. rewrite N', N1. tauto.
      * intros x y. rewrite E', E1. split.
        -- intros [(A & X & Y)|(B1 & B2 & _)]; [left; tauto|]. exfalso. apply B2. now rewrite (wf_in _ Hf x q n B1 Hq).
        -- intros [((A & _) & X & Y)|(B1 & _)]; [left; tauto|]. exfalso. apply E1 in B1. now apply (proj2 B1).
      * intros m Hm. now rewrite (Trk5 m Hm), T1.
      * intros p Hp. exfalso. apply E1 in Hp. now apply (proj2 Hp).
  - (* W_lin *)
    intros Wl. constructor; [exact L1'|].
    assert (Hcls : forall x, root st' x -> x <> n /\ is_node st x /\
              ((root st x /\ lin s4 x = lin st x) \/
               (In x os /\ exists l, lin s4 x = Some l /\ max_lin (bk st) < l) \/
               (root st n /\ (exists r, successors st n = x :: r) /\ lin s4 x = lin st n))).
    { intros x [Nx Rx]. apply N' in Nx. destruct Nx as [Nx Hxn]. split; [exact Hxn|]. split; [exact Nx|].
      assert (Rx4 : forall p, ~ edge s4 p x).
      { intros p Hp. apply (Rx p). apply E'. now apply E4. }
      destruct (parent_dec st x Hd) as [[q Hq]|Hnone].
      - assert (q = n) as ->.
        { destruct (Z.eq_dec q n) as [E|Hqn]; [exact E|]. exfalso. apply (Rx q). apply E'. left. auto. }
        assert (Hnb : forall p, ~ udn_bridge st n p x) by (intros p B; apply (Rx p); apply E'; now right).
        destruct (in_dec Z.eq_dec x os) as [Hi|Hi].
        + right. left. split; [exact Hi|]. apply (Ln x x Hi). apply rt_refl.
        + destruct (Hos2 x Hq Hnb) as [Hi'|[Hnop Hr]]; [contradiction|]. right. right.
          split; [split; [exact Nn|exact Hnop]|]. split; [exact Hr|].
          rewrite Lf; [symmetry; now apply L1|]. intros o Ho Ro. apply Hi. now rewrite <- (reach_to_root s4 x o Rx4 Ro).
      - left. split; [split; [exact Nx|exact Hnone]|]. apply Lf. intros o Ho Ro.
        rewrite (reach_to_root s4 x o Rx4 Ro) in Ho. exact (Hnone n (Hos1 x Ho)). }
    assert (Hfresh : forall x l, is_node st x -> lin st x = Some l -> max_lin (bk st) < l -> False).
    { intros x l Nx El Hl. pose proof (lin_bounded st Wb x l Nx El). lia. }
    intros x y Hx Hy Exy. destruct (Hcls x Hx) as (Hxn & Nx & Kx). destruct (Hcls y Hy) as (Hyn & Ny & Ky).
    rewrite (Lin5 x Hxn), (Lin5 y Hyn) in Exy.
    destruct Kx as [[Rx Ex]|[[Ix (lx & Ex & Hlx)]|(Rn & [rx Sx] & Ex)]];
    destruct Ky as [[Ry Ey]|[[Iy (ly & Ey & Hly)]|(Rn' & [ry Sy] & Ey)]].
    + apply (wl2 _ Wl x y Rx Ry). congruence.
    + exfalso. apply (Hfresh x ly Nx); [congruence|exact Hly].
    + exfalso. apply Hxn. apply (wl2 _ Wl x n Rx Rn'). congruence.
    + exfalso. apply (Hfresh y lx Ny); [congruence|exact Hlx].
    + apply (Ld x y x y Ix Iy); [apply rt_refl|apply rt_refl|exact Exy].
    + exfalso. apply (Hfresh n lx Nn); [congruence|exact Hlx].
    + exfalso. apply Hyn. apply (wl2 _ Wl y n Ry Rn). congruence.
    + exfalso. apply (Hfresh n ly Nn); [congruence|exact Hly].
    + congruence.
Qed.

(* ---- corollaries, one invariant at a time ---- *)
(* C06: the lookups stay the group-by of the id attributes *)
Corollary udn_core_keeps_book st n pxo a st' :
  cfg_ok st -> W_dict st -> W_forest st -> W_trk st -> (forall u v, edge st u v -> lin st u = lin st v) -> W_book st ->
  user_delete_node_core st n pxo = Ok a st' -> cfg_ok st' /\ W_book st'.
Proof.
  intros C Hd Hf Ht L1 Wb H. destruct (udn_core_ids st n pxo a st' (Build_LB st C Hd Hf L1 Wb) Ht H) as ([C' _ _ _ Wb'] & _). now split.
Qed.
(* C04: every track id still labels one segment *)
Corollary udn_core_keeps_trk st n pxo a st' :
  cfg_ok st -> W_dict st -> W_forest st -> W_trk st -> (forall u v, edge st u v -> lin st u = lin st v) -> W_book st ->
  user_delete_node_core st n pxo = Ok a st' -> W_trk st'.
Proof. intros C Hd Hf Ht L1 Wb H. apply (udn_core_ids st n pxo a st' (Build_LB st C Hd Hf L1 Wb) Ht H). Qed.
(* C05: every lineage id still labels one tree *)
Corollary udn_core_keeps_lin st n pxo a st' :
  cfg_ok st -> W_dict st -> W_forest st -> W_trk st -> W_lin st -> W_book st ->
  user_delete_node_core st n pxo = Ok a st' -> W_lin st'.
Proof.
  intros C Hd Hf Ht Wl Wb H.
  now apply (udn_core_ids st n pxo a st' (Build_LB st C Hd Hf (wl1 _ Wl) Wb) Ht H).
Qed.

(* the graph-level part of WF (everything but the segmentation conjuncts) as one bundle *)
Record GWF (st : state) : Prop := {
  gw_cfg : cfg_ok st; gw_dict : W_dict st; gw_forest : W_forest st; gw_trk : W_trk st; gw_lin : W_lin st; gw_book : W_book st
}.
Lemma WF_GWF st : WF st -> GWF st.
Proof. intros [A B C D E F _ _]. now constructor. Qed.

Theorem udn_core_GWF st n pxo a st' : GWF st -> user_delete_node_core st n pxo = Ok a st' -> GWF st'.
Proof.
  intros [C Hd Hf Ht Wl Wb] H.
  destruct (udn_core_ids st n pxo a st' (Build_LB st C Hd Hf (wl1 _ Wl) Wb) Ht H) as ([C' Hd' Hf' _ Wb'] & Ht' & Wl').
  constructor; auto.
Qed.

Lemma GWF_same s s' : g s' = g s -> ft s' = ft s -> bk s' = bk s -> GWF s -> GWF s'.
Proof.
  intros Eg Ef Eb [C Hd Hf Ht Wl Wb].
  destruct (EditLin.LWF_same s s' Eg Ef Eb (EditLin.Build_LWF s C Hd Hf Wl Wb)) as [C' Hd' Hf' Wl' Wb'].
  constructor; auto. now apply (W_trk_same_g s).
Qed.

(* the public entry point keeps the graph-level invariant *)
Theorem udn_GWF st n pxo top a st' : GWF st -> user_delete_node st n pxo top = Ok a st' -> GWF st'.
Proof.
  intros W H. destruct (udn_top_inv st n pxo top a st' H) as (s & Hc & ->).
  pose proof (udn_core_GWF st n pxo a s W Hc) as W'. destruct top; [|exact W'].
  destruct (finish_top_fields s a None) as (Eg & _ & Ef & Eb & _). now apply (GWF_same s).
Qed.

(* on a well-formed state the action is accepted on every node (pixels computed from the array) *)
Theorem udn_WF_accepted st n top : WF st -> is_node st n -> exists a st', user_delete_node st n None top = Ok a st' /\ GWF st'.
Proof.
  intros W Nn. pose proof (WF_GWF st W) as G. destruct G as [C Hd Hf Ht Wl Wb].
  destruct (udn_accepted_wseg st n top Hd Hf Ht Wb (w_seg _ W) Nn) as (a & st' & H).
  exists a, st'. split; [exact H|]. exact (udn_GWF st n None top a st' (WF_GWF st W) H).
Qed.

(* ---- which ids change ---- *)
(* a path of the state before DeleteNode that starts at a child of n stays in the old edges *)
Lemma reach_below_child st s4 n o m : W_forest st ->
  (forall x y, edge s4 x y <-> (edge st x y /\ x <> n /\ y <> n) \/ udn_bridge st n x y) ->
  edge st n o -> reach s4 o m -> reach st o m.
Proof.
  intros Hf E4 Ho R. apply clos_rt_rtn1 in R. induction R as [|y z Hyz _ IH]; [apply rt_refl|].
  eapply rt_trans; [exact IH|]. apply rt_step. apply E4 in Hyz. destruct Hyz as [(A & _)|(B1 & _)]; [exact A|]. exfalso.
  pose proof (wf_time _ Hf _ _ Ho). pose proof (wf_time _ Hf _ _ B1).
  destruct (EditLin.reach_time st Hf o y IH) as [->|L]; lia.
Qed.

Theorem udn_core_id_frame st n pxo a st' : GWF st -> user_delete_node_core st n pxo = Ok a st' ->
  (* lineage ids change below n only *)
  (forall m, m <> n -> ~ reach st n m -> lin st' m = lin st m) /\
  (* track ids change only when the parent of n divides (the sibling joins the parent's track) *)
  ((forall q, edge st q n -> ~ divides st q) -> forall m, m <> n -> trk st' m = trk st m).
Proof.
  intros [C Hd Hf Ht Wl Wb] H. pose (L := Build_LB st C Hd Hf (wl1 _ Wl) Wb).
  destruct (udn_core_ok_inv st n pxo a st' Hd Hf Ht Wb H) as (Nn & _).
  destruct (udn_prefix_rich st n L Ht Nn) as (acts & s4 & os & H4 & L4 & G4 & E4 & Ta & _ & _ & Hos1 & _ & Lf & _).
  pose proof L4 as [_ Hd4 Hf4 _ _].
  destruct (udn_core_ok_unfold st n pxo a st' H) as (_ & _ & acts' & s4' & b & H4' & H5). rewrite H4 in H4'. injection H4' as <- <-.
  destruct (do_del_node_WS s4 n pxo b st' Hd4 Hf4 H5) as (_ & _ & _ & _ & _ & A5 & _).
  split.
  - intros m Hm Hr. unfold lin at 1, zattr. rewrite (A5 m KLin Hm). fold (zattr s4 m KLin). fold (lin s4 m).
    apply Lf. intros o Ho Ro. apply Hr. eapply rt_trans; [apply rt_step; exact (Hos1 o Ho)|].
    exact (reach_below_child st s4 n o m Hf E4 (Hos1 o Ho) Ro).
  - intros Hpar m Hm. unfold trk at 1, zattr. rewrite (A5 m KTrack Hm). fold (zattr s4 m KTrack). fold (trk s4 m). now apply Ta.
Qed.

(* ---- the public entry point: which ids change, and the history ---- *)
Theorem udn_id_frame st n pxo top a st' : GWF st -> user_delete_node st n pxo top = Ok a st' ->
  (forall m, m <> n -> ~ reach st n m -> lin st' m = lin st m) /\
  ((forall q, edge st q n -> ~ divides st q) -> forall m, m <> n -> trk st' m = trk st m).
Proof.
  intros W H. destruct (udn_top_inv st n pxo top a st' H) as (s & Hc & ->).
  destruct (udn_core_id_frame st n pxo a s W Hc) as [Fl Ft].
  assert (Eg : g (if top then finish_top s a None else s) = g s) by (destruct top; [apply finish_top_fields|reflexivity]).
  split.
  - intros m Hm Hr. rewrite (EditLin.lin_same_g s _ m Eg). now apply Fl.
  - intros Hpar m Hm. rewrite (same_g_trk s _ Eg). now apply Ft.
Qed.

(* at top level an accepted deletion is recorded (dropping the redo tail) and the refresh signal fires once, without payload *)
Theorem udn_top_history st n pxo a st' : W_dict st -> W_forest st -> W_trk st -> W_book st ->
  user_delete_node st n pxo true = Ok a st' ->
  rlog st' = rlog st ++ [None] /\ redo_stack st' = [] /\
  undo_stack st' = match redo_stack st with [] => undo_stack st ++ [a] | _ :: _ => (undo_stack st ++ redo_stack st) ++ [a] end.
Proof.
  intros Hd Hf Ht Wb H. destruct (udn_top_inv st n pxo true a st' H) as (s & Hc & ->).
  destruct (udn_core_ok_inv st n pxo a s Hd Hf Ht Wb Hc) as (_ & _ & _ & _ & _ & _ & _ & _ & _ & (_ & Eu & Er & El & _)).
  unfold finish_top, emit, hist_add. rewrite Er, Eu. destruct (redo_stack st); cbn; rewrite El; auto.
Qed.
(* a nested call (top = false) touches neither the history nor the signal log *)
Theorem udn_nested_history st n pxo a st' : W_dict st -> W_forest st -> W_trk st -> W_book st ->
  user_delete_node st n pxo false = Ok a st' ->
  rlog st' = rlog st /\ redo_stack st' = redo_stack st /\ undo_stack st' = undo_stack st.
Proof.
  intros Hd Hf Ht Wb H. destruct (udn_top_inv st n pxo false a st' H) as (s & Hc & ->).
  destruct (udn_core_ok_inv st n pxo a s Hd Hf Ht Wb Hc) as (_ & _ & _ & _ & _ & _ & _ & _ & _ & (_ & Eu & Er & El & _)). auto.
Qed.
