(* Corollaries of the UserDeleteEdge / UserAddEdge specifications in the form the properties
   C03 and C11 state them, lifted to the top-level calls of the interpreter. *)
From Coq Require Import ZArith List Bool Lia.
From FT Require Import Base.Dict Model.Edit Model.EditExec Proofs.DictLemmas Proofs.EditInv Proofs.EditGraph Proofs.EditWalk
  Proofs.EditBasic Proofs.EditUserEdge.
Import ListNotations.
Open Scope Z_scope.

(* finish_top only touches the history and the refresh log *)
Lemma finish_top_graph s a p : g (finish_top s a p) = g s /\ seg (finish_top s a p) = seg s /\ ft (finish_top s a p) = ft s /\ bk (finish_top s a p) = bk s.
Proof. unfold finish_top, emit, hist_add. destruct (redo_stack s); cbn; auto. Qed.

Lemma W_dict_same_g s s' : g s' = g s -> W_dict s -> W_dict s'.
Proof.
  intros E Hd. assert (forall n, is_node s' n <-> is_node s n) as Hn by (intros n; unfold is_node, node_ids; now rewrite E).
  assert (forall n k, attr s' n k = attr s n k) as Ha by (intros n k; unfold attr, node_attrs; now rewrite E).
  constructor.
  - unfold node_ids. rewrite E. apply (wd_nodup _ Hd).
  - rewrite E. apply (wd_succ_nodup _ Hd).
  - intros n. rewrite Hn, E. apply (wd_succ_keys _ Hd).
  - intros u. unfold successors, adj. rewrite E. apply (wd_adj_nodup _ Hd).
  - intros u v H. rewrite !Hn. apply (wd_edge_nodes _ Hd). unfold edge, has_edge, adj in *. now rewrite E in H.
  - intros n H. rewrite Ha. apply (wd_time _ Hd). now apply Hn.
  - intros n H. rewrite Ha. apply (wd_track _ Hd). now apply Hn.
  - intros n H. rewrite Ha. apply (wd_lin _ Hd). now apply Hn.
  - intros n. unfold node_attrs. rewrite E. apply (wd_attr_nodup _ Hd).
Qed.

Lemma W_forest_same_g s s' : g s' = g s -> W_forest s -> W_forest s'.
Proof.
  intros E Hf.
  assert (forall u v, edge s' u v <-> edge s u v) as He by (intros u v; unfold edge, has_edge, adj; now rewrite E).
  assert (forall n, time_of s' n = time_of s n) as Ht by (intros n; unfold time_of, zattr, attr, node_attrs; now rewrite E).
  constructor.
  - intros u u' v H1 H2. apply (wf_in _ Hf u u' v); now apply He.
  - intros u. unfold successors, adj. rewrite E. apply (wf_out _ Hf).
  - intros u v H. rewrite !Ht. apply (wf_time _ Hf). now apply He.
Qed.

Lemma edge_same_g s s' u v : g s' = g s -> (edge s' u v <-> edge s u v).
Proof. intros E. unfold edge, has_edge, adj. now rewrite E. Qed.

(* ------------------------------------------------------------------ C03: accepted edge edits keep the forest *)
Theorem delete_edge_keeps_forest st u v top a st' : W_dict st -> W_forest st ->
  user_delete_edge st u v top = Ok a st' ->
  W_dict st' /\ W_forest st' /\ (forall x y, edge st' x y <-> edge st x y /\ ~ (x = u /\ y = v)).
Proof.
  intros Hd Hf H. unfold user_delete_edge, top_wrap in H.
  destruct (user_delete_edge_core st u v) as [a0 s0|e s0] eqn:E; [|discriminate].
  destruct (has_edge st u v) eqn:Eh.
  - destruct (ude_core_spec st u v Hd Hf) as [_ Hy]. destruct (Hy Eh) as (a1 & s1 & H1 & Hd1 & Hf1 & _ & He1 & _).
    rewrite E in H1. injection H1 as <- <-. injection H as <- <-.
    destruct top.
    + destruct (finish_top_graph s0 a0 None) as (G & _). split; [now apply (W_dict_same_g s0)|]. split; [now apply (W_forest_same_g s0)|].
      intros x y. rewrite (edge_same_g s0 _ x y G). apply He1.
    + auto.
  - destruct (ude_core_spec st u v Hd Hf) as [Hn _]. rewrite Hn in E; [discriminate|]. unfold edge. congruence.
Qed.

Theorem add_edge_keeps_forest st u v force top a st' : W_dict st -> W_forest st ->
  user_add_edge st u v force top = Ok a st' ->
  W_dict st' /\ W_forest st' /\
  (* exactly the new edge is added; the only edges removed are other in-edges of the target,
     and only when forcing *)
  (forall x y, edge st' x y <-> (edge st x y /\ y <> v) \/ (x = u /\ y = v)) /\
  (force = false -> forall x y, edge st x y -> edge st' x y).
Proof.
  intros Hd Hf H. unfold user_add_edge, top_wrap in H.
  destruct (user_add_edge_core st u v force) as [a0 s0|e s0] eqn:E; [|discriminate]. injection H as <- <-.
  pose proof (uae_core_spec st u v force Hd Hf) as S.
  destruct (uae_refused st u v force) as [e|] eqn:R; [rewrite E in S; discriminate|].
  destruct S as (a1 & s1 & H1 & Hd1 & Hf1 & _ & He1). rewrite E in H1. injection H1 as <- <-.
  assert (Hfr : force = false -> forall x y, edge st x y -> edge s0 x y).
  { intros -> x y Hxy. apply He1. destruct (Z.eq_dec y v) as [->|Hy]; [|left; auto].
    (* without force a target with a parent is refused *)
    exfalso. unfold uae_refused in R.
    destruct (has_node st u); cbn [negb] in R; [|discriminate]. destruct (has_node st v); cbn [negb] in R; [|discriminate].
    destruct (time_of st u >=? time_of st v); [discriminate|]. destruct (_ >? 1); [discriminate|].
    destruct (in_degree st v >? 0) eqn:Ei; [cbn in R; discriminate|].
    assert (in_degree st v >? 0 = true); [|congruence]. apply in_degree_pos. exists x. apply in_predecessors.
    split; [apply (wd_edge_nodes _ Hd x v Hxy)|exact Hxy]. }
  destruct top.
  - destruct (finish_top_graph s0 a0 None) as (G & _). split; [now apply (W_dict_same_g s0)|]. split; [now apply (W_forest_same_g s0)|]. split.
    + intros x y. rewrite (edge_same_g s0 _ x y G). apply He1.
    + intros Hfo x y Hxy. apply (edge_same_g s0 _ x y G). now apply Hfr.
  - auto.
Qed.

(* ------------------------------------------------------------------ C03 / C11: refusals *)
Theorem add_edge_refusals st u v force top : W_dict st -> W_forest st ->
  (* unknown endpoint, non-forward edge, third child: InvalidActionError, not forceable *)
  ((has_node st u = false \/ has_node st v = false) -> user_add_edge st u v force top = Err (EInvalid false) st) /\
  (has_node st u = true -> has_node st v = true -> time_of st v <= time_of st u ->
     user_add_edge st u v force top = Err (EInvalid false) st) /\
  (has_node st u = true -> has_node st v = true -> time_of st u < time_of st v ->
     out_degree st u - (if has_edge st u v then 1 else 0) > 1 ->
     user_add_edge st u v force top = Err (EInvalid false) st) /\
  (* merge without force: InvalidActionError, forceable *)
  (has_node st u = true -> has_node st v = true -> time_of st u < time_of st v ->
     out_degree st u - (if has_edge st u v then 1 else 0) <= 1 -> in_degree st v > 0 -> force = false ->
     user_add_edge st u v force top = Err (EInvalid true) st).
Proof.
  intros Hd Hf. pose proof (uae_core_spec st u v force Hd Hf) as S. unfold uae_refused in S.
  unfold user_add_edge, top_wrap. repeat split.
  - intros [H|H].
    + rewrite H in S. cbn in S. now rewrite S.
    + destruct (has_node st u); cbn [negb] in S; [rewrite H in S; cbn in S|]; now rewrite S.
  - intros Hu Hv Ht. rewrite Hu, Hv in S. cbn [negb] in S.
    assert (time_of st u >=? time_of st v = true) as E by (rewrite Z.geb_leb; apply Z.leb_le; lia). rewrite E in S. now rewrite S.
  - intros Hu Hv Ht Ho. rewrite Hu, Hv in S. cbn [negb] in S.
    assert (time_of st u >=? time_of st v = false) as E by (rewrite Z.geb_leb; apply Z.leb_gt; lia). rewrite E in S.
    assert (out_degree st u - (if has_edge st u v then 1 else 0) >? 1 = true) as E2 by (apply Z.gtb_lt; lia). rewrite E2 in S. now rewrite S.
  - intros Hu Hv Ht Ho Hi ->. rewrite Hu, Hv in S. cbn [negb] in S.
    assert (time_of st u >=? time_of st v = false) as E by (rewrite Z.geb_leb; apply Z.leb_gt; lia). rewrite E in S.
    assert (out_degree st u - (if has_edge st u v then 1 else 0) >? 1 = false) as E2 by (rewrite Z.gtb_ltb; apply Z.ltb_ge; lia). rewrite E2 in S.
    assert (in_degree st v >? 0 = true) as E3 by (apply Z.gtb_lt; lia). rewrite E3 in S. cbn in S. now rewrite S.
Qed.

(* C11 for the two edge actions: a refused call returns the state it was given *)
Theorem delete_edge_refused_unchanged st u v top e st' : W_dict st -> W_forest st ->
  user_delete_edge st u v top = Err e st' -> st' = st /\ e = EInvalid false.
Proof.
  intros Hd Hf H. unfold user_delete_edge, top_wrap in H.
  destruct (user_delete_edge_core st u v) as [a0 s0|e0 s0] eqn:E; [discriminate|]. injection H as <- <-.
  destruct (ude_core_refusal_unchanged st u v e0 s0 Hd Hf E) as (H1 & H2 & _). auto.
Qed.

Theorem add_edge_refused_unchanged st u v force top e st' : W_dict st -> W_forest st ->
  user_add_edge st u v force top = Err e st' -> st' = st.
Proof.
  intros Hd Hf H. unfold user_add_edge, top_wrap in H.
  destruct (user_add_edge_core st u v force) as [a0 s0|e0 s0] eqn:E; [discriminate|]. injection H as <- <-.
  pose proof (uae_core_spec st u v force Hd Hf) as S.
  destruct (uae_refused st u v force) as [e1|].
  - rewrite E in S. now injection S as _ ->.
  - destruct S as (a1 & s1 & H1 & _). congruence.
Qed.

(* ------------------------------------------------------------------ UserUpdateNodeAttrs *)
Theorem update_attrs_refused_unchanged st n new e st' :
  user_update_attrs st n new = Err e st' -> st' = st /\ (e = EValue \/ e = EKey).
Proof.
  unfold user_update_attrs, top_wrap, user_update_attrs_core, do_upd_attrs.
  destruct (existsb _ new); cbn [bind]; [intros H; injection H as <- <-; auto|].
  destruct (lookup n (nodes (g st))); cbn [bind]; [discriminate|].
  destruct new; cbn [bind]; [discriminate|]. intros H; injection H as <- <-; auto.
Qed.

Theorem upd_track_keeps_forest st start newT newL : W_dict st -> W_forest st -> is_node st start ->
  exists b st', do_upd_track st start newT newL = Ok b st' /\ W_dict st' /\ W_forest st' /\
                (forall a c, edge st' a c <-> edge st a c).
Proof.
  intros Hd Hf Hn.
  destruct (upd_track_step st start newT newL Hd Hf Hn) as (b & st' & H & Hd' & Hf' & _ & He & _).
  exists b, st'. split; [exact H|]. split; [exact Hd'|]. split; [exact Hf'|exact He].
Qed.

Theorem step_edge_ops_refused_unchanged st o st' code aux : W_dict st -> W_forest st ->
  step st o = (st', (code, aux)) ->
  match o with
  | OAddEdge _ _ _ | ODelEdge _ _ | OUpdAttrs _ _ => code <> 0 -> st' = st
  | _ => True
  end.
Proof.
  intros Hd Hf H. destruct o; try exact I; cbn [step] in H; intros Hc.
  - destruct (user_add_edge st u v force true) as [a s|e s] eqn:E; cbn [fin] in H; injection H as <- <- _; [congruence|].
    eapply add_edge_refused_unchanged; eauto.
  - destruct (user_delete_edge st u v true) as [a s|e s] eqn:E; cbn [fin] in H; injection H as <- <- _; [congruence|].
    eapply delete_edge_refused_unchanged; eauto.
  - destruct (user_update_attrs st n a) as [x s|e s] eqn:E; cbn [fin] in H; injection H as <- <- _; [congruence|].
    eapply update_attrs_refused_unchanged; eauto.
Qed.
